#!/usr/bin/env python3
"""Derives, by computer algebra, the sequence of coefficients that a simulation-of-simplicity evaluation of
sign det(a+da, b+db, c+dc) has to test, for the perturbation order documented in s2/predicates.go
(da.Z > da.Y > da.X > db.Z > db.Y > db.X > dc.Z > dc.Y > dc.X > 0, each infinitely smaller than every product of the
earlier ones: eps^(2^k) weights), and compares it with the sequence extracted from the source by s2lint.

Input (argv[1]): JSON list of canonical polynomial strings extracted from symbolicallyPerturbedSign, in the order
tested, with the b x c components written as bc.X etc. Output: JSON {"ok": bool, "derived": [...], "diff": "..."}.

The determinant is multilinear in the three points, so a term contains at most one perturbation per point. Terms are
visited in order of decreasing magnitude (increasing sum of weights); the coefficient of a term is the corresponding
mixed partial derivative of det. A term is skipped when its coefficient is forced to zero by the earlier tests, i.e.
when it reduces to 0 modulo a Groebner basis of the coefficients already found to be zero (plus det itself). The
sequence ends at the first coefficient that is a non-zero constant."""
import itertools, json, sys
import sympy as sp

ax, ay, az, bx, by, bz, cx, cy, cz = sp.symbols('a.X a.Y a.Z b.X b.Y b.Z c.X c.Y c.Z')
A, B, C = [ax, ay, az], [bx, by, bz], [cx, cy, cz]
det = sp.Matrix([A, B, C]).det()
# weights: da.Z=2^0, da.Y=2^1, da.X=2^2, db.Z=2^3, ..., dc.X=2^8
weight = {}
k = 0
for P in (A, B, C):
    for idx in (2, 1, 0):
        weight[P[idx]] = 2 ** k
        k += 1
terms = []
for choice in itertools.product([None, 0, 1, 2], repeat=3):
    vars_ = [P[i] for P, i in zip((A, B, C), choice) if i is not None]
    if not vars_:
        continue
    terms.append((sum(weight[v] for v in vars_), vars_))
terms.sort(key=lambda t: t[0])
known_zero = [det]
derived = []
gens = A + B + C
for w, vars_ in terms:
    coef = det
    for v in vars_:
        coef = sp.diff(coef, v)
    coef = sp.expand(coef)
    if coef == 0:
        continue
    G = sp.groebner(known_zero, *gens, order='lex')
    _, rem = G.reduce(coef)
    if sp.expand(rem) == 0:
        continue
    derived.append((vars_, coef))
    if coef.is_number:
        break
    known_zero.append(coef)

def canon(expr):
    """canonical string: sum of signed monomials with sorted variable names, sorted by monomial"""
    expr = sp.expand(expr)
    if expr.is_number:
        return "+1" if expr > 0 else "-1"
    out = {}
    for term in sp.Add.make_args(expr):
        c, mon = term.as_coeff_Mul()
        names = []
        for f in sp.Mul.make_args(mon):
            b, e = f.as_base_exp()
            names += [str(b)] * int(e)
        names.sort()
        out["*".join(names)] = out.get("*".join(names), 0) + int(c)
    s = ""
    for kname in sorted(out):
        v = out[kname]
        if v == 0: continue
        s += ("+" if v == 1 else "-" if v == -1 else "%+d*" % v) + kname
    return s

# the source writes the first three coefficients through the precomputed cross product bc = b x c
bc = {"bc.X": by * cz - bz * cy, "bc.Y": bz * cx - bx * cz, "bc.Z": bx * cy - by * cx}
def parse_code(s):
    if s in ("+1", "-1"):
        return sp.Integer(int(s))
    expr = sp.Integer(0)
    i = 0
    sym = {str(v): v for v in gens}
    sym.update(bc)
    while i < len(s):
        sign = 1 if s[i] == '+' else -1
        i += 1
        j = i
        while j < len(s) and s[j] not in '+-':
            j += 1
        mon = sp.Integer(1)
        for name in s[i:j].split('*'):
            mon *= sym[name]
        expr += sign * mon
        i = j
    return sp.expand(expr)

code = json.load(open(sys.argv[1]))
derived_c = [canon(c) for _, c in derived]
code_c = [canon(parse_code(s)) for s in code]
ok = derived_c == code_c
diff = ""
if not ok:
    for i in range(max(len(derived_c), len(code_c))):
        d = derived_c[i] if i < len(derived_c) else "<none>"
        c = code_c[i] if i < len(code_c) else "<none>"
        if d != c:
            diff = "term %d: the perturbation expansion gives %s (for %s) but the source tests %s" % (i + 1, d, "*".join("d" + str(v) for v in derived[i][0]) if i < len(derived) else "-", c)
            break
print(json.dumps({"ok": ok, "derived": derived_c, "derived_terms": ["*".join("d" + str(v) for v in vs) for vs, _ in derived], "code": code_c, "diff": diff}))
