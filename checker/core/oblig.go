package core

import (
	"encoding/json"
	"fmt"
	"os"
	"path/filepath"
	"sort"
	"strings"
	"time"
)

// Status of an obligation.
const (
	Discharged = "discharged"
	Violated   = "violated"
	Undecided  = "undecided" // counts as a failure
)

// Obligation is one decided instance of a rule: a construct of the library
// and the verdict of the rule on it. Key is rule + construct, never a line.
type Obligation struct {
	Key     string `json:"key"`
	Rule    string `json:"rule"`
	Site    string `json:"site"` // file:line of the construct (informational)
	Func    string `json:"func,omitempty"`
	Status  string `json:"status"`
	Detail  string `json:"detail"`
	Trivial bool   `json:"trivial,omitempty"` // nothing to check at this site
	Known   string `json:"known_finding,omitempty"`
}

// Rule is a family of obligations.
type Rule struct {
	Name string
	// Clause says which clause of which property the rule stands for and what it does not cover.
	Clause string
	// Min is the number of non-trivial instances confirmed by hand; fewer is a failure.
	Min int
	// ThoroughOnly rules run in the thorough tier only.
	ThoroughOnly bool
	Run          func(c *Ctx) []Obligation
}

var registry = map[string]*Rule{}

// Register adds a rule to the registry.
func Register(r *Rule) {
	if _, dup := registry[r.Name]; dup {
		panic("duplicate rule " + r.Name)
	}
	registry[r.Name] = r
}

// GetRule looks a rule up by name.
func GetRule(name string) *Rule { return registry[name] }

// RuleNames lists the registered rules.
func RuleNames() []string {
	var n []string
	for k := range registry {
		n = append(n, k)
	}
	sort.Strings(n)
	return n
}

// Ob is a helper to build an obligation.
func Ob(rule, construct, site, fn, status, detail string) Obligation {
	return Obligation{Key: rule + ":" + construct, Rule: rule, Site: site, Func: fn, Status: status, Detail: detail}
}

// KnownFinding is one entry of /verif/known_findings.json.
type KnownFinding struct {
	Property string `json:"property"`
	Key      string `json:"key"`  // obligation key it matches exactly
	What     string `json:"what"` // what fails, printed on the KNOWN-FINDING line
	Defect   string `json:"defect,omitempty"`
}

// FixedFinding records a repaired defect; it suppresses nothing.
type FixedFinding struct {
	Property string `json:"property"`
	Commit   string `json:"commit"`
	What     string `json:"what"`
	Defect   string `json:"defect,omitempty"`
	Line     string `json:"line"`
}

// KnownFile is the committed known-findings file.
type KnownFile struct {
	Comment string         `json:"comment"`
	Known   []KnownFinding `json:"known"`
	Fixed   []FixedFinding `json:"fixed"`
}

// LoadKnown reads the known-findings file.
func LoadKnown(path string) (*KnownFile, error) {
	b, err := os.ReadFile(path)
	if err != nil {
		return nil, err
	}
	var k KnownFile
	if err := json.Unmarshal(b, &k); err != nil {
		return nil, err
	}
	return &k, nil
}

// RuleResult is the outcome of one rule.
type RuleResult struct {
	Rule        string       `json:"rule"`
	Clause      string       `json:"clause"`
	Min         int          `json:"min_instances"`
	Obligations []Obligation `json:"-"`
	NonTrivial  int          `json:"nontrivial"`
	Total       int          `json:"total"`
	Failed      int          `json:"failed"`
	WallS       float64      `json:"wall_s"`
}

// RunRule executes a rule, converting a panic into a failing obligation.
func RunRule(c *Ctx, r *Rule) (res RuleResult) {
	t0 := time.Now()
	res.Rule, res.Clause, res.Min = r.Name, r.Clause, r.Min
	func() {
		defer func() {
			if p := recover(); p != nil {
				res.Obligations = append(res.Obligations, Ob(r.Name, "checker-panic", "-", "", Violated, fmt.Sprintf("rule panicked: %v", p)))
			}
		}()
		res.Obligations = r.Run(c)
	}()
	sort.SliceStable(res.Obligations, func(i, j int) bool { return res.Obligations[i].Key < res.Obligations[j].Key })
	// Keys must be unique: a duplicate would hide an instance behind a known finding.
	seen := map[string]int{}
	for i := range res.Obligations {
		o := &res.Obligations[i]
		seen[o.Key]++
		if n := seen[o.Key]; n > 1 {
			o.Key = fmt.Sprintf("%s#%d", o.Key, n)
		}
	}
	for _, o := range res.Obligations {
		res.Total++
		if !o.Trivial {
			res.NonTrivial++
		}
	}
	if res.NonTrivial < r.Min {
		res.Obligations = append(res.Obligations, Ob(r.Name, "instance-count", "-", "", Violated,
			fmt.Sprintf("rule matched %d non-trivial instances, fewer than the %d confirmed by hand: the rule has lost sight of its anchors", res.NonTrivial, r.Min)))
		res.Total++
	}
	res.WallS = time.Since(t0).Seconds()
	return res
}

// Evidence is the schema of /verif/evidence/<id>.json.
type Evidence struct {
	PropertyID  string                 `json:"property_id"`
	Tier        string                 `json:"tier"`
	Seed        int                    `json:"seed"`
	Level       string                 `json:"level"`
	Coverage    map[string]interface{} `json:"coverage"`
	Assumptions []string               `json:"assumptions"`
	WallS       float64                `json:"wall_s"`
	Violations  int                    `json:"violations"`
}

// WriteJSON writes v to path, creating the directory.
func WriteJSON(path string, v interface{}) error {
	if err := os.MkdirAll(filepath.Dir(path), 0o755); err != nil {
		return err
	}
	b, err := json.MarshalIndent(v, "", " ")
	if err != nil {
		return err
	}
	return os.WriteFile(path, append(b, '\n'), 0o644)
}

// ShortDetail trims a detail string for sample output.
func ShortDetail(s string) string {
	s = strings.Join(strings.Fields(s), " ")
	if len(s) > 300 {
		s = s[:297] + "..."
	}
	return s
}
