package core

import (
	"go/token"
	"go/types"
	"sort"
	"strings"

	"golang.org/x/tools/go/callgraph"
	"golang.org/x/tools/go/ssa"
)

// ReachFrom returns the set of blocks reachable from b (including b).
func ReachFrom(b *ssa.BasicBlock) map[*ssa.BasicBlock]bool {
	seen := map[*ssa.BasicBlock]bool{}
	var walk func(*ssa.BasicBlock)
	walk = func(x *ssa.BasicBlock) {
		if seen[x] {
			return
		}
		seen[x] = true
		for _, s := range x.Succs {
			walk(s)
		}
	}
	walk(b)
	return seen
}

// Edge identifies the idx'th successor edge of block From.
type Edge struct {
	From *ssa.BasicBlock
	Idx  int
}

// ReachableAvoiding reports whether target can be reached from start without
// traversing any of the given edges and without passing through any block in
// the stop set (start itself is never stopped).
func ReachableAvoiding(start, target *ssa.BasicBlock, avoid []Edge, stop map[*ssa.BasicBlock]bool) bool {
	seen := map[*ssa.BasicBlock]bool{}
	var walk func(*ssa.BasicBlock) bool
	walk = func(x *ssa.BasicBlock) bool {
		if x == target {
			return true
		}
		if seen[x] {
			return false
		}
		seen[x] = true
		if x != start && stop[x] {
			return false
		}
	next:
		for i, s := range x.Succs {
			for _, e := range avoid {
				if e.From == x && e.Idx == i {
					continue next
				}
			}
			if walk(s) {
				return true
			}
		}
		return false
	}
	return walk(start)
}

// EdgeDominates reports whether every path from the function entry to target
// traverses edge e.
func EdgeDominates(e Edge, target *ssa.BasicBlock) bool {
	fn := target.Parent()
	if len(fn.Blocks) == 0 {
		return false
	}
	if !ReachFrom(fn.Blocks[0])[target] {
		return false // unreachable code: vacuous, treat as not dominated
	}
	return !ReachableAvoiding(fn.Blocks[0], target, []Edge{e}, nil)
}

// StaticCallee returns the statically known callee of a call instruction.
func StaticCallee(ci ssa.CallInstruction) *ssa.Function {
	if ci == nil {
		return nil
	}
	return ci.Common().StaticCallee()
}

// Callees returns the possible callees of a call site according to the call
// graph (static callee first, then VTA-resolved dynamic ones).
func (c *Ctx) Callees(ci ssa.CallInstruction) []*ssa.Function {
	if f := StaticCallee(ci); f != nil {
		return []*ssa.Function{f}
	}
	cg := c.CallGraph()
	n := cg.Nodes[ci.Parent()]
	if n == nil {
		return nil
	}
	var out []*ssa.Function
	for _, e := range n.Out {
		if e.Site == ci {
			out = append(out, e.Callee.Func)
		}
	}
	sort.Slice(out, func(i, j int) bool { return out[i].String() < out[j].String() })
	return out
}

// ReachableFuncs returns the library functions reachable in the call graph
// from the given roots (roots included), following only edges into library
// functions. The result maps a function to one predecessor on a shortest path
// (roots map to nil).
func (c *Ctx) ReachableFuncs(roots []*ssa.Function, stopAt func(*ssa.Function) bool) map[*ssa.Function]*callgraph.Edge {
	cg := c.CallGraph()
	out := map[*ssa.Function]*callgraph.Edge{}
	var queue []*ssa.Function
	for _, r := range roots {
		if r == nil {
			continue
		}
		if _, ok := out[r]; !ok {
			out[r] = nil
			queue = append(queue, r)
		}
	}
	for len(queue) > 0 {
		f := queue[0]
		queue = queue[1:]
		if stopAt != nil && stopAt(f) {
			continue
		}
		n := cg.Nodes[f]
		if n == nil {
			continue
		}
		edges := append([]*callgraph.Edge(nil), n.Out...)
		sort.Slice(edges, func(i, j int) bool {
			if edges[i].Callee.Func.String() != edges[j].Callee.Func.String() {
				return edges[i].Callee.Func.String() < edges[j].Callee.Func.String()
			}
			return edges[i].Pos() < edges[j].Pos()
		})
		for _, e := range edges {
			g := e.Callee.Func
			if !IsGeo(g) {
				continue
			}
			if _, ok := out[g]; ok {
				continue
			}
			out[g] = e
			queue = append(queue, g)
		}
		// Anonymous functions created by f are considered reachable from f.
		for _, a := range f.AnonFuncs {
			if _, ok := out[a]; !ok {
				out[a] = &callgraph.Edge{Caller: n, Callee: cg.Nodes[a]}
				queue = append(queue, a)
			}
		}
	}
	return out
}

// PathTo renders the call path recorded by ReachableFuncs.
func PathTo(reach map[*ssa.Function]*callgraph.Edge, f *ssa.Function) string {
	var parts []string
	for f != nil {
		parts = append([]string{FuncName(f)}, parts...)
		e := reach[f]
		if e == nil || e.Caller == nil {
			break
		}
		f = e.Caller.Func
		if len(parts) > 40 {
			break
		}
	}
	return strings.Join(parts, " -> ")
}

// FieldRef describes a field selection base.f in SSA.
type FieldRef struct {
	Struct *types.Named
	Name   string
	Base   ssa.Value
}

// AsFieldAddr decodes v as &base.f (FieldAddr) of a named struct.
func AsFieldAddr(v ssa.Value) (FieldRef, bool) {
	fa, ok := v.(*ssa.FieldAddr)
	if !ok {
		return FieldRef{}, false
	}
	pt, ok := fa.X.Type().Underlying().(*types.Pointer)
	if !ok {
		return FieldRef{}, false
	}
	st, ok := pt.Elem().Underlying().(*types.Struct)
	if !ok {
		return FieldRef{}, false
	}
	named, _ := pt.Elem().(*types.Named)
	return FieldRef{Struct: named, Name: st.Field(fa.Field).Name(), Base: fa.X}, true
}

// AsFieldLoad decodes v as a load of base.f (either *(&base.f) or base.f on a struct value).
func AsFieldLoad(v ssa.Value) (FieldRef, bool) {
	switch v := v.(type) {
	case *ssa.UnOp:
		if v.Op == token.MUL {
			return AsFieldAddr(v.X)
		}
	case *ssa.Field:
		st, ok := v.X.Type().Underlying().(*types.Struct)
		if !ok {
			return FieldRef{}, false
		}
		named, _ := v.X.Type().(*types.Named)
		return FieldRef{Struct: named, Name: st.Field(v.Field).Name(), Base: v.X}, true
	}
	return FieldRef{}, false
}

// IsNamed reports whether t (after stripping one pointer) is the named type pkgName.typeName of the library.
func IsNamed(t types.Type, pkgName, typeName string) bool {
	if p, ok := t.(*types.Pointer); ok {
		t = p.Elem()
	}
	n, ok := t.(*types.Named)
	if !ok {
		return false
	}
	o := n.Obj()
	return o.Name() == typeName && o.Pkg() != nil && o.Pkg().Name() == pkgName && strings.HasPrefix(o.Pkg().Path(), GeoPath)
}

// StripConv follows conversions and type changes back to the underlying value.
func StripConv(v ssa.Value) ssa.Value {
	for {
		switch x := v.(type) {
		case *ssa.Convert:
			v = x.X
		case *ssa.ChangeType:
			v = x.X
		default:
			return v
		}
	}
}

// InstrBlockIndex returns the index of instr within its block, or -1.
func InstrBlockIndex(instr ssa.Instruction) int {
	for i, in := range instr.Block().Instrs {
		if in == instr {
			return i
		}
	}
	return -1
}

// AllInstrs calls f for every instruction of fn.
func AllInstrs(fn *ssa.Function, f func(ssa.Instruction)) {
	for _, b := range fn.Blocks {
		for _, in := range b.Instrs {
			f(in)
		}
	}
}

// ConstInt returns the integer value of v if it is an integer constant.
func ConstInt(v ssa.Value) (int64, bool) {
	c, ok := v.(*ssa.Const)
	if !ok || c.Value == nil {
		return 0, false
	}
	if b, ok := c.Type().Underlying().(*types.Basic); !ok || b.Info()&types.IsInteger == 0 {
		return 0, false
	}
	return c.Int64(), true
}

// IsUnsigned reports whether t is an unsigned integer type.
func IsUnsigned(t types.Type) bool {
	b, ok := t.Underlying().(*types.Basic)
	return ok && b.Info()&types.IsUnsigned != 0
}

// IsInteger reports whether t is an integer type.
func IsInteger(t types.Type) bool {
	b, ok := t.Underlying().(*types.Basic)
	return ok && b.Info()&types.IsInteger != 0
}

// IntSize returns the size in bits of an integer type on a 64-bit target
// (int, uint, uintptr count as 64) and on a 32-bit target.
func IntSize(t types.Type) (bits64, bits32 int) {
	b, ok := t.Underlying().(*types.Basic)
	if !ok {
		return 0, 0
	}
	switch b.Kind() {
	case types.Int8, types.Uint8:
		return 8, 8
	case types.Int16, types.Uint16:
		return 16, 16
	case types.Int32, types.Uint32:
		return 32, 32
	case types.Int64, types.Uint64:
		return 64, 64
	case types.Int, types.Uint, types.Uintptr:
		return 64, 32
	}
	return 0, 0
}
