// Package core holds the loader, obligation and evidence plumbing shared by
// all rules of s2lint.
package core

import (
	"fmt"
	"go/ast"
	"go/token"
	"go/types"
	"os"
	"sort"
	"strings"

	"golang.org/x/tools/go/callgraph"
	"golang.org/x/tools/go/callgraph/cha"
	"golang.org/x/tools/go/callgraph/vta"
	"golang.org/x/tools/go/packages"
	"golang.org/x/tools/go/ssa"
	"golang.org/x/tools/go/ssa/ssautil"
)

// GeoPath is the module path of the library under analysis.
const GeoPath = "github.com/golang/geo"

// Ctx is the loaded, type-checked program plus lazily built IRs.
type Ctx struct {
	RepoDir string
	Fset    *token.FileSet
	// Pkgs maps the short name (r1, r2, r3, s1, s2, s2intersect) to the package.
	Pkgs map[string]*packages.Package
	All  []*packages.Package

	Prog    *ssa.Program
	SSAPkgs map[string]*ssa.Package

	cg *callgraph.Graph

	// Tier is "quick" or "thorough"; VerifDir is the root of /verif.
	Tier     string
	VerifDir string

	// Stats measured while loading.
	NumFiles, NumFuncs, NumBlocks int

	declIndex map[*types.Func]*ast.FuncDecl
}

// Load loads every package of the module rooted at dir from its working tree
// (non-test files, default build configuration) and builds SSA for it.
func Load(dir string) (*Ctx, error) {
	env := []string{}
	for _, kv := range os.Environ() {
		if strings.HasPrefix(kv, "GOWORK=") || strings.HasPrefix(kv, "GOFLAGS=") ||
			strings.HasPrefix(kv, "GOPROXY=") || strings.HasPrefix(kv, "GOSUMDB=") ||
			strings.HasPrefix(kv, "GOTOOLCHAIN=") {
			continue
		}
		env = append(env, kv)
	}
	env = append(env, "GOWORK=off", "GOFLAGS=-mod=mod", "GOPROXY=off", "GOSUMDB=off", "GOTOOLCHAIN=local")
	cfg := &packages.Config{
		Mode:  packages.LoadAllSyntax,
		Dir:   dir,
		Env:   env,
		Tests: false,
	}
	pkgs, err := packages.Load(cfg, "./...")
	if err != nil {
		return nil, fmt.Errorf("packages.Load: %v", err)
	}
	if len(pkgs) < 6 {
		return nil, fmt.Errorf("expected at least 6 packages under %s, loaded %d", dir, len(pkgs))
	}
	c := &Ctx{RepoDir: dir, Pkgs: map[string]*packages.Package{}, SSAPkgs: map[string]*ssa.Package{}, declIndex: map[*types.Func]*ast.FuncDecl{}}
	var errs []string
	packages.Visit(pkgs, nil, func(p *packages.Package) {
		for _, e := range p.Errors {
			errs = append(errs, e.Error())
		}
	})
	if len(errs) > 0 {
		sort.Strings(errs)
		if len(errs) > 10 {
			errs = errs[:10]
		}
		return nil, fmt.Errorf("type-check/load errors:\n  %s", strings.Join(errs, "\n  "))
	}
	for _, p := range pkgs {
		if !strings.HasPrefix(p.PkgPath, GeoPath) {
			return nil, fmt.Errorf("unexpected package %s", p.PkgPath)
		}
		c.Pkgs[p.Name] = p
		c.All = append(c.All, p)
		c.Fset = p.Fset
		c.NumFiles += len(p.Syntax)
		for _, f := range p.Syntax {
			for _, d := range f.Decls {
				if fd, ok := d.(*ast.FuncDecl); ok {
					if obj, ok := p.TypesInfo.Defs[fd.Name].(*types.Func); ok {
						c.declIndex[obj] = fd
						c.NumFuncs++
					}
				}
			}
		}
	}
	for _, want := range []string{"r1", "r2", "r3", "s1", "s2", "s2intersect"} {
		if c.Pkgs[want] == nil {
			return nil, fmt.Errorf("package %s not loaded", want)
		}
	}
	sort.Slice(c.All, func(i, j int) bool { return c.All[i].PkgPath < c.All[j].PkgPath })

	prog, ssapkgs := ssautil.AllPackages(pkgs, ssa.BuilderMode(0))
	prog.Build()
	c.Prog = prog
	for i, sp := range ssapkgs {
		if sp == nil {
			return nil, fmt.Errorf("no SSA for %s", pkgs[i].PkgPath)
		}
		c.SSAPkgs[pkgs[i].Name] = sp
	}
	for _, fn := range c.GeoFuncs() {
		c.NumBlocks += len(fn.Blocks)
	}
	return c, nil
}

// GeoFuncs returns every SSA function (including methods and anonymous
// functions) whose source lies in the library, sorted by name.
func (c *Ctx) GeoFuncs() []*ssa.Function {
	var out []*ssa.Function
	seen := map[*ssa.Function]bool{}
	var add func(fn *ssa.Function)
	add = func(fn *ssa.Function) {
		if fn == nil || seen[fn] || fn.Blocks == nil {
			return
		}
		seen[fn] = true
		out = append(out, fn)
		for _, a := range fn.AnonFuncs {
			add(a)
		}
	}
	for _, sp := range c.SSAPkgs {
		for _, m := range sp.Members {
			switch m := m.(type) {
			case *ssa.Function:
				add(m)
			case *ssa.Type:
				for _, t := range []types.Type{m.Type(), types.NewPointer(m.Type())} {
					ms := c.Prog.MethodSets.MethodSet(t)
					for i := 0; i < ms.Len(); i++ {
						fn := c.Prog.MethodValue(ms.At(i))
						if fn != nil && fn.Synthetic == "" {
							add(fn)
						}
					}
				}
			}
		}
	}
	sort.Slice(out, func(i, j int) bool { return out[i].String() < out[j].String() })
	return out
}

// CallGraph returns the VTA call graph (refined from CHA) of the whole program.
func (c *Ctx) CallGraph() *callgraph.Graph {
	if c.cg == nil {
		c.cg = vta.CallGraph(ssautil.AllFunctions(c.Prog), cha.CallGraph(c.Prog))
	}
	return c.cg
}

// CallGraphEdges counts the edges of the call graph if a rule built it (0 otherwise).
func (c *Ctx) CallGraphEdges() int {
	if c.cg == nil {
		return 0
	}
	n := 0
	for _, node := range c.cg.Nodes {
		n += len(node.Out)
	}
	return n
}

// Pos renders a position relative to the repository root.
func (c *Ctx) Pos(p token.Pos) string {
	if !p.IsValid() {
		return "?"
	}
	pp := c.Fset.Position(p)
	f := strings.TrimPrefix(pp.Filename, c.RepoDir+"/")
	return fmt.Sprintf("%s:%d", f, pp.Line)
}

// LookupFunc resolves pkg.(recv).name; recv "" means a package-level function.
// recv may be given with or without the leading '*'.
func (c *Ctx) LookupFunc(pkg, recv, name string) *types.Func {
	p := c.Pkgs[pkg]
	if p == nil {
		return nil
	}
	if recv == "" {
		f, _ := p.Types.Scope().Lookup(name).(*types.Func)
		return f
	}
	recv = strings.TrimPrefix(recv, "*")
	tn, _ := p.Types.Scope().Lookup(recv).(*types.TypeName)
	if tn == nil {
		return nil
	}
	obj, _, _ := types.LookupFieldOrMethod(types.NewPointer(tn.Type()), true, p.Types, name)
	f, _ := obj.(*types.Func)
	return f
}

// Decl returns the syntax of a library function.
func (c *Ctx) Decl(f *types.Func) *ast.FuncDecl { return c.declIndex[f] }

// SSA returns the SSA function for a types.Func.
func (c *Ctx) SSA(f *types.Func) *ssa.Function {
	if f == nil {
		return nil
	}
	return c.Prog.FuncValue(f)
}

// Fn resolves an anchor to its SSA function; nil if unresolved.
func (c *Ctx) Fn(pkg, recv, name string) *ssa.Function { return c.SSA(c.LookupFunc(pkg, recv, name)) }

// Info returns the types.Info of the package that declares pos.
func (c *Ctx) InfoFor(pkg string) *types.Info { return c.Pkgs[pkg].TypesInfo }

// NamedType returns the named type pkg.name or nil.
func (c *Ctx) NamedType(pkg, name string) *types.Named {
	p := c.Pkgs[pkg]
	if p == nil {
		return nil
	}
	tn, _ := p.Types.Scope().Lookup(name).(*types.TypeName)
	if tn == nil {
		return nil
	}
	n, _ := tn.Type().(*types.Named)
	return n
}

// FuncName gives a stable printable name such as (*s2.Polygon).decode.
func FuncName(fn *ssa.Function) string {
	if fn == nil {
		return "<nil>"
	}
	s := fn.String()
	s = strings.ReplaceAll(s, GeoPath+"/", "")
	return s
}

// IsGeo reports whether fn's package belongs to the library.
func IsGeo(fn *ssa.Function) bool {
	if fn == nil {
		return false
	}
	p := fn.Pkg
	if p == nil && fn.Parent() != nil {
		return IsGeo(fn.Parent())
	}
	if p == nil {
		// Methods of instantiated / wrapper functions.
		if o := fn.Object(); o != nil && o.Pkg() != nil {
			return strings.HasPrefix(o.Pkg().Path(), GeoPath)
		}
		return false
	}
	return strings.HasPrefix(p.Pkg.Path(), GeoPath)
}
