package rules

import (
	"fmt"
	"go/token"
	"go/types"

	"golang.org/x/tools/go/ssa"

	"verif/checker/core"
)

// R-RAWFLOAT: added after round-4 seed C09-r4m1 (the off-centre vertices were rebuilt with PointFromCoords, which
// normalises; Normalize is not a bit-level fixed point for every unit vector, so decode(encode(p)) != p).

func init() {
	core.Register(&core.Rule{
		Name: "R-RAWFLOAT",
		Clause: "C09 'bit-identical coordinates': a float64 read from the stream reaches the decoded value unchanged - it is stored, converted between float types of the same width or " +
			"passed to functions that do no floating-point arithmetic; it is never an operand of arithmetic and never passed to a function that computes with it (Normalize, PointFromCoords, math.*).",
		Min: 10,
		Run: runRawFloat,
	})
}

type arithFree struct {
	memo map[*ssa.Function]int
}

func (a *arithFree) free(fn *ssa.Function, depth int) bool {
	if fn == nil {
		return false
	}
	if m := a.memo[fn]; m != 0 {
		return m == 1
	}
	if fn.Pkg != nil && (fn.Pkg.Pkg.Path() == "math" || fn.Pkg.Pkg.Path() == "math/big") {
		return false
	}
	if fn.Blocks == nil || depth > 3 {
		return false
	}
	a.memo[fn] = 2
	ok := true
	core.AllInstrs(fn, func(in ssa.Instruction) {
		switch x := in.(type) {
		case *ssa.BinOp:
			if b, isB := x.X.Type().Underlying().(*types.Basic); isB && b.Info()&types.IsFloat != 0 {
				switch x.Op {
				case token.ADD, token.SUB, token.MUL, token.QUO:
					ok = false
				}
			}
		case ssa.CallInstruction:
			if _, isBuiltin := x.Common().Value.(*ssa.Builtin); isBuiltin {
				return
			}
			if f := core.StaticCallee(x); f == nil || !a.free(f, depth+1) {
				ok = false
			}
		}
	})
	if ok {
		a.memo[fn] = 1
	}
	return ok
}

func runRawFloat(c *core.Ctx) []core.Obligation {
	var obs []core.Obligation
	af := &arithFree{memo: map[*ssa.Function]int{}}
	total := 0
	for _, fn := range c.GeoFuncs() {
		k := 0
		core.AllInstrs(fn, func(in ssa.Instruction) {
			call, ok := in.(*ssa.Call)
			if !ok {
				return
			}
			f := core.StaticCallee(call)
			if f == nil || f.Name() != "readFloat64" || f.Signature.Recv() == nil || !core.IsNamed(f.Signature.Recv().Type(), "s2", "decoder") {
				return
			}
			k++
			total++
			construct := fmt.Sprintf("raw:%s#%d", core.FuncName(fn), k)
			bad := ""
			seen := map[ssa.Value]bool{}
			var follow func(v ssa.Value, depth int)
			follow = func(v ssa.Value, depth int) {
				if seen[v] || depth > 8 || bad != "" {
					return
				}
				seen[v] = true
				refs := v.Referrers()
				if refs == nil {
					return
				}
				for _, r := range *refs {
					switch u := r.(type) {
					case *ssa.Store:
						// stored: if into a local, follow the loads of that local
						if al, isAl := u.Addr.(*ssa.Alloc); isAl && u.Val == v {
							for _, rr := range *al.Referrers() {
								if ld, isLd := rr.(*ssa.UnOp); isLd && ld.Op == token.MUL {
									follow(ld, depth+1)
								}
							}
						}
					case *ssa.Convert:
						if b, isB := u.Type().Underlying().(*types.Basic); isB && b.Info()&types.IsFloat != 0 && b.Kind() != types.Float32 {
							follow(u, depth+1)
						} else {
							bad = "converted to " + u.Type().String()
						}
					case *ssa.ChangeType:
						follow(u, depth+1)
					case *ssa.Phi:
						follow(u, depth+1)
					case *ssa.BinOp:
						switch u.Op {
						case token.ADD, token.SUB, token.MUL, token.QUO:
							bad = "used as an operand of " + u.Op.String()
						}
					case *ssa.UnOp:
						if u.Op == token.SUB {
							bad = "negated"
						}
					case ssa.CallInstruction:
						callee := core.StaticCallee(u)
						if callee == nil || !af.free(callee, 0) {
							name := "an unresolved function"
							if callee != nil {
								name = core.FuncName(callee)
							}
							bad = "passed to " + name + ", which computes with it"
						}
					case *ssa.Return, *ssa.MakeInterface, *ssa.DebugRef:
					}
				}
			}
			follow(call, 0)
			if bad == "" {
				obs = append(obs, core.Ob("R-RAWFLOAT", construct, c.Pos(call.Pos()), core.FuncName(fn), core.Discharged, "stored unchanged"))
			} else {
				obs = append(obs, core.Ob("R-RAWFLOAT", construct, c.Pos(call.Pos()), core.FuncName(fn), core.Violated,
					"a float64 read from the stream is "+bad+" before it is stored: the decoded coordinate need not be bit-identical to the encoded one (e.g. re-normalising a unit vector moves it by an ulp for some inputs), so decode(encode(x)) != x and re-encoding gives different bytes"))
			}
		})
	}
	if total < 10 {
		obs = append(obs, core.Ob("R-RAWFLOAT", "anchor", "-", "", core.Violated, fmt.Sprintf("only %d readFloat64 calls found", total)))
	}
	return obs
}
