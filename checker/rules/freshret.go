package rules

import (
	"fmt"

	"golang.org/x/tools/go/ssa"

	"verif/checker/core"
)

// R-FRESHRET: added after round-4 seed C05-r4m2 (CellUnion.CellUnionBound returned the receiver's own slice for
// small unions; FastCovering's normalisation then rewrote the caller's region in place).

func init() {
	core.Register(&core.Rule{
		Name: "R-FRESHRET",
		Clause: "C05 'coverings do not change the region they cover': every implementation of Region.CellUnionBound returns a slice allocated by the call (a composite literal, make, append to a " +
			"fresh slice, or the result of another function that does) - never storage that belongs to the region, because the coverer normalises that slice in place.",
		Min: 9,
		Run: runFreshRet,
	})
}

func runFreshRet(c *core.Ctx) []core.Obligation {
	var obs []core.Obligation
	var fns []*ssa.Function
	for _, fn := range c.GeoFuncs() {
		if fn.Name() == "CellUnionBound" && fn.Signature.Recv() != nil && fn.Synthetic == "" {
			fns = append(fns, fn)
		}
	}
	scope := c.ReachableFuncs(fns, nil)
	fr := &freshness{c: c, scope: scope, memoRet: map[*ssa.Function]int{}, memoPar: map[*ssa.Parameter]int{}}
	for _, fn := range fns {
		construct := "fresh-result:" + core.FuncName(fn)
		if fr.returnsFresh(fn, 0) {
			obs = append(obs, core.Ob("R-FRESHRET", construct, c.Pos(fn.Pos()), core.FuncName(fn), core.Discharged, "every returned slice is allocated by the call"))
		} else {
			obs = append(obs, core.Ob("R-FRESHRET", construct, c.Pos(fn.Pos()), core.FuncName(fn), core.Violated,
				"a returned slice is not allocated by the call (it can be the region's own storage): RegionCoverer.FastCovering and the coverer's initial candidates normalise the slice they get from CellUnionBound in place, so the caller's region is silently rewritten"))
		}
	}
	if len(fns) < 9 {
		obs = append(obs, core.Ob("R-FRESHRET", "anchor", "-", "", core.Violated, fmt.Sprintf("only %d CellUnionBound implementations found", len(fns))))
	}
	return obs
}
