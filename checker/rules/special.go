package rules

import (
	"fmt"
	"go/token"

	"golang.org/x/tools/go/ssa"

	"verif/checker/core"
)

// capRadiusOwner returns the address of the Cap variable whose radius field v loads, if any.
func capRadiusOwner(v ssa.Value) (ssa.Value, bool) {
	fr, ok := core.AsFieldLoad(v)
	if !ok || fr.Name != "radius" || fr.Struct == nil || fr.Struct.Obj().Name() != "Cap" {
		return nil, false
	}
	return fr.Base, true
}

func runSpecial(c *core.Ctx) []core.Obligation {
	var obs []core.Obligation
	for _, fn := range c.GeoFuncs() {
		if fn.Pkg == nil || fn.Pkg.Pkg.Name() != "s2" {
			continue
		}
		n := 0
		core.AllInstrs(fn, func(in ssa.Instruction) {
			call, ok := in.(*ssa.Call)
			if !ok {
				return
			}
			f := core.StaticCallee(call)
			if f == nil || f.Pkg == nil || f.Pkg.Pkg.Name() != "s1" || (f.Name() != "Add" && f.Name() != "Sub") || f.Signature.Recv() == nil {
				return
			}
			if !core.IsNamed(f.Signature.Recv().Type(), "s1", "ChordAngle") {
				return
			}
			for _, a := range call.Call.Args {
				owner, ok := capRadiusOwner(a)
				if !ok {
					continue
				}
				n++
				construct := fmt.Sprintf("%s:radius-into-%s#%d", core.FuncName(fn), f.Name(), n)
				if guardedNonEmpty(fn, owner, call.Block()) {
					obs = append(obs, core.Ob("R-SPECIAL", construct, c.Pos(call.Pos()), core.FuncName(fn), core.Discharged,
						"the cap whose radius enters ChordAngle."+f.Name()+" was tested non-empty on every path to the call"))
				} else {
					obs = append(obs, core.Ob("R-SPECIAL", construct, c.Pos(call.Pos()), core.FuncName(fn), core.Violated,
						"the radius of a cap that may be empty (special negative chord angle) is fed into ChordAngle."+f.Name()+", which is only defined for non-special operands: the empty case yields NaN / clamped garbage instead of the set-theoretic answer"))
				}
			}
		})
	}
	obs = append(obs, capRadiusArithmetic(c)...)
	obs = append(obs, rawLongitudeLiterals(c)...)
	obs = append(obs, orderedIntervalFromPoints(c)...)
	obs = append(obs, capExpandedSaturates(c))
	obs = append(obs, capInteriorFull(c))
	return obs
}

// capRadiusArithmetic: Cap.Radius() of the empty cap is the sentinel -1 radian. A Cap method that feeds Radius() into
// arithmetic or an ordering comparison with computed angles does so only behind an emptiness test of a cap (IsEmpty() or
// radius < 0) - when the larger cap of a pair is tested second-hand through the smaller one that still is a test.
func capRadiusArithmetic(c *core.Ctx) []core.Obligation {
	var obs []core.Obligation
	for _, fn := range c.GeoFuncs() {
		if fn.Signature.Recv() == nil || !core.IsNamed(fn.Signature.Recv().Type(), "s2", "Cap") {
			continue
		}
		var uses []ssa.Instruction
		core.AllInstrs(fn, func(in ssa.Instruction) {
			call, ok := in.(*ssa.Call)
			if !ok || core.StaticCallee(call) == nil || core.StaticCallee(call).Name() != "Radius" || core.StaticCallee(call).Signature.Recv() == nil ||
				!core.IsNamed(core.StaticCallee(call).Signature.Recv().Type(), "s2", "Cap") {
				return
			}
			// follow the value (through locals) into arithmetic
			seen := map[ssa.Value]bool{}
			var follow func(v ssa.Value, d int)
			follow = func(v ssa.Value, d int) {
				if seen[v] || d > 6 {
					return
				}
				seen[v] = true
				for _, r := range *v.Referrers() {
					switch u := r.(type) {
					case *ssa.BinOp:
						switch u.Op {
						case token.ADD, token.SUB, token.MUL, token.QUO:
							uses = append(uses, u)
						}
					case *ssa.Store:
						if al, isAl := u.Addr.(*ssa.Alloc); isAl {
							for _, rr := range *al.Referrers() {
								if ld, isLd := rr.(*ssa.UnOp); isLd && ld.Op == token.MUL {
									follow(ld, d+1)
								}
							}
						}
					case *ssa.Convert, *ssa.ChangeType, *ssa.Phi:
						follow(u.(ssa.Value), d+1)
					}
				}
			}
			follow(call, 0)
		})
		if len(uses) == 0 {
			continue
		}
		// blocks that test emptiness
		guards := map[*ssa.BasicBlock]bool{}
		for _, b := range fn.Blocks {
			iff, ok := b.Instrs[len(b.Instrs)-1].(*ssa.If)
			if !ok {
				continue
			}
			tests := false
			var walk func(v ssa.Value, d int)
			walk = func(v ssa.Value, d int) {
				if d > 4 {
					return
				}
				switch x := v.(type) {
				case *ssa.Call:
					if f := core.StaticCallee(x); f != nil && (f.Name() == "IsEmpty" || f.Name() == "isEmpty") {
						tests = true
					}
				case *ssa.UnOp:
					walk(x.X, d+1)
				case *ssa.BinOp:
					if _, isRad := capRadiusOwner(x.X); isRad {
						if k, isK := x.Y.(*ssa.Const); isK && k.Value != nil && k.Value.String() == "0" {
							tests = true
						}
					}
					walk(x.X, d+1)
					walk(x.Y, d+1)
				}
			}
			walk(iff.Cond, 0)
			if tests {
				guards[b] = true
			}
		}
		construct := "radius-arithmetic:" + core.FuncName(fn)
		bad := false
		for _, u := range uses {
			if guards[fn.Blocks[0]] {
				continue
			}
			if core.ReachableAvoiding(fn.Blocks[0], u.Block(), nil, guards) {
				bad = true
			}
		}
		if bad {
			obs = append(obs, core.Ob("R-SPECIAL", construct, c.Pos(fn.Pos()), core.FuncName(fn), core.Violated,
				"Radius() of a cap enters arithmetic on a path that tests no cap for emptiness: the empty cap's radius is the sentinel -1 radian and its centre is arbitrary, so the result is an ordinary cap computed from them (a union with the empty cap that is larger than the other operand, or a non-empty union of two empty caps)"))
		} else {
			obs = append(obs, core.Ob("R-SPECIAL", construct, c.Pos(fn.Pos()), core.FuncName(fn), core.Discharged, fmt.Sprintf("%d arithmetic uses of Radius(), all behind an emptiness test", len(uses))))
		}
	}
	return obs
}

// guardedNonEmpty: block at is dominated by an edge on which the cap stored at owner is known to be non-empty.
func guardedNonEmpty(fn *ssa.Function, owner ssa.Value, at *ssa.BasicBlock) bool {
	sameCap := func(v ssa.Value) bool {
		// value receiver: a load of the whole struct from the same variable
		if ld, ok := v.(*ssa.UnOp); ok && ld.Op == token.MUL && sameAddr(ld.X, owner) {
			return true
		}
		return sameAddr(v, owner)
	}
	for _, b := range fn.Blocks {
		iff, ok := b.Instrs[len(b.Instrs)-1].(*ssa.If)
		if !ok {
			continue
		}
		cond := iff.Cond
		nonEmptyEdge := -1
		neg := false
		for {
			if u, ok := cond.(*ssa.UnOp); ok && u.Op == token.NOT {
				cond = u.X
				neg = !neg
				continue
			}
			break
		}
		switch x := cond.(type) {
		case *ssa.Call:
			if f := core.StaticCallee(x); f != nil && f.Name() == "IsEmpty" && len(x.Call.Args) == 1 && sameCap(x.Call.Args[0]) {
				nonEmptyEdge = 1 // IsEmpty() false
			}
		case *ssa.BinOp:
			// radius <= 0 / radius < 0  (false edge: radius > 0 / >= 0)
			if o, ok := capRadiusOwner(x.X); ok && sameAddr(o, owner) {
				if k, isK := x.Y.(*ssa.Const); isK && k.Value != nil && (k.Value.String() == "0") {
					switch x.Op {
					case token.LEQ, token.LSS:
						nonEmptyEdge = 1
					case token.GTR, token.GEQ:
						nonEmptyEdge = 0
					}
				}
			}
		}
		if nonEmptyEdge < 0 {
			continue
		}
		if neg {
			nonEmptyEdge = 1 - nonEmptyEdge
		}
		if core.EdgeDominates(core.Edge{From: b, Idx: nonEmptyEdge}, at) {
			return true
		}
	}
	return false
}

// rawLongitudeLiterals (written after the sub-agent for C19 reported, on the unmodified tree, that
// RectFromLatLng(LatLng{lat, -Pi}) is not a valid rectangle and does not contain its own point): a longitude interval
// has ONE representation of the antimeridian, +Pi (s1.Interval.IsValid rejects Lo == -Pi unless the interval is full).
// The constructors of package s1 normalise -Pi to +Pi; a composite literal s1.Interval{Lo: x, Hi: y} with values
// that are not constants skips that step, so outside package s1 such literals are built from constants only.
func rawLongitudeLiterals(c *core.Ctx) []core.Obligation {
	var obs []core.Obligation
	lits := 0
	for _, fn := range c.GeoFuncs() {
		if fn.Pkg == nil || fn.Pkg.Pkg.Name() == "s1" {
			continue
		}
		n := 0
		seen := map[ssa.Value]bool{}
		core.AllInstrs(fn, func(in ssa.Instruction) {
			st, ok := in.(*ssa.Store)
			if !ok {
				return
			}
			fr, ok := core.AsFieldAddr(st.Addr)
			if !ok || (fr.Name != "Lo" && fr.Name != "Hi") || fr.Struct == nil || fr.Struct.Obj().Name() != "Interval" || fr.Struct.Obj().Pkg() == nil || fr.Struct.Obj().Pkg().Name() != "s1" {
				return
			}
			// the interval being written is (part of) a composite literal
			base := fr.Base
			for i := 0; i < 4; i++ {
				if fa, ok := base.(*ssa.FieldAddr); ok {
					base = fa.X
				}
			}
			al, ok := base.(*ssa.Alloc)
			if !ok || al.Comment != "complit" {
				return
			}
			if !seen[fr.Base] {
				seen[fr.Base] = true
				lits++
			}
			if _, isConst := st.Val.(*ssa.Const); isConst {
				return
			}
			n++
			if n > 1 {
				return // one report per function
			}
			obs = append(obs, core.Ob("R-SPECIAL", "raw-longitude-literal:"+core.FuncName(fn), c.Pos(st.Pos()), core.FuncName(fn), core.Violated,
				"a longitude interval is written as a literal s1.Interval{...} from a computed value: for the longitude -Pi the literal keeps -Pi where every s1 constructor stores +Pi, the interval is not valid (IsValid() false) and does not contain the very point it was built from; use s1.IntervalFromEndpoints / IntervalFromPointPair"))
		})
	}
	obs = append(obs, core.Ob("R-SPECIAL", "raw-longitude-literal:scan", "-", "", core.Discharged, fmt.Sprintf("%d s1.Interval literals outside package s1 examined", lits)))
	return obs
}

// capExpandedSaturates (after round-7 seed C19-r7m2, a "single point" fast path in Cap.Expanded that builds the result
// with CapFromCenterAngle(center, distance)): the distance may be any angle, including s1.InfAngle(), whose chord angle
// is +Inf. The general path is safe because ChordAngle.Add saturates at StraightChordAngle; a result radius that does
// not come out of Add can be +Inf, and then the cap is neither valid nor full although it contains every point, and
// its complement is a point. Every non-empty result of Expanded takes its radius from radius.Add(...).
func capExpandedSaturates(c *core.Ctx) core.Obligation {
	const construct = "(s2.Cap).Expanded:radius-through-Add"
	fn := c.Fn("s2", "Cap", "Expanded")
	if fn == nil {
		return core.Ob("R-SPECIAL", construct, "-", "", core.Violated, "unresolved anchor")
	}
	nret, bad := 0, ""
	for _, b := range fn.Blocks {
		ret, ok := b.Instrs[len(b.Instrs)-1].(*ssa.Return)
		if !ok || len(ret.Results) != 1 {
			continue
		}
		nret++
		call, ok := ret.Results[0].(*ssa.Call)
		if !ok || core.StaticCallee(call) == nil {
			bad = c.Pos(ret.Pos())
			continue
		}
		switch core.StaticCallee(call).Name() {
		case "EmptyCap":
		case "CapFromCenterChordAngle":
			add, isAdd := call.Call.Args[len(call.Call.Args)-1].(*ssa.Call)
			if !isAdd || core.StaticCallee(add) == nil || core.StaticCallee(add).Name() != "Add" {
				bad = c.Pos(ret.Pos())
			}
		default:
			bad = c.Pos(ret.Pos())
		}
	}
	if nret == 0 {
		return core.Ob("R-SPECIAL", construct, c.Pos(fn.Pos()), core.FuncName(fn), core.Violated, "unresolved anchor: no return found")
	}
	if bad != "" {
		return core.Ob("R-SPECIAL", construct, bad, core.FuncName(fn), core.Violated,
			"the result at "+bad+" does not take its radius from ChordAngle.Add, the only step that saturates at 180 degrees: expanded by s1.InfAngle() (or any angle whose chord angle is the +Inf sentinel) the cap gets an infinite radius, is neither valid nor full although it contains every point, and its complement is a single point instead of empty")
	}
	return core.Ob("R-SPECIAL", construct, c.Pos(fn.Pos()), core.FuncName(fn), core.Discharged, fmt.Sprintf("%d results: the empty cap, or center with radius.Add(...)", nret))
}

// capInteriorFull (after round-8 seed C19-r8m2, the `c.IsFull() ||` of Cap.InteriorContainsPoint dropped "because a
// chord angle never exceeds StraightChordAngle"): the full cap has radius exactly StraightChordAngle and its interior is
// the whole sphere, but the point antipodal to the centre is at chord angle exactly StraightChordAngle, so the strict
// comparison `distance < radius` is false for it. The full case must be answered before the comparison.
func capInteriorFull(c *core.Ctx) core.Obligation {
	const construct = "(s2.Cap).InteriorContainsPoint:full-cap-first"
	fn := c.Fn("s2", "Cap", "InteriorContainsPoint")
	if fn == nil {
		return core.Ob("R-SPECIAL", construct, "-", "", core.Violated, "unresolved anchor")
	}
	// the strict comparison with the radius must be reachable only on the "not full" side of an IsFull() test
	var strict *ssa.BinOp
	core.AllInstrs(fn, func(in ssa.Instruction) {
		if bo, ok := in.(*ssa.BinOp); ok && (bo.Op == token.LSS || bo.Op == token.GTR) {
			for _, o := range []ssa.Value{bo.X, bo.Y} {
				if fr, ok := core.AsFieldLoad(o); ok && fr.Name == "radius" {
					strict = bo
				}
			}
		}
	})
	if strict == nil {
		return core.Ob("R-SPECIAL", construct, c.Pos(fn.Pos()), core.FuncName(fn), core.Discharged, "no strict comparison with the radius")
	}
	for _, b := range fn.Blocks {
		ifi, ok := b.Instrs[len(b.Instrs)-1].(*ssa.If)
		if !ok {
			continue
		}
		call, ok := ifi.Cond.(*ssa.Call)
		if !ok || core.StaticCallee(call) == nil || core.StaticCallee(call).Name() != "IsFull" {
			continue
		}
		if core.EdgeDominates(core.Edge{From: b, Idx: 1}, strict.Block()) {
			return core.Ob("R-SPECIAL", construct, c.Pos(fn.Pos()), core.FuncName(fn), core.Discharged, "the strict comparison with the radius is reached only for a cap that is not full")
		}
	}
	return core.Ob("R-SPECIAL", construct, c.Pos(strict.Pos()), core.FuncName(fn), core.Violated,
		"the strict comparison distance < radius is also applied to the full cap: its radius is exactly StraightChordAngle and so is the chord angle of the point antipodal to its centre, so FullCap().InteriorContainsPoint(antipode) is false although the complement of the full cap is empty")
}
