package rules

import (
	"fmt"
	"go/types"
	"strings"

	"verif/checker/core"
)

func init() {
	core.Register(&core.Rule{
		Name: "R-ORDER",
		Clause: "C19 'interval algebra is sound with respect to point membership': for the comparison-only predicates and constructors of r1.Interval and s1.Interval, the function's syntax is " +
			"interpreted over every weak ordering of its operands and +-Pi (abstract domain: rank in the ordering; arithmetic is opaque and forks comparisons both ways) and the result is compared with " +
			"membership of probe points on every operand and in every gap: predicates equal their point-set definition; unions contain both operands; intersections contain every common point and nothing " +
			"outside both; complements cover the rest; results are valid. Exhaustive over order types, hence over all real inputs for this code class. " +
			"Does not cover Expanded, Project, Center, Length, ApproxEqual, chord-angle and cap arithmetic.",
		Min: 24,
		Run: runOrder,
	})
	core.Register(&core.Rule{
		Name: "R-COMPONENT",
		Clause: "C19 'component-wise composition for rectangles': each two-dimensional predicate/constructor of r2.Rect and s2.Rect is the conjunction (or pair) of the same one-dimensional " +
			"operation applied to both components.",
		Min: 10,
		Run: runComponent,
	})
}

type orderDomain struct {
	circle bool
	k      int // number of free symbols
	top    int // highest rank (Pi on the circle)
}

func (d orderDomain) probes() []int {
	var out []int
	if d.circle {
		for q := 0; q <= d.top; q++ {
			out = append(out, q)
		}
		return out
	}
	for q := 1; q <= 2*d.k+1; q++ {
		out = append(out, q)
	}
	return out
}

type ival struct{ lo, hi int }

func (d orderDomain) valid(i ival) bool {
	if !d.circle {
		return true
	}
	if i.lo == 0 && i.hi != d.top {
		return false
	}
	if i.hi == 0 && i.lo != d.top {
		return false
	}
	return true
}

func (d orderDomain) member(i ival, q int) bool {
	if !d.circle {
		return i.lo <= q && q <= i.hi
	}
	if q == 0 {
		q = d.top
	}
	if i.lo == d.top && i.hi == 0 {
		return false
	}
	if i.lo <= i.hi {
		return i.lo <= q && q <= i.hi
	}
	return q >= i.lo || q <= i.hi
}

func (d orderDomain) interior(i ival, q int) bool {
	if q%2 == 1 {
		return d.member(i, q)
	}
	if !d.circle {
		return d.member(i, q-1) && d.member(i, q) && d.member(i, q+1)
	}
	n := d.top // positions 0..top-1 are distinct, top == 0
	prev := ((q % n) + n - 1) % n
	next := (q + 1) % n
	return d.member(i, prev) && d.member(i, q) && d.member(i, next)
}

func (d orderDomain) describe(names []string, ranks []int) string {
	type sym struct {
		name string
		rank int
	}
	var syms []sym
	if d.circle {
		syms = append(syms, sym{"-Pi", 0}, sym{"Pi", d.top})
	}
	for i, n := range names {
		syms = append(syms, sym{n, ranks[i]})
	}
	// sort by rank, group equal
	for i := 0; i < len(syms); i++ {
		for j := i + 1; j < len(syms); j++ {
			if syms[j].rank < syms[i].rank {
				syms[i], syms[j] = syms[j], syms[i]
			}
		}
	}
	var b strings.Builder
	for i, s := range syms {
		if i > 0 {
			if s.rank == syms[i-1].rank {
				b.WriteString(" = ")
			} else {
				b.WriteString(" < ")
			}
		}
		b.WriteString(s.name)
	}
	return b.String()
}

func ivalOf(v *oval) (ival, bool) {
	if v == nil || v.kind != ovStruct {
		return ival{}, false
	}
	lo, hi := v.fields["Lo"], v.fields["Hi"]
	if lo == nil || hi == nil || !lo.known || !hi.known {
		return ival{}, false
	}
	return ival{lo.rank, hi.rank}, true
}

func mkIval(i ival) *oval {
	return &oval{kind: ovStruct, fields: map[string]*oval{"Lo": onum(i.lo), "Hi": onum(i.hi)}}
}

// orderCase is one method with its operand shape and specification.
type orderCase struct {
	pkg, recv, name string
	shape           string // "I", "IO" (interval, interval), "IP" (interval, point), "PP" (function of two points)
	spec            func(d orderDomain, I, O ival, p int, res *oval) string
}

func boolRes(res *oval) (bool, bool) {
	if res == nil || res.kind != ovBool {
		return false, false
	}
	return res.b, true
}

func forall(d orderDomain, f func(q int) bool) bool {
	for _, q := range d.probes() {
		if !f(q) {
			return false
		}
	}
	return true
}

func exists(d orderDomain, f func(q int) bool) bool {
	for _, q := range d.probes() {
		if f(q) {
			return true
		}
	}
	return false
}

func wantBool(res *oval, want bool, what string) string {
	got, ok := boolRes(res)
	if !ok {
		return "result is not a boolean"
	}
	if got != want {
		return fmt.Sprintf("returns %v but %s is %v", got, what, want)
	}
	return ""
}

func orderCases() []orderCase {
	var cs []orderCase
	for _, pkg := range []string{"r1", "s1"} {
		pkg := pkg
		add := func(name, shape string, spec func(d orderDomain, I, O ival, p int, res *oval) string) {
			cs = append(cs, orderCase{pkg, "Interval", name, shape, spec})
		}
		add("Contains", "IP", func(d orderDomain, I, O ival, p int, res *oval) string {
			return wantBool(res, d.member(I, p), "membership of p")
		})
		add("InteriorContains", "IP", func(d orderDomain, I, O ival, p int, res *oval) string {
			return wantBool(res, d.interior(I, p), "membership of p in the interior")
		})
		add("ContainsInterval", "IO", func(d orderDomain, I, O ival, p int, res *oval) string {
			return wantBool(res, forall(d, func(q int) bool { return !d.member(O, q) || d.member(I, q) }), "'every point of oi is in i'")
		})
		add("InteriorContainsInterval", "IO", func(d orderDomain, I, O ival, p int, res *oval) string {
			return wantBool(res, forall(d, func(q int) bool { return !d.member(O, q) || d.interior(I, q) }), "'every point of oi is in the interior of i'")
		})
		add("Intersects", "IO", func(d orderDomain, I, O ival, p int, res *oval) string {
			return wantBool(res, exists(d, func(q int) bool { return d.member(O, q) && d.member(I, q) }), "'i and oi share a point'")
		})
		add("InteriorIntersects", "IO", func(d orderDomain, I, O ival, p int, res *oval) string {
			return wantBool(res, exists(d, func(q int) bool { return d.member(O, q) && d.interior(I, q) }), "'the interior of i and oi share a point'")
		})
		add("IsEmpty", "I", func(d orderDomain, I, O ival, p int, res *oval) string {
			return wantBool(res, !exists(d, func(q int) bool { return d.member(I, q) }), "'i has no point'")
		})
		add("Union", "IO", func(d orderDomain, I, O ival, p int, res *oval) string {
			R, ok := ivalOf(res)
			if !ok {
				return "result endpoints are not operands (arithmetic on endpoints?)"
			}
			if !d.valid(R) {
				return "result is not a valid interval"
			}
			for _, q := range d.probes() {
				if (d.member(I, q) || d.member(O, q)) && !d.member(R, q) {
					return fmt.Sprintf("a point of an operand (probe rank %d) is not in the union", q)
				}
			}
			return ""
		})
		add("Intersection", "IO", func(d orderDomain, I, O ival, p int, res *oval) string {
			R, ok := ivalOf(res)
			if !ok {
				return "result endpoints are not operands"
			}
			if !d.valid(R) {
				return "result is not a valid interval"
			}
			for _, q := range d.probes() {
				if d.member(I, q) && d.member(O, q) && !d.member(R, q) {
					return fmt.Sprintf("a common point (probe rank %d) is not in the intersection", q)
				}
				if d.member(R, q) && !d.member(I, q) && !d.member(O, q) {
					return fmt.Sprintf("the intersection contains a point (probe rank %d) that lies in neither operand", q)
				}
				if !d.circle && d.member(R, q) && !(d.member(I, q) && d.member(O, q)) {
					return fmt.Sprintf("the intersection contains a point (probe rank %d) that is not common to both", q)
				}
			}
			return ""
		})
		add("AddPoint", "IP", func(d orderDomain, I, O ival, p int, res *oval) string {
			R, ok := ivalOf(res)
			if !ok {
				return "result endpoints are not operands"
			}
			if !d.valid(R) {
				return "result is not a valid interval"
			}
			if !d.member(R, p) {
				return "the added point is not in the result"
			}
			for _, q := range d.probes() {
				if d.member(I, q) && !d.member(R, q) {
					return fmt.Sprintf("an original point (probe rank %d) was lost", q)
				}
			}
			return ""
		})
	}
	// r1 only
	cs = append(cs, orderCase{"r1", "Interval", "ClampPoint", "IP", func(d orderDomain, I, O ival, p int, res *oval) string {
		if !exists(d, func(q int) bool { return d.member(I, q) }) {
			return "" // undefined for the empty interval
		}
		if res == nil || res.kind != ovNum || !res.known {
			return "result is not one of the operands"
		}
		if !d.member(I, res.rank) {
			return "the clamped point is not in the interval"
		}
		if d.member(I, p) && res.rank != p {
			return "a point already inside was moved"
		}
		return ""
	}})
	// s1 only
	s1 := func(name, shape string, spec func(d orderDomain, I, O ival, p int, res *oval) string) {
		cs = append(cs, orderCase{"s1", "Interval", name, shape, spec})
	}
	s1("IsFull", "I", func(d orderDomain, I, O ival, p int, res *oval) string {
		return wantBool(res, forall(d, func(q int) bool { return d.member(I, q) }), "'i contains every point'")
	})
	s1("Complement", "I", func(d orderDomain, I, O ival, p int, res *oval) string {
		R, ok := ivalOf(res)
		if !ok {
			return "result endpoints are not operands"
		}
		if !d.valid(R) {
			return "result is not a valid interval"
		}
		for _, q := range d.probes() {
			if !d.member(I, q) && !d.member(R, q) {
				return fmt.Sprintf("a point (probe rank %d) is in neither the interval nor its complement", q)
			}
		}
		return ""
	})
	cs = append(cs, orderCase{"s1", "", "IntervalFromPointPair", "PP", func(d orderDomain, I, O ival, p int, res *oval) string {
		R, ok := ivalOf(res)
		if !ok {
			return "result endpoints are not operands"
		}
		if !d.valid(R) {
			return "result is not a valid interval"
		}
		if !d.member(R, I.lo) || !d.member(R, I.hi) {
			return "the interval does not contain both given points"
		}
		return ""
	}})
	cs = append(cs, orderCase{"s1", "", "IntervalFromEndpoints", "PP", func(d orderDomain, I, O ival, p int, res *oval) string {
		R, ok := ivalOf(res)
		if !ok {
			return "result endpoints are not operands"
		}
		if !d.valid(R) {
			return "result is not a valid interval (an endpoint at -Pi was not normalised)"
		}
		empty := !exists(d, func(q int) bool { return d.member(R, q) })
		if !empty && (!d.member(R, I.lo) || !d.member(R, I.hi)) {
			return "the interval does not contain its own endpoints"
		}
		// the result denotes the arc from lo to hi with -Pi identified with Pi; (Pi, -Pi) is the empty and (-Pi, Pi) the
		// full interval, so rebuilding an interval from its own endpoints gives the same point set
		raw := func(q int) bool {
			if q == 0 {
				q = d.top
			}
			if I.lo == d.top && I.hi == 0 {
				return false
			}
			if I.lo == 0 && I.hi == d.top {
				return true
			}
			lo, hi := I.lo, I.hi
			if lo == 0 {
				lo = d.top
			}
			if hi == 0 {
				hi = d.top
			}
			if lo <= hi {
				return lo <= q && q <= hi
			}
			return q >= lo || q <= hi
		}
		for _, q := range d.probes() {
			if d.member(R, q) != raw(q) {
				return fmt.Sprintf("the result does not denote the arc from lo to hi (probe rank %d): an interval rebuilt from its own endpoints has a different point set - e.g. the empty interval (Pi, -Pi) becomes the singleton {Pi}", q)
			}
		}
		return ""
	}})
	return cs
}

func runOrder(c *core.Ctx) []core.Obligation {
	var obs []core.Obligation
	for _, oc := range orderCases() {
		fn := c.LookupFunc(oc.pkg, oc.recv, oc.name)
		construct := oc.pkg + "." + oc.recv + "." + oc.name
		if oc.recv == "" {
			construct = oc.pkg + "." + oc.name
		}
		if fn == nil || c.Decl(fn) == nil {
			obs = append(obs, core.Ob("R-ORDER", construct, "-", "", core.Violated, "unresolved anchor"))
			continue
		}
		k := map[string]int{"I": 2, "IO": 4, "IP": 3, "PP": 2}[oc.shape]
		d := orderDomain{circle: oc.pkg == "s1", k: k}
		var slots []int
		if d.circle {
			d.top = 2 * (k + 1)
			for r := 0; r <= d.top; r += 2 {
				slots = append(slots, r)
			}
		} else {
			for r := 2; r <= 2*k; r += 2 {
				slots = append(slots, r)
			}
		}
		names := map[string][]string{"I": {"i.Lo", "i.Hi"}, "IO": {"i.Lo", "i.Hi", "oi.Lo", "oi.Hi"}, "IP": {"i.Lo", "i.Hi", "p"}, "PP": {"a", "b"}}[oc.shape]
		ranks := make([]int, k)
		orderings, evaluated, forks := 0, 0, 0
		failure := ""
		problem := ""
		var rec func(pos int)
		rec = func(pos int) {
			if failure != "" || problem != "" {
				return
			}
			if pos == k {
				I := ival{ranks[0], ranks[1]}
				var O ival
				p := 0
				switch oc.shape {
				case "IO":
					O = ival{ranks[2], ranks[3]}
					if !d.valid(O) {
						return
					}
				case "IP":
					p = ranks[2]
				}
				if oc.shape != "PP" && !d.valid(I) {
					return
				}
				orderings++
				it := &orderInterp{c: c, pkg: oc.pkg, piRank: -1}
				if d.circle {
					it.piRank = d.top
				}
				var recv *oval
				var args []*oval
				switch oc.shape {
				case "I":
					recv = mkIval(I)
				case "IO":
					recv, args = mkIval(I), []*oval{mkIval(O)}
				case "IP":
					recv, args = mkIval(I), []*oval{onum(p)}
				case "PP":
					args = []*oval{onum(I.lo), onum(I.hi)}
				}
				it.runAll(fn, recv, args, func(res *oval) {
					evaluated++
					if failure != "" {
						return
					}
					if it.problem != "" {
						problem = it.problem
						return
					}
					if msg := oc.spec(d, I, O, p, res); msg != "" {
						failure = fmt.Sprintf("%s, for the ordering %s", msg, d.describe(names, ranks))
					}
				})
				forks += it.forks
				return
			}
			for _, s := range slots {
				ranks[pos] = s
				rec(pos + 1)
			}
		}
		rec(0)
		site := c.Pos(fn.Pos())
		switch {
		case problem != "":
			obs = append(obs, core.Ob("R-ORDER", construct, site, fn.FullName(), core.Undecided,
				"the function is no longer comparison-only in a way the order-type interpreter can follow: "+problem))
		case failure != "":
			obs = append(obs, core.Ob("R-ORDER", construct, site, fn.FullName(), core.Violated, failure))
		default:
			obs = append(obs, core.Ob("R-ORDER", construct, site, fn.FullName(), core.Discharged,
				fmt.Sprintf("agrees with the point-set specification on all %d valid orderings of its operands (%d abstract evaluations, %d undetermined comparisons forked both ways)", orderings, evaluated, forks)))
		}
	}
	return obs
}

// ---------------------------------------------------------------------------

// componentCases: 2-D operations that must be the same 1-D operation on both components.
var componentCases = []struct {
	pkg, recv, name string
	op1D            []string // acceptable 1-D method names
	kind            string   // "and" (conjunction of predicates) or "pair" (constructor of both components)
}{
	{"r2", "Rect", "Contains", []string{"ContainsInterval"}, "and"},
	{"r2", "Rect", "InteriorContains", []string{"InteriorContainsInterval"}, "and"},
	{"r2", "Rect", "Intersects", []string{"Intersects"}, "and"},
	{"r2", "Rect", "InteriorIntersects", []string{"InteriorIntersects"}, "and"},
	{"r2", "Rect", "ContainsPoint", []string{"Contains"}, "and"},
	{"r2", "Rect", "InteriorContainsPoint", []string{"InteriorContains"}, "and"},
	{"r2", "Rect", "Union", []string{"Union"}, "pair"},
	{"r2", "Rect", "AddPoint", []string{"AddPoint"}, "pair"},
	{"r2", "Rect", "AddRect", []string{"Union"}, "pair"},
	{"s2", "Rect", "Contains", []string{"ContainsInterval"}, "and"},
	{"s2", "Rect", "Intersects", []string{"Intersects"}, "and"},
	{"s2", "Rect", "Union", []string{"Union"}, "pair"},
	{"s2", "Rect", "AddPoint", []string{"AddPoint"}, "pair"},
}

func runComponent(c *core.Ctx) []core.Obligation {
	var obs []core.Obligation
	for _, cc := range componentCases {
		fn := c.LookupFunc(cc.pkg, cc.recv, cc.name)
		construct := cc.pkg + "." + cc.recv + "." + cc.name
		if fn == nil || c.Decl(fn) == nil {
			obs = append(obs, core.Ob("R-COMPONENT", construct, "-", "", core.Violated, "unresolved anchor"))
			continue
		}
		ev := &symEval{c: c, info: c.Pkgs[cc.pkg].TypesInfo}
		recv := sxAtom("recv", "")
		sig := fn.Type().(*types.Signature)
		var args []*sx
		for i := 0; i < sig.Params().Len(); i++ {
			args = append(args, sxAtom("param", fmt.Sprint(i)))
		}
		// do not inline the 1-D methods: evaluate with inlining depth exhausted for other packages
		ev.depth = 0
		res := normalise(ev.evalFuncNoInline(fn, recv, args), 0)
		ok, why := componentShape(res, cc.kind, cc.op1D)
		site := c.Pos(fn.Pos())
		if ok {
			obs = append(obs, core.Ob("R-COMPONENT", construct, site, fn.FullName(), core.Discharged, why))
		} else {
			obs = append(obs, core.Ob("R-COMPONENT", construct, site, fn.FullName(), core.Violated, why+"; summary: "+core.ShortDetail(res.String())))
		}
	}
	return obs
}

// evalFuncNoInline evaluates fn but keeps every call opaque.
func (s *symEval) evalFuncNoInline(fn *types.Func, recv *sx, args []*sx) *sx {
	s.noInline = true
	defer func() { s.noInline = false }()
	return s.evalFunc(fn, recv, args)
}

// componentShape checks that the summary applies one of the accepted 1-D operations to the first component of both
// operands and the same operation to the second component.
func componentShape(n *sx, kind string, ops []string) (bool, string) {
	// strip a leading emptiness guard (s2.Rect.Union returns the other operand when one is empty): ite(cond, x, y)
	for n.op == "ite" {
		// follow the branch that builds the result from both components; the branch that is left behind may only hand
		// back one of the operands unchanged (the receiver for an invalid point, the other rectangle when one is empty)
		var other *sx
		if n.args[1].containsOp("call") && strings.Contains(n.args[1].String(), "sel:") && countCalls(n.args[1]) >= 2 {
			n, other = n.args[1], n.args[2]
		} else {
			n, other = n.args[2], n.args[1]
		}
		if other.op != "ite" && (other.containsOp("call") || other.containsOp("lit")) {
			return false, "one branch returns " + core.ShortDetail(other.String()) + ", which is neither an operand nor built from the two components with the 1-D operation"
		}
	}
	var parts []*sx
	switch kind {
	case "and":
		var flatten func(x *sx)
		flatten = func(x *sx) {
			if x.op == "&&" {
				flatten(x.args[0])
				flatten(x.args[1])
				return
			}
			parts = append(parts, x)
		}
		flatten(n)
	case "pair":
		if n.op != "lit" {
			return false, "result is not a composite literal of the two components"
		}
		parts = n.args
	}
	if len(parts) != 2 {
		return false, fmt.Sprintf("expected exactly two component operations, found %d", len(parts))
	}
	type app struct {
		method string
		comp   string
		argc   []string
	}
	var apps []app
	for _, p := range parts {
		if p.op != "call" {
			return false, "a component is not computed by a method call: " + core.ShortDetail(p.String())
		}
		a := app{method: p.name[strings.LastIndex(p.name, ".")+1:]}
		for i, arg := range p.args {
			comp := componentOf(arg)
			if i == 0 {
				a.comp = comp
			}
			a.argc = append(a.argc, comp)
		}
		apps = append(apps, a)
	}
	okName := func(m string) bool {
		for _, o := range ops {
			if o == m {
				return true
			}
		}
		return false
	}
	if apps[0].method != apps[1].method || !okName(apps[0].method) {
		return false, fmt.Sprintf("the two components use %s and %s, expected %v on both", apps[0].method, apps[1].method, ops)
	}
	if apps[0].comp == "" || apps[1].comp == "" || apps[0].comp == apps[1].comp {
		return false, "the operation is not applied once to each component"
	}
	for i := range apps {
		for _, ac := range apps[i].argc {
			if ac != apps[i].comp {
				return false, fmt.Sprintf("component %s is combined with component %s of the other operand", apps[i].comp, ac)
			}
		}
	}
	return true, fmt.Sprintf("%s applied to component %s of both operands and to component %s of both operands", apps[0].method, apps[0].comp, apps[1].comp)
}

func countCalls(n *sx) int {
	c := 0
	if n.op == "call" {
		c++
	}
	for _, a := range n.args {
		c += countCalls(a)
	}
	return c
}

// componentOf returns the name of the rectangle component a term selects (X, Y, Lat, Lng), or "".
func componentOf(n *sx) string {
	for n != nil {
		if n.op == "sel" {
			switch n.name {
			case "X", "Y", "Lat", "Lng":
				return n.name
			}
			if len(n.args) > 0 {
				n = n.args[0]
				continue
			}
		}
		// a unit conversion of one component (ll.Lat.Radians()) is still that component
		if n.op == "call" && len(n.args) == 1 {
			n = n.args[0]
			continue
		}
		return ""
	}
	return ""
}

func init() {
	core.Register(&core.Rule{
		Name: "R-SPECIAL",
		Clause: "C19 'including the empty and full cases' for caps: the radius of a Cap may be the special negative chord angle of the empty cap, and ChordAngle.Add/Sub are only defined for " +
			"non-special operands; every Cap method that feeds a cap's radius into Add/Sub does so only on paths where that cap was tested non-empty (IsEmpty() false, or radius compared against 0).",
		Min: 6,
		Run: runSpecial,
	})
}
