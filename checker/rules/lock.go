package rules

import (
	"fmt"
	"go/constant"
	"go/token"
	"go/types"
	"sort"
	"strings"

	"golang.org/x/tools/go/callgraph"
	"golang.org/x/tools/go/ssa"

	"verif/checker/core"
)

func init() {
	core.Register(&core.Rule{
		Name: "R-LOCK",
		Clause: "C14 'without data races or deadlock' / C13 'no sequence hangs': ShapeIndex.status is only touched through sync/atomic; every Lock of ShapeIndex.mu is released on all paths; " +
			"no function called while mu is held can reach another Lock of mu (self-deadlock); in the lazy-update entry the fast path is taken only after an atomic load observed 'fresh', " +
			"and 'fresh' is published after the updates and before the unlock. Does not cover: fairness or liveness beyond lock re-entrancy.",
		Min: 6,
		Run: runLock,
	})
	core.Register(&core.Rule{
		Name: "R-WRITERS",
		Clause: "C14: the index state read by every iterator (cellMap, cells) and the update bookkeeping (pendingAdditionsPos, pendingRemovals) are written only by functions that can only run " +
			"while ShapeIndex.mu is held, or by the documented single-threaded mutators (NewShapeIndex, Add, Remove, Reset).",
		Min: 4,
		Run: runWriters,
	})
	core.Register(&core.Rule{
		Name: "R-PANIC",
		Clause: "C13/C15 'no such sequence panics': every panic(<constant>) site and every empty stub that is reachable from the public API must be a documented argument-contract panic; " +
			"'not implemented' / 'cannot happen' sites must be unreachable.",
		Min: 10,
		Run: runPanic,
	})
	core.Register(&core.Rule{
		Name:   "R-GLOBAL",
		Clause: "C13/C14/C01/C09: no hidden global state - every package-level variable is written only during package initialisation, and the library imports neither unsafe nor reflect.",
		Min:    30,
		Run:    runGlobal,
	})
}

// ---- helpers about the ShapeIndex mutex ----

func isIndexField(v ssa.Value, field string) bool {
	fr, ok := core.AsFieldAddr(v)
	return ok && fr.Name == field && fr.Struct != nil && fr.Struct.Obj().Name() == "ShapeIndex"
}

// muCall classifies a call as Lock/Unlock/RLock/RUnlock on ShapeIndex.mu.
func muCall(in ssa.Instruction) string {
	ci, ok := in.(ssa.CallInstruction)
	if !ok {
		return ""
	}
	switch in.(type) {
	case *ssa.Defer, *ssa.Go:
		return "" // a deferred Unlock releases at return, not here
	}
	f := core.StaticCallee(ci)
	if f == nil || f.Pkg == nil || f.Pkg.Pkg.Path() != "sync" {
		return ""
	}
	args := ci.Common().Args
	if len(args) == 0 || !isIndexField(args[0], "mu") {
		return ""
	}
	return f.Name()
}

func isAcquire(n string) bool { return n == "Lock" || n == "RLock" }
func isRelease(n string) bool { return n == "Unlock" || n == "RUnlock" }

// lockedInstrs returns the instructions of fn that may execute while mu is held
// (between an acquire and the matching release on some path), and the list of
// paths that reach a return while still holding the lock.
func lockedInstrs(fn *ssa.Function) (held map[ssa.Instruction]bool, leaks []string, nLocks int) {
	held = map[ssa.Instruction]bool{}
	deferredUnlock := false
	core.AllInstrs(fn, func(in ssa.Instruction) {
		if d, ok := in.(*ssa.Defer); ok {
			if f := d.Call.StaticCallee(); f != nil && f.Pkg != nil && f.Pkg.Pkg.Path() == "sync" && isRelease(f.Name()) {
				if len(d.Call.Args) > 0 && isIndexField(d.Call.Args[0], "mu") {
					deferredUnlock = true
				}
			}
		}
	})
	type state struct {
		b   *ssa.BasicBlock
		idx int
	}
	for _, b := range fn.Blocks {
		for i, in := range b.Instrs {
			if !isAcquire(muCall(in)) {
				continue
			}
			nLocks++
			seen := map[state]bool{}
			var walk func(b *ssa.BasicBlock, idx int)
			walk = func(b *ssa.BasicBlock, idx int) {
				if seen[state{b, idx}] {
					return
				}
				seen[state{b, idx}] = true
				for j := idx; j < len(b.Instrs); j++ {
					x := b.Instrs[j]
					if isRelease(muCall(x)) {
						return
					}
					held[x] = true
					if _, isRet := x.(*ssa.Return); isRet && !deferredUnlock {
						leaks = append(leaks, fmt.Sprintf("return in block %d reached with the lock held", b.Index))
						return
					}
				}
				for _, s := range b.Succs {
					walk(s, 0)
				}
			}
			walk(b, i+1)
		}
	}
	return
}

func indexLockers(c *core.Ctx) []*ssa.Function {
	var out []*ssa.Function
	for _, fn := range c.GeoFuncs() {
		has := false
		core.AllInstrs(fn, func(in ssa.Instruction) {
			if isAcquire(muCall(in)) {
				has = true
			}
		})
		if has {
			out = append(out, fn)
		}
	}
	return out
}

// lockAPIs returns the functions that acquire ShapeIndex.mu and the functions
// that directly call one of those (the "locking API": Iterator, Begin, ...).
func lockAPIs(c *core.Ctx) (lockers []*ssa.Function, lockerSet, callsLocker map[*ssa.Function]bool) {
	lockers = indexLockers(c)
	lockerSet = map[*ssa.Function]bool{}
	for _, l := range lockers {
		lockerSet[l] = true
	}
	callsLocker = map[*ssa.Function]bool{}
	for _, fn := range c.GeoFuncs() {
		core.AllInstrs(fn, func(in ssa.Instruction) {
			if ci, ok := in.(ssa.CallInstruction); ok {
				for _, callee := range c.Callees(ci) {
					if lockerSet[callee] {
						callsLocker[fn] = true
					}
				}
			}
		})
	}
	return
}

// heldRegion returns the library functions that may run while mu is held:
// everything reachable from call sites inside a locked region. The traversal
// does not continue below a function of the locking API: a call into that API
// from the region is itself the violation (re-entry), reported at that edge.
func heldRegion(c *core.Ctx) (map[*ssa.Function]*callgraph.Edge, []*ssa.Function) {
	lockers, lockerSet, callsLocker := lockAPIs(c)
	var roots []*ssa.Function
	for _, l := range lockers {
		held, _, _ := lockedInstrs(l)
		var ins []ssa.Instruction
		for in := range held {
			ins = append(ins, in)
		}
		sort.Slice(ins, func(i, j int) bool { return ins[i].Pos() < ins[j].Pos() })
		for _, in := range ins {
			if ci, ok := in.(ssa.CallInstruction); ok {
				for _, callee := range c.Callees(ci) {
					if core.IsGeo(callee) {
						roots = append(roots, callee)
					}
				}
			}
		}
	}
	return c.ReachableFuncs(roots, func(f *ssa.Function) bool { return lockerSet[f] || callsLocker[f] }), lockers
}

func constValueOf(c *core.Ctx, pkg, name string) (constant.Value, bool) {
	p := c.Pkgs[pkg]
	if p == nil {
		return nil, false
	}
	k, ok := p.Types.Scope().Lookup(name).(*types.Const)
	if !ok {
		return nil, false
	}
	return k.Val(), true
}

// statusLoad reports whether v is atomic.LoadInt32(&s.status) (possibly through IsFresh, which is handled by the caller).
func isStatusLoad(v ssa.Value) bool {
	call, ok := v.(*ssa.Call)
	if !ok {
		return false
	}
	f := core.StaticCallee(call)
	return f != nil && f.Pkg != nil && f.Pkg.Pkg.Path() == "sync/atomic" && strings.HasPrefix(f.Name(), "Load") &&
		len(call.Call.Args) == 1 && isIndexField(call.Call.Args[0], "status")
}

// freshEdges returns the edges of fn on which the index status was atomically observed to be 'fresh'.
func freshEdges(c *core.Ctx, fn *ssa.Function) []core.Edge {
	freshVal, ok := constValueOf(c, "s2", "fresh")
	if !ok {
		return nil
	}
	var out []core.Edge
	for _, b := range fn.Blocks {
		if len(b.Instrs) == 0 {
			continue
		}
		iff, ok := b.Instrs[len(b.Instrs)-1].(*ssa.If)
		if !ok {
			continue
		}
		cond := iff.Cond
		trueIdx := 0
		for {
			if u, ok := cond.(*ssa.UnOp); ok && u.Op == token.NOT {
				cond = u.X
				trueIdx = 1 - trueIdx
				continue
			}
			break
		}
		switch x := cond.(type) {
		case *ssa.BinOp:
			if x.Op != token.EQL && x.Op != token.NEQ {
				continue
			}
			var other ssa.Value
			if isStatusLoad(x.X) {
				other = x.Y
			} else if isStatusLoad(x.Y) {
				other = x.X
			} else {
				continue
			}
			k, ok := other.(*ssa.Const)
			if !ok || k.Value == nil || !constant.Compare(k.Value, token.EQL, freshVal) {
				continue
			}
			if x.Op == token.EQL {
				out = append(out, core.Edge{From: b, Idx: trueIdx})
			} else {
				out = append(out, core.Edge{From: b, Idx: 1 - trueIdx})
			}
		case *ssa.Call:
			if f := core.StaticCallee(x); f != nil && f.Name() == "IsFresh" && core.IsGeo(f) {
				out = append(out, core.Edge{From: b, Idx: trueIdx})
			}
		}
	}
	return out
}

func runLock(c *core.Ctx) []core.Obligation {
	var obs []core.Obligation
	// (a) status only through sync/atomic.
	for _, fn := range c.GeoFuncs() {
		n := 0
		core.AllInstrs(fn, func(in ssa.Instruction) {
			fa, ok := in.(*ssa.FieldAddr)
			if !ok || !isIndexField(fa, "status") {
				return
			}
			n++
			construct := fmt.Sprintf("atomic-status:%s#%d", core.FuncName(fn), n)
			bad := ""
			for _, ref := range *fa.Referrers() {
				switch r := ref.(type) {
				case ssa.CallInstruction:
					f := core.StaticCallee(r)
					if f == nil || f.Pkg == nil || f.Pkg.Pkg.Path() != "sync/atomic" {
						bad = "address passed to a non-atomic function"
					}
				case *ssa.Store:
					// initialisation of a freshly allocated index (composite literal) is not shared yet
					if _, fresh := fa.X.(*ssa.Alloc); !(fresh && r.Addr == fa) {
						bad = "plain store"
					}
				case *ssa.DebugRef:
				default:
					bad = fmt.Sprintf("plain access (%T)", ref)
				}
			}
			if bad != "" {
				obs = append(obs, core.Ob("R-LOCK", construct, c.Pos(fa.Pos()), core.FuncName(fn), core.Violated,
					"ShapeIndex.status is the only cross-goroutine signal and must be accessed with sync/atomic: "+bad))
			} else {
				obs = append(obs, core.Ob("R-LOCK", construct, c.Pos(fa.Pos()), core.FuncName(fn), core.Discharged, "status accessed through sync/atomic (or initialised in a fresh object)"))
			}
		})
	}
	// (b) balanced lock/unlock.
	region, lockers := heldRegion(c)
	if len(lockers) == 0 {
		obs = append(obs, core.Ob("R-LOCK", "anchor:lockers", "-", "", core.Violated, "no function locks ShapeIndex.mu: the lazy-update entry point has lost its mutex"))
	}
	_, lockerSet, callsLocker := lockAPIs(c)
	for _, l := range lockers {
		_, leaks, n := lockedInstrs(l)
		construct := "balanced:" + core.FuncName(l)
		if len(leaks) > 0 {
			obs = append(obs, core.Ob("R-LOCK", construct, c.Pos(l.Pos()), core.FuncName(l), core.Violated, strings.Join(leaks, "; ")))
		} else {
			obs = append(obs, core.Ob("R-LOCK", construct, c.Pos(l.Pos()), core.FuncName(l), core.Discharged, fmt.Sprintf("%d acquire(s), each released on every path to a return", n)))
		}
	}
	// (c) no re-entry: no function of the held region calls a locker or a function that directly calls one.
	var regionFuncs []*ssa.Function
	for f := range region {
		regionFuncs = append(regionFuncs, f)
	}
	sort.Slice(regionFuncs, func(i, j int) bool { return regionFuncs[i].String() < regionFuncs[j].String() })
	reentries := 0
	for _, x := range regionFuncs {
		if lockerSet[x] || callsLocker[x] {
			continue // reported at the edge that enters this API
		}
		seen := map[*ssa.Function]bool{}
		core.AllInstrs(x, func(in ssa.Instruction) {
			ci, ok := in.(ssa.CallInstruction)
			if !ok {
				return
			}
			for _, g := range c.Callees(ci) {
				if !(lockerSet[g] || callsLocker[g]) || seen[g] {
					continue
				}
				seen[g] = true
				reentries++
				obs = append(obs, core.Ob("R-LOCK", fmt.Sprintf("reentry:%s->%s", core.FuncName(x), core.FuncName(g)), c.Pos(in.Pos()), core.FuncName(x), core.Violated,
					fmt.Sprintf("self-deadlock: %s can run while ShapeIndex.mu is held (%s) and calls %s, which acquires the same mutex again", core.FuncName(x), core.PathTo(region, x), core.FuncName(g))))
			}
		})
	}
	o := core.Ob("R-LOCK", "reentry:held-region", "-", "", core.Discharged, fmt.Sprintf("%d functions may run while the mutex is held; %d call edges from them re-enter a locking API", len(region), reentries))
	obs = append(obs, o)
	// (d) publication order and fast path, in every locker.
	for _, l := range lockers {
		construct := "publish:" + core.FuncName(l)
		fe := freshEdges(c, l)
		// fast path: entry -> return avoiding fresh-edges and lock blocks must be impossible
		lockBlocks := map[*ssa.BasicBlock]bool{}
		var lockBlock *ssa.BasicBlock
		core.AllInstrs(l, func(in ssa.Instruction) {
			if isAcquire(muCall(in)) {
				lockBlocks[in.Block()] = true
				lockBlock = in.Block()
			}
		})
		badFast := false
		for _, b := range l.Blocks {
			if _, isRet := b.Instrs[len(b.Instrs)-1].(*ssa.Return); !isRet {
				continue
			}
			if lockBlocks[b] {
				continue
			}
			if core.ReachableAvoiding(l.Blocks[0], b, fe, lockBlocks) && !lockBlocks[l.Blocks[0]] {
				badFast = true
			}
		}
		// order: after Lock: call that applies updates, then atomic store of fresh, then Unlock
		held, _, _ := lockedInstrs(l)
		var seq []ssa.Instruction
		for in := range held {
			seq = append(seq, in)
		}
		sort.Slice(seq, func(i, j int) bool {
			if seq[i].Block() != seq[j].Block() {
				return seq[i].Block().Index < seq[j].Block().Index
			}
			return core.InstrBlockIndex(seq[i]) < core.InstrBlockIndex(seq[j])
		})
		freshVal, _ := constValueOf(c, "s2", "fresh")
		applyIdx, storeIdx := -1, -1
		for i, in := range seq {
			if ci, ok := in.(ssa.CallInstruction); ok {
				f := core.StaticCallee(ci)
				if f != nil && core.IsGeo(f) && applyIdx < 0 {
					applyIdx = i
				}
				if f != nil && f.Pkg != nil && f.Pkg.Pkg.Path() == "sync/atomic" && strings.HasPrefix(f.Name(), "Store") &&
					len(ci.Common().Args) == 2 && isIndexField(ci.Common().Args[0], "status") {
					if k, ok := ci.Common().Args[1].(*ssa.Const); ok && freshVal != nil && constant.Compare(k.Value, token.EQL, freshVal) {
						storeIdx = i
					}
				}
			}
		}
		sameBlockOrDominates := applyIdx >= 0 && storeIdx >= 0 && seq[applyIdx].Block().Dominates(seq[storeIdx].Block())
		switch {
		case len(fe) == 0:
			obs = append(obs, core.Ob("R-LOCK", construct, c.Pos(l.Pos()), core.FuncName(l), core.Violated, "no comparison of an atomic load of status with 'fresh' guards the fast path"))
		case badFast:
			obs = append(obs, core.Ob("R-LOCK", construct, c.Pos(l.Pos()), core.FuncName(l), core.Violated,
				"a path returns without taking the mutex although the atomic load did not observe 'fresh' (e.g. it observed an in-progress update): the caller would read a half-built index"))
		case applyIdx < 0 || storeIdx < 0 || storeIdx < applyIdx || !sameBlockOrDominates:
			obs = append(obs, core.Ob("R-LOCK", construct, c.Pos(l.Pos()), core.FuncName(l), core.Violated,
				"'fresh' must be stored atomically after the updates are applied and before the mutex is released, on every path"))
		default:
			obs = append(obs, core.Ob("R-LOCK", construct, c.Pos(l.Pos()), core.FuncName(l), core.Discharged,
				fmt.Sprintf("fast path only on an atomic load == fresh; under the mutex: %s, then atomic store of fresh, then unlock", core.FuncName(core.StaticCallee(seq[applyIdx].(ssa.CallInstruction))))))
		}
		_ = lockBlock
	}
	// (d3) who stores which status value
	allowedFresh := map[string]string{
		"s2.NewShapeIndex":       "constructor: empty index has nothing pending",
		"(*s2.ShapeIndex).Reset": "documented single-threaded mutator: index emptied",
	}
	for _, l := range lockers {
		allowedFresh[core.FuncName(l)] = "lazy-update entry (checked above)"
	}
	for _, fn := range c.GeoFuncs() {
		core.AllInstrs(fn, func(in ssa.Instruction) {
			ci, ok := in.(ssa.CallInstruction)
			if !ok {
				return
			}
			f := core.StaticCallee(ci)
			if f == nil || f.Pkg == nil || f.Pkg.Pkg.Path() != "sync/atomic" || !strings.HasPrefix(f.Name(), "Store") {
				return
			}
			args := ci.Common().Args
			if len(args) != 2 || !isIndexField(args[0], "status") {
				return
			}
			freshVal, _ := constValueOf(c, "s2", "fresh")
			k, isConst := args[1].(*ssa.Const)
			isFreshStore := isConst && freshVal != nil && constant.Compare(k.Value, token.EQL, freshVal)
			construct := fmt.Sprintf("status-store:%s", core.FuncName(fn))
			if isFreshStore {
				if why, ok := allowedFresh[core.FuncName(fn)]; ok {
					obs = append(obs, core.Ob("R-LOCK", construct, c.Pos(in.Pos()), core.FuncName(fn), core.Discharged, "stores fresh: "+why))
				} else {
					obs = append(obs, core.Ob("R-LOCK", construct, c.Pos(in.Pos()), core.FuncName(fn), core.Violated,
						"publishes 'fresh' outside the lazy-update entry, the constructor and Reset: readers may skip a pending update"))
				}
			} else {
				obs = append(obs, core.Ob("R-LOCK", construct, c.Pos(in.Pos()), core.FuncName(fn), core.Discharged, "marks the index as needing an update"))
			}
		})
	}
	obs = append(obs, exclusiveUpdate(c)...)
	return obs
}

// ---------------------------------------------------------------------------

var indexSharedFields = map[string]bool{"cellMap": true, "cells": true, "pendingAdditionsPos": true, "pendingRemovals": true}

var singleThreadedMutators = map[string]string{
	"s2.NewShapeIndex":        "constructor: the object is not shared yet",
	"(*s2.ShapeIndex).Add":    "documented mutator: must not run concurrently with queries",
	"(*s2.ShapeIndex).Remove": "documented mutator: must not run concurrently with queries",
	"(*s2.ShapeIndex).Reset":  "documented mutator: must not run concurrently with queries",
}

// fieldWrites lists the instructions of fn that write ShapeIndex field f (store, map update, delete).
func indexFieldWrites(fn *ssa.Function) map[string][]ssa.Instruction {
	out := map[string][]ssa.Instruction{}
	core.AllInstrs(fn, func(in ssa.Instruction) {
		switch x := in.(type) {
		case *ssa.Store:
			if fr, ok := core.AsFieldAddr(x.Addr); ok && fr.Struct != nil && fr.Struct.Obj().Name() == "ShapeIndex" && indexSharedFields[fr.Name] {
				out[fr.Name] = append(out[fr.Name], in)
			}
		case *ssa.MapUpdate:
			if fr, ok := core.AsFieldLoad(x.Map); ok && fr.Struct != nil && fr.Struct.Obj().Name() == "ShapeIndex" && indexSharedFields[fr.Name] {
				out[fr.Name] = append(out[fr.Name], in)
			}
		case *ssa.Call:
			if b, ok := x.Call.Value.(*ssa.Builtin); ok && b.Name() == "delete" && len(x.Call.Args) > 0 {
				if fr, ok := core.AsFieldLoad(x.Call.Args[0]); ok && fr.Struct != nil && fr.Struct.Obj().Name() == "ShapeIndex" && indexSharedFields[fr.Name] {
					out[fr.Name] = append(out[fr.Name], in)
				}
			}
		}
	})
	return out
}

// lockOnlySet computes the greatest set S of functions such that every call
// edge into a member comes from a member or from a call site inside a locked region.
func lockOnlySet(c *core.Ctx) map[*ssa.Function]bool {
	region, lockers := heldRegion(c)
	lockedSites := map[ssa.Instruction]bool{}
	for _, l := range lockers {
		held, _, _ := lockedInstrs(l)
		for in := range held {
			lockedSites[in] = true
		}
	}
	s := map[*ssa.Function]bool{}
	for f := range region {
		s[f] = true
	}
	cg := c.CallGraph()
	for changed := true; changed; {
		changed = false
		for f := range s {
			n := cg.Nodes[f]
			if n == nil {
				continue
			}
			for _, e := range n.In {
				if e.Site != nil && lockedSites[e.Site] {
					continue
				}
				if s[e.Caller.Func] {
					continue
				}
				if !core.IsGeo(e.Caller.Func) && e.Caller.Func.Synthetic != "" {
					continue
				}
				delete(s, f)
				changed = true
				break
			}
		}
	}
	return s
}

func runWriters(c *core.Ctx) []core.Obligation {
	var obs []core.Obligation
	lockOnly := lockOnlySet(c)
	for _, fn := range c.GeoFuncs() {
		w := indexFieldWrites(fn)
		var fields []string
		for f := range w {
			fields = append(fields, f)
		}
		sort.Strings(fields)
		for _, f := range fields {
			construct := fmt.Sprintf("%s:writes:%s", core.FuncName(fn), f)
			site := c.Pos(w[f][0].Pos())
			name := core.FuncName(fn)
			if fn.Parent() != nil {
				name = core.FuncName(fn.Parent())
			}
			switch {
			case singleThreadedMutators[name] != "":
				obs = append(obs, core.Ob("R-WRITERS", construct, site, core.FuncName(fn), core.Discharged, singleThreadedMutators[name]))
			case lockOnly[fn]:
				obs = append(obs, core.Ob("R-WRITERS", construct, site, core.FuncName(fn), core.Discharged, "every call path into this function starts inside the region where ShapeIndex.mu is held"))
			default:
				obs = append(obs, core.Ob("R-WRITERS", construct, site, core.FuncName(fn), core.Violated,
					fmt.Sprintf("writes ShapeIndex.%s but can be called without ShapeIndex.mu held and is not one of the documented single-threaded mutators: concurrent readers race with it", f)))
			}
		}
	}
	// the update cursor (after round-8 seed C14-r8m1, the collection of the pending edges moved in front of the
	// Lock): pendingAdditionsPos and pendingRemovals say what is still to be indexed, and applyUpdatesInternal
	// advances them under the mutex. A goroutine that READS them without the mutex can act on a stale cursor - two
	// first queries both collect the same pending shapes and the second applies them again to an index that has
	// already been published as fresh. Readers are therefore held to the same discipline as writers.
	for _, fn := range c.GeoFuncs() {
		reads := map[string]ssa.Instruction{}
		core.AllInstrs(fn, func(in ssa.Instruction) {
			ld, ok := in.(*ssa.UnOp)
			if !ok || ld.Op != token.MUL {
				return
			}
			fr, ok := core.AsFieldAddr(ld.X)
			if !ok || fr.Struct == nil || fr.Struct.Obj().Name() != "ShapeIndex" || (fr.Name != "pendingAdditionsPos" && fr.Name != "pendingRemovals") {
				return
			}
			if _, seen := reads[fr.Name]; !seen {
				reads[fr.Name] = in
			}
		})
		var fields []string
		for f := range reads {
			fields = append(fields, f)
		}
		sort.Strings(fields)
		for _, f := range fields {
			construct := fmt.Sprintf("%s:reads:%s", core.FuncName(fn), f)
			site := c.Pos(reads[f].Pos())
			name := core.FuncName(fn)
			if fn.Parent() != nil {
				name = core.FuncName(fn.Parent())
			}
			switch {
			case singleThreadedMutators[name] != "":
				obs = append(obs, core.Ob("R-WRITERS", construct, site, core.FuncName(fn), core.Discharged, singleThreadedMutators[name]))
			case lockOnly[fn]:
				obs = append(obs, core.Ob("R-WRITERS", construct, site, core.FuncName(fn), core.Discharged, "every call path into this function starts inside the region where ShapeIndex.mu is held"))
			default:
				obs = append(obs, core.Ob("R-WRITERS", construct, site, core.FuncName(fn), core.Violated,
					fmt.Sprintf("reads the update cursor ShapeIndex.%s but can be called without ShapeIndex.mu held and is not one of the documented single-threaded mutators: two goroutines whose first queries overlap both see the same pending shapes, and the one that gets the mutex second applies them again to an index that is already published as fresh", f)))
			}
		}
	}
	return obs
}

// ---------------------------------------------------------------------------

// argumentContractPanics: panics that state a precondition on a caller-supplied argument.
var argumentContractPanics = map[string]string{
	"i and/or j is out of bounds":                                      "Cell.Edge/Vertex style accessor contract on the index argument",
	"labels must be non-negative":                                      "CellIndex.Add contract on the label argument",
	"too many ShapeIndexIteratorPos arguments":                         "NewShapeIndexIterator variadic contract",
	"unknown ShapeIndexIteratorPos value":                              "NewShapeIndexIterator contract on the enum argument",
	"unsupported n. Must be within [0,10].":                            "nthDerivativeCoder constructor contract (internal callers pass a constant)",
	"unsupported type for rounding epsilon":                            "roundingEpsilon type-switch contract (internal callers pass float64/*big.Float)",
	"FullLoops are not yet supported":                                  "LaxLoopFromLoop documents that full loops are rejected",
	"encodeCompressed: vertices must be the same length as l.vertices": "internal contract between Polygon.encodeCompressed and Loop.encodeCompressed (lengths come from the same slice)",
}

// defensivePanics: sites guarded by a condition the surrounding arithmetic makes impossible; each with its reason.
var defensivePanics = map[string]string{
	"illegal case reached":            "edge_distances.go: switch over a value computed as one of three cases",
	"impossible: negative lngDiff":    "rect.go: lngDiff is an absolute value / interval length",
	"impossible: lngDiff > Pi":        "rect.go: interval length of a longitude interval is at most Pi by construction",
	"invariant failure in ShapeIndex": "absorbIndexCell: only on the incremental-update path (see known finding D3)",
}

func publicEntryPoints(c *core.Ctx) []*ssa.Function {
	var roots []*ssa.Function
	for _, fn := range c.GeoFuncs() {
		if fn.Parent() != nil {
			continue
		}
		obj := fn.Object()
		if obj == nil || !obj.Exported() {
			continue
		}
		if recv := fn.Signature.Recv(); recv != nil {
			t := recv.Type()
			if p, ok := t.(*types.Pointer); ok {
				t = p.Elem()
			}
			if n, ok := t.(*types.Named); ok && !n.Obj().Exported() {
				// methods of unexported types are reached through interfaces; VTA follows those
				continue
			}
		}
		roots = append(roots, fn)
	}
	return roots
}

func runPanic(c *core.Ctx) []core.Obligation {
	var obs []core.Obligation
	roots := publicEntryPoints(c)
	reach := c.ReachableFuncs(roots, nil)
	if len(roots) < 500 {
		obs = append(obs, core.Ob("R-PANIC", "anchor:entry-points", "-", "", core.Violated, fmt.Sprintf("only %d public entry points found", len(roots))))
	}
	for _, fn := range c.GeoFuncs() {
		n := 0
		core.AllInstrs(fn, func(in ssa.Instruction) {
			p, ok := in.(*ssa.Panic)
			if !ok {
				return
			}
			msg := "<non-constant>"
			if mi, ok := p.X.(*ssa.MakeInterface); ok {
				if k, ok := mi.X.(*ssa.Const); ok && k.Value != nil && k.Value.Kind() == constant.String {
					msg = constant.StringVal(k.Value)
				}
			}
			n++
			construct := fmt.Sprintf("panic:%s:%q", core.FuncName(fn), msg)
			_, reachable := reach[fn]
			site := c.Pos(p.Pos())
			switch {
			case !reachable:
				obs = append(obs, core.Ob("R-PANIC", construct, site, core.FuncName(fn), core.Discharged, "not reachable from any public entry point"))
			case argumentContractPanics[msg] != "":
				obs = append(obs, core.Ob("R-PANIC", construct, site, core.FuncName(fn), core.Discharged, "argument-contract panic: "+argumentContractPanics[msg]))
			case defensivePanics[msg] != "":
				obs = append(obs, core.Ob("R-PANIC", construct, site, core.FuncName(fn), core.Discharged, "defensive panic behind an arithmetic impossibility: "+defensivePanics[msg]))
			default:
				obs = append(obs, core.Ob("R-PANIC", construct, site, core.FuncName(fn), core.Violated,
					fmt.Sprintf("panic(%q) is reachable from the public API (%s) and is not an argument-contract panic", msg, core.PathTo(reach, fn))))
			}
		})
	}
	// Empty stubs: functions with a body that does nothing, taking arguments, called on a live path.
	for _, fn := range c.GeoFuncs() {
		if fn.Parent() != nil || fn.Signature.Params().Len() == 0 || fn.Signature.Results().Len() != 0 {
			continue
		}
		if _, reachable := reach[fn]; !reachable {
			continue
		}
		real := 0
		core.AllInstrs(fn, func(in ssa.Instruction) {
			switch in.(type) {
			case *ssa.Return, *ssa.DebugRef, *ssa.Jump:
			default:
				real++
			}
		})
		if real > 0 {
			continue
		}
		// an empty method that satisfies a marker interface has no parameters and was skipped above
		construct := "stub:" + core.FuncName(fn)
		obs = append(obs, core.Ob("R-PANIC", construct, c.Pos(fn.Pos()), core.FuncName(fn), core.Violated,
			fmt.Sprintf("%s takes arguments, has an empty body and is called on a live path (%s): the operation it stands for silently does nothing", core.FuncName(fn), core.PathTo(reach, fn))))
	}
	return obs
}

// ---------------------------------------------------------------------------

func runGlobal(c *core.Ctx) []core.Obligation {
	var obs []core.Obligation
	// import scan
	for _, p := range c.All {
		for path := range p.Imports {
			if path == "unsafe" || path == "reflect" {
				obs = append(obs, core.Ob("R-GLOBAL", "import:"+p.Name+":"+path, "-", "", core.Violated, "the analyses assume neither unsafe nor reflect is used"))
			}
		}
	}
	// functions reachable only from init
	cg := c.CallGraph()
	initOnly := map[*ssa.Function]bool{}
	for _, sp := range c.SSAPkgs {
		if f := sp.Func("init"); f != nil {
			initOnly[f] = true
		}
	}
	for changed := true; changed; {
		changed = false
		for _, fn := range c.GeoFuncs() {
			if initOnly[fn] {
				continue
			}
			n := cg.Nodes[fn]
			if n == nil || len(n.In) == 0 {
				continue
			}
			all := true
			for _, e := range n.In {
				if e.Caller.Func != fn && !initOnly[e.Caller.Func] {
					all = false
				}
			}
			// "init#1" style functions and closures in initialisers
			if all || strings.HasPrefix(fn.Name(), "init#") {
				initOnly[fn] = true
				changed = true
			}
		}
	}
	for _, p := range c.All {
		sp := c.SSAPkgs[p.Name]
		var names []string
		for name, m := range sp.Members {
			if _, ok := m.(*ssa.Global); ok {
				names = append(names, name)
			}
		}
		sort.Strings(names)
		for _, name := range names {
			g := sp.Members[name].(*ssa.Global)
			if strings.HasPrefix(name, "init$") {
				continue
			}
			construct := "global:" + p.Name + "." + name
			var bad []string
			for _, fn := range c.GeoFuncs() {
				core.AllInstrs(fn, func(in ssa.Instruction) {
					writes := false
					switch x := in.(type) {
					case *ssa.Store:
						for _, l := range locate(x.Addr) {
							if l.kind == "local" && l.v == ssa.Value(g) {
								writes = true
							}
						}
						// a store into a field or element of the variable (g.f = v, g[i] = v) ...
						base := x.Addr
						for i := 0; i < 6; i++ {
							switch y := base.(type) {
							case *ssa.FieldAddr:
								base = y.X
							case *ssa.IndexAddr:
								base = y.X
							}
						}
						if base == ssa.Value(g) {
							writes = true
						}
						// ... and the variable's address stored somewhere (p.rel = &g): whoever reads it may write g
						if x.Val == ssa.Value(g) {
							writes = true
						}
					case *ssa.MakeInterface:
						// &g converted to an interface value: its methods may write g
						if x.X == ssa.Value(g) {
							writes = true
						}
					case *ssa.MapUpdate:
						if ld, ok := x.Map.(*ssa.UnOp); ok && ld.X == ssa.Value(g) {
							writes = true
						}
					case *ssa.UnOp:
						// a POINTER read out of the variable (g itself, g[i], g.f) and used as the receiver of a method outside
						// the library (after round-9 seeds C02-r9m2 and C16-r9m1, package-level scratch *big.Float values
						// whose Mul is called from Dot / Cross): such methods write through their receiver (big.Float.Mul,
						// Set, ... store the result there), so the object the variable points to is written on every call
						if x.Op == token.MUL {
							base := x.X
							for i := 0; i < 3; i++ {
								switch y := base.(type) {
								case *ssa.FieldAddr:
									base = y.X
								case *ssa.IndexAddr:
									base = y.X
								}
							}
							if base == ssa.Value(g) {
								if _, isPtr := x.Type().Underlying().(*types.Pointer); isPtr {
									for _, r := range *x.Referrers() {
										ci, ok := r.(ssa.CallInstruction)
										if !ok || ci.Common().IsInvoke() || len(ci.Common().Args) == 0 || ci.Common().Args[0] != ssa.Value(x) {
											continue
										}
										callee := ci.Common().StaticCallee()
										if callee == nil || callee.Signature.Recv() == nil || core.IsGeo(callee) {
											continue
										}
										if _, ptrRecv := callee.Signature.Recv().Type().(*types.Pointer); ptrRecv {
											writes = true
										}
									}
								}
							}
						}
					case ssa.CallInstruction:
						// the variable's own storage handed to a callee: &g, &g.f, &g[i] or g[:] of a package-level array
						// (the callee may write it - e.g. a shared scratch buffer passed to binary.PutUvarint)
						for _, a := range x.Common().Args {
							base := a
							if sl, ok := base.(*ssa.Slice); ok {
								base = sl.X
							}
							for i := 0; i < 4; i++ {
								switch y := base.(type) {
								case *ssa.FieldAddr:
									base = y.X
								case *ssa.IndexAddr:
									base = y.X
								}
							}
							if base == ssa.Value(g) {
								writes = true
							}
						}
					}
					if writes && !initOnly[fn] && !(fn.Parent() != nil && initOnly[fn.Parent()]) {
						bad = append(bad, fmt.Sprintf("%s at %s", core.FuncName(fn), c.Pos(in.Pos())))
					}
				})
			}
			// a package-level POINTER to a struct (after round-6 seed C13-r6m2, shared default *EdgeQueryOptions): the
			// variable is never written, but the object it points to is shared by everything the pointer is handed
			// to. Storing the loaded pointer into an object's field, or returning it, gives every such object the
			// same mutable struct - one query's option changes then show up in all the others.
			if pt, isPtr := g.Type().(*types.Pointer).Elem().Underlying().(*types.Pointer); isPtr {
				if _, isStruct := pt.Elem().Underlying().(*types.Struct); isStruct {
					for _, fn := range c.GeoFuncs() {
						if initOnly[fn] || (fn.Parent() != nil && initOnly[fn.Parent()]) {
							continue
						}
						core.AllInstrs(fn, func(in ssa.Instruction) {
							ld, ok := in.(*ssa.UnOp)
							if !ok || ld.Op != token.MUL || ld.X != ssa.Value(g) {
								return
							}
							seen := map[ssa.Value]bool{}
							var escapes func(v ssa.Value) string
							escapes = func(v ssa.Value) string {
								if seen[v] {
									return ""
								}
								seen[v] = true
								for _, r := range *v.Referrers() {
									switch u := r.(type) {
									case *ssa.Store:
										if u.Val == v {
											if _, local := u.Addr.(*ssa.Alloc); !local {
												return "stored into an object"
											}
										}
									case *ssa.Return:
										return "returned"
									case *ssa.Phi:
										if w := escapes(u); w != "" {
											return w
										}
									case *ssa.MakeInterface:
										return "converted to an interface"
									case *ssa.FieldAddr:
										// a pointer held in a field of the shared object is just as shared
										if u.X != v {
											continue
										}
										for _, fr := range *u.Referrers() {
											if l2, ok := fr.(*ssa.UnOp); ok && l2.Op == token.MUL {
												switch l2.Type().Underlying().(type) {
												case *types.Pointer, *types.Map, *types.Slice:
													if w := escapes(l2); w != "" {
														return w
													}
												}
											}
										}
									}
								}
								return ""
							}
							if w := escapes(ld); w != "" {
								bad = append(bad, fmt.Sprintf("%s at %s (the shared pointer is %s)", core.FuncName(fn), c.Pos(in.Pos()), w))
							}
						})
					}
				}
			}
			if len(bad) > 0 {
				obs = append(obs, core.Ob("R-GLOBAL", construct, c.Pos(g.Pos()), "", core.Violated,
					"package-level variable written after initialisation by "+strings.Join(bad, ", ")+": answers may depend on call history and concurrent queries race on it"))
			} else {
				obs = append(obs, core.Ob("R-GLOBAL", construct, c.Pos(g.Pos()), "", core.Discharged, "written only during package initialisation"))
			}
		}
	}
	return obs
}
