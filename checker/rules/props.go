// Package rules holds the rule families of DESIGN.md section 3 and the
// mapping from properties to the rules that serve them.
package rules

import "sort"

// PropertySpec says which rules decide which clause of a property.
type PropertySpec struct {
	// Only restricts, per rule, the obligations reported under this property to those whose construct contains one of
	// the given substrings (a shared rule has clauses for several properties; each is reported where it belongs).
	Only        map[string][]string
	Rules       []string
	Explanation string
	NotCovered  string
	Assumptions []string
}

// Properties maps a claimed property id to its rules.
var Properties = map[string]PropertySpec{}

// PropertyIDs lists the claimed properties.
func PropertyIDs() []string {
	var ids []string
	for k := range Properties {
		ids = append(ids, k)
	}
	sort.Strings(ids)
	return ids
}

func init() {
	Properties["C15"] = PropertySpec{
		Rules: []string{"R-ALLOC", "R-INDEX", "R-TERM", "R-STICKY"},
		Explanation: "Structural necessary conditions of total decoding, decided for every decoder path of the library: (R-ALLOC) every allocation sized by input is behind a limit check whose failing branch leaves, and cannot be negative; " +
			"(R-INDEX) every index that input can choose - directly, via a struct field, or via an unvalidated decoded value used later - is bounds-checked, masked to fit, or validated; " +
			"(R-TERM) every input-dependent loop is bounded or consumes input and leaves on error; (R-STICKY) errors reach the caller.",
		NotCovered:  "panics other than out-of-range index / make in later queries on decoded-but-degenerate geometry, except the three that are decided: zero-vertex loops (R-DECSHAPE zerovertices), non-finite coordinates (R-FINITE), uninitialised loops/polygons (R-INIT); memory use below the documented limits; behaviour of io.Reader implementations beyond short reads.",
		Assumptions: []string{"64-bit int (GOARCH with 64-bit int) for the narrower-unsigned-conversion argument", "the sanitizer table (CellID.IsValid) states the precondition of face-table lookups"},
	}
}

func init() {
	Properties["C14"] = PropertySpec{
		Rules: []string{"R-LOCK", "R-WRITERS", "R-READONLY", "R-SYNCED", "R-GLOBAL"},
		Explanation: "Race freedom of concurrent read-only queries, reduced to its structural conditions: the status word is atomic, the mutex is balanced and never re-entered, readers take the fast path only after observing 'fresh', " +
			"'fresh' is published last, and the shared index state is written only under the mutex or by documented single-threaded mutators.",
		NotCovered: "serial equivalence of the answers themselves; liveness beyond lock re-entrancy; races in caller code.",
	}
	Properties["C13"] = PropertySpec{
		Rules:       []string{"R-LOCK", "R-PANIC", "R-RESET", "R-SCRATCH", "R-OPTS", "R-INIT", "R-SYNCED", "R-PARTITION", "R-GLOBAL"},
		Explanation: "History independence, reduced to which state a call can leave behind and whether a sequence can hang or hit an unimplemented path.",
		NotCovered:  "equality of answers across histories on concrete data.",
	}
}

func init() {
	Properties["C06"] = PropertySpec{
		Rules:       []string{"R-SIBSHAPE", "R-RANGE"},
		Explanation: "Index queries equal brute force, reduced to structural conditions on the query-side cell location and on the Shape accessors.",
		NotCovered:  "that every edge is listed in every index cell it meets (clipping arithmetic); numeric behaviour of the crossing tests.",
	}
}

func init() {
	Properties["C08"] = PropertySpec{
		Rules: []string{"R-CYCLE", "R-SETUSE", "R-POLARITY", "R-QUERYFLOW", "R-SCRATCH", "R-OPTS"},
		Explanation: "Optimized closest/furthest edge search equals brute force, reduced to the structural conditions the algorithm depends on: enumeration loops really enumerate, the duplicate set is fed and consulted " +
			"with the right polarity, min- and max-distance families do not mix, results are post-processed on every path, the queue key is conservative exactly when an error is permitted, and per-call state/options do not leak between calls.",
		NotCovered: "that Cell.Distance*/MaxDistance* are true bounds (numeric), optimality of the returned set on concrete data.",
	}
}

func init() {
	Properties["C07"] = PropertySpec{
		Rules: []string{"R-CONJ", "R-SHELLSEL", "R-BOUNDGUARD", "R-PAIR"},
		Explanation: "Point-set semantics of loop/polygon relations, reduced to the structural contract of the two-index walk: both crossing targets must match (with the right polarity, on the right loop's cell), the relations return their documented targets, " +
			"the two crossers mirror each other, wedges are passed in A-first order, and bound-based early rejection only uses the bound grown for sub-regions, which is kept in step with the bound.",
		NotCovered: "the set-algebra laws on concrete pairs; wedge predicates' numeric correctness; nesting-depth parity of assembled polygons.",
	}
	Properties["C10"] = PropertySpec{
		Rules:       []string{"R-PAIR", "R-BOUNDGUARD"},
		Explanation: "Conservative bounds, reduced to: every write of a loop/polygon bound is paired with the derived sub-region bound, and containment rejection uses that grown bound.",
		NotCovered:  "sufficiency of the error constants; that RectBounder's per-edge latitude extremum is right; convex hull convexity.",
	}
}

func init() {
	Properties["C19"] = PropertySpec{
		Rules: []string{"R-ORDER", "R-COMPONENT", "R-SPECIAL"},
		Explanation: "Soundness of the interval algebra with respect to point membership, decided exhaustively over the order types of the operands for the comparison-only code of r1.Interval and s1.Interval " +
			"(abstract interpretation of the source over weak orderings), plus the component-wise composition of the rectangle operations.",
		NotCovered:  "Expanded, Project, Center, Length, ApproxEqual, chord-angle arithmetic and all of Cap (genuine arithmetic); s2.Rect operations with polar/antimeridian special cases beyond Contains/Intersects/Union.",
		Assumptions: []string{"operands of s1.Interval lie in [-Pi, Pi] (the type's documented domain)", "the point-set specification written in orderspec.go (closed intervals; -Pi identified with Pi; empty = (Pi,-Pi))"},
	}
}

func init() {
	Properties["C16"] = PropertySpec{
		Rules: []string{"R-ORDERINDEP", "R-CONST", "R-SELFCMP", "R-GLOBAL"},
		Explanation: "Narrow claim. Of the intersection-point property only the order-independence machinery and the error constants are decided: the hemisphere correction is a function of all " +
			"four vertices, distance ties fall back to a comparison of the points, the two edges are canonicalised by one consistently renamed pair of statements, the exact method runs only " +
			"when the stable one declined, and none of the error constants of the stable method is weakened.",
		NotCovered: "the accuracy claim itself (8 * 2^-53 rad): that the stable method's running error bound is right and that it declines exactly when needed is floating-point behaviour; " +
			"the collinear-edge rule of the exact method.",
	}
	anchorFiles["C16"] = []string{"s2/edge_crossings.go", "r3/precisevector.go", "s2/point.go"}
	Properties["C17"] = PropertySpec{
		Rules: []string{"R-ERRMODEL", "R-CONST", "R-UNITS", "R-SELFCMP", "R-TWIN", "R-UPDATER", "R-CONSTREL"},
		Explanation: "Narrow claim. Of the distance primitives only the documented error model is decided: the error allowances of the interior-distance test and of the error functions are not " +
			"weakened, the error of UpdateMinDistance is the larger of the interior-case and the point-distance error, and chord angles are not combined with built-in arithmetic.",
		NotCovered: "that the computed distances, projections and interpolations meet those bounds; the interior/vertex case decision; max distance through the antipode; polyline walks.",
	}
	anchorFiles["C17"] = []string{"s2/edge_distances.go", "s2/polyline.go", "s2/point.go", "s1/chordangle.go", "s2/polyline_measures.go"}
	Properties["C20"] = PropertySpec{
		Rules: []string{"R-TOLERANCE", "R-CONST", "R-SELFCMP", "R-UNITS"},
		Explanation: "Narrow claim. Of the approximation operators only what is visible in code shape is decided: the tessellator compares its (under-)estimate with the requested tolerance times " +
			"the documented scale factor, takes the estimate at both interior fractions, does not raise its tolerance floor, and the snap radii include their rounding allowances.",
		NotCovered: "the achieved error of tessellation, subsampling and snapping on concrete inputs; projection round trips; the wedge tracking of SubsampleVertices. Observed and not covered: " +
			"IntLatLngSnapper.SnapPoint rounds radians (not degrees) times 10^exponent; NewCellIDSnapper leaves the snap radius at 0.",
	}
	anchorFiles["C20"] = []string{"s2/edge_tessellator.go", "s2/projections.go", "s2/polyline.go", "s2/builder_snapper.go", "s2/latlng.go"}
}

func init() {
	Properties["C12"] = PropertySpec{
		Rules: []string{"R-CONST", "R-LAZY", "R-MIRROR", "R-TWIN", "R-SELFCMP", "R-UNITS", "R-FACEBOUNDS", "R-PADDING", "R-GUARD", "R-UPDATER", "R-TABLE"},
		Explanation: "Narrow claim. Of the cell geometry only what is visible in code shape is decided: none of the documented error allowances in cell.go, paddedcell.go, stuv.go and the " +
			"interior-distance test of edge_distances.go is smaller than its derived value; the lazily computed middle of a padded cell is read only through its accessor; the point-to-cell " +
			"conversion and Cell.ContainsPoint share one projection kernel; Cell.latitude/longitude and the CellID begin/end functions are mirror images.",
		NotCovered: "that the distance functions are attained bounds, that children equal directly constructed cells, that bounding rectangles and caps contain the cell: numerical behaviour of the " +
			"floating-point kernels (edge/vertex case analysis of distanceInternal, vertexChordDist2, edgeDistance) over all cells and targets.",
	}
	anchorFiles["C12"] = []string{"s2/cell.go", "s2/cellid.go", "s2/stuv.go", "s2/edge_distances.go", "s2/paddedcell.go"}
}

func init() {
	Properties["C11"] = PropertySpec{
		Rules: []string{"R-RANGE", "R-TWIN", "R-SELFCMP", "R-NAMEPAIR", "R-NORMUSE", "R-RESETEQ"},
		Explanation: "Narrow claim. Of the cell-union algebra only the comparison discipline is decided: every comparison of a cell's inclusive leaf range (RangeMin/RangeMax) with another id in " +
			"cellunion.go, cellid.go, cell_index.go and s2intersect is inclusive on the right side; the first/last, begin/end and next/previous functions of CellID are mirror images; no test is duplicated " +
			"and no value is compared with itself in these files.",
		NotCovered: "everything that makes the algebra exact: the sibling-collapse arithmetic of Normalize, the index arithmetic of the two-pointer intersection and the recursive difference, the delta " +
			"stack of CellIndex.Build, the sweep of s2intersect.Find, MaxTile's level arithmetic - identities of 64-bit arithmetic over all multisets of ids.",
	}
	anchorFiles["C11"] = []string{"s2/cellunion.go", "s2/cellid.go", "s2/cell_index.go", "s2/s2intersect/s2intersect.go"}
}

func init() {
	Properties["C09"] = PropertySpec{
		Rules: []string{"R-WIRE", "R-DETERMINISTIC", "R-STICKY", "R-SELFCMP"},
		Explanation: "Lossless encoding, reduced to the clauses visible in code shape: the writer's and the reader's sequences of primitive fields agree for every codec pair (including loop nesting, optional bound, " +
			"format alternatives and the first-point/other-point alternation), encoding is free of nondeterminism sources, and coder errors reach the caller.",
		NotCovered: "bit-exact reproduction of coordinates (float arithmetic of the cell-centre conversions), the choice between formats, nth-derivative and zig-zag arithmetic, the off-centre list contents.",
	}
}

func init() {
	p := Properties["C09"]
	p.Rules = append(p.Rules, "R-CONST")
	Properties["C09"] = p
	p = Properties["C10"]
	p.Rules = append(p.Rules, "R-CONST")
	Properties["C10"] = p
	p = Properties["C06"]
	p.Rules = append(p.Rules, "R-CONST")
	Properties["C06"] = p
}

func init() {
	Properties["C02"] = PropertySpec{
		Rules: []string{"R-FMA", "R-STAGES", "R-SOS", "R-CONST", "R-SELFCMP"},
		Explanation: "Exactness of the orientation and distance predicates, reduced to the machinery the exactness argument relies on: unfused products, error bounds not weakened, floating-point stages trusted only strictly beyond their bound, " +
			"stages ordered, argument swaps paired with sign flips, sign products taken only for equal signs, and the symbolic perturbation testing exactly the coefficient sequence of one fixed perturbation and never returning zero.",
		NotCovered: "that the error bounds are sufficient (their derivations are trusted), results on concrete tuples, big.Float arithmetic itself.",
	}
}

func init() {
	Properties["C03"] = PropertySpec{
		Rules: []string{"R-XSTATE", "R-CROSSENUM", "R-CONST", "R-STAGES"},
		Explanation: "Exactness and history independence of the edge crosser, reduced to: the cached vertex and orientation are updated on every exit (through a closure that captures the variable), the vertex-crossing fallback sees the pre-call vertex, " +
			"the three-valued result is consumed consistently, MaybeCross only behind an endpoint equality, the tangent-rejection bound is not weakened, and the orientation stages it relies on are ordered.",
		NotCovered: "the numeric result on concrete quadruples; symmetry under edge reversal on concrete inputs.",
	}
}

func init() {
	Properties["C04"] = PropertySpec{
		Rules: []string{"R-PARITY", "R-INITORDER", "R-INIT", "R-RANGE", "R-CROSSENUM"},
		Explanation: "Point containment as a crossing parity, reduced to the shape all six evaluators must share (reference bit, toggle by an exact crossing test, accumulator returned, crosser restarted on gaps, every edge visited, vertex shortcut only on a true endpoint match), " +
			"the initialisation order the pre-checks rely on, a non-nil index on every creation path, and inclusive cell-range location of the query point.",
		NotCovered: "that the interior tracker's containsCenter bits are right (they depend on runtime crossings); the tiling clause on concrete cells.",
	}
	p := Properties["C06"]
	p.Rules = append(p.Rules, "R-PARITY")
	Properties["C06"] = p
}

func init() {
	Properties["C05"] = PropertySpec{
		Rules: []string{"R-COVER", "R-CELLREL", "R-CYCLE", "R-INIT", "R-CONST"},
		Explanation: "Coverings cover and interior coverings are contained, reduced to the coverer's discard / terminal discipline, its post-processing with the coverer's own clamped parameters, the clamp-then-align order of level fix-ups, " +
			"the one-sided cell predicates of Loop and Polygon (relation table and boundary-then-centre order), Cap's shared cell helper, enumeration loops that really enumerate, a usable index for the full polygon, and unweakened clipping paddings.",
		NotCovered: "geometric correctness of Cap/Rect/Polyline cell predicates beyond the named structural clause; MaxCells behaviour; the numeric clipping itself.",
	}
}

func init() {
	Properties["C01"] = PropertySpec{
		Rules: []string{"R-TABLE", "R-MIRROR", "R-GLOBAL", "R-CONST", "R-RANGE"},
		Explanation: "Narrow claim. The data and case tables that both directions of the id <-> (face,i,j) <-> xyz conversions are generated from are mutually consistent (Hilbert orders, orientation bits, six face frames and their projections, bit-interleave tables); " +
			"the lookup tables are written only during initialisation; the mirrored clamps of the neighbour wrap and the re-checks of AdvanceWrap stay mirrored; the containment margin and uv error are not weakened; leaf ranges are compared inclusively.",
		NotCovered: "every clause about concrete ids and points (containment of a point by its leaf, neighbour adjacency, token round trips, range partition): identities of 64-bit and float arithmetic over all inputs.",
	}
}

func init() {
	Properties["C18"] = PropertySpec{
		Rules: []string{"R-SIBTREE", "R-AREASIGN", "R-CONST"},
		Explanation: "Narrow claim. The scalar and vector surface integrals are the same triangle-fan walk; polygon area and centroid weight loops by the same sign; Loop.Area consults the curvature-based normalisation test exactly in the two ambiguous bands; " +
			"the turning angle starts canonically, uses compensated summation and clamps to +-(2*Pi-4*epsilon); the triangle-area thresholds and the per-vertex error bound are unchanged.",
		NotCovered: "every numerical clause: the value of an area, its agreement with a triangulation, additivity with the inverse, accuracy for slivers.",
	}
}

func init() {
	addRules := func(prop string, rules ...string) {
		p := Properties[prop]
		have := map[string]bool{}
		for _, r := range p.Rules {
			have[r] = true
		}
		for _, r := range rules {
			if !have[r] {
				p.Rules = append(p.Rules, r)
			}
		}
		Properties[prop] = p
	}
	addRules("C01", "R-SAMEFACE")
	addRules("C02", "R-CONSTREL", "R-SOSDERIVE", "R-GLOBAL")
	addRules("C03", "R-GUARD", "R-VERTEXSYM", "R-CONSTREL", "R-SOS", "R-SOSDERIVE", "R-GLOBAL")
	addRules("C04", "R-XSTATE", "R-CONST", "R-MIRROR", "R-CONSTREL", "R-RESET", "R-FLAGS", "R-PARTITION", "R-ALLLOOPS", "R-LOCK", "R-SYNCED")
	addRules("C05", "R-SQRT", "R-SPECIAL", "R-MIRROR", "R-PADDING", "R-PARITY", "R-FRESHRET", "R-RANGE", "R-PARTITION", "R-ACCUM")
	addRules("C06", "R-GLOBAL", "R-CYCLE", "R-CELLREL", "R-SPARSEID", "R-GUARD", "R-NOALIAS", "R-CLIPENDS", "R-RESET", "R-ALLLOOPS", "R-CONSTREL")
	addRules("C07", "R-NAMEPAIR", "R-ROLES", "R-PARITY", "R-PARTITION", "R-INIT", "R-GUARD")
	addRules("C08", "R-CONSTREL", "R-UNITS", "R-UPDATER", "R-SQRT", "R-SPARSEID")
	addRules("C12", "R-ERRMODEL")
	addRules("C17", "R-ORDERINDEP")
	addRules("C16", "R-ERRMODEL")
	addRules("C15", "R-WIRE")
	addRules("C12", "R-SQRT")
	addRules("C01", "R-UNITS")
	addRules("C06", "R-PARITY")
	addRules("C01", "R-SQRT")
	addRules("C15", "R-SIBSHAPE", "R-DERIVED", "R-ALLLOOPS", "R-REINIT", "R-FINITE", "R-DECSHAPE", "R-INIT")
	addRules("C09", "R-GUARD", "R-DECSHAPE", "R-REINIT", "R-RAWFLOAT", "R-GLOBAL", "R-DERIVED", "R-ALLLOOPS", "R-FLAGS", "R-INITORDER", "R-PAIR", "R-WIRECOUNT", "R-FIELDPAIR")
	addRules("C10", "R-TABLE", "R-PARTITION", "R-UNITS", "R-SAMEFACE", "R-ROLES", "R-PADDING", "R-CONSTREL", "R-ALLLOOPS", "R-ACCUM", "R-FACEBOUNDS", "R-INITORDER")
	addRules("C13", "R-NOALIAS", "R-REINIT", "R-SPARSEID")
	addRules("C14", "R-IDLE", "R-NOALIAS", "R-OPTS", "R-RESET")
	addRules("C18", "R-ROLES", "R-PARTITION", "R-ALLLOOPS", "R-STAGES", "R-UNITS")
	addRules("C19", "R-ROLES", "R-ORDERLAWS", "R-EXPAND", "R-UNITS")
}

func init() {
	only := func(prop string, m map[string][]string) {
		p := Properties[prop]
		if p.Only == nil {
			p.Only = map[string][]string{}
		}
		for k, v := range m {
			p.Only[k] = v
		}
		Properties[prop] = p
	}
	// R-TWIN: each pair is reported under the properties named in the pair table
	{
		byProp := map[string][]string{}
		for _, tp := range twinPairs {
			for _, pr := range tp.props {
				byProp[pr] = append(byProp[pr], twinConstruct(tp))
			}
		}
		for prop, keys := range byProp {
			pp, claimed := Properties[prop]
			if !claimed {
				continue
			}
			has := false
			for _, r := range pp.Rules {
				if r == "R-TWIN" {
					has = true
				}
			}
			if !has {
				pp.Rules = append(pp.Rules, "R-TWIN")
				Properties[prop] = pp
			}
			only(prop, map[string][]string{"R-TWIN": keys})
		}
	}
	for prop, files := range anchorFiles {
		pp := Properties[prop]
		pp.Rules = append(pp.Rules, "R-DUP", "R-RENAME")
		Properties[prop] = pp
		keys := []string{"scan"}
		for _, f := range files {
			keys = append(keys, "dup:"+f+":")
		}
		only(prop, map[string][]string{"R-DUP": keys, "R-RENAME": keys})
	}
	// C04: the lazily built index must be complete before an indexed containment query reads it - the status protocol of
	// R-LOCK applies, the re-entry obligation (incremental updates, known finding D3 under C13/C14) does not.
	only("C04", map[string][]string{"R-XSTATE": {"crosser-state-private"}, "R-LOCK": {"atomic-status", "balanced", "publish", "status-store"}, "R-CONSTREL": {"updateFaceEdges", "stableSign", "maxDeterminantError"}, "R-MIRROR": {"stToUV"}, "R-CONST": {"EdgeCrosser", "stableSign", "triageSign", "s2.maxDeterminantError", "detErrorMultiplier"}})
	only("C06", map[string][]string{"R-ALLLOOPS": {"CrossingEdgeQuery"}, "R-CONSTREL": {"updateFaceEdges"}, "R-GUARD": {"boundaryApproxIntersects", "getCells"}, "R-CYCLE": {"CrossingEdgeQuery"}})
	only("C14", map[string][]string{"R-RESET": {"applyUpdatesInternal", "ShapeIndex.Reset"}})
	only("C15", map[string][]string{"R-ALLLOOPS": {"Polygon.decode"}, "R-INIT": {"ecode"}, "R-SIBSHAPE": {"edge-id-space"}})
	only("C16", map[string][]string{"R-ERRMODEL": {"chord-from-length2-clamped"}, "R-CONST": {"intersection", "projection", "robustNormal", "s2.dblError"}})
	only("C17", map[string][]string{"R-ORDERINDEP": {"PointCross"}, "R-CONST": {"interiorDist", "minUpdate", "ChordAngle).Max", "edge_distances"}, "R-UNITS": {"edge_distances", "UpdateM", "updateEdge", "s2.UpdateMaxDistance", "arc-length-through-chord"}, "R-CONSTREL": {"Polyline).Project"}})
	only("C20", map[string][]string{"R-CONST": {"Snapper", "Tessellat", "tessellat"}, "R-UNITS": {"chord-length-as-angle", "Polyline", "findEndVertex", "Tessellator", "Projection"}})
	only("C12", map[string][]string{"R-CONST": {"Cell)", "PaddedCell", "interiorDist", "maxXYZtoUVError", "cellPadding", "stuv", "poleMinLat"}, "R-MIRROR": {"projection", "ShrinkToFit", "distanceInternal"}, "R-UNITS": {"Cell)"}, "R-PADDING": {"Cell).RectBound", "Cell).CapBound"}, "R-GUARD": {"Cell.MaxDistanceToEdge", "Cell.DistanceToCell", "Cell.MaxDistanceToCell"}, "R-UPDATER": {"(s2.Cell)."}, "R-TABLE": {"Cell.RectBound"}})
	only("C11", map[string][]string{"R-RANGE": {"CellID)", "CellUnion", "cellunion", "CellIndex", "cellIndex", "s2intersect", "wrap-free"}})
	predicateConsts := []string{"maxDeterminantError", "detErrorMultiplier", "triage", "stableSign", "cosDistance", "sin2Distance", "s2.dblEpsilon", "s2.dblError", "r1.dblEpsilon", "s1.dblEpsilon"}
	clipConsts := []string{"edgeClip", "faceClip", "intersectsRect", "cellPadding", "ShapeIndex)", "boundaryApproxIntersects", "ShrinkToFit"}
	only("C01", map[string][]string{"R-MIRROR": {"AdvanceWrap", "CellID.", "cellIDFromFaceIJWrap", "int-shift", "projection", "stToUV", "wrap:"}, "R-CONST": {"Cell).ContainsPoint", "maxXYZtoUVError"}, "R-RANGE": {"CellID)", "CellUnion", "cellunion"}})
	only("C02", map[string][]string{"R-CONST": predicateConsts, "R-CONSTREL": {"r3.MaxPrec", "stableSign", "maxDeterminantError"}})
	only("C03", map[string][]string{"R-CONST": {"EdgeCrosser", "intersection", "projection"}, "R-CONSTREL": {"stableSign", "maxDeterminantError", "r3.MaxPrec"}, "R-STAGES": {"stableSign:declines", "CrossingSign:delegates", "RobustSign", "expensiveSign", "exactSign", "bound:", "symbolicallyPerturbedSign", "stage-callers"}, "R-GUARD": {"VertexCrossing"}})
	only("C05", map[string][]string{"R-MIRROR": {"intersectsLatEdge", "all-four-cell-edges"}, "R-SPECIAL": {"ordered-interval", "closed-predicates"}, "R-SQRT": {"intersectsLatEdge"}, "R-CONST": clipConsts, "R-PADDING": {"boundaryApproxIntersects", "normalizeCovering", "replaceCellsWithAncestor"}, "R-CYCLE": {"coverer", "CellUnionBound"}, "R-PARITY": {"iteratorContainsPoint", "ReferencePoint"}, "R-RANGE": {"ShapeIndexIterator"}, "R-PARTITION": {"Polygon.Invert"}, "R-ACCUM": {"vertex-only-bound"}})
	only("C06", map[string][]string{"R-CONST": clipConsts})
	only("C07", map[string][]string{"R-ROLES": {"hasCrossing", "(*s2.Loop).", "initOneLoop", "WedgeContains"}, "R-PARITY": {"loopCrosser"}, "R-INIT": {"Invert"}, "R-GUARD": {"findVertex", "getCells"}, "R-NAMEPAIR": {"wedge:", "Loop", "Relation"}})
	only("C12", map[string][]string{"R-ERRMODEL": {"chord-from-length2-clamped"}, "R-SQRT": {"Cell", "edgeDistance", "uvToST", "expandEndpoint"}})
	only("C01", map[string][]string{"R-SQRT": {"uvToST", "expandEndpoint"}, "R-UNITS": {"latitude-by-asin"}})
	only("C08", map[string][]string{"R-SQRT": {"Target"}, "R-SPARSEID": {"EdgeQuery", "scan"}, "R-CONSTREL": {"findEdgesInternal", "setMaxError", "IsConservative", "initCovering"}, "R-CYCLE": {"EdgeQuery", "CellUnionBound"}})
	only("C09", map[string][]string{"R-CONST": {"siTitoPiQi"}, "R-SELFCMP": {"scan", "xyzToFaceSiTi", "stuv", "pointcompression", "s2."}, "R-GUARD": {"xyzToFaceSiTi"}, "R-DECSHAPE": {"readfull", "asByteReader"}})
	only("C10", map[string][]string{"R-CONST": {"RectBounder", "ExpandForSubregions", "Cell).RectBound", "Cap).AddCap", "poleMinLat"}, "R-PADDING": {"Cap).RectBound", "Cell).RectBound", "Cell).CapBound"}, "R-SAMEFACE": {"exact:"}, "R-UNITS": {"longitude-wrap", "latitude-by-asin"}, "R-ROLES": {"initOneLoop"}, "R-PARTITION": {"Polygon.Invert"}, "R-TABLE": {"Cell.RectBound"}, "R-CONSTREL": {"ExpandForSubregions", "RectBounder"}})
	only("C18", map[string][]string{"R-CONST": {"turningAngleMaxError", "PointArea"}, "R-ROLES": {"CanonicalFirstVertex", "initOneLoop"}, "R-STAGES": {"stage-callers"}, "R-UNITS": {"raw-longitude-span"}})
	only("C19", map[string][]string{"R-ROLES": {"ChordAngle"}})
	// error budgets of kernels whose own properties (C16, C17, C20) are not claimed are reported where the claimed
	// properties depend on them: the conservative distance limits of the edge queries.
	p := Properties["C08"]
	p.Rules = append(p.Rules, "R-CONST")
	Properties["C08"] = p
	only("C08", map[string][]string{"R-CONST": {"ChordAngle).Max", "interiorDist", "minUpdate", "Interval).Expanded"}})
}
