package rules

import (
	"fmt"

	"golang.org/x/tools/go/ssa"

	"verif/checker/core"
)

// R-LAZY: found while evaluating a narrow claim for C12 (exploratory seed: PaddedCellFromParentIJ read the cached
// field parent.middle instead of calling parent.Middle(), which computes it on first use).

func init() {
	core.Register(&core.Rule{
		Name: "R-LAZY",
		Clause: "C12/C06 'subdividing a padded cell yields the bounds constructed directly': a field that is computed on first use is read only inside its accessor; every other function " +
			"goes through the accessor (a direct read sees the not-yet-computed placeholder unless somebody happened to call the accessor before).",
		Min: 1,
		Run: runLazy,
	})
}

var lazyFields = []struct{ typ, field, accessor string }{
	{"PaddedCell", "middle", "Middle"},
}

func runLazy(c *core.Ctx) []core.Obligation {
	var obs []core.Obligation
	for _, lf := range lazyFields {
		acc := c.Fn("s2", lf.typ, lf.accessor)
		construct := lf.typ + "." + lf.field
		if acc == nil {
			obs = append(obs, core.Ob("R-LAZY", construct, "-", "", core.Violated, "unresolved anchor: accessor "+lf.accessor))
			continue
		}
		bad := ""
		reads := 0
		for _, fn := range c.GeoFuncs() {
			core.AllInstrs(fn, func(in ssa.Instruction) {
				var fr core.FieldRef
				var ok bool
				switch x := in.(type) {
				case *ssa.UnOp:
					fr, ok = core.AsFieldLoad(x)
				case *ssa.Field:
					fr, ok = core.AsFieldLoad(x)
				case *ssa.FieldAddr:
					// &p.middle.X etc.: a read through a sub-field address
					fr, ok = core.AsFieldAddr(x)
					if ok {
						// only count it when something is loaded through it and it is not a store target
						isStoreTarget := false
						for _, r := range *x.Referrers() {
							if st, isSt := r.(*ssa.Store); isSt && st.Addr == ssa.Value(x) {
								isStoreTarget = true
							}
						}
						if isStoreTarget || len(*x.Referrers()) == 0 {
							ok = false
						} else {
							// the plain load *(&p.middle) is reported by the UnOp case
							for _, r := range *x.Referrers() {
								if u, isU := r.(*ssa.UnOp); isU && u.X == ssa.Value(x) {
									ok = false
								}
							}
						}
					}
				default:
					return
				}
				if !ok || fr.Name != lf.field || fr.Struct == nil || fr.Struct.Obj().Name() != lf.typ {
					return
				}
				reads++
				if fn != acc {
					bad = fmt.Sprintf("%s reads %s.%s directly (at %s) instead of calling %s(): the field is filled in on the first call of the accessor, so a cell that nobody has asked for its middle yet yields the empty placeholder and the child bounds computed from it are wrong", core.FuncName(fn), lf.typ, lf.field, c.Pos(in.Pos()), lf.accessor)
				}
			})
		}
		switch {
		case reads == 0:
			obs = append(obs, core.Ob("R-LAZY", construct, c.Pos(acc.Pos()), core.FuncName(acc), core.Violated, "unresolved anchor: the field is never read"))
		case bad != "":
			obs = append(obs, core.Ob("R-LAZY", construct, c.Pos(acc.Pos()), core.FuncName(acc), core.Violated, bad))
		default:
			obs = append(obs, core.Ob("R-LAZY", construct, c.Pos(acc.Pos()), core.FuncName(acc), core.Discharged, fmt.Sprintf("%d reads, all inside %s()", reads, lf.accessor)))
		}
	}
	return obs
}
