package rules

import (
	"fmt"
	"go/ast"
	"go/token"
	"go/types"
	"sort"
	"strings"

	"golang.org/x/tools/go/ssa"

	"verif/checker/core"
)

// Obligations added in the twelfth round. Attached to existing rules through InstallLateObligations.

// pointParamVector: v is the Vector of a Point-typed parameter of fn (read directly, or through the parameter's spill slot).
func pointParamVector(fn *ssa.Function, v ssa.Value) *ssa.Parameter {
	isPoint := func(t types.Type) bool { return core.IsNamed(t, "s2", "Point") }
	slot := func(a ssa.Value) *ssa.Parameter {
		al, ok := a.(*ssa.Alloc)
		if !ok {
			return nil
		}
		var found *ssa.Parameter
		for _, r := range *al.Referrers() {
			if st, ok := r.(*ssa.Store); ok && st.Addr == ssa.Value(al) {
				p, ok := st.Val.(*ssa.Parameter)
				if !ok || !isPoint(p.Type()) || (found != nil && found != p) {
					return nil // the slot is also assigned something else
				}
				found = p
			}
		}
		return found
	}
	switch x := v.(type) {
	case *ssa.Field:
		if p, ok := x.X.(*ssa.Parameter); ok && isPoint(p.Type()) {
			return p
		}
		if ld, ok := x.X.(*ssa.UnOp); ok {
			return slot(ld.X)
		}
	case *ssa.UnOp:
		if fa, ok := x.X.(*ssa.FieldAddr); ok {
			return slot(fa.X)
		}
	}
	return nil
}

func round12Specific(c *core.Ctx, rule string) []core.Obligation {
	var obs []core.Obligation
	// C17-xm3: the distance, projection and interpolation primitives of s2/edge_distances.go build the normal of the
	// great circle through two of their arguments with Point.PointCross ((a+b) x (b-a)), never with the plain cross
	// product of the two arguments, which loses all relative accuracy when they are close and is zero when equal.
	if rule == "R-ERRMODEL" {
		examined, bad := 0, 0
		for _, fn := range c.GeoFuncs() {
			if fn.Pkg == nil || fn.Pkg.Pkg.Name() != "s2" || fileOf(c, fn.Pos()) != "s2/edge_distances.go" {
				continue
			}
			core.AllInstrs(fn, func(in ssa.Instruction) {
				call, ok := in.(*ssa.Call)
				if !ok || calleeName(call) != "Cross" || len(call.Call.Args) != 2 {
					return
				}
				callee := core.StaticCallee(call)
				if callee.Pkg == nil || callee.Pkg.Pkg.Name() != "r3" {
					return
				}
				examined++
				p, q := pointParamVector(fn, call.Call.Args[0]), pointParamVector(fn, call.Call.Args[1])
				if p != nil && q != nil && p != q {
					bad++
					obs = append(obs, core.Ob(rule, "edge-normal-through-PointCross:"+core.FuncName(fn), c.Pos(call.Pos()), core.FuncName(fn), core.Violated,
						fmt.Sprintf("the plain cross product of the arguments %s and %s: for points closer than about 1e-8 rad its direction is rounding noise (relative error 1e-16/|%s x %s|) and for equal or antipodal points it is the zero vector; the primitives of this file take the normal from %s.PointCross(%s)", p.Name(), q.Name(), p.Name(), q.Name(), p.Name(), q.Name())))
				}
			})
		}
		st, d := core.Discharged, fmt.Sprintf("%d cross products in s2/edge_distances.go, none of two different Point arguments", examined)
		if examined < 2 {
			st, d = core.Violated, fmt.Sprintf("unresolved anchor: %d cross products found in s2/edge_distances.go", examined)
		}
		if bad == 0 || examined < 2 {
			obs = append(obs, core.Ob(rule, "edge-normal-through-PointCross:scan", "-", "", st, d))
		}
	}
	// C15-r8m2: a decoder compares each declared count with the limit the encoder of the same type enforces for that
	// count: per receiver type, the set of named size limits that appear in comparisons on the decoding side equals the
	// set on the encoding side (a loop count tested against the vertex limit admits five times the loops any encoder
	// would write, and the allocation made for them).
	if rule == "R-DECSHAPE" {
		type sides struct{ enc, dec map[string]token.Pos }
		byType := map[string]*sides{}
		for _, pkg := range c.Pkgs {
			if pkg.Types.Name() != "s2" {
				continue
			}
			for _, file := range pkg.Syntax {
				if strings.HasSuffix(c.Fset.Position(file.Pos()).Filename, "_test.go") {
					continue
				}
				for _, d := range file.Decls {
					fd, ok := d.(*ast.FuncDecl)
					if !ok || fd.Recv == nil || len(fd.Recv.List) != 1 || fd.Body == nil {
						continue
					}
					lname := strings.ToLower(fd.Name.Name)
					isEnc, isDec := strings.HasPrefix(lname, "encode"), strings.HasPrefix(lname, "decode")
					if !isEnc && !isDec {
						continue
					}
					rt := types.ExprString(fd.Recv.List[0].Type)
					rt = strings.TrimPrefix(rt, "*")
					ast.Inspect(fd.Body, func(n ast.Node) bool {
						be, ok := n.(*ast.BinaryExpr)
						if !ok || (be.Op != token.GTR && be.Op != token.GEQ && be.Op != token.LSS && be.Op != token.LEQ) {
							return true
						}
						for _, e := range []ast.Expr{be.X, be.Y} {
							id, ok := e.(*ast.Ident)
							if !ok {
								continue
							}
							k, ok := pkg.TypesInfo.Uses[id].(*types.Const)
							if !ok || k.Parent() != pkg.Types.Scope() || !strings.HasPrefix(k.Name(), "max") {
								continue
							}
							sd := byType[rt]
							if sd == nil {
								sd = &sides{map[string]token.Pos{}, map[string]token.Pos{}}
								byType[rt] = sd
							}
							if isEnc {
								sd.enc[k.Name()] = id.Pos()
							} else {
								sd.dec[k.Name()] = id.Pos()
							}
						}
						return true
					})
				}
			}
		}
		var names []string
		for t := range byType {
			names = append(names, t)
		}
		sort.Strings(names)
		pairs := 0
		for _, t := range names {
			sd := byType[t]
			if len(sd.enc) == 0 || len(sd.dec) == 0 {
				continue // only one side enforces a limit: nothing to compare
			}
			pairs++
			var extra []string
			pos := token.NoPos
			for k, p := range sd.dec {
				if _, ok := sd.enc[k]; !ok {
					extra = append(extra, k)
					pos = p
				}
			}
			sort.Strings(extra)
			if len(extra) > 0 {
				obs = append(obs, core.Ob(rule, "limit-agreement:"+t, c.Pos(pos), t, core.Violated,
					fmt.Sprintf("the decoder of %s compares a count with %s, a limit its encoder never applies: the count is tested against the limit of a different quantity, so encodings no encoder would write are accepted and sized for", t, strings.Join(extra, ", "))))
			} else {
				obs = append(obs, core.Ob(rule, "limit-agreement:"+t, "-", t, core.Discharged, fmt.Sprintf("decoder and encoder of %s test counts against the same named limits", t)))
			}
		}
		if pairs < 3 {
			obs = append(obs, core.Ob(rule, "limit-agreement:scan", "-", "", core.Violated, fmt.Sprintf("unresolved anchor: %d types with a limit on both the encoding and the decoding side (CellUnion, Loop, Polygon expected)", pairs)))
		}
	}
	// callsAny: fn calls (statically) a function with one of the given names.
	callsAny := func(fn *ssa.Function, names ...string) bool {
		found := false
		core.AllInstrs(fn, func(in ssa.Instruction) {
			if call, ok := in.(*ssa.Call); ok {
				for _, n := range names {
					if calleeName(call) == n {
						found = true
					}
				}
			}
		})
		return found
	}
	one := func(r, construct string, fn *ssa.Function, ok bool, good, bad string) {
		if r != rule {
			return
		}
		if fn == nil {
			obs = append(obs, core.Ob(r, construct, "-", "", core.Violated, "unresolved anchor"))
			return
		}
		st, d := core.Discharged, good
		if !ok {
			st, d = core.Violated, bad
		}
		obs = append(obs, core.Ob(r, construct, c.Pos(fn.Pos()), core.FuncName(fn), st, d))
	}
	// D63: the radius of Cap.Complement is rounded outward.
	if fn := c.Fn("s2", "Cap", "Complement"); rule == "R-SPECIAL" {
		one(rule, "Cap.Complement:radius-rounded-outward", fn, fn != nil && callsAny(fn, "Expanded", "PlusError"),
			"the complement's radius 180 degrees - r goes through ChordAngle.Expanded before it is used",
			"the complement's radius is the bare difference StraightChordAngle.Sub(radius): membership in the cap and in its complement is decided by two independently rounded squared distances, so a unit point next to the common boundary is in neither (centre (-0.3030057127564993, 0.27045072328567, -0.9138073890657614), radius 0.000794996764743629 chord^2, point (-0.27615132672255627, 0.27006330208129414, -0.922391596675902)) - a cap and its complement do not cover the sphere")
	}
	if rule == "R-PADDING" {
		// D64: Cell.CapBound covers the margin ContainsPoint accepts.
		fn := c.Fn("s2", "Cell", "CapBound")
		one(rule, "(s2.Cell).CapBound:covers-ContainsPoint-margin", fn, fn != nil && callsAny(fn, "ExpandedByMargin") && callsAny(fn, "Expanded", "PlusError"),
			"the cap is built from the corners of the (u,v) rectangle expanded by a margin and its radius is rounded up",
			"the cap is built from the four vertices with no allowance for the margin of Cell.ContainsPoint or for the rounding of the distance computations: points on or within an ulp of a vertex of level-25 and level-30 cells are contained by the cell and not by its bounding cap, so a covering seeded from CellUnionBound can miss them")
		// D65 (known finding): Cell.RectBound covers the margin ContainsPoint accepts.
		fn = c.Fn("s2", "Cell", "RectBound")
		one(rule, "(s2.Cell).RectBound:covers-ContainsPoint-margin", fn, fn != nil && callsAny(fn, "ExpandedByMargin"),
			"the bound is computed from the (u,v) rectangle expanded by the margin of ContainsPoint",
			"the bound is computed from the four vertices and padded by 2 * dblEpsilon radians, which does not cover the 5 * dblEpsilon (u,v) margin of Cell.ContainsPoint")
		// D66 (known finding): Cap.RectBound is rounded outward.
		fn = c.Fn("s2", "Cap", "RectBound")
		one(rule, "(s2.Cap).RectBound:rounded-outward", fn, fn != nil && callsAny(fn, "expanded", "Expanded", "PlusError"),
			"the cap angle or the resulting rectangle is padded",
			"the latitude and longitude ranges are computed from Radius(), asin and atan2 with no allowance for their rounding or for the error of the distance test in Cap.ContainsPoint")
	}
	// C12-r12m1: the boundary distance of an interior target is the minimum over all four cell edges.
	if fn := c.Fn("s2", "Cell", "distanceInternal"); rule == "R-MIRROR" {
		// the largest number of different bounds handed to edgeDistance within one basic block (the four-way minimum)
		distinct := map[string]bool{}
		if fn != nil {
			for _, b := range fn.Blocks {
				here := map[string]bool{}
				for _, in := range b.Instrs {
					if call, ok := in.(*ssa.Call); ok && calleeName(call) == "edgeDistance" && len(call.Call.Args) == 2 {
						if fr, ok := core.AsFieldLoad(call.Call.Args[1]); ok {
							here[fmt.Sprint(fr)] = true
						} else {
							here[call.Call.Args[1].String()] = true
						}
					}
				}
				if len(here) > len(distinct) {
					distinct = here
				}
			}
		}
		one(rule, "Cell.distanceInternal:edge-distance-to-all-four-edges", fn, len(distinct) >= 4,
			"one block takes edgeDistance against four different (u,v) bounds (the four-way minimum of the interior case)",
			fmt.Sprintf("no block takes edgeDistance against four different (u,v) bounds (at most %d): the four edge normals have different lengths (sqrt(1+u^2), sqrt(1+v^2)), so the nearest edge cannot be chosen from the raw dot products and the boundary distance of an interior target must be the minimum over all four edges", len(distinct)))
	}
	// C04-r12m1: PolygonFromOrientedLoops accumulates the parity of the loops that contain the origin.
	if fn := c.Fn("s2", "", "PolygonFromOrientedLoops"); rule == "R-PARITY" {
		toggle := false
		if fn != nil {
			core.AllInstrs(fn, func(in ssa.Instruction) {
				// the toggle: !b, or b != <cond> (the spelling of Loop.ContainsPoint's `inside = inside != ...`)
				var u ssa.Value
				var operand ssa.Value
				switch x := in.(type) {
				case *ssa.UnOp:
					if x.Op == token.NOT {
						u, operand = x, x.X
					}
				case *ssa.BinOp:
					if x.Op == token.NEQ || x.Op == token.XOR {
						if _, ok := x.X.(*ssa.Phi); ok {
							u, operand = x, x.X
						} else if _, ok := x.Y.(*ssa.Phi); ok {
							u, operand = x, x.Y
						}
					}
				}
				if u != nil {
					if phi, ok := operand.(*ssa.Phi); ok {
						var reaches func(v ssa.Value, depth int) bool
						reaches = func(v ssa.Value, depth int) bool {
							if v == u {
								return true
							}
							if ph, ok := v.(*ssa.Phi); ok && depth < 4 {
								for _, e := range ph.Edges {
									if e != ssa.Value(phi) && reaches(e, depth+1) {
										return true
									}
								}
							}
							return false
						}
						for _, e := range phi.Edges {
							if reaches(e, 0) {
								toggle = true
							}
						}
					}
				}
			})
		}
		one(rule, "PolygonFromOrientedLoops:origin-parity-toggled-per-containing-loop", fn, toggle,
			"a boolean is negated once per loop that contains the origin and carried round the loop over all loops",
			"no boolean is toggled round the loop over the polygon's loops: whether the polygon contains the origin is the parity of ALL loops that contain it, and the loop next to the origin is the LAST such loop in nesting order - with the origin inside a shell and its hole the outer shell is taken, the polygon is inverted, and ContainsPoint answers the complement everywhere")
	}
	// C11-r12m1: CellUnionFromDifference searches the whole subtrahend for every cell of x.
	if fn := c.Fn("s2", "", "CellUnionFromDifference"); rule == "R-NORMUSE" {
		whole, n := true, 0
		if fn != nil && len(fn.Params) == 2 {
			core.AllInstrs(fn, func(in ssa.Instruction) {
				call, ok := in.(*ssa.Call)
				if !ok || calleeName(call) != "cellUnionDifferenceInternal" || len(call.Call.Args) != 3 {
					return
				}
				n++
				al, ok := call.Call.Args[2].(*ssa.Alloc)
				if !ok {
					whole = false
					return
				}
				for _, r := range *al.Referrers() {
					if st, ok := r.(*ssa.Store); ok && st.Addr == ssa.Value(al) && st.Val != ssa.Value(fn.Params[1]) {
						whole = false
					}
				}
			})
		}
		one(rule, "CellUnionFromDifference:whole-subtrahend-per-cell", fn, n > 0 && whole,
			"every cell of x is subtracted against the parameter y itself",
			"the subtrahend handed to cellUnionDifferenceInternal is not the parameter y but a value derived inside the loop (a resumable window): that presumes the cells of x arrive in increasing order, which CellUnion does not require (an ancestor listed after its descendant, or an unsorted verbatim union) - an earlier cell of y is then skipped and x - y overlaps y")
	}
	// C06-r12m1: the chain forms of the crosser are not fed from Shape.Edge(id): the edge ids of a generic shape run across
	// chain boundaries (polygon loops, polyline sets), so consecutive ids need not share a vertex.
	if rule == "R-PARITY" {
		fromShapeEdge := func(v ssa.Value) bool {
			for depth := 0; depth < 4; depth++ {
				switch x := v.(type) {
				case *ssa.Field:
					v = x.X
					continue
				case *ssa.UnOp:
					if fa, ok := x.X.(*ssa.FieldAddr); ok {
						v = fa.X
						continue
					}
					if al, ok := x.X.(*ssa.Alloc); ok {
						for _, r := range *al.Referrers() {
							if st, ok := r.(*ssa.Store); ok && st.Addr == ssa.Value(al) {
								if call, ok := st.Val.(*ssa.Call); ok && call.Call.IsInvoke() && call.Call.Method.Name() == "Edge" {
									return true
								}
							}
						}
					}
					return false
				case *ssa.Alloc:
					for _, r := range *x.Referrers() {
						if st, ok := r.(*ssa.Store); ok && st.Addr == ssa.Value(x) {
							if call, ok := st.Val.(*ssa.Call); ok && call.Call.IsInvoke() && call.Call.Method.Name() == "Edge" {
								return true
							}
						}
					}
					return false
				case *ssa.Call:
					return x.Call.IsInvoke() && x.Call.Method.Name() == "Edge"
				}
				return false
			}
			return false
		}
		examined, bad := 0, 0
		for _, fn := range c.GeoFuncs() {
			core.AllInstrs(fn, func(in ssa.Instruction) {
				call, ok := in.(*ssa.Call)
				if !ok {
					return
				}
				switch calleeName(call) {
				case "ChainCrossingSign", "EdgeOrVertexChainCrossing":
				default:
					return
				}
				examined++
				for _, a := range call.Call.Args[1:] {
					if fromShapeEdge(a) {
						bad++
						obs = append(obs, core.Ob(rule, "chain-crossing-not-fed-from-Shape.Edge:"+core.FuncName(fn), c.Pos(call.Pos()), core.FuncName(fn), core.Violated,
							"the chain form of the crosser continues from the previous call's vertex, but the vertex handed to it comes from Shape.Edge(id): edge ids of a shape run across chain boundaries (the loops of a polygon, the polylines of a set), so an edge whose id follows the previous one need not start where that one ended - the first edge of the next loop is tested as a phantom edge between the loops and the result differs from brute force"))
					}
				}
			})
		}
		if bad == 0 {
			st, d := core.Discharged, fmt.Sprintf("%d chain-form crossing calls, none fed from Shape.Edge", examined)
			if examined < 5 {
				st, d = core.Violated, fmt.Sprintf("unresolved anchor: %d chain-form crossing calls found", examined)
			}
			obs = append(obs, core.Ob(rule, "chain-crossing-not-fed-from-Shape.Edge:scan", "-", "", st, d))
		}
	}
	// C01-r12m1: Advance / AdvanceWrap never negate the signed step count (-steps overflows for math.MinInt64).
	if rule == "R-MIRROR" {
		for _, name := range []string{"Advance", "AdvanceWrap"} {
			fn := c.Fn("s2", "CellID", name)
			neg := false
			if fn != nil && len(fn.Params) == 2 {
				// values computed from the step count (the second parameter) by phi, %, +, -
				derived := map[ssa.Value]bool{fn.Params[1]: true}
				for changed := true; changed; {
					changed = false
					core.AllInstrs(fn, func(in ssa.Instruction) {
						v, ok := in.(ssa.Value)
						if !ok || derived[v] {
							return
						}
						switch x := in.(type) {
						case *ssa.Phi:
							for _, e := range x.Edges {
								if derived[e] {
									derived[v], changed = true, true
								}
							}
						case *ssa.BinOp:
							if (x.Op == token.REM || x.Op == token.ADD || x.Op == token.SUB) && (derived[x.X] || derived[x.Y]) {
								derived[v], changed = true, true
							}
						}
					})
				}
				core.AllInstrs(fn, func(in ssa.Instruction) {
					if u, ok := in.(*ssa.UnOp); ok && u.Op == token.SUB && derived[u.X] {
						neg = true
					}
				})
			}
			one(rule, "CellID."+name+":step-count-never-negated", fn, !neg,
				"the step count, and what is computed from it by %, + and -, is never negated",
				"the step count (or a value computed from it) is negated: it may be math.MinInt64, whose negation is itself, so the reduced count keeps the wrong sign and the cell moves forward instead of backward (a wrong face or an id that is no cell)")
		}
	}
	// C09-r12m1: the float64 writer does not compare the value it writes (-0 == 0, NaN != NaN: only the bits identify it).
	if fn := c.Fn("s2", "encoder", "writeFloat64"); rule == "R-WIRE" {
		cmp := false
		if fn != nil {
			core.AllInstrs(fn, func(in ssa.Instruction) {
				if bo, ok := in.(*ssa.BinOp); ok {
					if b, ok := bo.X.Type().Underlying().(*types.Basic); ok && b.Info()&types.IsFloat != 0 {
						switch bo.Op {
						case token.EQL, token.NEQ, token.LSS, token.LEQ, token.GTR, token.GEQ:
							cmp = true
						}
					}
				}
			})
		}
		one(rule, "encoder.writeFloat64:value-not-compared", fn, !cmp,
			"the value is handed to the byte writer without a floating-point comparison",
			"the value is compared before it is written: a comparison cannot tell -0 from +0 (the centre of face 3 is (-1, -0, -0)), so a shortcut chosen by it writes a different bit pattern and the decoded coordinate is not bit-identical")
	}
	// C05-r12m1: a loop over the four edges of a cell (body uses the wrap-around successor (j+1)&3) visits all four.
	if rule == "R-MIRROR" {
		loops, bad := 0, 0
		for _, pkg := range c.Pkgs {
			if pkg.Types.Name() != "s2" {
				continue
			}
			for _, file := range pkg.Syntax {
				fname := c.Fset.Position(file.Pos()).Filename
				if strings.HasSuffix(fname, "_test.go") {
					continue
				}
				for _, d := range file.Decls {
					fd, ok := d.(*ast.FuncDecl)
					if !ok || fd.Body == nil {
						continue
					}
					ast.Inspect(fd.Body, func(n ast.Node) bool {
						fs, ok := n.(*ast.ForStmt)
						if !ok || fs.Cond == nil {
							return true
						}
						cond, ok := fs.Cond.(*ast.BinaryExpr)
						if !ok || cond.Op != token.LSS {
							return true
						}
						v, ok := cond.X.(*ast.Ident)
						lim, ok2 := cond.Y.(*ast.BasicLit)
						if !ok || !ok2 || lim.Value != "4" {
							return true
						}
						wraps := false
						ast.Inspect(fs.Body, func(m ast.Node) bool {
							be, ok := m.(*ast.BinaryExpr)
							if !ok || !((be.Op == token.AND && types.ExprString(be.Y) == "3") || (be.Op == token.REM && types.ExprString(be.Y) == "4")) {
								return true
							}
							if x := types.ExprString(be.X); x == "("+v.Name+" + 1)" || x == v.Name+" + 1" {
								wraps = true
							}
							return true
						})
						if !wraps {
							return true
						}
						loops++
						initOK, postOK := false, false
						if as, ok := fs.Init.(*ast.AssignStmt); ok && len(as.Lhs) == 1 && len(as.Rhs) == 1 && types.ExprString(as.Lhs[0]) == v.Name && types.ExprString(as.Rhs[0]) == "0" {
							initOK = true
						}
						if inc, ok := fs.Post.(*ast.IncDecStmt); ok && inc.Tok == token.INC && types.ExprString(inc.X) == v.Name {
							postOK = true
						}
						if !initOK || !postOK {
							bad++
							obs = append(obs, core.Ob(rule, "all-four-cell-edges:"+fd.Name.Name, c.Pos(fs.Pos()), fd.Name.Name, core.Violated,
								"a loop over the edges k -> (k+1)&3 of a cell does not run k = 0, 1, 2, 3: a polyline or edge can pass through the cell by the two edges that are skipped (straight through opposite sides, no vertex inside), so the cell is reported as not intersected and a covering drops it"))
						}
						return true
					})
				}
			}
		}
		if bad == 0 {
			st, d := core.Discharged, fmt.Sprintf("%d loops over the four edges of a cell (body uses (k+1)&3), all from 0 in steps of 1", loops)
			if loops < 2 {
				st, d = core.Violated, fmt.Sprintf("unresolved anchor: %d such loops found", loops)
			}
			obs = append(obs, core.Ob(rule, "all-four-cell-edges:scan", "-", "", st, d))
		}
	}
	// C17-xm2: the gate of UpdateMaxDistance's refinement through the antipode compares the LARGER endpoint distance with
	// 90 degrees: the maximum over the edge can lie beyond 90 degrees as soon as one endpoint does.
	if fn := c.Fn("s2", "", "UpdateMaxDistance"); rule == "R-ERRMODEL" {
		gates, bad := 0, 0
		if fn != nil {
			core.AllInstrs(fn, func(in ssa.Instruction) {
				bo, ok := in.(*ssa.BinOp)
				if !ok {
					return
				}
				isRight := func(v ssa.Value) bool {
					k, ok := v.(*ssa.Const)
					return ok && k.Value != nil && core.IsNamed(k.Type(), "s1", "ChordAngle") && k.Value.String() == "2"
				}
				var other ssa.Value
				switch {
				case isRight(bo.Y) && (bo.Op == token.GTR || bo.Op == token.GEQ):
					other = bo.X
				case isRight(bo.X) && (bo.Op == token.LSS || bo.Op == token.LEQ):
					other = bo.Y
				default:
					return
				}
				gates++
				if calleeName(other) != "maxChordAngle" {
					bad++
				}
			})
		}
		one(rule, "UpdateMaxDistance:antipode-gate-on-the-larger-endpoint-distance", fn, bad == 0,
			fmt.Sprintf("%d comparison(s) with RightChordAngle, each of the result of maxChordAngle", gates),
			"the refinement through the antipode is gated by a value other than the larger of the two endpoint distances: with one endpoint nearer and one farther than 90 degrees the farthest point of the edge can be interior and farther than both endpoints, and the refinement that finds it is skipped - the reported maximum is too small")
	}
	// C20-xm2: in MercatorProjection.ToLatLng the quotient (k-1)/(k+1) is Inf/Inf = NaN for k = +Inf; the guard in
	// front of it tests k itself (the input coordinate is infinite only at the pole, k overflows from y = 355 on, and
	// y = -Inf gives k = 0, which needs no guard).
	if fn := c.Fn("s2", "MercatorProjection", "ToLatLng"); rule == "R-TOLERANCE" {
		quotients, guarded := 0, 0
		if fn != nil {
			core.AllInstrs(fn, func(in ssa.Instruction) {
				q, ok := in.(*ssa.BinOp)
				if !ok || q.Op != token.QUO {
					return
				}
				num, ok1 := q.X.(*ssa.BinOp)
				den, ok2 := q.Y.(*ssa.BinOp)
				if !ok1 || !ok2 || num.Op != token.SUB || den.Op != token.ADD || num.X != den.X {
					return
				}
				quotients++
				k := num.X
				for _, b := range fn.Blocks {
					iff, ok := b.Instrs[len(b.Instrs)-1].(*ssa.If)
					if !ok {
						continue
					}
					call, ok := iff.Cond.(*ssa.Call)
					if !ok || calleeName(call) != "IsInf" || len(call.Call.Args) != 2 || call.Call.Args[0] != k {
						continue
					}
					if core.EdgeDominates(core.Edge{From: b, Idx: 1}, q.Block()) {
						guarded++
						return
					}
				}
			})
		}
		one(rule, "MercatorProjection.ToLatLng:overflow-guard-on-the-quotient's-operand", fn, guarded == quotients,
			fmt.Sprintf("%d quotient(s) of the form (k-1)/(k+1), each reached only where math.IsInf(k, 0) was false (a formula without such a quotient has nothing to guard)", quotients),
			fmt.Sprintf("%d quotient(s) of the form (k-1)/(k+1), %d behind a test math.IsInf(k, ...) of the same k: k = exp(2y) overflows for every y above about 355 (Inf/Inf = NaN latitude), and a test of the input coordinate instead also sends y = -Inf, the image of the south pole, to the north pole", quotients, guarded))
	}
	return obs
}
