package rules

import (
	"fmt"
	"go/ast"
	"go/token"
	"go/types"
	"sort"
	"strings"

	"golang.org/x/tools/go/ssa"

	"verif/checker/core"
)

// R-TWIN: cross-check of sibling implementations (Engler et al.: deviant behaviour between functions that
// are meant to be mirror images). Each pair is compared as alpha-renamed syntax trees after the pair's
// declared substitution; the set of leaf differences found on today's tree was read and frozen per pair
// (most pairs: none). Only NEW single-site leaf differences are violations; trees of different shape are
// not compared.

type twinPair struct {
	pkg        string
	recvA, fnA string
	recvB, fnB string
	subst      map[string]string // leaf token of A -> leaf token of B
	allowed    []string          // leaf differences confirmed by reading ("x vs y"), in addition to subst
	props      []string
	why        string
	byName     bool // locals named in subst are compared by name (through subst); all others by order of first use
	// calleeAllow: helpers that one twin of the pair uses and the other does not, by design (confirmed by reading); when the
	// shapes differ, any OTHER difference between the two sets of callees is reported
	calleeAllow []string
}

func twinTokens(info *types.Info, fd *ast.FuncDecl, byName map[string]bool) []string {
	nodes := []ast.Node{}
	if fd.Recv != nil {
		nodes = append(nodes, fd.Recv)
	}
	nodes = append(nodes, fd.Type.Params, fd.Body)
	return alphaTokensNorm(info, nodes, byName)
}

// alphaTokensNorm is alphaTokens with comparisons normalised (a > b => b < a, a >= b => b <= a).
func alphaTokensNorm(info *types.Info, nodes []ast.Node, byName map[string]bool) []string {
	var out []string
	num := map[types.Object]int{}
	var visit func(n ast.Node)
	leafIdent := func(x *ast.Ident) {
		o := info.Uses[x]
		if o == nil {
			o = info.Defs[x]
		}
		if v, ok := o.(*types.Var); ok && !byName[v.Name()] && !v.IsField() && v.Pkg() != nil && v.Parent() != v.Pkg().Scope() {
			if _, seen := num[o]; !seen {
				num[o] = len(num)
			}
			out = append(out, fmt.Sprintf("leaf:var#%d", num[o]))
		} else if o != nil {
			out = append(out, "leaf:"+o.Name())
		} else {
			out = append(out, "leaf:"+x.Name)
		}
	}
	visit = func(n ast.Node) {
		switch x := n.(type) {
		case nil:
			return
		case *ast.Ident:
			leafIdent(x)
			return
		case *ast.BasicLit:
			out = append(out, "leaf:"+x.Value)
			return
		case *ast.ParenExpr:
			visit(x.X)
			return
		case *ast.BinaryExpr:
			op, l, r := x.Op, x.X, x.Y
			if op == token.GTR {
				op, l, r = token.LSS, r, l
			} else if op == token.GEQ {
				op, l, r = token.LEQ, r, l
			}
			out = append(out, "BinaryExpr", "leaf:"+op.String())
			visit(l)
			visit(r)
			return
		case *ast.UnaryExpr:
			out = append(out, "UnaryExpr", "leaf:"+x.Op.String())
			visit(x.X)
			return
		case *ast.AssignStmt:
			out = append(out, "AssignStmt", "leaf:"+x.Tok.String())
		case *ast.IncDecStmt:
			out = append(out, "IncDecStmt", "leaf:"+x.Tok.String())
		case *ast.BranchStmt:
			out = append(out, "BranchStmt", "leaf:"+x.Tok.String())
		case *ast.FuncLit:
			out = append(out, "FuncLit")
		case *ast.CommentGroup, *ast.Comment:
			return
		default:
			out = append(out, fmt.Sprintf("%T", n))
		}
		// generic children in source order
		var kids []ast.Node
		first := true
		ast.Inspect(n, func(c ast.Node) bool {
			if first {
				first = false
				return true
			}
			if c != nil {
				kids = append(kids, c)
			}
			return false
		})
		for _, k := range kids {
			visit(k)
		}
	}
	for _, nd := range nodes {
		visit(nd)
		out = append(out, ";")
	}
	return out
}

// twinDiff returns kind ("same" | "leaf" | "shape") and the list of leaf differences not explained by subst.
func twinDiff(a, b []string, subst map[string]string) (string, []string) {
	if len(a) != len(b) {
		return "shape", nil
	}
	var diffs []string
	for i := range a {
		isLeafA, isLeafB := strings.HasPrefix(a[i], "leaf:"), strings.HasPrefix(b[i], "leaf:")
		if !isLeafA || !isLeafB {
			if a[i] != b[i] {
				return "shape", nil
			}
			continue
		}
		la, lb := strings.TrimPrefix(a[i], "leaf:"), strings.TrimPrefix(b[i], "leaf:")
		// a token in the substitution's domain must be mapped: the unchanged token is the copy-and-paste slip
		if want, mapped := subst[la]; mapped {
			if lb != want {
				diffs = append(diffs, la+" vs "+lb)
			}
			continue
		}
		if la != lb {
			diffs = append(diffs, la+" vs "+lb)
		}
	}
	if len(diffs) == 0 {
		return "same", nil
	}
	return "leaf", diffs
}

func runTwin(c *core.Ctx) []core.Obligation {
	var obs []core.Obligation
	for _, tp := range twinPairs {
		pkg := c.Pkgs[tp.pkg]
		fa, fb := c.LookupFunc(tp.pkg, tp.recvA, tp.fnA), c.LookupFunc(tp.pkg, tp.recvB, tp.fnB)
		name := func(r, f string) string {
			if r == "" {
				return f
			}
			return r + "." + f
		}
		construct := twinConstruct(tp)
		if pkg == nil || fa == nil || fb == nil || c.Decl(fa) == nil || c.Decl(fb) == nil {
			obs = append(obs, core.Ob("R-TWIN", construct, "-", "", core.Violated, "unresolved anchor"))
			continue
		}
		info := pkg.TypesInfo
		named := map[string]bool{}
		if tp.byName {
			for k, v := range tp.subst {
				named[k], named[v] = true, true
			}
		}
		ta, tb := twinTokens(info, c.Decl(fa), named), twinTokens(info, c.Decl(fb), named)
		kind, diffs := twinDiff(ta, tb, tp.subst)
		site := c.Pos(fb.Pos())
		switch kind {
		case "shape":
			// different shapes: fall back to the set of library functions each twin calls. Under the pair's substitution
			// the two sets must agree - a twin that reaches its answer through different helpers (the maximum over two
			// endpoint distances instead of the distance to the edge) is no longer the mirror image, whatever its shape.
			ca, cb := twinCallees(c, fa, tp.subst), twinCallees(c, fb, nil)
			var onlyA, onlyB []string
			for k := range ca {
				if !cb[k] {
					onlyA = append(onlyA, k)
				}
			}
			for k := range cb {
				if !ca[k] {
					onlyB = append(onlyB, k)
				}
			}
			sort.Strings(onlyA)
			sort.Strings(onlyB)
			allow := map[string]bool{}
			for _, a := range tp.calleeAllow {
				allow[a] = true
			}
			filter := func(xs []string) []string {
				var out []string
				for _, x := range xs {
					if !allow[x] {
						out = append(out, x)
					}
				}
				return out
			}
			onlyA, onlyB = filter(onlyA), filter(onlyB)
			if len(onlyA)+len(onlyB) > 0 {
				obs = append(obs, core.Ob("R-TWIN", construct, site, fb.FullName(), core.Violated,
					fmt.Sprintf("the two functions have different shapes AND call different helpers: %s (after the substitution) calls {%s} that %s does not, which calls {%s} instead - the pair was declared as mirror images (%s), so one of them no longer computes the mirrored quantity", name(tp.recvA, tp.fnA), strings.Join(onlyA, ", "), name(tp.recvB, tp.fnB), strings.Join(onlyB, ", "), tp.why)))
				break
			}
			o := core.Ob("R-TWIN", construct, site, fb.FullName(), core.Discharged, "not compared token by token - the two functions have different shapes; they call the same helpers under the substitution")
			if len(tp.calleeAllow) > 0 {
				o.Detail += " (apart from " + strings.Join(tp.calleeAllow, ", ") + ", which one of them uses by design)"
			}
			o.Trivial = true
			obs = append(obs, o)
		case "same":
			obs = append(obs, core.Ob("R-TWIN", construct, site, fb.FullName(), core.Discharged, "mirror images under the declared substitution: "+tp.why))
		default:
			// the confirmed differences are a multiset: one more or one fewer of the same kind is a deviation too
			allowed := map[string]int{}
			for _, a := range tp.allowed {
				allowed[a]++
			}
			var fresh []string
			for _, d := range diffs {
				if allowed[d] > 0 {
					allowed[d]--
				} else {
					fresh = append(fresh, d)
				}
			}
			for a, n := range allowed {
				for ; n > 0; n-- {
					fresh = append(fresh, "(expected difference gone: "+a+")")
				}
			}
			sort.Strings(fresh)
			if len(fresh) == 0 {
				obs = append(obs, core.Ob("R-TWIN", construct, site, fb.FullName(), core.Discharged, fmt.Sprintf("mirror images up to %d differences confirmed by reading: %s", len(diffs), tp.why)))
			} else {
				obs = append(obs, core.Ob("R-TWIN", construct, site, fb.FullName(), core.Violated,
					fmt.Sprintf("%s and %s are written as mirror images (%s) but differ at: %s - one of the two deviates", name(tp.recvA, tp.fnA), name(tp.recvB, tp.fnB), tp.why, strings.Join(fresh, "; "))))
			}
		}
	}
	return obs
}

// clipUBound/clipVBound: the slope test (e.a.X > e.b.X) == (e.a.Y > e.b.Y) is written identically in both, and both end in
// updateBound(edge, uEnd, u, vEnd, v) with the arguments in that fixed order.
var clipAllowed = []string{"X vs X", "X vs X", "Y vs Y", "Y vs Y", "u vs u", "uEnd vs uEnd", "v vs v", "vEnd vs vEnd"}

// splitUBound/splitVBound: the slope test is written identically in both and both end in splitBound(edgeBound, uEnd, vEnd, u, v)
// with the arguments in that fixed order (0, diag, u, v) resp. (diag, 0, u, v).
var splitAllowed = []string{"0 vs diag", "diag vs 0", "X vs X", "X vs X", "Y vs Y", "Y vs Y", "u vs u", "v vs v"}

var projSubst = map[string]string{"PlateCarreeProjection": "MercatorProjection"}

var minMaxSubst = map[string]string{
	"MinDistanceToPointTarget": "MaxDistanceToPointTarget", "MinDistanceToEdgeTarget": "MaxDistanceToEdgeTarget",
	"MinDistanceToCellTarget": "MaxDistanceToCellTarget", "MinDistanceToShapeIndexTarget": "MaxDistanceToShapeIndexTarget",
	"NewMinDistanceToPointTarget": "NewMaxDistanceToPointTarget", "NewMinDistanceToEdgeTarget": "NewMaxDistanceToEdgeTarget",
	"NewMinDistanceToCellTarget": "NewMaxDistanceToCellTarget", "NewMinDistanceToShapeIndexTarget": "NewMaxDistanceToShapeIndexTarget",
	"UpdateMinDistance": "UpdateMaxDistance", "updateEdgePairMinDistance": "updateEdgePairMaxDistance",
	"Distance": "MaxDistance", "DistanceToEdge": "MaxDistanceToEdge", "DistanceToCell": "MaxDistanceToCell",
	"minDistance": "maxDistance", "NewClosestEdgeQuery": "NewFurthestEdgeQuery", "NewClosestEdgeQueryOptions": "NewFurthestEdgeQueryOptions",
}

var twinPairs = func() []twinPair {
	var ps []twinPair
	c08 := []string{"C08"}
	for _, t := range []string{"Point", "Edge", "Cell", "ShapeIndex"} {
		for _, m := range []string{"updateDistanceToPoint", "updateDistanceToEdge", "updateDistanceToCell", "visitContainingShapes", "setMaxError", "distance", "capBound"} {
			// the furthest-edge capBound (all four kinds) and the point target's visitContainingShapes work through the
			// antipode of the target (Mul(-1), a cap rebuilt around the antipodal centre): different helpers by design
			var loose []string
			if m == "capBound" {
				loose = []string{"Mul", "CapFromCenterAngle", "Center", "Radius"}
			} else if t == "Point" && m == "visitContainingShapes" {
				loose = []string{"Mul"}
			}
			ps = append(ps, twinPair{pkg: "s2", recvA: "MinDistanceTo" + t + "Target", fnA: m, recvB: "MaxDistanceTo" + t + "Target", fnB: m, subst: minMaxSubst, props: c08,
				why: "closest-edge and furthest-edge target of the same kind", calleeAllow: loose})
		}
	}
	// the three update methods of one ShapeIndex target differ only in the sub-target they construct
	for _, fam := range []string{"Min", "Max"} {
		r := fam + "DistanceToShapeIndexTarget"
		ps = append(ps,
			twinPair{pkg: "s2", recvA: r, fnA: "updateDistanceToPoint", recvB: r, fnB: "updateDistanceToEdge", props: c08, why: "same protocol for a point and an edge",
				subst: map[string]string{"New" + fam + "DistanceToPointTarget": "New" + fam + "DistanceToEdgeTarget", "Point": "Edge"}},
			twinPair{pkg: "s2", recvA: r, fnA: "updateDistanceToPoint", recvB: r, fnB: "updateDistanceToCell", props: c08, why: "same protocol for a point and a cell",
				subst: map[string]string{"New" + fam + "DistanceToPointTarget": "New" + fam + "DistanceToCellTarget", "Point": "Cell"}})
	}
	ps = append(ps,
		twinPair{pkg: "s2", recvA: "ShapeIndex", fnA: "clipUBound", recvB: "ShapeIndex", fnB: "clipVBound", props: []string{"C06"}, why: "u and v versions of the same clipping step", byName: true,
			subst: map[string]string{"X": "Y", "Y": "X", "u": "v", "v": "u", "uEnd": "vEnd", "vEnd": "uEnd"},
			// updateBound takes (uEnd, u, vEnd, v) in that order in both, and the slope test is written identically in both
			allowed: clipAllowed},
		twinPair{pkg: "s2", recvA: "EdgeCrosser", fnA: "CrossingSign", recvB: "EdgeCrosser", fnB: "EdgeOrVertexCrossing", props: []string{"C03"}, why: "two-argument wrappers of the chain methods",
			subst: map[string]string{"ChainCrossingSign": "EdgeOrVertexChainCrossing"}},
		twinPair{pkg: "s2", recvA: "Loop", fnA: "ContainsCell", recvB: "Polygon", fnB: "ContainsCell", props: []string{"C05"}, why: "loop and polygon version of the cell predicate", subst: map[string]string{"Loop": "Polygon"}},
		twinPair{pkg: "s2", recvA: "Loop", fnA: "IntersectsCell", recvB: "Polygon", fnB: "IntersectsCell", props: []string{"C05"}, why: "loop and polygon version of the cell predicate", subst: map[string]string{"Loop": "Polygon"}},
		twinPair{pkg: "s2", recvA: "Loop", fnA: "boundaryApproxIntersects", recvB: "Polygon", fnB: "boundaryApproxIntersects", props: []string{"C05"}, why: "loop and polygon version of the boundary test", subst: map[string]string{"Loop": "Polygon"}, calleeAllow: []string{"Vertex", "Edge", "Shape"}}, // the polygon reads edges through its index shape
		twinPair{pkg: "s2", recvA: "CellID", fnA: "ChildBegin", recvB: "CellID", fnB: "ChildEnd", props: []string{"C01", "C11", "C12"}, why: "first child and one-past-last child",
			subst: map[string]string{"-": "+"}},
		twinPair{pkg: "s2", recvA: "CellID", fnA: "ChildBeginAtLevel", recvB: "CellID", fnB: "ChildEndAtLevel", props: []string{"C01", "C11", "C12"}, why: "first and one-past-last descendant at a level",
			subst: map[string]string{"-": "+"}},
		twinPair{pkg: "s2", recvA: "CellID", fnA: "RangeMin", recvB: "CellID", fnB: "RangeMax", props: []string{"C01", "C11", "C12"}, why: "first and last leaf",
			subst: map[string]string{"-": "+"}, allowed: []string{"- vs -"}}, // ci -/+ (lsb - 1): the inner minus is common
		twinPair{pkg: "s2", recvA: "CellID", fnA: "Next", recvB: "CellID", fnB: "Prev", props: []string{"C01", "C11", "C12"}, why: "next and previous cell on the curve",
			subst: map[string]string{"+": "-"}},
		twinPair{pkg: "s2", recvA: "CellID", fnA: "NextWrap", recvB: "CellID", fnB: "PrevWrap", props: []string{"C01", "C11", "C12"}, why: "wrapping next and previous",
			subst: map[string]string{"Next": "Prev", "-": "+"}},
		twinPair{pkg: "s2", recvA: "PaddedCell", fnA: "EntryVertex", recvB: "PaddedCell", fnB: "ExitVertex", props: []string{"C06"}, why: "first and last vertex of the cell on the curve"},
		twinPair{pkg: "s2", recvA: "", fnA: "NewClosestEdgeQuery", recvB: "", fnB: "NewFurthestEdgeQuery", props: c08, why: "constructors of the two query families", subst: minMaxSubst},
		twinPair{pkg: "s2", recvA: "", fnA: "NewClosestEdgeQueryOptions", recvB: "", fnB: "NewFurthestEdgeQueryOptions", props: c08, why: "option constructors of the two query families", subst: minMaxSubst},
		twinPair{pkg: "s2", recvA: "CrossingEdgeQuery", fnA: "splitUBound", recvB: "CrossingEdgeQuery", fnB: "splitVBound", props: []string{"C06"}, why: "u and v versions of the edge-bound split", byName: true,
			subst: map[string]string{"X": "Y", "Y": "X", "u": "v", "v": "u", "diag": "diag"}, allowed: splitAllowed},
		twinPair{pkg: "s2", recvA: "Cell", fnA: "latitude", recvB: "Cell", fnB: "longitude", props: []string{"C10", "C12"}, why: "latitude and longitude of a cell corner, used by Cell.RectBound",
			subst: map[string]string{"latitude": "longitude"}},
		twinPair{pkg: "s2", recvA: "RegionCoverer", fnA: "Covering", recvB: "RegionCoverer", fnB: "InteriorCovering", props: []string{"C05"}, why: "covering and interior covering post-processing",
			subst: map[string]string{"CellUnion": "InteriorCellUnion"}},
		twinPair{pkg: "s2", recvA: "Polygon", fnA: "anyLoopContains", recvB: "Polygon", fnB: "anyLoopIntersects", props: []string{"C07"}, why: "existential loop tests of the polygon relations",
			subst: map[string]string{"Contains": "Intersects"}},
		twinPair{pkg: "s2", recvA: "", fnA: "updateEdgePairMinDistance", recvB: "", fnB: "updateEdgePairMaxDistance", props: []string{"C08", "C17"}, why: "edge-pair distance from the four vertex-edge cases", subst: minMaxSubst, calleeAllow: []string{"Mul"}}, // the maximum version tests the crossing of the antipodal edge (Mul(-1))
		twinPair{pkg: "s2", recvA: "minDistance", fnA: "updateDistance", recvB: "maxDistance", fnB: "updateDistance", props: c08, why: "distance update of the two query families", subst: minMaxSubst},
		twinPair{pkg: "s2", recvA: "", fnA: "NewMinDistanceToShapeIndexTarget", recvB: "", fnB: "NewMaxDistanceToShapeIndexTarget", props: c08, why: "constructors of the two ShapeIndex targets", subst: minMaxSubst},
		twinPair{pkg: "s2", recvA: "minDistance", fnA: "fromChordAngle", recvB: "maxDistance", fnB: "fromChordAngle", props: c08, why: "distance wrappers of the two query families", subst: minMaxSubst},
		twinPair{pkg: "s2", recvA: "queryOptions", fnA: "ClosestInclusiveDistanceLimit", recvB: "queryOptions", fnB: "FurthestInclusiveDistanceLimit", props: c08, why: "inclusive limits of the two query families",
			subst: map[string]string{"Successor": "Predecessor"}},
		twinPair{pkg: "s2", recvA: "", fnA: "NewMinDistanceToPointTarget", recvB: "", fnB: "NewMaxDistanceToPointTarget", props: c08, why: "target constructors of the two query families", subst: minMaxSubst},
		twinPair{pkg: "s2", recvA: "", fnA: "NewMinDistanceToEdgeTarget", recvB: "", fnB: "NewMaxDistanceToEdgeTarget", props: c08, why: "target constructors of the two query families", subst: minMaxSubst},
		twinPair{pkg: "s2", recvA: "", fnA: "NewMinDistanceToCellTarget", recvB: "", fnB: "NewMaxDistanceToCellTarget", props: c08, why: "target constructors of the two query families", subst: minMaxSubst},
		twinPair{pkg: "s2", recvA: "CellUnion", fnA: "ContainsCell", recvB: "CellUnion", fnB: "IntersectsCell", props: []string{"C11", "C05"}, why: "cell predicates of a union delegate to the id predicates",
			subst: map[string]string{"ContainsCellID": "IntersectsCellID"}},
		twinPair{pkg: "s2", recvA: "Cell", fnA: "ContainsCell", recvB: "Cell", fnB: "IntersectsCell", props: []string{"C12", "C05"}, why: "cell-cell predicates delegate to the id predicates",
			subst: map[string]string{"Contains": "Intersects"}},
		twinPair{pkg: "s2", recvA: "RegionUnion", fnA: "ContainsCell", recvB: "RegionUnion", fnB: "IntersectsCell", props: []string{"C05"}, why: "existential region tests",
			subst: map[string]string{"ContainsCell": "IntersectsCell"}},
		twinPair{pkg: "s2", recvA: "Cell", fnA: "Vertex", recvB: "Cell", fnB: "Edge", props: []string{"C12"}, why: "normalised vertex and edge accessors",
			subst: map[string]string{"VertexRaw": "EdgeRaw"}},
		twinPair{pkg: "s2", recvA: "Cell", fnA: "Distance", recvB: "Cell", fnB: "BoundaryDistance", props: []string{"C12"}, why: "distance to the cell and to its boundary differ only in the interior flag",
			subst: map[string]string{"true": "false"}},
		twinPair{pkg: "s2", recvA: "", fnA: "IsDistanceLess", recvB: "", fnB: "IsInteriorDistanceLess", props: []string{"C17"}, why: "threshold forms of the two distance updates",
			subst: map[string]string{"UpdateMinDistance": "UpdateMinInteriorDistance"}},
		twinPair{pkg: "s2", recvA: "", fnA: "UpdateMinDistance", recvB: "", fnB: "UpdateMinInteriorDistance", props: []string{"C17"}, why: "the two distance updates",
			subst: map[string]string{"updateMinDistance": "interiorDist"}},
		twinPair{pkg: "s2", recvA: "PlateCarreeProjection", fnA: "Unproject", recvB: "MercatorProjection", fnB: "Unproject", props: []string{"C20"}, why: "the two projections", subst: projSubst},
		twinPair{pkg: "s2", recvA: "PlateCarreeProjection", fnA: "WrapDistance", recvB: "MercatorProjection", fnB: "WrapDistance", props: []string{"C20"}, why: "the two projections", subst: projSubst},
		twinPair{pkg: "s2", recvA: "PlateCarreeProjection", fnA: "WrapDestination", recvB: "MercatorProjection", fnB: "WrapDestination", props: []string{"C20"}, why: "the two projections", subst: projSubst},
		twinPair{pkg: "s2", recvA: "PlateCarreeProjection", fnA: "Interpolate", recvB: "MercatorProjection", fnB: "Interpolate", props: []string{"C20"}, why: "the two projections", subst: projSubst},
		twinPair{pkg: "s1", recvA: "Angle", fnA: "E5", recvB: "Angle", fnB: "E6", props: []string{"C19", "C20"}, why: "fixed-point degree conversions", subst: map[string]string{"1e5": "1e6"}},
		twinPair{pkg: "s1", recvA: "Angle", fnA: "E6", recvB: "Angle", fnB: "E7", props: []string{"C19", "C20"}, why: "fixed-point degree conversions", subst: map[string]string{"1e6": "1e7"}},
		twinPair{pkg: "r3", recvA: "Vector", fnA: "Add", recvB: "Vector", fnB: "Sub", props: []string{"C02"}, why: "component-wise sum and difference", subst: map[string]string{"+": "-"}},
		twinPair{pkg: "r3", recvA: "PreciseVector", fnA: "Add", recvB: "PreciseVector", fnB: "Sub", props: []string{"C02", "C16"}, why: "exact component-wise sum and difference", subst: map[string]string{"precAdd": "precSub"}},
		twinPair{pkg: "r2", recvA: "Rect", fnA: "Lo", recvB: "Rect", fnB: "Hi", props: []string{"C19"}, why: "low and high corner", subst: map[string]string{"Lo": "Hi"}},
		twinPair{pkg: "s2", recvA: "Rect", fnA: "Lo", recvB: "Rect", fnB: "Hi", props: []string{"C19"}, why: "low and high corner", subst: map[string]string{"Lo": "Hi"}},
	)
	return ps
}()

func init() {
	core.Register(&core.Rule{
		Name: "R-TWIN",
		Clause: "several properties: functions written as mirror images of one another (closest/furthest-edge targets, u/v clipping, first/last child, loop/polygon cell predicates, the sub-query " +
			"protocol of the ShapeIndex targets) agree up to their declared substitution. A single-site deviation of one twin - another operator, constant, field or callee - is the classic copy-and-edit slip.",
		Min: 50,
		Run: runTwin,
	})
}

// DumpTwinCandidates lists groups of functions whose syntax trees have the same shape (debugging aid used to
// find candidate pairs for the table above; not part of any check).
func DumpTwinCandidates(c *core.Ctx, minTokens int) {
	type fnTok struct {
		name string
		toks []string
	}
	groups := map[string][]fnTok{}
	for pname, pkg := range c.Pkgs {
		for _, file := range pkg.Syntax {
			if strings.HasSuffix(c.Fset.Position(file.Pos()).Filename, "_test.go") {
				continue
			}
			for _, d := range file.Decls {
				fd, ok := d.(*ast.FuncDecl)
				if !ok || fd.Body == nil {
					continue
				}
				toks := twinTokens(pkg.TypesInfo, fd, nil)
				if len(toks) < minTokens {
					continue
				}
				var shape []string
				for _, t := range toks {
					if strings.HasPrefix(t, "leaf:") {
						shape = append(shape, "_")
					} else {
						shape = append(shape, t)
					}
				}
				n := fd.Name.Name
				if fd.Recv != nil && len(fd.Recv.List) == 1 {
					n = types.ExprString(fd.Recv.List[0].Type) + "." + n
				}
				key := strings.Join(shape, " ")
				groups[key] = append(groups[key], fnTok{pname + ":" + n, toks})
			}
		}
	}
	var lines []string
	for _, g := range groups {
		if len(g) < 2 {
			continue
		}
		var names []string
		for _, f := range g {
			names = append(names, f.name)
		}
		sort.Strings(names)
		_, diffs := twinDiff(g[0].toks, g[1].toks, nil)
		lines = append(lines, fmt.Sprintf("%3d tokens  %s   diffs(first two): %s", len(g[0].toks), strings.Join(names, " | "), strings.Join(diffs, "; ")))
	}
	sort.Strings(lines)
	for _, l := range lines {
		fmt.Println(l)
	}
}

func twinConstruct(tp twinPair) string {
	name := func(r, f string) string {
		if r == "" {
			return f
		}
		return r + "." + f
	}
	return "twin:" + tp.pkg + "." + name(tp.recvA, tp.fnA) + "~" + name(tp.recvB, tp.fnB)
}

// twinCallees: names of the library functions fn calls statically, mapped through subst.
func twinCallees(c *core.Ctx, f *types.Func, subst map[string]string) map[string]bool {
	out := map[string]bool{}
	fn := c.SSA(f)
	if fn == nil {
		return out
	}
	var visit func(fn *ssa.Function)
	visit = func(fn *ssa.Function) {
		core.AllInstrs(fn, func(in ssa.Instruction) {
			ci, ok := in.(ssa.CallInstruction)
			if !ok {
				return
			}
			var name string
			if ci.Common().IsInvoke() {
				name = ci.Common().Method.Name()
			} else if sc := ci.Common().StaticCallee(); sc != nil && core.IsGeo(sc) {
				name = sc.Name()
			} else {
				return
			}
			if m, ok := subst[name]; ok {
				name = m
			}
			out[name] = true
		})
		for _, an := range fn.AnonFuncs {
			visit(an)
		}
	}
	visit(fn)
	return out
}
