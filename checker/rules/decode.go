package rules

import (
	"fmt"
	"go/token"
	"go/types"
	"sort"
	"strings"

	"golang.org/x/tools/go/ssa"

	"verif/checker/core"
)

func init() {
	core.Register(&core.Rule{
		Name: "R-ALLOC",
		Clause: "C15 'declared element counts beyond the documented limits are rejected before memory is allocated': every make() whose size is chosen by decoder input " +
			"is dominated by a comparison of that value against a constant limit whose failing branch cannot reach the allocation, and by a proof that the value is not negative. " +
			"Does not cover: allocation inside callees outside the library (io, bufio).",
		Min: 6,
		Run: runAlloc,
	})
	core.Register(&core.Rule{
		Name: "R-INDEX",
		Clause: "C15 'never panics': every index/slice expression anywhere in the library whose index may be chosen by decoder input (directly, through a struct field, or through a decoded " +
			"value that was not validated) is guarded by a dominating bounds check, a mask/modulus that fits the container, or a validated-value sanitizer. " +
			"Does not cover: panics other than index-out-of-range (nil dereference, division by zero) on decoded-but-degenerate geometry.",
		Min: 3,
		Run: runIndex,
	})
	core.Register(&core.Rule{
		Name: "R-TERM",
		Clause: "C15 'never loops forever': every loop whose exit condition depends on decoder input either compares an induction variable against a value that was bounded (R-ALLOC style) " +
			"or consumes input on every iteration and leaves on the sticky error.",
		Min: 2,
		Run: runTerm,
	})
	core.Register(&core.Rule{
		Name: "R-STICKY",
		Clause: "C15 'returns an error': the decoder is only ever passed by pointer, every exported Decode returns the err field of the very decoder object it handed down, " +
			"and every decoder read method starts with the sticky guard and assigns err from the underlying read.",
		Min: 12,
		Run: runSticky,
	})
}

var sharedTaint *taintState

// boundCtx gives ubound access to the call graph for parameter bounds.
var boundCtx *core.Ctx

func getTaint(c *core.Ctx) *taintState {
	boundCtx = c
	if sharedTaint == nil || sharedTaint.c != c {
		sharedTaint = newTaint(c)
	}
	return sharedTaint
}

// chain returns v and the values it was converted from (through Convert/ChangeType only).
func chain(v ssa.Value) []ssa.Value {
	out := []ssa.Value{v}
	for {
		switch x := v.(type) {
		case *ssa.Convert:
			v = x.X
		case *ssa.ChangeType:
			v = x.X
		default:
			return out
		}
		out = append(out, v)
	}
}

// boundCheck describes a dominating comparison that bounds a value.
type boundCheck struct {
	upper, lower bool
	strict       bool      // upper: establishes value < limit (otherwise value <= limit)
	lenOf        ssa.Value // upper: the limit is len()/cap() of this value (nil for constants)
	unsignedCmp  bool      // the compared value has an unsigned type (so an upper bound is also a lower bound of 0)
	limit        string
	pos          token.Pos
}

// isLimit reports whether v is an acceptable limit operand: a constant, len()/cap() of something, or a conversion of those.
func isLimit(v ssa.Value) (string, bool) {
	s, _, ok := limitOf(v)
	return s, ok
}

func limitOf(v ssa.Value) (string, ssa.Value, bool) {
	v = core.StripConv(v)
	if c, ok := v.(*ssa.Const); ok && c.Value != nil {
		return c.Value.String(), nil, true
	}
	if call, ok := v.(*ssa.Call); ok {
		if b, ok := call.Call.Value.(*ssa.Builtin); ok && (b.Name() == "len" || b.Name() == "cap") && len(call.Call.Args) == 1 {
			return b.Name() + "(...)", call.Call.Args[0], true
		}
	}
	return "", nil, false
}

// findBounds looks for dominating comparisons of any value in vals (all
// denoting the same number) with a limit, such that the out-of-bounds edge
// cannot reach sink.
func findBounds(vals []ssa.Value, sink *ssa.BasicBlock, sinkInstr ssa.Instruction) []boundCheck {
	fn := sink.Parent()
	inVals := func(v ssa.Value) (ssa.Value, bool) {
		for _, x := range vals {
			if x == v {
				return x, true
			}
		}
		return nil, false
	}
	var out []boundCheck
	for _, b := range fn.Blocks {
		if len(b.Instrs) == 0 {
			continue
		}
		iff, ok := b.Instrs[len(b.Instrs)-1].(*ssa.If)
		if !ok {
			continue
		}
		if !(b.Dominates(sink)) || (b == sink) {
			continue
		}
		cond := iff.Cond
		neg := false
		for {
			if u, ok := cond.(*ssa.UnOp); ok && u.Op == token.NOT {
				cond = u.X
				neg = !neg
				continue
			}
			break
		}
		bo, ok := cond.(*ssa.BinOp)
		if !ok {
			continue
		}
		var val ssa.Value
		var lim string
		var lenOf ssa.Value
		op := bo.Op
		if v, ok := inVals(bo.X); ok {
			if l, lo, ok := limitOf(bo.Y); ok {
				val, lim, lenOf = v, l, lo
			}
		} else if v, ok := inVals(bo.Y); ok {
			if l, lo, ok := limitOf(bo.X); ok {
				val, lim, lenOf = v, l, lo
				// mirror the operator: K op v  ==  v op' K
				switch op {
				case token.LSS:
					op = token.GTR
				case token.LEQ:
					op = token.GEQ
				case token.GTR:
					op = token.LSS
				case token.GEQ:
					op = token.LEQ
				}
			}
		}
		if val == nil {
			continue
		}
		// Edge taken when "val is too large" / "val is too small".
		var bigEdge, smallEdge = -1, -1
		strict := false
		switch op {
		case token.GTR, token.GEQ: // val > K true => too big on edge 0
			bigEdge = 0
			smallEdge = 1            // val <= K ... not a lower bound by itself
			strict = op == token.GEQ // in range means val < K
		case token.LSS, token.LEQ: // val < K true: edge 0 is "small", edge 1 is "big"
			bigEdge = 1
			smallEdge = 0
			strict = op == token.LSS
		default:
			continue
		}
		if neg {
			if bigEdge >= 0 {
				bigEdge = 1 - bigEdge
			}
			if smallEdge >= 0 {
				smallEdge = 1 - smallEdge
			}
		}
		unsigned := core.IsUnsigned(val.Type())
		// Upper bound: the "too big" edge must not reach the sink.
		if !core.ReachableAvoiding(b.Succs[bigEdge], sink, nil, nil) || b.Succs[bigEdge] == sink && false {
			if b.Succs[bigEdge] != sink {
				out = append(out, boundCheck{upper: true, strict: strict, lenOf: lenOf, unsignedCmp: unsigned, limit: lim, pos: iff.Cond.Pos()})
			}
		}
		// Lower bound: comparison against a constant <= 0 ... "val < 0" / "val <= 0" with the small edge not reaching the sink.
		if (op == token.LSS || op == token.LEQ) && (lim == "0" || lim == "1") {
			if b.Succs[smallEdge] != sink && !core.ReachableAvoiding(b.Succs[smallEdge], sink, nil, nil) {
				out = append(out, boundCheck{lower: true, limit: lim, pos: iff.Cond.Pos()})
			}
		}
		if (op == token.GEQ || op == token.GTR) && (lim == "0" || lim == "-1") {
			// val >= 0 true-edge is the only way to the sink
			if b.Succs[smallEdge] != sink && !core.ReachableAvoiding(b.Succs[smallEdge], sink, nil, nil) {
				out = append(out, boundCheck{lower: true, limit: lim, pos: iff.Cond.Pos()})
			}
		}
	}
	_ = sinkInstr
	return out
}

// nonNegative reports whether value v (at the sink) cannot be negative given
// the chain of conversions it went through and the checks found.
func nonNegative(vals []ssa.Value, checks []boundCheck) (bool, string) {
	sinkT := vals[0].Type()
	if core.IsUnsigned(sinkT) {
		return true, "unsigned at use"
	}
	for _, ch := range checks {
		if ch.lower {
			return true, "explicit lower-bound exit"
		}
	}
	for _, ch := range checks {
		if ch.upper && ch.unsignedCmp {
			return true, "upper bound established on an unsigned value before conversion to a signed type"
		}
	}
	// Conversion from a strictly narrower unsigned type is value preserving.
	for i := 0; i+1 < len(vals); i++ {
		to, from := vals[i].Type(), vals[i+1].Type()
		if core.IsUnsigned(from) && !core.IsUnsigned(to) {
			f64, _ := core.IntSize(from)
			t64, _ := core.IntSize(to)
			if f64 < t64 {
				return true, fmt.Sprintf("converted from narrower unsigned %s", from)
			}
			return false, ""
		}
	}
	return false, ""
}

func runAlloc(c *core.Ctx) []core.Obligation {
	t := getTaint(c)
	var obs []core.Obligation
	for _, fn := range t.funcs {
		n := 0
		core.AllInstrs(fn, func(in ssa.Instruction) {
			mk, ok := in.(*ssa.MakeSlice)
			if !ok {
				return
			}
			for _, operand := range []struct {
				name string
				v    ssa.Value
			}{{"len", mk.Len}, {"cap", mk.Cap}} {
				if operand.name == "cap" && mk.Cap == mk.Len {
					continue
				}
				why, tainted := t.is(operand.v)
				if !tainted {
					continue
				}
				n++
				construct := fmt.Sprintf("%s:make#%d.%s", core.FuncName(fn), n, operand.name)
				vals := chain(operand.v)
				checks := findBounds(vals, mk.Block(), mk)
				var upper *boundCheck
				for i := range checks {
					if checks[i].upper {
						upper = &checks[i]
						break
					}
				}
				nn, nnWhy := nonNegative(vals, checks)
				site := c.Pos(mk.Pos())
				switch {
				case upper == nil:
					obs = append(obs, core.Ob("R-ALLOC", construct, site, core.FuncName(fn), core.Violated,
						fmt.Sprintf("allocation size comes from %s and no dominating comparison against a limit keeps the out-of-range branch away from this make()", shortWhy(why))))
				case !nn:
					obs = append(obs, core.Ob("R-ALLOC", construct, site, core.FuncName(fn), core.Violated,
						fmt.Sprintf("allocation size comes from %s, is signed at the make() and is only checked from above (limit %s at %s): a negative value reaches make()", shortWhy(why), upper.limit, c.Pos(upper.pos))))
				default:
					obs = append(obs, core.Ob("R-ALLOC", construct, site, core.FuncName(fn), core.Discharged,
						fmt.Sprintf("size from %s; upper limit %s checked at %s with the failing branch leaving; non-negative: %s", shortWhy(why), upper.limit, c.Pos(upper.pos), nnWhy)))
				}
			}
		})
	}
	// append() in a loop whose trip count is tainted is covered by R-TERM.
	obs = append(obs, taintReport(c, t, "R-ALLOC")...)
	return obs
}

// taintReport adds informational (trivial) obligations describing the taint analysis itself,
// and a failing one if a tainted store could not be tracked.
func taintReport(c *core.Ctx, t *taintState, rule string) []core.Obligation {
	var obs []core.Obligation
	var untracked []string
	for k := range t.untracked {
		untracked = append(untracked, k)
	}
	sort.Strings(untracked)
	for _, u := range untracked {
		o := core.Ob(rule, "untracked-store:"+u[strings.Index(u, " in ")+4:], strings.SplitN(u, " ", 2)[0], "", core.Undecided,
			"a decoder-controlled integer is stored to an address the heap model cannot name; extend locate()")
		obs = append(obs, o)
	}
	o := core.Ob(rule, "taint-summary", "-", "", core.Discharged,
		fmt.Sprintf("%d tainted SSA values; tainted heap locations: %s; validated writes: %d", len(t.vals), strings.Join(t.summary(), "; "), len(t.sanitizedWrites)))
	o.Trivial = true
	obs = append(obs, o)
	return obs
}

// ---------------------------------------------------------------------------

// ubound computes a conservative upper bound for a non-negative integer
// expression, or -1 if unknown. depth-limited, no loops (phis are unknown
// unless all edges are bounded constants).
func ubound(v ssa.Value, depth int) int64 {
	if depth > 20 {
		return -1
	}
	switch x := v.(type) {
	case *ssa.Parameter:
		// the maximum over all call sites of the enclosing function (library callers only)
		if boundCtx == nil {
			return -1
		}
		fn := x.Parent()
		idx := -1
		for i, p := range fn.Params {
			if p == x {
				idx = i
			}
		}
		node := boundCtx.CallGraph().Nodes[fn]
		if idx < 0 || node == nil || len(node.In) == 0 {
			return -1
		}
		best := int64(0)
		for _, e := range node.In {
			if e.Site == nil {
				return -1
			}
			args := e.Site.Common().Args
			ai := idx
			if e.Site.Common().IsInvoke() {
				ai = idx - 1
			}
			if ai < 0 || ai >= len(args) {
				return -1
			}
			u := ubound(args[ai], depth+2)
			if u < 0 {
				return -1
			}
			if u > best {
				best = u
			}
		}
		return best
	case *ssa.Const:
		if n, ok := core.ConstInt(x); ok && n >= 0 {
			return n
		}
		return -1
	case *ssa.Convert:
		in := ubound(x.X, depth+1)
		b64, _ := core.IntSize(x.Type())
		if in >= 0 {
			if b64 >= 63 || in < (int64(1)<<uint(b64-boolToInt(!core.IsUnsigned(x.Type())))) {
				return in
			}
		}
		// conversion to a narrow unsigned type bounds the value by itself
		if core.IsUnsigned(x.Type()) && b64 > 0 && b64 <= 32 {
			return (int64(1) << uint(b64)) - 1
		}
		if core.IsUnsigned(x.X.Type()) {
			f64, _ := core.IntSize(x.X.Type())
			if f64 > 0 && f64 <= 32 && f64 < b64 {
				return (int64(1) << uint(f64)) - 1
			}
		}
		return -1
	case *ssa.ChangeType:
		return ubound(x.X, depth+1)
	case *ssa.BinOp:
		a, b := ubound(x.X, depth+1), ubound(x.Y, depth+1)
		switch x.Op {
		case token.AND:
			if a >= 0 && b >= 0 {
				if a < b {
					return a
				}
				return b
			}
			if a >= 0 {
				return a
			}
			return b
		case token.REM:
			if b > 0 && (core.IsUnsigned(x.X.Type()) || a >= 0) {
				return b - 1
			}
		case token.SHR:
			if k, ok := core.ConstInt(x.Y); ok && core.IsUnsigned(x.X.Type()) {
				b64, _ := core.IntSize(x.X.Type())
				if a >= 0 {
					return a >> uint(k)
				}
				if b64 > 0 && int64(b64)-k < 62 && int64(b64)-k >= 0 {
					return (int64(1) << uint(int64(b64)-k)) - 1
				}
			}
		case token.QUO:
			if a >= 0 && b > 0 {
				return a
			}
		case token.ADD:
			if a >= 0 && b >= 0 && a < 1<<40 && b < 1<<40 {
				return a + b
			}
		case token.OR, token.XOR:
			if a >= 0 && b >= 0 && a < 1<<40 && b < 1<<40 {
				// bound by the next power of two minus one
				m := int64(1)
				for m <= a || m <= b {
					m <<= 1
				}
				return m - 1
			}
		case token.SHL:
			if k, ok := core.ConstInt(x.Y); ok && a >= 0 && k < 40 && a < 1<<20 {
				return a << uint(k)
			}
		case token.MUL:
			if a >= 0 && b >= 0 && a < 1<<30 && b < 1<<30 {
				return a * b
			}
		}
		return -1
	case *ssa.Phi:
		best := int64(0)
		for _, e := range x.Edges {
			u := int64(-1)
			if _, isPhi := e.(*ssa.Phi); !isPhi {
				u = ubound(e, depth+1)
			}
			if u < 0 {
				return -1
			}
			if u > best {
				best = u
			}
		}
		return best
	case *ssa.UnOp:
		if x.Op == token.MUL {
			// load of a narrow unsigned value
			b64, _ := core.IntSize(x.Type())
			if core.IsUnsigned(x.Type()) && b64 > 0 && b64 <= 16 {
				return (int64(1) << uint(b64)) - 1
			}
		}
		return -1
	case *ssa.Call:
		// math/bits results are small
		if f := core.StaticCallee(x); f != nil && f.Pkg != nil && f.Pkg.Pkg.Path() == "math/bits" {
			return 64
		}
		// a decoder read of a narrow unsigned type is bounded by its width
		if f := core.StaticCallee(x); f != nil && isDecoderRecv(f) && core.IsUnsigned(x.Type()) {
			if b64, _ := core.IntSize(x.Type()); b64 > 0 && b64 <= 16 {
				return (int64(1) << uint(b64)) - 1
			}
		}
		return -1
	}
	b64, _ := core.IntSize(v.Type())
	if core.IsUnsigned(v.Type()) && b64 > 0 && b64 <= 16 {
		return (int64(1) << uint(b64)) - 1
	}
	return -1
}

func boolToInt(b bool) int {
	if b {
		return 1
	}
	return 0
}

func provablyNonNeg(v ssa.Value, depth int) bool {
	if depth > 8 {
		return false
	}
	if core.IsUnsigned(v.Type()) {
		return true
	}
	switch x := v.(type) {
	case *ssa.Const:
		n, ok := core.ConstInt(x)
		return ok && n >= 0
	case *ssa.Convert:
		if core.IsUnsigned(x.X.Type()) {
			f64, _ := core.IntSize(x.X.Type())
			t64, _ := core.IntSize(x.Type())
			if f64 < t64 {
				return true
			}
			if u := ubound(x.X, depth+1); u >= 0 && u < 1<<31 {
				return true
			}
			return false
		}
		return provablyNonNeg(x.X, depth+1)
	case *ssa.ChangeType:
		return provablyNonNeg(x.X, depth+1)
	case *ssa.BinOp:
		switch x.Op {
		case token.AND:
			return provablyNonNeg(x.X, depth+1) || provablyNonNeg(x.Y, depth+1)
		case token.ADD, token.MUL, token.OR, token.XOR, token.QUO, token.SHR, token.SHL, token.REM:
			if x.Op == token.SHL || x.Op == token.ADD || x.Op == token.MUL {
				// may overflow only if large; require a small upper bound
				if u := ubound(x, depth+1); u < 0 {
					return false
				}
			}
			if x.Op == token.REM || x.Op == token.SHR || x.Op == token.QUO {
				return provablyNonNeg(x.X, depth+1)
			}
			return provablyNonNeg(x.X, depth+1) && provablyNonNeg(x.Y, depth+1)
		}
	case *ssa.Phi:
		for _, e := range x.Edges {
			if _, isPhi := e.(*ssa.Phi); isPhi || !provablyNonNeg(e, depth+1) {
				return false
			}
		}
		return true
	case *ssa.Call:
		if f := core.StaticCallee(x); f != nil && f.Pkg != nil && f.Pkg.Pkg.Path() == "math/bits" {
			return true
		}
	}
	return false
}

// sameContainer reports whether two SSA values denote the same slice/array
// (identical value, or loads of the same address).
func sameContainer(a, b ssa.Value) bool {
	if a == b {
		return true
	}
	la, ok1 := a.(*ssa.UnOp)
	lb, ok2 := b.(*ssa.UnOp)
	if ok1 && ok2 && la.Op == token.MUL && lb.Op == token.MUL {
		return sameAddr(la.X, lb.X)
	}
	return false
}

func constLimit(s string) (int64, bool) {
	var k int64
	if _, err := fmt.Sscanf(s, "%d", &k); err != nil {
		return 0, false
	}
	return k, true
}

// containerLen returns the static length of the indexed container (array or
// pointer to array), or -1 for slices/strings.
func containerLen(t types.Type) int64 {
	if p, ok := t.Underlying().(*types.Pointer); ok {
		t = p.Elem()
	}
	if a, ok := t.Underlying().(*types.Array); ok {
		return a.Len()
	}
	return -1
}

func runIndex(c *core.Ctx) []core.Obligation {
	t := getTaint(c)
	var obs []core.Obligation
	for _, fn := range t.funcs {
		n := 0
		core.AllInstrs(fn, func(in ssa.Instruction) {
			type sink struct {
				idx       ssa.Value
				cont      types.Type
				what      string
				container ssa.Value
			}
			var sinks []sink
			switch x := in.(type) {
			case *ssa.IndexAddr:
				sinks = append(sinks, sink{x.Index, x.X.Type(), "index", x.X})
			case *ssa.Index:
				sinks = append(sinks, sink{x.Index, x.X.Type(), "index", x.X})
			case *ssa.Lookup:
				if _, isMap := x.X.Type().Underlying().(*types.Map); !isMap {
					sinks = append(sinks, sink{x.Index, x.X.Type(), "index", x.X})
				}
			case *ssa.Slice:
				for _, b := range []ssa.Value{x.Low, x.High, x.Max} {
					if b == nil {
						continue
					}
					// s[i : i+1] is safe exactly when i is a valid element index: the high bound i+1 is judged as the
					// index i (found when D58's repair sliced one decoded vertex out of the target)
					if bo, ok := b.(*ssa.BinOp); ok && bo.Op == token.ADD && b != x.Low {
						if k, ok := core.ConstInt(bo.Y); ok && k == 1 {
							sinks = append(sinks, sink{bo.X, x.X.Type(), "index", x.X})
							continue
						}
					}
					sinks = append(sinks, sink{b, x.X.Type(), "slice bound", x.X})
				}
			}
			for _, s := range sinks {
				why, tainted := t.is(s.idx)
				if !tainted {
					continue
				}
				n++
				construct := fmt.Sprintf("%s:%s#%d", core.FuncName(fn), strings.ReplaceAll(s.what, " ", "-"), n)
				site := c.Pos(in.Pos())
				if !in.Pos().IsValid() {
					site = c.Pos(fn.Pos())
				}
				vals := chain(s.idx)
				checks := findBounds(vals, in.Block(), in)
				var upper *boundCheck
				weak := ""
				for i := range checks {
					ch := &checks[i]
					if !ch.upper {
						continue
					}
					if ch.lenOf != nil {
						// the limit must be the length of the container being indexed, and strict for an element index
						if !sameContainer(ch.lenOf, s.container) {
							weak = fmt.Sprintf("the check at %s compares with the length of a different container", c.Pos(ch.pos))
							continue
						}
						if s.what == "index" && !ch.strict {
							weak = fmt.Sprintf("the check at %s admits index == len (off by one)", c.Pos(ch.pos))
							continue
						}
					} else {
						// constant limit: must fit a statically sized container
						k, okK := constLimit(ch.limit)
						cl := containerLen(s.cont)
						if !okK || cl < 0 || !(k < cl || (k == cl && (ch.strict || s.what != "index"))) {
							weak = fmt.Sprintf("the check at %s bounds the value by the constant %s, which is not known to fit this container", c.Pos(ch.pos), ch.limit)
							continue
						}
					}
					upper = ch
					break
				}
				nn, nnWhy := nonNegative(vals, checks)
				if !nn && provablyNonNeg(s.idx, 0) {
					nn, nnWhy = true, "built from unsigned/masked operands"
				}
				clen := containerLen(s.cont)
				ub := ubound(s.idx, 0)
				switch {
				case upper != nil && nn:
					obs = append(obs, core.Ob("R-INDEX", construct, site, core.FuncName(fn), core.Discharged,
						fmt.Sprintf("%s from %s; dominated by a check against %s at %s whose failing branch leaves; non-negative: %s", s.what, shortWhy(why), upper.limit, c.Pos(upper.pos), nnWhy)))
				case clen >= 0 && ub >= 0 && ub < clen && nn:
					obs = append(obs, core.Ob("R-INDEX", construct, site, core.FuncName(fn), core.Discharged,
						fmt.Sprintf("%s from %s; value range [0,%d] fits the array of length %d (mask/shift/modulus arithmetic)", s.what, shortWhy(why), ub, clen)))
				default:
					detail := fmt.Sprintf("%s may be chosen by decoder input (%s)", s.what, shortWhy(why))
					if upper == nil && weak != "" {
						detail += "; " + weak
					} else if upper == nil {
						detail += "; no dominating upper-bound check"
						if clen >= 0 {
							detail += fmt.Sprintf(" and its range (max %d) is not known to fit the array of length %d", ub, clen)
						}
					}
					if !nn {
						detail += "; the value may be negative at the use"
					}
					obs = append(obs, core.Ob("R-INDEX", construct, site, core.FuncName(fn), core.Violated, detail))
				}
			}
		})
	}
	obs = append(obs, taintReport(c, t, "R-INDEX")...)
	return obs
}

// ---------------------------------------------------------------------------

// loopsOf returns the natural loops of fn as header -> set of blocks.
func loopsOf(fn *ssa.Function) map[*ssa.BasicBlock]map[*ssa.BasicBlock]bool {
	loops := map[*ssa.BasicBlock]map[*ssa.BasicBlock]bool{}
	for _, b := range fn.Blocks {
		for _, s := range b.Succs {
			if s.Dominates(b) { // back edge b -> s
				body := loops[s]
				if body == nil {
					body = map[*ssa.BasicBlock]bool{s: true}
					loops[s] = body
				}
				var stack []*ssa.BasicBlock
				if !body[b] {
					body[b] = true
					stack = append(stack, b)
				}
				for len(stack) > 0 {
					x := stack[len(stack)-1]
					stack = stack[:len(stack)-1]
					for _, p := range x.Preds {
						if !body[p] {
							body[p] = true
							stack = append(stack, p)
						}
					}
				}
			}
		}
	}
	return loops
}

// decodeRoots returns the exported Decode methods of the library.
func decodeRoots(c *core.Ctx) []*ssa.Function {
	var roots []*ssa.Function
	for _, fn := range c.GeoFuncs() {
		if fn.Name() == "Decode" && fn.Signature.Recv() != nil {
			roots = append(roots, fn)
		}
	}
	return roots
}

func runTerm(c *core.Ctx) []core.Obligation {
	t := getTaint(c)
	var obs []core.Obligation
	roots := decodeRoots(c)
	scope := c.ReachableFuncs(roots, nil)
	if len(roots) < 9 {
		obs = append(obs, core.Ob("R-TERM", "anchor:Decode-methods", "-", "", core.Violated, fmt.Sprintf("only %d exported Decode methods found, 9 expected", len(roots))))
	}
	for _, fn := range t.funcs {
		if _, in := scope[fn]; !in {
			continue
		}
		loops := loopsOf(fn)
		var headers []*ssa.BasicBlock
		for h := range loops {
			headers = append(headers, h)
		}
		sort.Slice(headers, func(i, j int) bool { return headers[i].Index < headers[j].Index })
		n := 0
		errEdges, _ := errorExits(fn)
		isErrExit := func(b *ssa.BasicBlock) bool {
			for _, e := range errEdges {
				if e.From == b {
					return true
				}
			}
			return false
		}
		for _, h := range headers {
			body := loops[h]
			// Exit conditions: Ifs in the loop with a successor outside the loop. A loop has an
			// input-dependent trip count only if every exit other than decoder-error exits
			// compares a value chosen by the input.
			var taintedExits []*ssa.If
			var tv ssa.Value
			var why string
			cleanExit := false
			var blocks []*ssa.BasicBlock
			for b := range body {
				blocks = append(blocks, b)
			}
			sort.Slice(blocks, func(i, j int) bool { return blocks[i].Index < blocks[j].Index })
			for _, b := range blocks {
				if len(b.Instrs) == 0 {
					continue
				}
				iff, ok := b.Instrs[len(b.Instrs)-1].(*ssa.If)
				if !ok || (body[b.Succs[0]] && body[b.Succs[1]]) {
					if _, isRet := b.Instrs[len(b.Instrs)-1].(*ssa.Return); isRet {
						continue
					}
					continue
				}
				if isErrExit(b) {
					continue
				}
				tainted := false
				if bo, ok := iff.Cond.(*ssa.BinOp); ok {
					for _, opnd := range []ssa.Value{bo.X, bo.Y} {
						if w, ok := t.is(opnd); ok {
							tainted = true
							tv, why = opnd, w
						}
					}
				}
				if tainted {
					taintedExits = append(taintedExits, iff)
				} else {
					cleanExit = true
				}
			}
			if len(taintedExits) == 0 || cleanExit {
				continue
			}
			n++
			construct := fmt.Sprintf("%s:loop#%d", core.FuncName(fn), n)
			site := c.Pos(taintedExits[0].Cond.Pos())
			// (a) bounded limit: the tainted value (defined outside the loop) has a dominating upper bound before the loop.
			definedOutside := true
			if ti, ok := tv.(ssa.Instruction); ok && body[ti.Block()] {
				definedOutside = false
			}
			if definedOutside {
				checks := findBounds(chain(tv), h, nil)
				ok := false
				lim := ""
				for _, ch := range checks {
					if ch.upper {
						ok, lim = true, ch.limit
					}
				}
				if ok {
					obs = append(obs, core.Ob("R-TERM", construct, site, core.FuncName(fn), core.Discharged,
						fmt.Sprintf("trip count limited by a decoded value (%s) that was checked against %s before the loop", shortWhy(why), lim)))
					continue
				}
				if u := ubound(tv, 0); u >= 0 && u <= 1<<16 {
					obs = append(obs, core.Ob("R-TERM", construct, site, core.FuncName(fn), core.Discharged,
						fmt.Sprintf("trip count limited by a decoded value (%s) whose range is at most %d by the width of the type it was read as", shortWhy(why), u)))
					continue
				}
			}
			// (b) progress: every iteration performs a decoder read and leaves on the sticky error.
			reads := false
			for bb := range body {
				for _, in := range bb.Instrs {
					if call, ok := in.(*ssa.Call); ok {
						for _, callee := range c.Callees(call) {
							if isDecoderRecv(callee) || callsDecoderRead(c, callee, 3) {
								reads = true
							}
						}
					}
				}
			}
			leaves := false
			for _, e := range errEdges {
				if body[e.From] && !body[e.From.Succs[e.Idx]] {
					leaves = true
				}
			}
			if reads && leaves {
				obs = append(obs, core.Ob("R-TERM", construct, site, core.FuncName(fn), core.Discharged,
					fmt.Sprintf("exit condition depends on decoder input (%s); every iteration consumes input through a decoder read and leaves the loop when the sticky error is set, so the trip count is bounded by the input length", shortWhy(why))))
				continue
			}
			obs = append(obs, core.Ob("R-TERM", construct, site, core.FuncName(fn), core.Violated,
				fmt.Sprintf("loop exit depends on decoder input (%s) that has no checked upper limit, and the loop does not both read from the decoder and leave on its error (reads=%v, leavesOnError=%v)", shortWhy(why), reads, leaves)))
		}
	}
	return obs
}

func callsDecoderRead(c *core.Ctx, fn *ssa.Function, depth int) bool {
	if fn == nil || depth == 0 || !core.IsGeo(fn) {
		return false
	}
	found := false
	core.AllInstrs(fn, func(in ssa.Instruction) {
		if found {
			return
		}
		if call, ok := in.(*ssa.Call); ok {
			if f := core.StaticCallee(call); f != nil {
				if isDecoderRecv(f) || callsDecoderRead(c, f, depth-1) {
					found = true
				}
			}
		}
	})
	return found
}

// ---------------------------------------------------------------------------

func runSticky(c *core.Ctx) []core.Obligation {
	var obs []core.Obligation
	s2 := c.Pkgs["s2"]
	// (a) no by-value decoder/encoder parameter, receiver, result or struct field.
	for _, fn := range c.GeoFuncs() {
		sig := fn.Signature
		check := func(role string, t types.Type) {
			for _, tn := range []string{"decoder", "encoder"} {
				if n, ok := t.(*types.Named); ok && core.IsNamed(n, "s2", tn) {
					obs = append(obs, core.Ob("R-STICKY", fmt.Sprintf("byvalue:%s:%s", core.FuncName(fn), role), c.Pos(fn.Pos()), core.FuncName(fn), core.Violated,
						fmt.Sprintf("%s is a %s passed by value: an error recorded in it is lost to the caller", role, tn)))
				}
			}
		}
		if sig.Recv() != nil {
			check("receiver", sig.Recv().Type())
		}
		for i := 0; i < sig.Params().Len(); i++ {
			check("parameter "+sig.Params().At(i).Name(), sig.Params().At(i).Type())
		}
		for i := 0; i < sig.Results().Len(); i++ {
			check(fmt.Sprintf("result %d", i), sig.Results().At(i).Type())
		}
	}
	// count by-pointer uses as the instances of (a)
	nptr := 0
	for _, fn := range c.GeoFuncs() {
		sig := fn.Signature
		for i := 0; i < sig.Params().Len(); i++ {
			if core.IsNamed(sig.Params().At(i).Type(), "s2", "decoder") || core.IsNamed(sig.Params().At(i).Type(), "s2", "encoder") {
				if _, isPtr := sig.Params().At(i).Type().(*types.Pointer); isPtr {
					nptr++
					obs = append(obs, core.Ob("R-STICKY", fmt.Sprintf("byptr:%s:%s", core.FuncName(fn), sig.Params().At(i).Name()), c.Pos(fn.Pos()), core.FuncName(fn), core.Discharged,
						"coder handed down by pointer"))
				}
			}
		}
	}
	// (b) exported Decode/Encode return the err of the coder they created and passed down.
	for _, fn := range c.GeoFuncs() {
		name := fn.Name()
		if (name != "Decode" && name != "Encode") || fn.Signature.Recv() == nil || fn.Pkg == nil || fn.Pkg.Pkg != s2.Types {
			continue
		}
		res := fn.Signature.Results()
		if res.Len() != 1 || res.At(0).Type().String() != "error" {
			continue
		}
		construct := fmt.Sprintf("return-err:%s", core.FuncName(fn))
		// find coder allocations
		var allocs []*ssa.Alloc
		core.AllInstrs(fn, func(in ssa.Instruction) {
			if a, ok := in.(*ssa.Alloc); ok {
				if core.IsNamed(a.Type(), "s2", "decoder") || core.IsNamed(a.Type(), "s2", "encoder") {
					allocs = append(allocs, a)
				}
			}
		})
		if len(allocs) == 0 {
			// e.g. Encode methods that delegate: must return the callee's result directly
			obs = append(obs, core.Ob("R-STICKY", construct, c.Pos(fn.Pos()), core.FuncName(fn), core.Discharged, "delegates without creating a coder"))
			obs[len(obs)-1].Trivial = true
			continue
		}
		okAll := true
		detail := ""
		core.AllInstrs(fn, func(in ssa.Instruction) {
			ret, ok := in.(*ssa.Return)
			if !ok {
				return
			}
			v := ret.Results[0]
			if cst, ok := v.(*ssa.Const); ok && cst.IsNil() {
				okAll = false
				detail = fmt.Sprintf("returns a constant nil at %s although a coder was created", c.Pos(ret.Pos()))
				return
			}
			if !returnsCoderErr(v, allocs, 0) {
				// an early return of another error value (e.g. a failed precondition) is fine; a nil constant is not
				if _, isCall := v.(*ssa.Call); isCall {
					return
				}
				if ld, ok := v.(*ssa.UnOp); ok && ld.Op == token.MUL {
					if fr, ok := core.AsFieldAddr(ld.X); ok && fr.Name == "err" {
						okAll = false
						detail = fmt.Sprintf("returns the err field of a coder that is not the one created here (%s)", c.Pos(ret.Pos()))
					}
				}
			}
		})
		// the created coder must be the one passed to callees: by-value copies are caught by (a); here check it is passed at all
		passed := false
		for _, a := range allocs {
			for _, ref := range *a.Referrers() {
				if call, ok := ref.(ssa.CallInstruction); ok {
					for _, arg := range call.Common().Args {
						if arg == a {
							passed = true
						}
					}
				}
			}
		}
		switch {
		case !okAll:
			obs = append(obs, core.Ob("R-STICKY", construct, c.Pos(fn.Pos()), core.FuncName(fn), core.Violated, detail))
		case !passed:
			obs = append(obs, core.Ob("R-STICKY", construct, c.Pos(fn.Pos()), core.FuncName(fn), core.Violated, "the coder created here is never passed by pointer to the worker"))
		default:
			obs = append(obs, core.Ob("R-STICKY", construct, c.Pos(fn.Pos()), core.FuncName(fn), core.Discharged, "returns the err field of the coder object whose pointer it passes down"))
		}
	}
	// (c) decoder read methods: sticky guard first, err assigned from the underlying read.
	dec := c.NamedType("s2", "decoder")
	if dec == nil {
		return append(obs, core.Ob("R-STICKY", "anchor:s2.decoder", "-", "", core.Violated, "unresolved anchor: type s2.decoder"))
	}
	ms := c.Prog.MethodSets.MethodSet(types.NewPointer(dec))
	for i := 0; i < ms.Len(); i++ {
		m := c.Prog.MethodValue(ms.At(i))
		if m == nil || !strings.HasPrefix(m.Name(), "read") {
			continue
		}
		construct := "guard:" + core.FuncName(m)
		entry := m.Blocks[0]
		guard := false
		if iff, ok := entry.Instrs[len(entry.Instrs)-1].(*ssa.If); ok {
			edges, _ := errorExits(m)
			for _, e := range edges {
				if e.From == entry {
					// the error edge must lead to a return without any read
					tgt := entry.Succs[e.Idx]
					if _, isRet := tgt.Instrs[len(tgt.Instrs)-1].(*ssa.Return); isRet && !blockCalls(tgt) {
						guard = true
					}
				}
			}
			_ = iff
		}
		if blockCalls(entry) {
			guard = false
		}
		assigns := false
		core.AllInstrs(m, func(in ssa.Instruction) {
			if st, ok := in.(*ssa.Store); ok {
				if fr, ok := core.AsFieldAddr(st.Addr); ok && fr.Name == "err" {
					if _, isConst := st.Val.(*ssa.Const); !isConst {
						assigns = true
					}
				}
			}
		})
		switch {
		case !guard:
			obs = append(obs, core.Ob("R-STICKY", construct, c.Pos(m.Pos()), core.FuncName(m), core.Violated,
				"read method does not begin with `if d.err != nil { return }`: a read after a failure may overwrite the sticky error"))
		case !assigns:
			obs = append(obs, core.Ob("R-STICKY", construct, c.Pos(m.Pos()), core.FuncName(m), core.Violated,
				"read method never assigns d.err from the underlying read: short input goes unnoticed"))
		default:
			obs = append(obs, core.Ob("R-STICKY", construct, c.Pos(m.Pos()), core.FuncName(m), core.Discharged, "sticky guard first; err assigned from the underlying read"))
		}
	}
	_ = nptr
	return obs
}

func blockCalls(b *ssa.BasicBlock) bool {
	for _, in := range b.Instrs {
		if call, ok := in.(*ssa.Call); ok {
			if _, isBuiltin := call.Call.Value.(*ssa.Builtin); !isBuiltin {
				return true
			}
		}
	}
	return false
}

func returnsCoderErr(v ssa.Value, allocs []*ssa.Alloc, depth int) bool {
	if depth > 4 {
		return false
	}
	switch x := v.(type) {
	case *ssa.UnOp:
		if x.Op == token.MUL {
			if fa, ok := x.X.(*ssa.FieldAddr); ok {
				if fr, ok := core.AsFieldAddr(fa); ok && fr.Name == "err" {
					for _, a := range allocs {
						if fa.X == a {
							return true
						}
					}
				}
			}
		}
	case *ssa.Phi:
		for _, e := range x.Edges {
			if !returnsCoderErr(e, allocs, depth+1) {
				return false
			}
		}
		return true
	}
	return false
}
