package rules

import (
	"fmt"
	"go/token"
	"go/types"

	"golang.org/x/tools/go/ssa"

	"verif/checker/core"
)

// R-SPARSEID: written after a sub-agent reported, on the unmodified tree, that an index from which a shape was removed
// before the first build answers containment wrongly (D34: makeIndexCell's sentinel was int32(s.Len())). ShapeIndex
// hands out ids from nextID and never reuses them, so after a Remove the ids are sparse: the number of live shapes
// (len(shapes), Len()) says nothing about which ids exist.

func init() {
	core.Register(&core.Rule{
		Name: "R-SPARSEID",
		Clause: "C06/C13 'any collection of shapes, any history of Add and Remove': shape ids are handed out from nextID and never reused, so they are sparse after a Remove. " +
			"(a) The number of live shapes - len(index.shapes) or ShapeIndex.Len() - is never converted to a shape id (int32) to serve as a bound, a sentinel or an id to look up; " +
			"(b) no function looks a shape up by a constant id (Shape(0) is nil once shape 0 has been removed).",
		Min: 2,
		Run: runSparseID,
	})
}

func runSparseID(c *core.Ctx) []core.Obligation {
	var obs []core.Obligation
	isCount := func(v ssa.Value) bool {
		call, ok := v.(*ssa.Call)
		if !ok {
			return false
		}
		if bi, ok := call.Call.Value.(*ssa.Builtin); ok && bi.Name() == "len" && len(call.Call.Args) == 1 {
			fr, ok := core.AsFieldLoad(call.Call.Args[0])
			return ok && fr.Name == "shapes" && fr.Struct != nil && fr.Struct.Obj().Name() == "ShapeIndex"
		}
		if f := core.StaticCallee(call); f != nil && f.Name() == "Len" && f.Signature.Recv() != nil && core.IsNamed(f.Signature.Recv().Type(), "s2", "ShapeIndex") {
			return true
		}
		return false
	}
	counts, lookups, own := 0, 0, 0
	for _, fn := range c.GeoFuncs() {
		na, nb := 0, 0
		core.AllInstrs(fn, func(in ssa.Instruction) {
			switch x := in.(type) {
			case *ssa.Call:
				if isCount(x) {
					counts++
				}
				f := core.StaticCallee(x)
				if f == nil || f.Name() != "Shape" || f.Signature.Recv() == nil || !core.IsNamed(f.Signature.Recv().Type(), "s2", "ShapeIndex") || len(x.Call.Args) != 2 {
					return
				}
				lookups++
				if _, isConst := x.Call.Args[1].(*ssa.Const); isConst {
					// a Loop's or Polygon's own index holds exactly one shape, the owner, added once with id 0 by the
					// owner itself (R-RESET `add-after-clear` decides that); nothing can remove it
					if fr, ok := core.AsFieldLoad(x.Call.Args[0]); ok && fr.Name == "index" && fr.Struct != nil && (fr.Struct.Obj().Name() == "Polygon" || fr.Struct.Obj().Name() == "Loop") {
						own++
						return
					}
					nb++
					obs = append(obs, core.Ob("R-SPARSEID", fmt.Sprintf("constant-id:%s#%d", core.FuncName(fn), nb), c.Pos(x.Pos()), core.FuncName(fn), core.Violated,
						"a shape is looked up by a constant id: ids are never reused, so after Add(a), Add(b), Remove(a) the index's only shape has id 1 and Shape(0) is nil - the caller dereferences nil or silently works on no shape"))
				}
			case *ssa.Convert:
				b, ok := x.Type().Underlying().(*types.Basic)
				if !ok || b.Kind() != types.Int32 || !isCount(x.X) {
					return
				}
				na++
				obs = append(obs, core.Ob("R-SPARSEID", fmt.Sprintf("count-as-id:%s#%d", core.FuncName(fn), na), c.Pos(x.Pos()), core.FuncName(fn), core.Violated,
					"the number of live shapes is converted to a shape id (int32): after a Remove the ids are sparse, so this value can equal the id of a live shape (a sentinel that collides) or lie below the largest id (an enumeration bound that stops early); nextID is the bound that is larger than every id"))
			}
		})
	}
	_ = token.ADD
	st, detail := core.Discharged, fmt.Sprintf("%d uses of the live-shape count, none converted to an id; %d Shape(id) lookups, none with a constant id except %d on a loop's or polygon's own single-shape index", counts, lookups, own)
	if counts < 2 || lookups < 6 {
		st, detail = core.Violated, fmt.Sprintf("unresolved anchor: %d uses of the live-shape count and %d Shape(id) lookups found", counts, lookups)
	}
	obs = append(obs, core.Ob("R-SPARSEID", "scan", "-", "", st, detail))
	return obs
}
