package rules

import (
	"fmt"
	"go/types"

	"golang.org/x/tools/go/ssa"

	"verif/checker/core"
)

// R-ACCUM: added after round-4 seed C10-r4m2 (ConvexHullQuery.AddPolyline assigned the polyline's bound to the
// query's bound instead of uniting it with the bound accumulated so far).

func init() {
	core.Register(&core.Rule{
		Name: "R-ACCUM",
		Clause: "C10 'a bound contains everything that was added': a field that accumulates a bound or an input set over several Add* calls is only ever assigned a value computed from its own " +
			"previous value (union, AddPoint, append) - or the full bound, which contains everything; a plain overwrite forgets what was added before.",
		Min: 6,
		Run: runAccum,
	})
}

var accumulators = []struct{ typ, field string }{
	{"ConvexHullQuery", "bound"},
	{"ConvexHullQuery", "points"},
	{"RectBounder", "bound"},
}

// dependsOnField: v is computed (through calls, phis, slices, conversions) from a load of typ.field.
func dependsOnField(v ssa.Value, field string, seen map[ssa.Value]bool, depth int) bool {
	if v == nil || seen[v] || depth > 12 {
		return false
	}
	seen[v] = true
	if fr, ok := core.AsFieldLoad(v); ok && fr.Name == field {
		return true
	}
	var ops []*ssa.Value
	if in, ok := v.(ssa.Instruction); ok {
		ops = in.Operands(ops)
	}
	for _, o := range ops {
		if o != nil && *o != nil && dependsOnField(*o, field, seen, depth+1) {
			return true
		}
	}
	// a load from a local that was stored a dependent value
	if ld, ok := v.(*ssa.UnOp); ok {
		if al, ok := ld.X.(*ssa.Alloc); ok {
			for _, r := range *al.Referrers() {
				if st, ok := r.(*ssa.Store); ok && st.Addr == ssa.Value(al) && dependsOnField(st.Val, field, seen, depth+1) {
					return true
				}
			}
		}
	}
	return false
}

func runAccum(c *core.Ctx) []core.Obligation {
	var obs []core.Obligation
	total := 0
	for _, acc := range accumulators {
		for _, fn := range c.GeoFuncs() {
			if fn.Signature.Recv() == nil || !core.IsNamed(fn.Signature.Recv().Type(), "s2", acc.typ) {
				continue // constructors build the value with a composite literal; only methods are examined
			}
			k := 0
			core.AllInstrs(fn, func(in ssa.Instruction) {
				st, ok := in.(*ssa.Store)
				if !ok {
					return
				}
				fr, ok := core.AsFieldAddr(st.Addr)
				if !ok || fr.Name != acc.field || fr.Struct == nil || fr.Struct.Obj().Name() != acc.typ {
					return
				}
				k++
				total++
				construct := fmt.Sprintf("%s.%s:%s#%d", acc.typ, acc.field, core.FuncName(fn), k)
				good, how := false, ""
				if call, isCall := st.Val.(*ssa.Call); isCall && core.StaticCallee(call) != nil && core.StaticCallee(call).Name() == "FullRect" {
					good, how = true, "assigned the full rectangle, which contains everything added so far"
				} else if dependsOnField(st.Val, acc.field, map[ssa.Value]bool{}, 0) {
					good, how = true, "computed from its previous value"
				}
				if good {
					obs = append(obs, core.Ob("R-ACCUM", construct, c.Pos(st.Pos()), core.FuncName(fn), core.Discharged, how))
				} else {
					obs = append(obs, core.Ob("R-ACCUM", construct, c.Pos(st.Pos()), core.FuncName(fn), core.Violated,
						fmt.Sprintf("%s.%s is overwritten with a value that does not depend on what it held: everything added before this call is forgotten (a hull or bound computed afterwards no longer covers the earlier inputs)", acc.typ, acc.field)))
				}
			})
		}
	}
	if total < 6 {
		obs = append(obs, core.Ob("R-ACCUM", "anchor", "-", "", core.Violated, fmt.Sprintf("only %d accumulator updates found", total)))
	}
	obs = append(obs, vertexOnlyBounds(c)...)
	obs = append(obs, bounderFallback(c))
	return obs
}

// vertexOnlyBounds (after round-7 seed C05-r7m1, Polyline.IntersectsCell rejecting a cell whose RectBound does not meet
// a rectangle grown from the polyline's vertices with Rect.AddPoint): a geodesic edge rises poleward of both its
// endpoints, so a lat-lng rectangle grown vertex by vertex is NOT a bound of the edges between the vertices - that is
// what RectBounder exists for. (s2.Rect).AddPoint is therefore not called from a method of a type that has edges
// (Polyline, Loop, Polygon, the lax shapes, ShapeIndexRegion); point sets (ConvexHullQuery) and RectBounder itself,
// which adds the edge's interior separately, may use it.
func vertexOnlyBounds(c *core.Ctx) []core.Obligation {
	var obs []core.Obligation
	edged := map[string]bool{"Polyline": true, "Loop": true, "Polygon": true, "LaxLoop": true, "LaxPolygon": true, "LaxPolyline": true, "ShapeIndexRegion": true, "EdgeVectorShape": true}
	callers := 0
	for _, fn := range c.GeoFuncs() {
		n := 0
		core.AllInstrs(fn, func(in ssa.Instruction) {
			call, ok := in.(*ssa.Call)
			if !ok {
				return
			}
			f := core.StaticCallee(call)
			if f == nil || f.Name() != "AddPoint" || f.Signature.Recv() == nil || !core.IsNamed(f.Signature.Recv().Type(), "s2", "Rect") {
				return
			}
			callers++
			recv := fn.Signature.Recv()
			if fn.Parent() != nil {
				recv = fn.Parent().Signature.Recv()
			}
			if recv == nil {
				return
			}
			t := recv.Type()
			if p, ok := t.(*types.Pointer); ok {
				t = p.Elem()
			}
			named, ok := t.(*types.Named)
			if !ok || !edged[named.Obj().Name()] {
				return
			}
			n++
			obs = append(obs, core.Ob("R-ACCUM", fmt.Sprintf("vertex-only-bound:%s#%d", core.FuncName(fn), n), c.Pos(call.Pos()), core.FuncName(fn), core.Violated,
				"a method of "+named.Obj().Name()+" grows a lat-lng rectangle from vertices with Rect.AddPoint: the edges between the vertices bulge towards the pole beyond both endpoints (an edge from 60N,0E to 60N,60E reaches 63.4N), so the rectangle is not a bound of the geometry and any decision based on it (rejecting a cell, skipping a region) loses the part of the edge outside it; use RectBounder"))
		})
	}
	obs = append(obs, core.Ob("R-ACCUM", "vertex-only-bound:scan", "-", "", core.Discharged, fmt.Sprintf("%d calls of (s2.Rect).AddPoint, none from a method of a type with edges", callers)))
	return obs
}
