package rules

import (
	"fmt"
	"go/constant"
	"go/token"
	"go/types"

	"golang.org/x/tools/go/ssa"

	"verif/checker/core"
)

// R-UNITS: added after round-3 seed C08-r3m1 (search-disc radius computed as cap.radius + limit with the
// built-in + on s1.ChordAngle values).

func init() {
	core.Register(&core.Rule{
		Name: "R-UNITS",
		Clause: "C08/C19 'distances are compared and combined as chord angles': a ChordAngle is a squared chord length, which is not additive in the angle - outside package s1 two ChordAngle " +
			"values are never combined with the built-in + or - (angles are added with ChordAngle.Add / Sub or as s1.Angle); the only exception is StraightChordAngle - x, the exact chord angle " +
			"of the antipodal point.",
		Min: 6,
		Run: runUnits,
	})
}

func isChordAngle(t types.Type) bool {
	n, ok := t.(*types.Named)
	return ok && n.Obj().Name() == "ChordAngle" && n.Obj().Pkg() != nil && n.Obj().Pkg().Name() == "s1"
}

// unitsExceptions: none. Until the seventh round this table excused (s2.minDistance).sub and (s2.maxDistance).sub, the
// two methods that move a distance limit by the MaxError allowance with the built-in - and +, on the argument that
// d^2 - e^2 errs on the conservative side. That argument overlooked that the raw difference does not saturate: the limit
// went below 0 (above 4) and queries with a ShapeIndex target reported distances outside [0, 4] (defect D32). The
// rule's original report was right; the exceptions were a mistake and are gone with the repair.
var unitsExceptions = map[string]string{}

func runUnits(c *core.Ctx) []core.Obligation {
	var obs []core.Obligation
	for _, fn := range c.GeoFuncs() {
		if fn.Pkg != nil && fn.Pkg.Pkg.Name() == "s1" {
			continue
		}
		n := 0
		core.AllInstrs(fn, func(in ssa.Instruction) {
			bo, ok := in.(*ssa.BinOp)
			if !ok || (bo.Op != token.ADD && bo.Op != token.SUB) || !isChordAngle(bo.Type()) {
				return
			}
			n++
			construct := fmt.Sprintf("%s:chordangle-arith#%d", core.FuncName(fn), n)
			site := c.Pos(bo.Pos())
			if k, isK := bo.X.(*ssa.Const); isK && bo.Op == token.SUB && k.Value != nil {
				if f, _ := constant.Float64Val(constant.ToFloat(k.Value)); f == 4 {
					obs = append(obs, core.Ob("R-UNITS", construct, site, core.FuncName(fn), core.Discharged, "StraightChordAngle - x: the chord angle of the antipodal point (exact)"))
					return
				}
			}
			if why, ok := unitsExceptions[core.FuncName(fn)]; ok && n == 1 {
				obs = append(obs, core.Ob("R-UNITS", construct, site, core.FuncName(fn), core.Discharged, "named exception: "+why))
				return
			}
			obs = append(obs, core.Ob("R-UNITS", construct, site, core.FuncName(fn), core.Violated,
				"two ChordAngle values are combined with the built-in "+bo.Op.String()+": chord angles are squared chord lengths, so the result is not the chord angle of the sum/difference of the two angles "+
					"(a search radius computed this way is too small and true results are pruned); use ChordAngle.Add/Sub or add s1.Angle values"))
		})
	}
	// the span of a longitude interval is wrap-aware (Lo > Hi for an interval that crosses the antimeridian): outside package
	// s1 it is obtained with Length(), never as Hi - Lo
	nraw := 0
	for _, fn := range c.GeoFuncs() {
		if fn.Pkg != nil && fn.Pkg.Pkg.Name() == "s1" {
			continue
		}
		n := 0
		core.AllInstrs(fn, func(in ssa.Instruction) {
			bo, ok := in.(*ssa.BinOp)
			if !ok || bo.Op != token.SUB {
				return
			}
			hi, ok1 := core.AsFieldLoad(bo.X)
			lo, ok2 := core.AsFieldLoad(bo.Y)
			if !ok1 || !ok2 || hi.Name != "Hi" || lo.Name != "Lo" || hi.Struct == nil || lo.Struct == nil {
				return
			}
			if hi.Struct.Obj().Name() != "Interval" || hi.Struct.Obj().Pkg() == nil || hi.Struct.Obj().Pkg().Name() != "s1" || lo.Struct != hi.Struct {
				return
			}
			n++
			nraw++
			construct := fmt.Sprintf("%s:raw-longitude-span#%d", core.FuncName(fn), n)
			if core.FuncName(fn) == "(s2.Rect).CapBound" {
				obs = append(obs, core.Ob("R-UNITS", construct, c.Pos(bo.Pos()), core.FuncName(fn), core.Discharged,
					"named exception: Rect.CapBound reduces Hi - Lo with math.Remainder / compares it with 2*Pi itself (as in the C++ original)"))
				return
			}
			obs = append(obs, core.Ob("R-UNITS", construct, c.Pos(bo.Pos()), core.FuncName(fn), core.Violated,
				"the span of a longitude interval is computed as Hi - Lo: for an interval that crosses the antimeridian (Lo > Hi) this is negative, so a test such as 'spans less than 180 degrees' is true for a loop that wraps more than half way round; use Interval.Length()"))
		})
	}
	_ = nraw
	// a chord LENGTH (|x - y|) is not an angle: it may be converted to s1.Angle only through asin/atan2 (Distance, Angle),
	// and to s1.ChordAngle only as the SQUARED length
	for _, fn := range c.GeoFuncs() {
		if fn.Pkg != nil && fn.Pkg.Pkg.Name() == "s1" {
			continue
		}
		n := 0
		core.AllInstrs(fn, func(in ssa.Instruction) {
			var src ssa.Value
			var to types.Type
			switch x := in.(type) {
			case *ssa.Convert:
				src, to = x.X, x.Type()
			case *ssa.ChangeType:
				src, to = x.X, x.Type()
			default:
				return
			}
			named, ok := to.(*types.Named)
			if !ok || named.Obj().Pkg() == nil || named.Obj().Pkg().Name() != "s1" || (named.Obj().Name() != "Angle" && named.Obj().Name() != "ChordAngle") {
				return
			}
			call, ok := src.(*ssa.Call)
			if !ok || core.StaticCallee(call) == nil {
				return
			}
			callee := core.StaticCallee(call).Name()
			if callee != "Norm" && callee != "Norm2" {
				return
			}
			// of a difference of two vectors
			arg := call.Call.Args[0]
			diff, isCall := arg.(*ssa.Call)
			if !isCall || core.StaticCallee(diff) == nil || core.StaticCallee(diff).Name() != "Sub" {
				return
			}
			n++
			construct := fmt.Sprintf("%s:chord-length-as-angle#%d", core.FuncName(fn), n)
			switch {
			case named.Obj().Name() == "ChordAngle" && callee == "Norm2":
				obs = append(obs, core.Ob("R-UNITS", construct, c.Pos(in.Pos()), core.FuncName(fn), core.Discharged, "a squared chord length is what a ChordAngle holds"))
			default:
				obs = append(obs, core.Ob("R-UNITS", construct, c.Pos(in.Pos()), core.FuncName(fn), core.Violated,
					fmt.Sprintf("|x - y| (%s of a difference of two points) is converted directly to s1.%s: a chord length is smaller than the angle it subtends (by about d^3/24), so a tolerance or distance derived from it is too small for long edges", callee, named.Obj().Name())))
			}
		})
	}
	obs = append(obs, unitsScaleAndWrap(c)...)
	obs = append(obs, latitudeByAsin(c)...)
	return obs
}

// unitsScaleAndWrap: two more unit slips.
//
// (chordangle-scale, after round-6 seed C20-r6m1: `scale * ChordAngleFromAngle(tol)` instead of
// `ChordAngleFromAngle(scale * tol)`) a ChordAngle is a SQUARED chord length; multiplying or dividing it by a factor
// that was derived for the angle scales the angle by the square root of that factor only, so a tolerance shrunk this
// way is larger than intended. Outside package s1 no ChordAngle is the result of a built-in * or /.
//
// (longitude-wrap, after round-6 seed C10-r6m1: Cap.RectBound builds its longitude interval from
// lngCenter -/+ angle without math.Remainder) the endpoints of a longitude interval live in [-Pi, Pi]; the sum or
// difference of a longitude and an angle leaves that range near the antimeridian, so it may become an endpoint
// (a store into Interval.Lo/Hi, an argument of s1.IntervalFromEndpoints, a field of an s1.Interval literal) only
// after math.Remainder(x, 2*Pi).
func unitsScaleAndWrap(c *core.Ctx) []core.Obligation {
	var obs []core.Obligation
	scaled, wrapped := 0, 0
	isS1Interval := func(t types.Type) bool {
		if p, ok := t.(*types.Pointer); ok {
			t = p.Elem()
		}
		n, ok := t.(*types.Named)
		return ok && n.Obj().Name() == "Interval" && n.Obj().Pkg() != nil && n.Obj().Pkg().Name() == "s1"
	}
	var isLongitude func(v ssa.Value, depth int) bool
	isLongitude = func(v ssa.Value, depth int) bool {
		if depth > 4 {
			return false
		}
		v = core.StripConv(v)
		switch x := v.(type) {
		case *ssa.Call:
			f := core.StaticCallee(x)
			if f == nil {
				return false
			}
			if f.Name() == "longitude" {
				return true
			}
			if f.Name() == "Radians" && len(x.Call.Args) == 1 {
				return isLongitude(x.Call.Args[0], depth+1)
			}
		case *ssa.Phi:
			return false
		default:
			if fr, ok := core.AsFieldLoad(v); ok && fr.Name == "Lng" {
				return true
			}
		}
		return false
	}
	for _, fn := range c.GeoFuncs() {
		if fn.Pkg != nil && fn.Pkg.Pkg.Name() == "s1" {
			continue
		}
		ns, nw := 0, 0
		core.AllInstrs(fn, func(in ssa.Instruction) {
			bo, ok := in.(*ssa.BinOp)
			if !ok {
				return
			}
			if (bo.Op == token.MUL || bo.Op == token.QUO) && isChordAngle(bo.Type()) {
				ns++
				scaled++
				// 0.5 * chord^2 converted to a plain float64 is the height of the cap (an exact identity), not a scaled distance
				toFloat := len(*bo.Referrers()) > 0
				for _, r := range *bo.Referrers() {
					var to types.Type
					switch cv := r.(type) {
					case *ssa.Convert:
						to = cv.Type()
					case *ssa.ChangeType:
						to = cv.Type()
					default:
						toFloat = false
					}
					if to != nil {
						if b, ok := to.(*types.Basic); !ok || b.Kind() != types.Float64 {
							toFloat = false
						}
					}
				}
				if toFloat {
					obs = append(obs, core.Ob("R-UNITS", fmt.Sprintf("%s:chordangle-scale#%d", core.FuncName(fn), ns), c.Pos(bo.Pos()), core.FuncName(fn), core.Discharged,
						"the product leaves the ChordAngle type at once (float64): half the squared chord length is the cap height, an exact identity"))
					return
				}
				obs = append(obs, core.Ob("R-UNITS", fmt.Sprintf("%s:chordangle-scale#%d", core.FuncName(fn), ns), c.Pos(bo.Pos()), core.FuncName(fn), core.Violated,
					"a ChordAngle is multiplied (divided) with the built-in "+bo.Op.String()+": it holds a squared chord length, so a factor meant for the angle changes the angle by its square root only - "+
						"a tolerance scaled down this way stays larger than the scale factor promises; scale the s1.Angle before converting"))
				return
			}
			if bo.Op != token.ADD && bo.Op != token.SUB {
				return
			}
			if b, ok := bo.Type().Underlying().(*types.Basic); !ok || b.Info()&types.IsFloat == 0 {
				return
			}
			if !isLongitude(bo.X, 0) && !isLongitude(bo.Y, 0) {
				return
			}
			// where does the raw sum go?
			var sink func(v ssa.Value, depth int) string
			sink = func(v ssa.Value, depth int) string {
				if depth > 3 {
					return ""
				}
				for _, r := range *v.Referrers() {
					switch u := r.(type) {
					case *ssa.Store:
						if u.Val != v {
							continue
						}
						if fr, ok := core.AsFieldAddr(u.Addr); ok && (fr.Name == "Lo" || fr.Name == "Hi") && fr.Struct != nil && isS1Interval(fr.Struct) {
							return "stored into Interval." + fr.Name
						}
					case *ssa.Call:
						if f := core.StaticCallee(u); f != nil && f.Name() == "IntervalFromEndpoints" {
							return "given to s1.IntervalFromEndpoints"
						}
					case *ssa.Convert:
						if s := sink(u, depth+1); s != "" {
							return s
						}
					case *ssa.ChangeType:
						if s := sink(u, depth+1); s != "" {
							return s
						}
					}
				}
				return ""
			}
			nw++
			wrapped++
			key := fmt.Sprintf("%s:longitude-wrap#%d", core.FuncName(fn), nw)
			if where := sink(bo, 0); where != "" {
				obs = append(obs, core.Ob("R-UNITS", key, c.Pos(bo.Pos()), core.FuncName(fn), core.Violated,
					"a longitude plus/minus an angle is "+where+" without math.Remainder(x, 2*Pi): within that angle of the antimeridian the endpoint leaves [-Pi, Pi], the interval is not the wrapped one, and points on the far side of the antimeridian fall outside the bound"))
			} else {
				obs = append(obs, core.Ob("R-UNITS", key, c.Pos(bo.Pos()), core.FuncName(fn), core.Discharged, "the sum does not become an interval endpoint directly (it is reduced with math.Remainder or used otherwise)"))
			}
		})
	}
	// (arc-length-through-chord, after round-7 seed C17-r7m2: a polyline's segment length taken as
	// ChordAngleBetweenPoints(a, b).Angle() in Interpolate while Length() and Uninterpolate use a.Distance(b)) the
	// angle recovered from a chord angle is 2*asin(sqrt(d2)/2), which loses most of its precision as the points approach
	// antipodal; Point.Distance uses atan2 and does not. An arc length that is accumulated along a polyline or compared
	// with Length() is therefore never taken through a chord angle.
	nchord := 0
	for _, fn := range c.GeoFuncs() {
		if fn.Pkg != nil && fn.Pkg.Pkg.Name() == "s1" {
			continue
		}
		n := 0
		core.AllInstrs(fn, func(in ssa.Instruction) {
			call, ok := in.(*ssa.Call)
			if !ok || core.StaticCallee(call) == nil || core.StaticCallee(call).Name() != "Angle" || len(call.Call.Args) != 1 || !isChordAngle(call.Call.Args[0].Type()) {
				return
			}
			nchord++
			src, ok := call.Call.Args[0].(*ssa.Call)
			if !ok || core.StaticCallee(src) == nil || core.StaticCallee(src).Name() != "ChordAngleBetweenPoints" {
				return
			}
			n++
			obs = append(obs, core.Ob("R-UNITS", fmt.Sprintf("%s:arc-length-through-chord#%d", core.FuncName(fn), n), c.Pos(call.Pos()), core.FuncName(fn), core.Violated,
				"the angle between two points is obtained as ChordAngleBetweenPoints(a, b).Angle(): the asin behind it loses precision as the points approach antipodal (about 1e-10 rad at 1e-6 from Pi), while Point.Distance (atan2) does not - a length measured this way disagrees with the same length measured by Length()/Distance(), and interpolating at a measured fraction no longer returns the point"))
		})
	}
	obs = append(obs, core.Ob("R-UNITS", "arc-length-through-chord:scan", "-", "", core.Discharged, fmt.Sprintf("%d conversions ChordAngle.Angle() outside s1, none applied directly to ChordAngleBetweenPoints", nchord)))
	obs = append(obs, core.Ob("R-UNITS", "scale-and-wrap:scan", "-", "", core.Discharged, fmt.Sprintf("%d ChordAngle products/quotients outside package s1; %d sums of a longitude and an angle examined", scaled, wrapped)))
	return obs
}
