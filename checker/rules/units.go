package rules

import (
	"fmt"
	"go/constant"
	"go/token"
	"go/types"

	"golang.org/x/tools/go/ssa"

	"verif/checker/core"
)

// R-UNITS: added after round-3 seed C08-r3m1 (search-disc radius computed as cap.radius + limit with the
// built-in + on s1.ChordAngle values).

func init() {
	core.Register(&core.Rule{
		Name: "R-UNITS",
		Clause: "C08/C19 'distances are compared and combined as chord angles': a ChordAngle is a squared chord length, which is not additive in the angle - outside package s1 two ChordAngle " +
			"values are never combined with the built-in + or - (angles are added with ChordAngle.Add / Sub or as s1.Angle); the exceptions are StraightChordAngle - x, the exact chord angle " +
			"of the antipodal point, and the two distance.sub methods that apply the MaxError allowance (named, with the reason).",
		Min: 6,
		Run: runUnits,
	})
}

func isChordAngle(t types.Type) bool {
	n, ok := t.(*types.Named)
	return ok && n.Obj().Name() == "ChordAngle" && n.Obj().Pkg() != nil && n.Obj().Pkg().Name() == "s1"
}

// unitsExceptions: confirmed by reading.
var unitsExceptions = map[string]string{
	"(s2.minDistance).sub": "subtracts the query's MaxError allowance in squared-chord units: d^2 - e^2 >= chord^2(angle(d) - angle(e)), so the limit shrinks by less than an angular subtraction would - the search only prunes less",
	"(s2.maxDistance).sub": "adds the MaxError allowance in squared-chord units (furthest-edge mirror of minDistance.sub): d^2 + e^2 <= chord^2(angle(d) + angle(e)), again the conservative direction",
}

func runUnits(c *core.Ctx) []core.Obligation {
	var obs []core.Obligation
	for _, fn := range c.GeoFuncs() {
		if fn.Pkg != nil && fn.Pkg.Pkg.Name() == "s1" {
			continue
		}
		n := 0
		core.AllInstrs(fn, func(in ssa.Instruction) {
			bo, ok := in.(*ssa.BinOp)
			if !ok || (bo.Op != token.ADD && bo.Op != token.SUB) || !isChordAngle(bo.Type()) {
				return
			}
			n++
			construct := fmt.Sprintf("%s:chordangle-arith#%d", core.FuncName(fn), n)
			site := c.Pos(bo.Pos())
			if k, isK := bo.X.(*ssa.Const); isK && bo.Op == token.SUB && k.Value != nil {
				if f, _ := constant.Float64Val(constant.ToFloat(k.Value)); f == 4 {
					obs = append(obs, core.Ob("R-UNITS", construct, site, core.FuncName(fn), core.Discharged, "StraightChordAngle - x: the chord angle of the antipodal point (exact)"))
					return
				}
			}
			if why, ok := unitsExceptions[core.FuncName(fn)]; ok && n == 1 {
				obs = append(obs, core.Ob("R-UNITS", construct, site, core.FuncName(fn), core.Discharged, "named exception: "+why))
				return
			}
			obs = append(obs, core.Ob("R-UNITS", construct, site, core.FuncName(fn), core.Violated,
				"two ChordAngle values are combined with the built-in "+bo.Op.String()+": chord angles are squared chord lengths, so the result is not the chord angle of the sum/difference of the two angles "+
					"(a search radius computed this way is too small and true results are pruned); use ChordAngle.Add/Sub or add s1.Angle values"))
		})
	}
	return obs
}
