package rules

import (
	"fmt"
	"go/ast"
	"go/constant"
	"go/token"
	"go/types"
	"strings"

	"golang.org/x/tools/go/ssa"

	"verif/checker/core"
)

// Obligations added after the ninth round of seeded changes. Each is attached to an existing rule; the functions here
// are called from those rules' run functions.

func calleeName(v ssa.Value) string {
	if call, ok := v.(*ssa.Call); ok && core.StaticCallee(call) != nil {
		return core.StaticCallee(call).Name()
	}
	return ""
}

// valueReceiverStores (R-DUP h, after C03-r9m1: the receiver of EdgeCrosser.CrossingSign changed from *EdgeCrosser to
// EdgeCrosser): a method with a VALUE receiver that stores into a field of its receiver writes to a copy; unless the
// method hands the modified copy back (returns it, stores it somewhere, passes its address on), the update is lost and
// the caller's object never changes state.
func valueReceiverStores(c *core.Ctx) (int, []core.Obligation) {
	var obs []core.Obligation
	examined := 0
	for _, fn := range c.GeoFuncs() {
		recv := fn.Signature.Recv()
		if recv == nil || fn.Parent() != nil || len(fn.Params) == 0 {
			continue
		}
		if _, isPtr := recv.Type().(*types.Pointer); isPtr {
			continue
		}
		if _, isStruct := recv.Type().Underlying().(*types.Struct); !isStruct {
			continue
		}
		examined++
		// the spill slot of the receiver
		var slot *ssa.Alloc
		for _, r := range *fn.Params[0].Referrers() {
			if st, ok := r.(*ssa.Store); ok && st.Val == ssa.Value(fn.Params[0]) {
				if al, ok := st.Addr.(*ssa.Alloc); ok {
					slot = al
				}
			}
		}
		if slot == nil {
			continue
		}
		var fieldStore ssa.Instruction
		escapes := false
		var walk func(addr ssa.Value, depth int)
		walk = func(addr ssa.Value, depth int) {
			for _, r := range *addr.Referrers() {
				switch x := r.(type) {
				case *ssa.FieldAddr:
					for _, r2 := range *x.Referrers() {
						if st, ok := r2.(*ssa.Store); ok && st.Addr == ssa.Value(x) && fieldStore == nil {
							fieldStore = st
						}
					}
					if depth < 2 {
						walk(x, depth+1)
					}
				case *ssa.UnOp:
					// the whole (possibly modified) copy is read: returned, assigned, passed by value
					if addr == ssa.Value(slot) && x.Op == token.MUL {
						for _, r3 := range *x.Referrers() {
							switch r3.(type) {
							case *ssa.Return, *ssa.Store, *ssa.MakeInterface:
								escapes = true
							case ssa.CallInstruction:
								escapes = true
							}
						}
					}
				case ssa.CallInstruction:
					// &copy handed on: as the receiver of a library method that writes its receiver's fields it is an
					// update of the copy (the same lost update, one call deeper); anything else may keep the pointer
					if addr == ssa.Value(slot) {
						callee := x.Common().StaticCallee()
						if callee != nil && core.IsGeo(callee) && len(x.Common().Args) > 0 && x.Common().Args[0] == addr && len(callee.Params) > 0 && writesReceiverField(callee, 0) {
							if fieldStore == nil {
								fieldStore = x
							}
						} else {
							escapes = true
						}
					}
				case *ssa.Store:
					if x.Val == addr {
						escapes = true
					}
				}
			}
		}
		walk(slot, 0)
		if fieldStore == nil || escapes {
			continue
		}
		file := c.Pos(fn.Pos())
		if i := strings.LastIndex(file, ":"); i > 0 {
			file = file[:i]
		}
		obs = append(obs, core.Ob("R-DUP", "dup:"+file+":value-receiver-store:"+core.FuncName(fn), c.Pos(fieldStore.Pos()), core.FuncName(fn), core.Violated,
			"the method has a value receiver and assigns to a field of it: the assignment changes a copy that is thrown away when the method returns, so the object the method was called on never sees the update (a crosser that is never advanced, a counter that never counts)"))
	}
	return examined, obs
}

// edgeOrVertexArgs (R-VERTEXSYM, after C03-r9m2): the stateless EdgeOrVertexCrossing(a, b, c, d) hands its four
// arguments to VertexCrossing in the same order. CrossingSign is symmetric in the two edges, VertexCrossing is not:
// exactly one of VertexCrossing(a,b,c,d) and VertexCrossing(c,d,a,b) is true for two edges that share a vertex.
func edgeOrVertexArgs(c *core.Ctx) core.Obligation {
	const construct = "EdgeOrVertexCrossing:argument-order"
	fn := c.Fn("s2", "", "EdgeOrVertexCrossing")
	if fn == nil || len(fn.Params) != 4 {
		return core.Ob("R-VERTEXSYM", construct, "-", "", core.Violated, "unresolved anchor")
	}
	found, ok := false, true
	core.AllInstrs(fn, func(in ssa.Instruction) {
		call, isC := in.(*ssa.Call)
		if !isC || calleeName(call) != "VertexCrossing" || len(call.Call.Args) != 4 {
			return
		}
		found = true
		for i, a := range call.Call.Args {
			if paramName(fn, a) != fn.Params[i].Name() {
				ok = false
			}
		}
	})
	if !found {
		return core.Ob("R-VERTEXSYM", construct, c.Pos(fn.Pos()), core.FuncName(fn), core.Violated, "unresolved anchor: EdgeOrVertexCrossing does not call VertexCrossing")
	}
	if ok {
		return core.Ob("R-VERTEXSYM", construct, c.Pos(fn.Pos()), core.FuncName(fn), core.Discharged, "VertexCrossing receives (a, b, c, d) in the caller's order")
	}
	return core.Ob("R-VERTEXSYM", construct, c.Pos(fn.Pos()), core.FuncName(fn), core.Violated,
		"VertexCrossing is not called with (a, b, c, d) in the caller's order: the shared-vertex rule is not symmetric in the two edges (exactly one of the two orders is true), so the stateless function now gives the opposite answer to EdgeCrosser.EdgeOrVertexCrossing and to VertexCrossing itself for two edges that share exactly one endpoint")
}

// guardCalleeIs: the constant answer `retConst` of fn (or a call named work) lies behind the true side of a call to a
// method of recvType whose name must be `want`.
func guardedBy(c *core.Ctx, rule, construct string, fn *ssa.Function, isWork func(b *ssa.BasicBlock) bool, recvPkg, recvType, want, bad string) core.Obligation {
	if fn == nil {
		return core.Ob(rule, construct, "-", "", core.Violated, "unresolved anchor")
	}
	nwork, wrong := 0, ""
	for _, wb := range fn.Blocks {
		if !isWork(wb) {
			continue
		}
		nwork++
		got := ""
		for _, b := range fn.Blocks {
			ifi, ok := b.Instrs[len(b.Instrs)-1].(*ssa.If)
			if !ok {
				continue
			}
			call, ok := ifi.Cond.(*ssa.Call)
			if !ok || core.StaticCallee(call) == nil || core.StaticCallee(call).Signature.Recv() == nil || !core.IsNamed(core.StaticCallee(call).Signature.Recv().Type(), recvPkg, recvType) {
				continue
			}
			if core.EdgeDominates(core.Edge{From: b, Idx: 0}, wb) {
				got = core.StaticCallee(call).Name()
			}
		}
		if got != want && wrong == "" {
			wrong = got
			if wrong == "" {
				wrong = "(no " + recvPkg + "." + recvType + " test)"
			}
		}
	}
	switch {
	case nwork == 0:
		return core.Ob(rule, construct, c.Pos(fn.Pos()), core.FuncName(fn), core.Violated, "unresolved anchor: the shortcut was not found")
	case wrong != "":
		return core.Ob(rule, construct, c.Pos(fn.Pos()), core.FuncName(fn), core.Violated, fmt.Sprintf("the shortcut is taken behind %s.%s.%s, not %s: %s", recvPkg, recvType, wrong, want, bad))
	}
	return core.Ob(rule, construct, c.Pos(fn.Pos()), core.FuncName(fn), core.Discharged, fmt.Sprintf("%d shortcut(s), each behind %s.%s.%s", nwork, recvPkg, recvType, want))
}

// cellOverlapShortcuts (R-GUARD, after C12-r9m1: `c.uv.Intersects(target.uv)` turned into `Contains` in both
// Cell.DistanceToCell and Cell.MaxDistanceToCell): two cells are at distance 0 as soon as their (u,v) rectangles MEET
// (and at distance Pi as soon as one meets the antipodal image of the other); with Contains the shortcut is only taken
// when the receiver contains the target, so a small cell asked for its distance to an enclosing cell gets a positive
// answer, and the function is no longer symmetric.
func cellOverlapShortcuts(c *core.Ctx) []core.Obligation {
	var obs []core.Obligation
	for _, name := range []string{"DistanceToCell", "MaxDistanceToCell"} {
		fn := c.Fn("s2", "Cell", name)
		isConstReturn := func(b *ssa.BasicBlock) bool {
			ret, ok := b.Instrs[len(b.Instrs)-1].(*ssa.Return)
			if !ok || len(ret.Results) != 1 {
				return false
			}
			_, isK := ret.Results[0].(*ssa.Const)
			return isK
		}
		obs = append(obs, guardedBy(c, "R-GUARD", "Cell."+name+":overlap-shortcut-on-intersects", fn, isConstReturn, "r2", "Rect", "Intersects",
			"the constant answer (0 for overlapping cells, Pi for a cell that overlaps the antipodal image) must be given whenever the two (u,v) rectangles meet; with a stronger test a cell nested inside the other, asked for its distance to the enclosing one, gets the distance to that cell's boundary instead of 0"))
	}
	return obs
}

// rawChordCompare (R-POLARITY, after C08-r9m1: queryPQ.Less comparing distance.chordAngle() values with <): a
// `distance` is a minimum distance or a maximum distance, and "better" means smaller for one and larger for the other;
// only the interface's less() knows which. Outside the two implementations, chordAngle() values of two distances are
// never compared with < or > directly - for a furthest-edge query that orders the priority queue worst-first, and the
// search stops as soon as the first (worst) cell falls behind the limit.
func rawChordCompare(c *core.Ctx) []core.Obligation {
	var obs []core.Obligation
	calls := 0
	isChord := func(v ssa.Value) bool {
		call, ok := v.(*ssa.Call)
		if !ok || !call.Call.IsInvoke() || call.Call.Method.Name() != "chordAngle" {
			return false
		}
		return true
	}
	for _, fn := range c.GeoFuncs() {
		n := 0
		core.AllInstrs(fn, func(in ssa.Instruction) {
			if call, ok := in.(*ssa.Call); ok && call.Call.IsInvoke() && call.Call.Method.Name() == "less" {
				calls++
			}
			bo, ok := in.(*ssa.BinOp)
			if !ok {
				return
			}
			switch bo.Op {
			case token.LSS, token.GTR, token.LEQ, token.GEQ:
			default:
				return
			}
			if isChord(bo.X) && isChord(bo.Y) {
				n++
				obs = append(obs, core.Ob("R-POLARITY", fmt.Sprintf("raw-distance-compare:%s#%d", core.FuncName(fn), n), c.Pos(bo.Pos()), core.FuncName(fn), core.Violated,
					"two distance values are ordered by comparing their chordAngle() with "+bo.Op.String()+" instead of distance.less(): for the furthest-edge family 'better' means LARGER, so this orders them the wrong way round - a priority queue built on it pops the worst cell first and the search gives up while better cells are still queued"))
			}
		})
	}
	st, detail := core.Discharged, fmt.Sprintf("%d calls of distance.less(); no direct ordered comparison of two chordAngle() values", calls)
	if calls < 3 {
		st, detail = core.Violated, fmt.Sprintf("unresolved anchor: only %d calls of distance.less() found", calls)
	}
	obs = append(obs, core.Ob("R-POLARITY", "raw-distance-compare:scan", "-", "", st, detail))
	return obs
}

// byteReaderPassthrough (R-DECSHAPE, after C09-r9m1: the `r.(byteReader)` pass-through of asByteReader dropped): a reader
// that can already deliver single bytes must be used as it is. Wrapping it in a bufio.Reader reads ahead (up to 4096
// bytes) from the caller's stream, so the value that follows in the same stream can no longer be decoded.
func byteReaderPassthrough(c *core.Ctx) core.Obligation {
	const construct = "asByteReader:passes-byte-readers-through"
	fn := c.Fn("s2", "", "asByteReader")
	if fn == nil || len(fn.Params) != 1 {
		return core.Ob("R-DECSHAPE", construct, "-", "", core.Violated, "unresolved anchor")
	}
	ok := false
	core.AllInstrs(fn, func(in ssa.Instruction) {
		ta, isTA := in.(*ssa.TypeAssert)
		if !isTA || ta.X != ssa.Value(fn.Params[0]) || !ta.CommaOk {
			return
		}
		// the asserted value is returned on the ok side
		for _, r := range *ta.Referrers() {
			ex, isEx := r.(*ssa.Extract)
			if !isEx || ex.Index != 0 {
				continue
			}
			for _, r2 := range *ex.Referrers() {
				switch r2.(type) {
				case *ssa.Return, *ssa.ChangeInterface, *ssa.MakeInterface, *ssa.Phi:
					ok = true
				}
			}
		}
	})
	if ok {
		return core.Ob("R-DECSHAPE", construct, c.Pos(fn.Pos()), core.FuncName(fn), core.Discharged, "a reader that implements ReadByte is returned unwrapped")
	}
	return core.Ob("R-DECSHAPE", construct, c.Pos(fn.Pos()), core.FuncName(fn), core.Violated,
		"every reader is wrapped in a buffered reader, including those that can already deliver single bytes (bytes.Buffer, bytes.Reader, bufio.Reader): the wrapper reads ahead from the caller's stream, so when several values are encoded back to back the first Decode swallows the beginning of the next one and the second Decode fails with EOF")
}

// flagWordOrdered (R-FLAGS, after C09-r9m2: `properties >= originInside|boundEncoded` in Loop.decodeCompressed): a word
// whose bits are tested with & is a set of flags, not a number; an ordered comparison of it against a combination of
// flag constants rejects (or accepts) exactly the legitimate value in which all those bits are set.
func flagWordOrdered(c *core.Ctx) []core.Obligation {
	var obs []core.Obligation
	words := 0
	for _, fn := range c.GeoFuncs() {
		masked := map[ssa.Value]bool{}
		core.AllInstrs(fn, func(in ssa.Instruction) {
			bo, ok := in.(*ssa.BinOp)
			if !ok || bo.Op != token.AND {
				return
			}
			if _, k := bo.Y.(*ssa.Const); k && !isConstValue(bo.X) {
				masked[bo.X] = true
			} else if _, k := bo.X.(*ssa.Const); k && !isConstValue(bo.Y) {
				masked[bo.Y] = true
			}
		})
		if len(masked) == 0 {
			continue
		}
		n := 0
		core.AllInstrs(fn, func(in ssa.Instruction) {
			bo, ok := in.(*ssa.BinOp)
			if !ok {
				return
			}
			switch bo.Op {
			case token.LSS, token.GTR, token.LEQ, token.GEQ:
			default:
				return
			}
			var word, other ssa.Value
			switch {
			case masked[bo.X]:
				word, other = bo.X, bo.Y
			case masked[bo.Y]:
				word, other = bo.Y, bo.X
			default:
				return
			}
			// only words that come out of a decoder read or a properties function, compared with a constant
			if _, isK := other.(*ssa.Const); !isK {
				return
			}
			src := calleeName(core.StripConv(word))
			if src != "readUvarint" && src != "readUint8" && src != "readUint32" && src != "readUint64" && src != "compressedEncodingProperties" {
				return
			}
			n++
			obs = append(obs, core.Ob("R-FLAGS", fmt.Sprintf("flag-word-ordered:%s#%d", core.FuncName(fn), n), c.Pos(bo.Pos()), core.FuncName(fn), core.Violated,
				"a word whose bits are tested with & elsewhere in this function is compared with "+bo.Op.String()+" against a constant: as a number, the legitimate value with all known bits set sits exactly on that boundary, so it is rejected (or an unknown bit accepted) - an encoding the library itself wrote no longer decodes"))
		})
		words += len(masked)
	}
	obs = append(obs, core.Ob("R-FLAGS", "flag-word-ordered:scan", "-", "", core.Discharged, fmt.Sprintf("%d masked words examined; none read from a stream is compared numerically with a constant", words)))
	return obs
}

func isConstValue(v ssa.Value) bool { _, ok := v.(*ssa.Const); return ok }

// bounderFallback (R-ACCUM, after C10-r9m1: the nearly-identical-points fallback of RectBounder.AddPoint reduced to
// r.bound.AddPoint(bLL)): Rect.AddPoint grows a rectangle from whichever end is nearer, which is only the rectangle
// spanned by an EDGE when the receiver is the single point at the edge's other end. On the accumulated bound it may be
// applied only while that bound is still empty (the first point of the chain).
func bounderFallback(c *core.Ctx) core.Obligation {
	const construct = "(*s2.RectBounder).AddPoint:edge-rectangle-from-its-own-endpoints"
	fn := c.Fn("s2", "RectBounder", "AddPoint")
	if fn == nil {
		return core.Ob("R-ACCUM", construct, "-", "", core.Violated, "unresolved anchor")
	}
	var emptyEdges []core.Edge
	for _, b := range fn.Blocks {
		if ifi, ok := b.Instrs[len(b.Instrs)-1].(*ssa.If); ok && calleeName(ifi.Cond) == "IsEmpty" {
			emptyEdges = append(emptyEdges, core.Edge{From: b, Idx: 0})
		}
	}
	n, bad := 0, ""
	core.AllInstrs(fn, func(in ssa.Instruction) {
		call, ok := in.(*ssa.Call)
		if !ok || calleeName(call) != "AddPoint" || core.StaticCallee(call).Signature.Recv() == nil || !core.IsNamed(core.StaticCallee(call).Signature.Recv().Type(), "s2", "Rect") {
			return
		}
		n++
		fr, isField := core.AsFieldLoad(call.Call.Args[0])
		if !isField || fr.Name != "bound" {
			return // a fresh two-point rectangle
		}
		for _, e := range emptyEdges {
			if core.EdgeDominates(e, call.Block()) {
				return
			}
		}
		bad = c.Pos(call.Pos())
	})
	switch {
	case n == 0:
		return core.Ob("R-ACCUM", construct, c.Pos(fn.Pos()), core.FuncName(fn), core.Violated, "unresolved anchor: no Rect.AddPoint in RectBounder.AddPoint")
	case bad != "":
		return core.Ob("R-ACCUM", construct, bad, core.FuncName(fn), core.Violated,
			"the accumulated bound itself is grown with Rect.AddPoint although it is not empty: AddPoint extends the longitude interval from whichever END is nearer to the new point, not from the previous vertex, so the longitudes swept by the edge A -> B can be left out (a sub-nanometre edge next to a pole whose endpoints are tens of degrees of longitude apart)")
	}
	return core.Ob("R-ACCUM", construct, c.Pos(fn.Pos()), core.FuncName(fn), core.Discharged, fmt.Sprintf("%d Rect.AddPoint calls: on a fresh one-point rectangle, or on the bound while it is empty", n))
}

// latitudeByAsin (R-UNITS, after C10-r9m2: Cap.RectBound taking the centre's latitude as math.Asin(center.Z)): asin is
// ill-conditioned near +-1 - within 1.5e-8 rad of a pole z rounds to exactly 1 - which is why latitude() uses atan2.
// No function applies math.Asin directly to a coordinate of a point.
func latitudeByAsin(c *core.Ctx) []core.Obligation {
	var obs []core.Obligation
	n := 0
	for _, fn := range c.GeoFuncs() {
		k := 0
		core.AllInstrs(fn, func(in ssa.Instruction) {
			call, ok := in.(*ssa.Call)
			if !ok || calleeName(call) != "Asin" || len(call.Call.Args) != 1 {
				return
			}
			n++
			fr, isField := core.AsFieldLoad(call.Call.Args[0])
			if !isField || (fr.Name != "X" && fr.Name != "Y" && fr.Name != "Z") {
				return
			}
			k++
			obs = append(obs, core.Ob("R-UNITS", fmt.Sprintf("%s:latitude-by-asin#%d", core.FuncName(fn), k), c.Pos(call.Pos()), core.FuncName(fn), core.Violated,
				"an angle is taken as math.Asin of a point's coordinate: near +-1 the arcsine amplifies the rounding of the coordinate by 1/colatitude (the coordinate is exactly 1 within 1.5e-8 rad of the pole), so a latitude obtained this way is off by up to 1e-8 rad there; latitude() / LatLngFromPoint use atan2 for that reason, and a bound built on the asin value excludes points it must contain"))
		})
	}
	obs = append(obs, core.Ob("R-UNITS", "latitude-by-asin:scan", "-", "", core.Discharged, fmt.Sprintf("%d uses of math.Asin, none applied directly to a coordinate", n)))
	return obs
}

// interpolationErrorCross (R-ORDERINDEP, after C16-r9m2: `b0Dist*b1Error - b1Dist*b0Error` turned into
// `b0Dist*b0Error - b1Dist*b1Error`): the error of the interpolated fraction b0Dist / (b0Dist - b1Dist) is
// (b0Dist*b1Error - b1Dist*b0Error) / ...: each product pairs the DISTANCE of one endpoint with the ERROR of the other.
func interpolationErrorCross(c *core.Ctx) core.Obligation {
	const construct = "intersectionStableSorted:error-pairs-distance-with-other-error"
	fn := c.Fn("s2", "", "intersectionStableSorted")
	if fn == nil {
		return core.Ob("R-ORDERINDEP", construct, "-", "", core.Violated, "unresolved anchor")
	}
	found, ok := false, false
	core.AllInstrs(fn, func(in ssa.Instruction) {
		sub, isS := in.(*ssa.BinOp)
		if !isS || sub.Op != token.SUB {
			return
		}
		l, ok1 := sub.X.(*ssa.BinOp)
		r, ok2 := sub.Y.(*ssa.BinOp)
		if !ok1 || !ok2 || l.Op != token.MUL || r.Op != token.MUL {
			return
		}
		ext := func(v ssa.Value) (*ssa.Call, int) {
			ex, isE := v.(*ssa.Extract)
			if !isE {
				return nil, -1
			}
			call, _ := ex.Tuple.(*ssa.Call)
			if call == nil || calleeName(call) != "projection" {
				return nil, -1
			}
			return call, ex.Index
		}
		pair := func(m *ssa.BinOp) (bool, bool) { // (is a distance*error product of two projections, crosses calls)
			c1, i1 := ext(m.X)
			c2, i2 := ext(m.Y)
			if c1 == nil || c2 == nil || i1 == i2 {
				return false, false
			}
			return true, c1 != c2
		}
		p1, x1 := pair(l)
		p2, x2 := pair(r)
		if !p1 || !p2 {
			return
		}
		found = true
		ok = x1 && x2
	})
	if !found {
		return core.Ob("R-ORDERINDEP", construct, c.Pos(fn.Pos()), core.FuncName(fn), core.Violated, "unresolved anchor: the difference of the two distance*error products was not found")
	}
	if ok {
		return core.Ob("R-ORDERINDEP", construct, c.Pos(fn.Pos()), core.FuncName(fn), core.Discharged, "each product multiplies the distance of one endpoint with the error of the other")
	}
	return core.Ob("R-ORDERINDEP", construct, c.Pos(fn.Pos()), core.FuncName(fn), core.Violated,
		"the interpolation error multiplies each endpoint's distance with its OWN error: the derivative of b0Dist/(b0Dist - b1Dist) pairs each distance with the other endpoint's error; the own-error form nearly cancels when the two projections are similar, so the stable method accepts results that are thousands of times the documented error away from the true intersection instead of falling back to the exact method")
}

// allFacesUpdated (R-RESET, after C04-r9m1: applyUpdatesInternal skipping a face that received no edges unless a flag
// computed once BEFORE the loop says the tracker is inside a shape): whether a face lies in the interior of a shape is
// only known when the tracker reaches that face; updateFaceEdges makes that decision itself, per face. The loop over the
// six faces therefore calls it for every face.
func allFacesUpdated(c *core.Ctx) core.Obligation {
	const construct = "ShapeIndex.applyUpdatesInternal:every-face-is-updated"
	fn := c.Fn("s2", "ShapeIndex", "applyUpdatesInternal")
	if fn == nil {
		return core.Ob("R-RESET", construct, "-", "", core.Violated, "unresolved anchor")
	}
	var callBlock *ssa.BasicBlock
	core.AllInstrs(fn, func(in ssa.Instruction) {
		if call, ok := in.(*ssa.Call); ok && calleeName(call) == "updateFaceEdges" {
			callBlock = call.Block()
		}
	})
	if callBlock == nil {
		return core.Ob("R-RESET", construct, c.Pos(fn.Pos()), core.FuncName(fn), core.Violated, "unresolved anchor: updateFaceEdges is not called")
	}
	// the innermost loop that contains the call: its header is the block with a back edge from which callBlock is reachable
	for h, body := range loopsOf(fn) {
		if !body[callBlock] {
			continue
		}
		// can the loop go round (header -> ... -> header) without passing the call?
		for _, s := range h.Succs {
			if !body[s] {
				continue
			}
			if s != callBlock && core.ReachableAvoiding(s, h, nil, map[*ssa.BasicBlock]bool{callBlock: true}) {
				return core.Ob("R-RESET", construct, c.Pos(fn.Pos()), core.FuncName(fn), core.Violated,
					"the loop over the cube faces can skip updateFaceEdges for a face: a face without edges of its own still needs index cells when it lies inside a shape, and whether it does is only known when the interior tracker reaches it (updateFaceEdges tests that itself); a face skipped from outside gets no cells, and every point on it is reported as not contained by a loop larger than a cube face")
			}
		}
		return core.Ob("R-RESET", construct, c.Pos(fn.Pos()), core.FuncName(fn), core.Discharged, "every iteration of the face loop calls updateFaceEdges")
	}
	return core.Ob("R-RESET", construct, c.Pos(fn.Pos()), core.FuncName(fn), core.Violated, "unresolved anchor: updateFaceEdges is not called from a loop")
}

// polylineFirstVertex (R-INDEX family, reported under R-DECSHAPE; after C15-r9m2: the `len(*p) == 0` guard of
// Polyline.IntersectsCell removed): a polyline may have no vertices (Decode accepts a count of 0), so every access to a
// constant index of the vertex slice in a Polyline method lies behind a test of its length.
func polylineFirstVertex(c *core.Ctx) []core.Obligation {
	var obs []core.Obligation
	total := 0
	for _, fn := range c.GeoFuncs() {
		recv := fn.Signature.Recv()
		if recv == nil || !core.IsNamed(recv.Type(), "s2", "Polyline") || len(fn.Params) == 0 {
			continue
		}
		// the queries C15 names (containment, bounds, edges, re-encoding) and the whole-polyline measures; methods
		// whose documentation requires a non-empty polyline or a valid index (Project, Interpolate, Edge(i), ...)
		// state a precondition on the caller and are not held to this
		switch fn.Name() {
		case "IntersectsCell", "ContainsCell", "ContainsPoint", "CapBound", "RectBound", "CellUnionBound", "NumEdges", "NumChains", "Chain",
			"ReferencePoint", "Encode", "encode", "Length", "Centroid", "Reverse", "Equal", "ApproxEqual", "approxEqual", "Validate", "Intersects", "IsEmpty", "IsFull", "Dimension":
		default:
			continue
		}
		// tests of len(*p)
		var lenTests []*ssa.BasicBlock
		for _, b := range fn.Blocks {
			ifi, ok := b.Instrs[len(b.Instrs)-1].(*ssa.If)
			if !ok {
				continue
			}
			bo, ok := ifi.Cond.(*ssa.BinOp)
			if !ok {
				continue
			}
			for i, o := range []ssa.Value{bo.X, bo.Y} {
				if call, ok := o.(*ssa.Call); ok {
					if bi, ok := call.Call.Value.(*ssa.Builtin); ok && bi.Name() == "len" {
						// a test of the length against a constant (len(*p) == 0, len(*p) < 2, ...), not a loop condition
						if _, isK := []ssa.Value{bo.Y, bo.X}[i].(*ssa.Const); isK {
							lenTests = append(lenTests, b)
						}
					}
				}
			}
		}
		n := 0
		core.AllInstrs(fn, func(in ssa.Instruction) {
			ia, ok := in.(*ssa.IndexAddr)
			if !ok {
				return
			}
			if _, isK := ia.Index.(*ssa.Const); !isK {
				return
			}
			ld, ok := ia.X.(*ssa.UnOp)
			if !ok || ld.X != ssa.Value(fn.Params[0]) {
				return
			}
			total++
			guarded := false
			for _, t := range lenTests {
				if core.EdgeDominates(core.Edge{From: t, Idx: 0}, ia.Block()) || core.EdgeDominates(core.Edge{From: t, Idx: 1}, ia.Block()) {
					guarded = true
				}
			}
			// inside a loop over the vertices (range / index loop) the access is guarded by the loop condition
			for h, body := range loopsOf(fn) {
				if !body[ia.Block()] {
					continue
				}
				// only a loop whose condition looks at a length (for i < len(*p), range *p) vouches for its body
				if ifi, ok := h.Instrs[len(h.Instrs)-1].(*ssa.If); ok {
					if bo, ok := ifi.Cond.(*ssa.BinOp); ok {
						for _, o := range []ssa.Value{bo.X, bo.Y} {
							if call, ok := o.(*ssa.Call); ok {
								if bi, ok := call.Call.Value.(*ssa.Builtin); ok && bi.Name() == "len" {
									guarded = true
								}
							}
						}
					}
				}
			}
			if guarded {
				return
			}
			n++
			obs = append(obs, core.Ob("R-DECSHAPE", fmt.Sprintf("polyline-first-vertex:%s#%d", core.FuncName(fn), n), c.Pos(ia.Pos()), core.FuncName(fn), core.Violated,
				"a fixed vertex of the polyline is read with no test of the polyline's length on the way: a polyline can be empty (Polyline.Decode accepts a vertex count of 0 and returns nil), and then this index is out of range and the query panics"))
		})
	}
	obs = append(obs, core.Ob("R-DECSHAPE", "polyline-first-vertex:scan", "-", "", core.Discharged, fmt.Sprintf("%d constant-index reads of a polyline's vertices examined", total)))
	return obs
}

// writesReceiverField: fn (or a library method it calls on the same receiver, two levels deep) stores into a field of *receiver.
func writesReceiverField(fn *ssa.Function, depth int) bool {
	if fn == nil || depth > 2 || len(fn.Params) == 0 {
		return false
	}
	recv := ssa.Value(fn.Params[0])
	found := false
	core.AllInstrs(fn, func(in ssa.Instruction) {
		switch x := in.(type) {
		case *ssa.Store:
			if fa, ok := x.Addr.(*ssa.FieldAddr); ok && fa.X == recv {
				found = true
			}
		case ssa.CallInstruction:
			callee := x.Common().StaticCallee()
			if callee != nil && core.IsGeo(callee) && len(x.Common().Args) > 0 && x.Common().Args[0] == recv && writesReceiverField(callee, depth+1) {
				found = true
			}
		}
	})
	return found
}

// coincidenceShortcuts (R-STAGES, after C02-r9m1: `if a == x { return -1 }` added to CompareDistances next to the
// existing `if a == b { return 0 }`): the predicates are defined on the DIRECTIONS of their arguments, which need not be
// exactly unit length, so two different float64 triples can denote the same point of the sphere. Bitwise equality of
// two arguments therefore proves that they coincide, while inequality proves nothing; the only answer a predicate can
// give directly from an equality test is the neutral one (0 / Indeterminate / false) - "these two are the same" -
// never a sign, which for exactly parallel arguments has to come from the exact and symbolic stages.
func coincidenceShortcuts(c *core.Ctx) []core.Obligation {
	var obs []core.Obligation
	n := 0
	isPointEq := func(v ssa.Value) (*ssa.BinOp, bool) {
		bo, ok := v.(*ssa.BinOp)
		if !ok || (bo.Op != token.EQL && bo.Op != token.NEQ) {
			return nil, false
		}
		t := bo.X.Type()
		return bo, core.IsNamed(t, "s2", "Point") || core.IsNamed(t, "r3", "Vector")
	}
	for _, fn := range c.GeoFuncs() {
		if fn.Pkg == nil || fn.Pkg.Pkg.Name() != "s2" || !strings.HasPrefix(c.Pos(fn.Pos()), "s2/predicates.go:") {
			continue
		}
		k := 0
		for _, b := range fn.Blocks {
			iff, ok := b.Instrs[len(b.Instrs)-1].(*ssa.If)
			if !ok {
				continue
			}
			bo, ok := isPointEq(iff.Cond)
			if !ok {
				continue
			}
			eq := b.Succs[0]
			if bo.Op == token.NEQ {
				eq = b.Succs[1]
			}
			if len(eq.Preds) != 1 || len(eq.Instrs) != 1 {
				continue
			}
			ret, ok := eq.Instrs[0].(*ssa.Return)
			if !ok || len(ret.Results) != 1 {
				continue
			}
			k++
			n++
			construct := fmt.Sprintf("coincidence-shortcut:%s#%d", core.FuncName(fn), k)
			cv, isConst := ret.Results[0].(*ssa.Const)
			switch {
			case !isConst:
				obs = append(obs, core.Ob("R-STAGES", construct, c.Pos(iff.Cond.Pos()), core.FuncName(fn), core.Discharged, "two bitwise equal arguments lead to a computed answer"))
			case cv.Value == nil || (cv.Value.Kind() == constant.Bool && !constant.BoolVal(cv.Value)) || (cv.Value.Kind() == constant.Int && constant.Sign(cv.Value) == 0):
				obs = append(obs, core.Ob("R-STAGES", construct, c.Pos(iff.Cond.Pos()), core.FuncName(fn), core.Discharged, "two bitwise equal arguments lead to the neutral answer "+cv.String()))
			default:
				obs = append(obs, core.Ob("R-STAGES", construct, c.Pos(iff.Cond.Pos()), core.FuncName(fn), core.Violated,
					"a sign ("+cv.String()+") is returned straight from a bitwise equality test of two arguments: the other argument can be a different float64 triple with exactly the same direction (the predicates do not require unit length), "+
						"in which case the true comparison is a tie that only the exact and symbolic stages may break - the shortcut answers differently from the swapped call, so the predicate is no longer antisymmetric"))
			}
		}
	}
	if n < 1 {
		obs = append(obs, core.Ob("R-STAGES", "coincidence-shortcut:anchor", "-", "", core.Violated, "unresolved anchor: no argument-equality shortcut found in s2/predicates.go"))
	}
	return obs
}

// polygonEdgeSpace (R-SIBSHAPE, after C15-r9m1: the linear search of Polygon.Edge stepping by Loop.NumEdges()): the
// edge ids of a polygon are laid out by initEdgesAndIndex, which gives each loop as many ids as it has stored vertices.
// A loop's NumEdges() is a different measure (0 for the one-vertex empty and full loops). Every function that walks the
// id space - Edge, Chain, ChainPosition - has to step by the measure the layout used, otherwise Edge(e) and
// ChainPosition(e) name different loops from the first empty or full loop on.
func polygonEdgeSpace(c *core.Ctx) core.Obligation {
	const construct = "Polygon:edge-id-space-one-measure"
	measures := func(fn *ssa.Function) map[string]bool {
		out := map[string]bool{}
		core.AllInstrs(fn, func(in ssa.Instruction) {
			call, ok := in.(*ssa.Call)
			if !ok {
				return
			}
			if bi, ok := call.Call.Value.(*ssa.Builtin); ok && bi.Name() == "len" && len(call.Call.Args) == 1 {
				if fr, ok := core.AsFieldLoad(call.Call.Args[0]); ok && fr.Name == "vertices" && fr.Struct != nil && fr.Struct.Obj().Name() == "Loop" {
					out["stored vertices"] = true
				}
				return
			}
			f := core.StaticCallee(call)
			if f == nil || f.Signature.Recv() == nil || !core.IsNamed(f.Signature.Recv().Type(), "s2", "Loop") {
				return
			}
			switch f.Name() {
			case "NumVertices":
				out["stored vertices"] = true
			case "NumEdges":
				out["NumEdges()"] = true
			}
		})
		return out
	}
	// the layout function: the Polygon method that accumulates into the numEdges field
	var layout *ssa.Function
	for _, fn := range c.GeoFuncs() {
		if fn.Signature.Recv() == nil || !core.IsNamed(fn.Signature.Recv().Type(), "s2", "Polygon") {
			continue
		}
		core.AllInstrs(fn, func(in ssa.Instruction) {
			st, ok := in.(*ssa.Store)
			if !ok {
				return
			}
			fr, ok := core.AsFieldAddr(st.Addr)
			if !ok || fr.Name != "numEdges" {
				return
			}
			if bo, ok := st.Val.(*ssa.BinOp); ok && bo.Op == token.ADD {
				layout = fn
			}
		})
	}
	if layout == nil {
		return core.Ob("R-SIBSHAPE", construct, "-", "", core.Violated, "unresolved anchor: no Polygon method accumulates numEdges")
	}
	want := measures(layout)
	if len(want) != 1 {
		return core.Ob("R-SIBSHAPE", construct, c.Pos(layout.Pos()), core.FuncName(layout), core.Violated, fmt.Sprintf("unresolved anchor: "+layout.Name()+" lays the edge ids out by %d measures", len(want)))
	}
	var w string
	for k := range want {
		w = k
	}
	n := 0
	for _, name := range []string{"Edge", "Chain", "ChainPosition"} {
		fn := c.Fn("s2", "Polygon", name)
		if fn == nil {
			return core.Ob("R-SIBSHAPE", construct, "-", "", core.Violated, "unresolved anchor: Polygon."+name)
		}
		for k := range measures(fn) {
			n++
			if k != w {
				return core.Ob("R-SIBSHAPE", construct, c.Pos(fn.Pos()), core.FuncName(fn), core.Violated,
					"Polygon."+name+" walks the edge-id space by "+k+" while "+layout.Name()+" laid it out by "+w+": the two differ for the one-vertex empty and full loops, so from the first such loop on "+name+" attributes an edge id to a different loop than the other accessors")
			}
		}
	}
	if n < 3 {
		return core.Ob("R-SIBSHAPE", construct, c.Pos(layout.Pos()), core.FuncName(layout), core.Violated, "unresolved anchor: the accessors no longer measure loops at all")
	}
	return core.Ob("R-SIBSHAPE", construct, c.Pos(layout.Pos()), core.FuncName(layout), core.Discharged, fmt.Sprintf(layout.Name()+", Edge, Chain and ChainPosition all measure a loop by its %s (%d uses)", w, n))
}

// lawOfSines (R-TOLERANCE, after C20-r9m2: findEndVertex computing the half-angle of the allowed wedge as
// asin(tolerance / sin(distance))): the spherical law of sines relates SINES of sides to sines of angles,
// sin(a)/sin(A) = sin(c)/sin(C). Where an arcsine is taken of a quotient whose denominator is the sine of a length, the
// numerator is the sine of a length too; the length itself is larger than its sine, so the angle comes out too wide and
// the simplified polyline strays further from the original than the tolerance.
func lawOfSines(c *core.Ctx) []core.Obligation {
	var obs []core.Obligation
	isMath := func(v ssa.Value, name string) (*ssa.Call, bool) {
		call, ok := v.(*ssa.Call)
		if !ok {
			return nil, false
		}
		f := core.StaticCallee(call)
		return call, f != nil && f.Pkg != nil && f.Pkg.Pkg.Path() == "math" && f.Name() == name
	}
	n := 0
	for _, fn := range c.GeoFuncs() {
		k := 0
		core.AllInstrs(fn, func(in ssa.Instruction) {
			v, ok := in.(ssa.Value)
			if !ok {
				return
			}
			call, ok := isMath(v, "Asin")
			if !ok {
				return
			}
			// look through math.Min / math.Max clamps
			arg := call.Call.Args[0]
			var quo *ssa.BinOp
			var find func(v ssa.Value, depth int)
			find = func(v ssa.Value, depth int) {
				if depth > 2 || quo != nil {
					return
				}
				if bo, ok := v.(*ssa.BinOp); ok && bo.Op == token.QUO {
					quo = bo
					return
				}
				for _, nm := range []string{"Min", "Max"} {
					if cl, ok := isMath(v, nm); ok {
						find(cl.Call.Args[0], depth+1)
						find(cl.Call.Args[1], depth+1)
					}
				}
			}
			find(arg, 0)
			if quo == nil {
				return
			}
			if _, ok := isMath(quo.Y, "Sin"); !ok {
				return
			}
			k++
			n++
			construct := fmt.Sprintf("law-of-sines:%s#%d", core.FuncName(fn), k)
			if _, ok := isMath(quo.X, "Sin"); ok {
				obs = append(obs, core.Ob("R-TOLERANCE", construct, c.Pos(call.Pos()), core.FuncName(fn), core.Discharged, "asin(sin(a) / sin(c)): both sides of the law of sines are sines"))
			} else {
				obs = append(obs, core.Ob("R-TOLERANCE", construct, c.Pos(call.Pos()), core.FuncName(fn), core.Violated,
					"the arcsine is taken of a quotient whose denominator is the sine of a length but whose numerator is not a sine: a > sin(a) for every positive length, so the angle is wider than the law of sines allows and what is built from it exceeds the tolerance"))
			}
		})
	}
	if n < 1 {
		obs = append(obs, core.Ob("R-TOLERANCE", "law-of-sines:anchor", "-", "", core.Violated, "unresolved anchor: no asin(x / sin(c)) found"))
	}
	return obs
}

// idleFaceNoop (R-IDLE, after C14-r9m1: the `numEdges == 0 && len(t.shapeIDs) == 0` early return of updateFaceEdges
// removed as redundant): maybeApplyUpdates does not look at the status again once it holds the mutex, so every
// goroutine that queued behind the builder applies the (now empty) updates a second time. That re-application is only
// harmless because the per-face work is skipped when the face received no edges and the tracker holds no shape: with
// nothing pending but pendingAdditionsPos != 0 the per-face work opens an iterator on the live index and may absorb an
// index cell while other goroutines read it. Decided: either maybeApplyUpdates re-reads the status under the mutex, or
// updateFaceEdges returns, before calling anything of the library, when its edge list is empty.
func idleFaceNoop(c *core.Ctx) core.Obligation {
	const construct = "updateFaceEdges:idle-face-is-a-no-op"
	fn := c.Fn("s2", "ShapeIndex", "updateFaceEdges")
	may := c.Fn("s2", "ShapeIndex", "maybeApplyUpdates")
	if fn == nil || may == nil {
		return core.Ob("R-IDLE", construct, "-", "", core.Violated, "unresolved anchor")
	}
	// (a) a status load inside the locked region of maybeApplyUpdates that dominates the application
	var lock, apply ssa.Instruction
	var loads []ssa.Instruction
	core.AllInstrs(may, func(in ssa.Instruction) {
		ci, ok := in.(ssa.CallInstruction)
		if !ok {
			return
		}
		f := core.StaticCallee(ci)
		if f == nil {
			return
		}
		switch {
		case f.Name() == "Lock" && lock == nil:
			lock = in
		case f.Name() == "applyUpdatesInternal":
			apply = in
		case f.Pkg != nil && f.Pkg.Pkg.Path() == "sync/atomic" && strings.HasPrefix(f.Name(), "Load"):
			loads = append(loads, in)
		}
	})
	if lock != nil && apply != nil {
		for _, ld := range loads {
			if ld.Block() != lock.Block() && ld.Block().Dominates(apply.Block()) && lock.Block().Dominates(ld.Block()) && ld.Block() != apply.Block() {
				return core.Ob("R-IDLE", construct, c.Pos(ld.Pos()), core.FuncName(may), core.Discharged, "maybeApplyUpdates reads the status again while holding the mutex, before applying")
			}
			if ld.Block() == lock.Block() && ld.Block() != apply.Block() {
				after := false
				for _, in := range ld.Block().Instrs {
					if in == lock {
						after = true
					}
					if in == ld && after {
						return core.Ob("R-IDLE", construct, c.Pos(ld.Pos()), core.FuncName(may), core.Discharged, "maybeApplyUpdates reads the status again while holding the mutex, before applying")
					}
				}
			}
		}
	}
	// (b) the empty-face guard of updateFaceEdges
	if len(fn.Params) < 3 {
		return core.Ob("R-IDLE", construct, c.Pos(fn.Pos()), core.FuncName(fn), core.Violated, "unresolved anchor: parameters of updateFaceEdges")
	}
	isLenOf := func(v ssa.Value, what func(ssa.Value) bool) bool {
		call, ok := v.(*ssa.Call)
		if !ok {
			return false
		}
		bi, ok := call.Call.Value.(*ssa.Builtin)
		return ok && bi.Name() == "len" && what(call.Call.Args[0])
	}
	isEdges := func(v ssa.Value) bool { return v == fn.Params[2] }
	busy := map[*ssa.BasicBlock]bool{}
	for _, b := range fn.Blocks {
		for _, in := range b.Instrs {
			if ci, ok := in.(ssa.CallInstruction); ok {
				if f := core.StaticCallee(ci); f == nil || core.IsGeo(f) {
					if _, isBuiltin := ci.Common().Value.(*ssa.Builtin); !isBuiltin {
						busy[b] = true
					}
				}
			}
		}
	}
	for _, b := range fn.Blocks {
		iff, ok := b.Instrs[len(b.Instrs)-1].(*ssa.If)
		if !ok || busy[b] {
			continue
		}
		bo, ok := iff.Cond.(*ssa.BinOp)
		if !ok {
			continue
		}
		k, isK := core.ConstInt(bo.Y)
		if !isLenOf(bo.X, isEdges) || !isK {
			continue
		}
		var emptyIdx int
		switch {
		case bo.Op == token.EQL && k == 0, bo.Op == token.LEQ && k == 0, bo.Op == token.LSS && k == 1:
			emptyIdx = 0
		case bo.Op == token.NEQ && k == 0, bo.Op == token.GTR && k == 0, bo.Op == token.GEQ && k == 1:
			emptyIdx = 1
		default:
			continue
		}
		if !b.Dominates(b) || !entryReachesQuietly(fn, b, busy) {
			continue
		}
		// from the empty side a return is reachable through blocks that call nothing
		seen := map[*ssa.BasicBlock]bool{}
		var walk func(x *ssa.BasicBlock) bool
		walk = func(x *ssa.BasicBlock) bool {
			if seen[x] || busy[x] {
				return false
			}
			seen[x] = true
			if _, isRet := x.Instrs[len(x.Instrs)-1].(*ssa.Return); isRet {
				return true
			}
			for _, s := range x.Succs {
				if walk(s) {
					return true
				}
			}
			return false
		}
		if walk(b.Succs[emptyIdx]) {
			return core.Ob("R-IDLE", construct, c.Pos(iff.Cond.Pos()), core.FuncName(fn), core.Discharged,
				"updateFaceEdges tests its edge list for emptiness before calling anything, and from the empty side returns without touching the index (the idle re-application by a goroutine that queued on the mutex does no work)")
		}
	}
	return core.Ob("R-IDLE", construct, c.Pos(fn.Pos()), core.FuncName(fn), core.Violated,
		"maybeApplyUpdates applies updates again without re-reading the status under the mutex, and updateFaceEdges has no way out for a face with no edges and no tracked shape: the idle re-application by every goroutine that queued behind the builder runs the per-face update against the live index (iterator on cells, absorbIndexCell) while lock-free readers are using it")
}

// entryReachesQuietly: block b is reachable from the entry through blocks that call nothing of the library.
func entryReachesQuietly(fn *ssa.Function, b *ssa.BasicBlock, busy map[*ssa.BasicBlock]bool) bool {
	seen := map[*ssa.BasicBlock]bool{}
	var walk func(x *ssa.BasicBlock) bool
	walk = func(x *ssa.BasicBlock) bool {
		if seen[x] || busy[x] {
			return false
		}
		seen[x] = true
		if x == b {
			return true
		}
		for _, s := range x.Succs {
			if walk(s) {
				return true
			}
		}
		return false
	}
	return walk(fn.Blocks[0])
}

// latEdgeMirror (R-MIRROR, after C05-r9m1: the point built for the candidate at -theta computed with Add like the one at
// +theta): a great circle meets a line of latitude at the two parameters +theta and -theta, i.e. at the points
// x*cos(theta) + y*sin(theta) and x*cos(theta) - y*sin(theta). In intersectsLatEdge each candidate is first tested
// against the parameter range of the edge (abTheta.Contains(+-theta)) and then the POINT is tested against the longitude
// range; the sign in the point must be the sign in the parameter test, otherwise the second candidate's longitude test
// is made on the first candidate's point.
func latEdgeMirror(c *core.Ctx) core.Obligation {
	const construct = "intersectsLatEdge:candidate-point-matches-parameter-sign"
	fn := c.Fn("s2", "", "intersectsLatEdge")
	if fn == nil {
		return core.Ob("R-MIRROR", construct, "-", "", core.Violated, "unresolved anchor")
	}
	// If edges whose condition is Interval.Contains(x) with x a local value or its negation
	type guard struct {
		e   core.Edge
		neg bool
		arg ssa.Value
	}
	var guards []guard
	for _, b := range fn.Blocks {
		iff, ok := b.Instrs[len(b.Instrs)-1].(*ssa.If)
		if !ok {
			continue
		}
		call, ok := iff.Cond.(*ssa.Call)
		if !ok || calleeName(call) != "Contains" || len(call.Call.Args) != 2 {
			continue
		}
		arg := call.Call.Args[1]
		if u, ok := arg.(*ssa.UnOp); ok && u.Op == token.SUB {
			guards = append(guards, guard{core.Edge{From: b, Idx: 0}, true, u.X})
		} else {
			guards = append(guards, guard{core.Edge{From: b, Idx: 0}, false, arg})
		}
	}
	// pairs of guards on the same value with opposite signs
	var plus, minus *guard
	for i := range guards {
		for j := range guards {
			if guards[i].arg == guards[j].arg && !guards[i].neg && guards[j].neg {
				plus, minus = &guards[i], &guards[j]
			}
		}
	}
	if plus == nil {
		return core.Ob("R-MIRROR", construct, c.Pos(fn.Pos()), core.FuncName(fn), core.Violated, "unresolved anchor: the two parameter tests Contains(theta) / Contains(-theta) were not found")
	}
	nAdd, nSub, bad := 0, 0, ""
	core.AllInstrs(fn, func(in ssa.Instruction) {
		call, ok := in.(*ssa.Call)
		if !ok {
			return
		}
		name := calleeName(call)
		if (name != "Add" && name != "Sub") || len(call.Call.Args) != 2 {
			return
		}
		f := core.StaticCallee(call)
		if f == nil || f.Signature.Recv() == nil || !core.IsNamed(f.Signature.Recv().Type(), "r3", "Vector") {
			return
		}
		underPlus, underMinus := core.EdgeDominates(plus.e, in.Block()), core.EdgeDominates(minus.e, in.Block())
		// x*c + y*(-s) is x*c - y*s: a negated factor in the second term exchanges Add and Sub
		if mul, ok := call.Call.Args[1].(*ssa.Call); ok && calleeName(mul) == "Mul" && len(mul.Call.Args) == 2 {
			if u, ok := mul.Call.Args[1].(*ssa.UnOp); ok && u.Op == token.SUB {
				name = map[string]string{"Add": "Sub", "Sub": "Add"}[name]
			}
		}
		switch {
		case underPlus && !underMinus:
			nAdd++
			if name != "Add" {
				bad = fmt.Sprintf("the candidate tested as Contains(+theta) is built with %s at %s", name, c.Pos(in.Pos()))
			}
		case underMinus && !underPlus:
			nSub++
			if name != "Sub" {
				bad = fmt.Sprintf("the candidate tested as Contains(-theta) is built with %s at %s", name, c.Pos(in.Pos()))
			}
		}
	})
	switch {
	case bad != "":
		return core.Ob("R-MIRROR", construct, c.Pos(fn.Pos()), core.FuncName(fn), core.Violated,
			bad+": the two intersections of the great circle with the line of latitude are x*cos(theta) +- y*sin(theta); with the wrong sign the longitude test of one candidate is made on the other candidate's point, so an edge that crosses the latitude line once inside and once outside the longitude range is answered from the wrong crossing")
	case nAdd != 1 || nSub != 1:
		return core.Ob("R-MIRROR", construct, c.Pos(fn.Pos()), core.FuncName(fn), core.Violated, fmt.Sprintf("unresolved anchor: %d / %d candidate points found under the +theta / -theta tests", nAdd, nSub))
	}
	return core.Ob("R-MIRROR", construct, c.Pos(fn.Pos()), core.FuncName(fn), core.Discharged, "the candidate behind Contains(theta) is x*cos + y*sin, the one behind Contains(-theta) is x*cos - y*sin")
}

// sentinelBounds (R-RANGE, after C11-r9m1: Advance's bound rewritten as `c.pos+n >= len(c.rangeNodes)`): the last
// element of CellIndex.rangeNodes is a sentinel, LimitID reads rangeNodes[pos+1], so the valid positions are
// 0 .. len-2 and "at or past the end" means pos >= len-1. Every ordered comparison in a CellIndexRangeIterator method
// that involves len(rangeNodes) is reduced to the form E >= len + k (constants moved to the len side): k must be -1.
func sentinelBounds(c *core.Ctx) []core.Obligation {
	var obs []core.Obligation
	isLen := func(v ssa.Value) bool {
		call, ok := v.(*ssa.Call)
		if !ok {
			return false
		}
		bi, ok := call.Call.Value.(*ssa.Builtin)
		if !ok || bi.Name() != "len" {
			return false
		}
		fr, ok := core.AsFieldLoad(call.Call.Args[0])
		return ok && fr.Name == "rangeNodes"
	}
	// lin: v = rest + k, with lens counting how many times len(rangeNodes) occurs with sign +1 / -1
	var lin func(v ssa.Value, sign int64, k *int64, lens *int64, depth int)
	lin = func(v ssa.Value, sign int64, k *int64, lens *int64, depth int) {
		if kv, ok := core.ConstInt(v); ok {
			*k += sign * kv
			return
		}
		if isLen(v) {
			*lens += sign
			return
		}
		if bo, ok := v.(*ssa.BinOp); ok && depth < 6 && (bo.Op == token.ADD || bo.Op == token.SUB) {
			lin(bo.X, sign, k, lens, depth+1)
			if bo.Op == token.ADD {
				lin(bo.Y, sign, k, lens, depth+1)
			} else {
				lin(bo.Y, -sign, k, lens, depth+1)
			}
		}
	}
	n := 0
	for _, fn := range c.GeoFuncs() {
		if fn.Signature.Recv() == nil || !core.IsNamed(fn.Signature.Recv().Type(), "s2", "CellIndexRangeIterator") {
			continue
		}
		k := 0
		core.AllInstrs(fn, func(in ssa.Instruction) {
			bo, ok := in.(*ssa.BinOp)
			if !ok {
				return
			}
			switch bo.Op {
			case token.LSS, token.LEQ, token.GTR, token.GEQ:
			default:
				return
			}
			var kl, kr, ll, lr int64
			lin(bo.X, 1, &kl, &ll, 0)
			lin(bo.Y, 1, &kr, &lr, 0)
			// X OP Y  <=>  (X - Y) OP 0; the len occurs with net coefficient lr - ll on the right
			coef := lr - ll
			if coef == 0 {
				return
			}
			op := bo.Op
			kk := kr - kl // E OP coef*len + kk
			if coef < 0 {
				// multiply by -1: flips the operator
				op = map[token.Token]token.Token{token.LSS: token.GTR, token.GTR: token.LSS, token.LEQ: token.GEQ, token.GEQ: token.LEQ}[op]
				coef, kk = -coef, -kk
			}
			if coef != 1 {
				return
			}
			// E >= len+kk, E < len+kk: as is; E > len+kk <=> E >= len+kk+1; E <= len+kk <=> E < len+kk+1
			if op == token.GTR || op == token.LEQ {
				kk++
			}
			k++
			n++
			construct := fmt.Sprintf("sentinel-bound:%s#%d", core.FuncName(fn), k)
			if kk == -1 {
				obs = append(obs, core.Ob("R-RANGE", construct, c.Pos(bo.Pos()), core.FuncName(fn), core.Discharged, "the position is compared with len(rangeNodes)-1: the sentinel is not a valid position"))
			} else {
				obs = append(obs, core.Ob("R-RANGE", construct, c.Pos(bo.Pos()), core.FuncName(fn), core.Violated,
					fmt.Sprintf("a position is compared with len(rangeNodes)%+d instead of len(rangeNodes)-1: the last element is a sentinel and LimitID reads rangeNodes[pos+1], so the iterator can be positioned on the sentinel (LimitID then indexes past the end) or refuses the last valid range", kk)))
			}
		})
	}
	if n < 2 {
		obs = append(obs, core.Ob("R-RANGE", "sentinel-bound:anchor", "-", "", core.Violated, fmt.Sprintf("unresolved anchor: %d comparisons with len(rangeNodes) found in CellIndexRangeIterator", n)))
	}
	return obs
}

// shrinkToFitMirror (R-MIRROR, after C12-r9m2: `p.iLo+ijSize-1` turned into `p.iLo+ijSize` on the i axis only):
// PaddedCell.ShrinkToFit treats the i and the j axis alike - the same statements once with iMin/iXor/p.iLo/padded.X and
// once with jMin/jXor/p.jLo/padded.Y. The top-level statements of the function that mention only i-names are compared
// with those that mention only j-names, after replacing the axis prefix and the X/Y selector by placeholders.
func shrinkToFitMirror(c *core.Ctx) core.Obligation {
	const construct = "PaddedCell.ShrinkToFit:i-and-j-axes-alike"
	fn := c.LookupFunc("s2", "PaddedCell", "ShrinkToFit")
	if fn == nil || c.Decl(fn) == nil {
		return core.Ob("R-MIRROR", construct, "-", "", core.Violated, "unresolved anchor")
	}
	axisOf := func(name string) (byte, string) {
		if len(name) >= 2 && (name[0] == 'i' || name[0] == 'j') && name[1] >= 'A' && name[1] <= 'Z' {
			return name[0], name[1:]
		}
		return 0, name
	}
	var is, js []string
	var ipos token.Pos
	for _, st := range c.Decl(fn).Body.List {
		hasI, hasJ := false, false
		ast.Inspect(st, func(n ast.Node) bool {
			if id, ok := n.(*ast.Ident); ok {
				switch a, _ := axisOf(id.Name); a {
				case 'i':
					hasI = true
				case 'j':
					hasJ = true
				}
			}
			return true
		})
		if hasI == hasJ {
			continue
		}
		s := alphaPrint(st, func(id *ast.Ident) string {
			if a, rest := axisOf(id.Name); a != 0 {
				return "$axis" + rest
			}
			if id.Name == "X" || id.Name == "Y" {
				return "$XY"
			}
			return id.Name
		})
		if hasI {
			is = append(is, s)
			if ipos == token.NoPos {
				ipos = st.Pos()
			}
		} else {
			js = append(js, s)
		}
	}
	if len(is) < 2 || len(js) < 2 {
		return core.Ob("R-MIRROR", construct, c.Pos(fn.Pos()), fn.FullName(), core.Violated, fmt.Sprintf("unresolved anchor: %d i-axis and %d j-axis statements found", len(is), len(js)))
	}
	if len(is) != len(js) {
		return core.Ob("R-MIRROR", construct, c.Pos(ipos), fn.FullName(), core.Violated, fmt.Sprintf("%d statements work on the i axis but %d on the j axis", len(is), len(js)))
	}
	for k := range is {
		if is[k] != js[k] {
			return core.Ob("R-MIRROR", construct, c.Pos(ipos), fn.FullName(), core.Violated,
				fmt.Sprintf("statement %d of the i axis is not statement %d of the j axis with i and j (X and Y) exchanged: the range of coordinates spanned by the padded rectangle is computed differently along the two axes, so the cell returned is too small (it no longer contains the rectangle) or needlessly large along one of them", k+1, k+1))
		}
	}
	return core.Ob("R-MIRROR", construct, c.Pos(ipos), fn.FullName(), core.Discharged, fmt.Sprintf("%d statements per axis, identical up to the exchange of i and j, X and Y", len(is)))
}

// chordFromLengthClamped (R-ERRMODEL, D37: updateMinDistance built its vertex-case result as
// s1.ChordAngle(math.Min(xa2, xb2)); for a query point antipodal to the nearer endpoint the squared chord rounds to
// slightly more than 4 and Angle() of the result is NaN). A squared chord length computed from points can exceed 4 by
// rounding. In package s2 a float64 is converted to s1.ChordAngle only if it is a constant, is clamped by math.Min with
// a constant <= 4, or is one of the named sites with the reason the value stays below 4; everything else goes through
// s1.ChordAngleFromSquaredLength, which clamps.
var chordRawSites = map[string]string{
	"s2.interiorDist":  "XQ^2 + QR^2 with XQ^2 = (x.c)^2/|c|^2 <= |x|^2 (Cauchy-Schwarz) and QR = 1 - |c x x|/|c| in [0,1]: at most 2 + a few ulps",
	"(*s2.Cap).decode": "the wire value of a cap's radius; Cap.decode rejects it unless the cap IsValid() (R-DECSHAPE `Cap.decode:validated`, D40)",
}

func chordFromLengthClamped(c *core.Ctx) []core.Obligation {
	var obs []core.Obligation
	n := 0
	for _, fn := range c.GeoFuncs() {
		if fn.Pkg == nil || fn.Pkg.Pkg.Name() != "s2" {
			continue
		}
		k := 0
		core.AllInstrs(fn, func(in ssa.Instruction) {
			var x ssa.Value
			var t types.Type
			switch v := in.(type) {
			case *ssa.ChangeType:
				x, t = v.X, v.Type()
			case *ssa.Convert:
				x, t = v.X, v.Type()
			default:
				return
			}
			if !core.IsNamed(t, "s1", "ChordAngle") {
				return
			}
			if b, ok := x.Type().(*types.Basic); !ok || b.Kind() != types.Float64 {
				return // a conversion between named types (minDistance, maxDistance): no new value
			}
			k++
			n++
			construct := fmt.Sprintf("chord-from-length2-clamped:%s#%d", core.FuncName(fn), k)
			pos := c.Pos(in.Pos())
			if _, isConst := x.(*ssa.Const); isConst {
				o := core.Ob("R-ERRMODEL", construct, pos, core.FuncName(fn), core.Discharged, "a constant")
				o.Trivial = true
				obs = append(obs, o)
				return
			}
			if call, ok := x.(*ssa.Call); ok {
				if f := core.StaticCallee(call); f != nil && f.Pkg != nil && f.Pkg.Pkg.Path() == "math" && f.Name() == "Min" {
					for _, a := range call.Call.Args {
						if cv, ok := a.(*ssa.Const); ok && cv.Value != nil {
							if fv, _ := constant.Float64Val(constant.ToFloat(cv.Value)); fv <= 4 {
								obs = append(obs, core.Ob("R-ERRMODEL", construct, pos, core.FuncName(fn), core.Discharged, "clamped by math.Min with a constant <= 4"))
								return
							}
						}
					}
				}
			}
			if why, ok := chordRawSites[core.FuncName(fn)]; ok {
				obs = append(obs, core.Ob("R-ERRMODEL", construct, pos, core.FuncName(fn), core.Discharged, "named site: "+why))
				return
			}
			obs = append(obs, core.Ob("R-ERRMODEL", construct, pos, core.FuncName(fn), core.Violated,
				"a computed float64 is converted to s1.ChordAngle without a clamp: a squared chord length computed from two points exceeds 4 by rounding when they are antipodal (about 3% of unit vectors), and Angle(), Sin(), Cos() of a chord angle above 4 are NaN or negative square roots - use s1.ChordAngleFromSquaredLength"))
		})
	}
	if n < 3 {
		obs = append(obs, core.Ob("R-ERRMODEL", "chord-from-length2-clamped:anchor", "-", "", core.Violated, fmt.Sprintf("unresolved anchor: %d float64-to-ChordAngle conversions found in package s2", n)))
	}
	return obs
}
