package rules

import (
	"fmt"
	"go/ast"
	"go/constant"
	"go/token"
	"go/types"
	"math"

	"golang.org/x/tools/go/ssa"

	"verif/checker/core"
)

// R-EXPAND: added after round-3 seeds C19-r3m1 (factor 2 lost in the "will it be empty" test of
// s1.Interval.Expanded) and C19-r3m2 (empty guard of r1.Interval.Expanded moved from the receiver to the result).

func init() {
	core.Register(&core.Rule{
		Name: "R-EXPAND",
		Clause: "C19 'expansion keeps the empty interval empty and stays consistent with containment': (a) an Interval method that builds its result by adding to or subtracting from the " +
			"receiver's endpoints does so only behind a test of the receiver's own emptiness or length (the empty interval is a pair of out-of-order endpoints; arithmetic on them produces an " +
			"ordinary interval); (b) in s1.Interval.Expanded the tests that predict a full or empty result use the same length the result has: length + k*margin with k equal to the margin's " +
			"coefficient in (new Hi - new Lo), and they allow rounding in the conservative direction.",
		Min: 8,
		Run: runExpand,
	})
}

func runExpand(c *core.Ctx) []core.Obligation {
	var obs []core.Obligation
	// (a) guard dominance
	for _, pk := range []string{"r1", "s1"} {
		for _, fn := range c.GeoFuncs() {
			if fn.Pkg == nil || fn.Pkg.Pkg.Name() != pk || fn.Signature.Recv() == nil || !core.IsNamed(fn.Signature.Recv().Type(), pk, "Interval") {
				continue
			}
			if fn.Signature.Results().Len() != 1 || !core.IsNamed(fn.Signature.Results().At(0).Type(), pk, "Interval") || len(fn.Params) == 0 {
				continue
			}
			recv := fn.Params[0]
			isRecvField := func(v ssa.Value) bool {
				switch x := v.(type) {
				case *ssa.Field:
					return x.X == ssa.Value(recv)
				case *ssa.UnOp:
					if fa, ok := x.X.(*ssa.FieldAddr); ok {
						if al, ok := fa.X.(*ssa.Alloc); ok {
							for _, r := range *al.Referrers() {
								if st, ok := r.(*ssa.Store); ok && st.Addr == al && st.Val == ssa.Value(recv) {
									return true
								}
							}
						}
					}
				}
				return false
			}
			// guard blocks: blocks ending in an If whose condition depends on recv.IsEmpty() or recv.Length()
			dependsOnGuard := func(v ssa.Value) bool {
				seen := map[ssa.Value]bool{}
				var walk func(v ssa.Value) bool
				walk = func(v ssa.Value) bool {
					if seen[v] {
						return false
					}
					seen[v] = true
					switch x := v.(type) {
					case *ssa.Call:
						f := core.StaticCallee(x)
						if f != nil && (f.Name() == "IsEmpty" || f.Name() == "Length") && len(x.Call.Args) == 1 {
							a := x.Call.Args[0]
							if a == ssa.Value(recv) {
								return true
							}
							if ld, ok := a.(*ssa.UnOp); ok {
								if al, ok := ld.X.(*ssa.Alloc); ok {
									for _, r := range *al.Referrers() {
										if st, ok := r.(*ssa.Store); ok && st.Addr == al && st.Val == ssa.Value(recv) {
											return true
										}
									}
								}
							}
						}
						return false
					case *ssa.BinOp:
						// recv.Lo > recv.Hi is the emptiness test itself
						if (x.Op == token.GTR || x.Op == token.LSS || x.Op == token.LEQ || x.Op == token.GEQ) && isRecvField(x.X) && isRecvField(x.Y) {
							return true
						}
						return walk(x.X) || walk(x.Y)
					case *ssa.UnOp:
						return walk(x.X)
					case *ssa.Phi:
						for _, e := range x.Edges {
							if walk(e) {
								return true
							}
						}
					}
					return false
				}
				return walk(v)
			}
			n := 0
			bad := ""
			var first ssa.Instruction
			core.AllInstrs(fn, func(in ssa.Instruction) {
				bo, ok := in.(*ssa.BinOp)
				if !ok || (bo.Op != token.ADD && bo.Op != token.SUB) {
					return
				}
				if b, ok := bo.Type().Underlying().(*types.Basic); !ok || b.Info()&types.IsFloat == 0 {
					return
				}
				if !isRecvField(bo.X) && !isRecvField(bo.Y) {
					return
				}
				n++
				if first == nil {
					first = in
				}
				// every path from the entry to this block passes a block that ends in a guard
				guards := map[*ssa.BasicBlock]bool{}
				for _, b := range fn.Blocks {
					if iff, ok := b.Instrs[len(b.Instrs)-1].(*ssa.If); ok && b != bo.Block() && dependsOnGuard(iff.Cond) {
						guards[b] = true
					}
				}
				guarded := guards[fn.Blocks[0]] || !core.ReachableAvoiding(fn.Blocks[0], bo.Block(), nil, guards)
				if !guarded {
					bad = "endpoint arithmetic (" + bo.X.Name() + " " + bo.Op.String() + " " + bo.Y.Name() + ") is reached without a test of the receiver's emptiness or length: for the empty interval (endpoints out of order) it produces an ordinary interval, e.g. Expanded of an empty interval contains points"
				}
			})
			if n == 0 {
				continue
			}
			construct := "empty-guard:" + core.FuncName(fn)
			if bad == "" {
				obs = append(obs, core.Ob("R-EXPAND", construct, c.Pos(first.Pos()), core.FuncName(fn), core.Discharged, fmt.Sprintf("%d endpoint computations, all behind a test of the receiver's emptiness/length", n)))
			} else {
				obs = append(obs, core.Ob("R-EXPAND", construct, c.Pos(first.Pos()), core.FuncName(fn), core.Violated, bad))
			}
		}
	}
	// (b) s1.Interval.Expanded thresholds
	obs = append(obs, expandThresholds(c)...)
	obs = append(obs, expandResultChecked(c))
	// (c) the two sentinels of ChordAngle (negative = empty, +Inf) pass through Expanded unchanged: the arithmetic is
	// reachable only past tests that cover BOTH of them
	if fn := c.Fn("s1", "ChordAngle", "Expanded"); fn != nil && len(fn.Params) > 0 {
		recv := fn.Params[0]
		covers := func(cond ssa.Value) (neg, inf bool) {
			seen := map[ssa.Value]bool{}
			var walk func(v ssa.Value)
			walk = func(v ssa.Value) {
				if v == nil || seen[v] {
					return
				}
				seen[v] = true
				switch x := v.(type) {
				case *ssa.Call:
					if f := core.StaticCallee(x); f != nil && len(x.Call.Args) == 1 && x.Call.Args[0] == ssa.Value(recv) {
						switch f.Name() {
						case "isSpecial":
							neg, inf = true, true
						case "IsInfinity":
							inf = true
						case "IsNegative":
							neg = true
						}
					}
				case *ssa.BinOp:
					if x.X == ssa.Value(recv) && (x.Op == token.LSS) {
						if k, ok := x.Y.(*ssa.Const); ok && k.Value != nil && k.Value.String() == "0" {
							neg = true
						}
					}
					walk(x.X)
					walk(x.Y)
				case *ssa.UnOp:
					walk(x.X)
				case *ssa.Phi:
					for _, e := range x.Edges {
						walk(e)
					}
				}
			}
			walk(cond)
			return
		}
		ok, why, n := true, "", 0
		core.AllInstrs(fn, func(in ssa.Instruction) {
			bo, isBo := in.(*ssa.BinOp)
			if !isBo || (bo.Op != token.ADD && bo.Op != token.SUB) {
				return
			}
			if b, isB := bo.Type().Underlying().(*types.Basic); !isB || b.Info()&types.IsFloat == 0 {
				return
			}
			n++
			// union of what the branch conditions on the way cover
			neg, inf := false, false
			for _, b := range fn.Blocks {
				iff, isIf := b.Instrs[len(b.Instrs)-1].(*ssa.If)
				if !isIf || !b.Dominates(bo.Block()) || b == bo.Block() {
					continue
				}
				n1, i1 := covers(iff.Cond)
				neg, inf = neg || n1, inf || i1
			}
			if !neg || !inf {
				ok = false
				missing := "the negative (empty) sentinel"
				if neg {
					missing = "the infinite sentinel"
				}
				why = "ChordAngle.Expanded does arithmetic on its receiver without first returning " + missing + " unchanged: an empty cap's radius expanded by an error bound becomes a small non-negative radius, i.e. a cap that contains its centre"
			}
		})
		if n == 0 {
			ok, why = false, "no arithmetic found in ChordAngle.Expanded (anchor lost)"
		}
		if ok {
			obs = append(obs, core.Ob("R-EXPAND", "chordangle-special-guard", c.Pos(fn.Pos()), core.FuncName(fn), core.Discharged, "the arithmetic is reached only when the receiver is neither negative nor infinite"))
		} else {
			obs = append(obs, core.Ob("R-EXPAND", "chordangle-special-guard", c.Pos(fn.Pos()), core.FuncName(fn), core.Violated, why))
		}
	} else {
		obs = append(obs, core.Ob("R-EXPAND", "chordangle-special-guard", "-", "", core.Violated, "unresolved anchor"))
	}
	// (d) a rectangle assembled from two component results that can each be empty is the canonical empty rectangle
	// unless BOTH components are non-empty (a half-empty rectangle is invalid: IsEmpty looks at one component only)
	for _, pk := range []string{"r2", "s2"} {
		for _, fn := range c.GeoFuncs() {
			if fn.Pkg == nil || fn.Pkg.Pkg.Name() != pk || fn.Signature.Recv() == nil || !core.IsNamed(fn.Signature.Recv().Type(), pk, "Rect") {
				continue
			}
			if fn.Signature.Results().Len() != 1 || !core.IsNamed(fn.Signature.Results().At(0).Type(), pk, "Rect") {
				continue
			}
			// component results that may be empty: calls of Intersection / Expanded on an interval
			var comps []*ssa.Call
			core.AllInstrs(fn, func(in ssa.Instruction) {
				if call, ok := in.(*ssa.Call); ok {
					if f := core.StaticCallee(call); f != nil && (f.Name() == "Intersection" || f.Name() == "Expanded") && f.Signature.Recv() != nil &&
						(core.IsNamed(f.Signature.Recv().Type(), "r1", "Interval") || core.IsNamed(f.Signature.Recv().Type(), "s1", "Interval")) {
						// only operations applied to a component of the receiver rectangle itself
						if fr, isF := core.AsFieldLoad(call.Call.Args[0]); isF {
							base := fr.Base
							if ld, isLd := base.(*ssa.UnOp); isLd {
								base = ld.X
							}
							isRecv := base == ssa.Value(fn.Params[0])
							if al, isAl := base.(*ssa.Alloc); isAl {
								for _, r := range *al.Referrers() {
									if st, isSt := r.(*ssa.Store); isSt && st.Addr == ssa.Value(al) && st.Val == ssa.Value(fn.Params[0]) {
										isRecv = true
									}
								}
							}
							if isRecv {
								comps = append(comps, call)
							}
						}
					}
				}
			})
			if len(comps) < 2 {
				continue
			}
			// the block that returns the assembled rectangle: the return whose value is not a call to EmptyRect
			var retBlocks []*ssa.BasicBlock
			for _, b := range fn.Blocks {
				if r, ok := b.Instrs[len(b.Instrs)-1].(*ssa.Return); ok && len(r.Results) == 1 {
					if call, isCall := r.Results[0].(*ssa.Call); isCall && core.StaticCallee(call) != nil && core.StaticCallee(call).Name() == "EmptyRect" {
						continue
					}
					retBlocks = append(retBlocks, b)
				}
			}
			ok, why := true, ""
			for _, comp := range comps {
				guarded := false
				for _, b := range fn.Blocks {
					iff, isIf := b.Instrs[len(b.Instrs)-1].(*ssa.If)
					if !isIf {
						continue
					}
					call, isCall := iff.Cond.(*ssa.Call)
					if !isCall || core.StaticCallee(call) == nil || core.StaticCallee(call).Name() != "IsEmpty" || len(call.Call.Args) != 1 {
						continue
					}
					arg := call.Call.Args[0]
					if ld, isLd := arg.(*ssa.UnOp); isLd {
						if al, isAl := ld.X.(*ssa.Alloc); isAl {
							for _, r := range *al.Referrers() {
								if st, isSt := r.(*ssa.Store); isSt && st.Addr == ssa.Value(al) {
									arg = st.Val
								}
							}
						}
					}
					if arg != ssa.Value(comp) {
						continue
					}
					all := len(retBlocks) > 0
					for _, rb := range retBlocks {
						if !core.EdgeDominates(core.Edge{From: b, Idx: 1}, rb) {
							all = false
						}
					}
					if all {
						guarded = true
					}
				}
				if !guarded {
					ok = false
					why = "the rectangle is assembled from two component results of which only one (or none) is tested for emptiness: when the untested one is empty the result is a half-empty rectangle - IsEmpty may still say true, but IsValid is false and Union/AddRect/Contains with it pick up the stale other component"
				}
			}
			construct := "both-components-empty-test:" + core.FuncName(fn)
			if ok {
				obs = append(obs, core.Ob("R-EXPAND", construct, c.Pos(fn.Pos()), core.FuncName(fn), core.Discharged, "the assembled rectangle is returned only when both component results are non-empty"))
			} else {
				obs = append(obs, core.Ob("R-EXPAND", construct, c.Pos(fn.Pos()), core.FuncName(fn), core.Violated, why))
			}
		}
	}
	return obs
}

// linear form over named atoms
type flin struct {
	coef map[string]float64
	k    float64
	ok   bool
}

func flinOf(info *types.Info, e ast.Expr) flin {
	e = ast.Unparen(e)
	if sel, ok := e.(*ast.SelectorExpr); ok && types.ExprString(sel) == "math.Pi" {
		return flin{coef: map[string]float64{"pi": 1}, ok: true} // kept symbolic: 2*pi + 2*eps would round to 2*pi
	}
	_, isBin := e.(*ast.BinaryExpr)
	if tv, ok := info.Types[e]; ok && tv.Value != nil && !isBin {
		f, _ := constant.Float64Val(constant.ToFloat(tv.Value))
		return flin{coef: map[string]float64{}, k: f, ok: true}
	}
	switch x := e.(type) {
	case *ast.Ident:
		return flin{coef: map[string]float64{x.Name: 1}, ok: true}
	case *ast.SelectorExpr:
		return flin{coef: map[string]float64{types.ExprString(x): 1}, ok: true}
	case *ast.CallExpr:
		if len(x.Args) == 0 {
			return flin{coef: map[string]float64{types.ExprString(x): 1}, ok: true}
		}
	case *ast.UnaryExpr:
		if x.Op == token.SUB {
			a := flinOf(info, x.X)
			for k := range a.coef {
				a.coef[k] = -a.coef[k]
			}
			a.k = -a.k
			return a
		}
	case *ast.BinaryExpr:
		a, b := flinOf(info, x.X), flinOf(info, x.Y)
		if !a.ok || !b.ok {
			return flin{}
		}
		switch x.Op {
		case token.ADD, token.SUB:
			sg := 1.0
			if x.Op == token.SUB {
				sg = -1
			}
			for k, v := range b.coef {
				a.coef[k] += sg * v
			}
			a.k += sg * b.k
			return a
		case token.MUL:
			if len(a.coef) == 0 {
				a, b = b, a
			}
			if len(b.coef) != 0 {
				return flin{}
			}
			for k := range a.coef {
				a.coef[k] *= b.k
			}
			a.k *= b.k
			return a
		}
	}
	return flin{}
}

// expandSlack: the rounding allowances found by expandThresholds (by kind), read by expandResultChecked.
var expandSlack = map[string]float64{}

func expandThresholds(c *core.Ctx) []core.Obligation {
	var obs []core.Obligation
	expandSlack = map[string]float64{}
	f := c.LookupFunc("s1", "Interval", "Expanded")
	if f == nil || c.Decl(f) == nil {
		return append(obs, core.Ob("R-EXPAND", "thresholds:anchor", "-", "", core.Violated, "unresolved anchor: s1.Interval.Expanded"))
	}
	decl := c.Decl(f)
	info := c.Pkgs["s1"].TypesInfo
	margin := ""
	if len(decl.Type.Params.List) == 1 && len(decl.Type.Params.List[0].Names) == 1 {
		margin = decl.Type.Params.List[0].Names[0].Name
	}
	recv := decl.Recv.List[0].Names[0].Name
	// the margin's coefficient in (new Hi - new Lo): from the two arguments of IntervalFromEndpoints
	k := math.NaN()
	ast.Inspect(decl.Body, func(n ast.Node) bool {
		call, ok := n.(*ast.CallExpr)
		if !ok || len(call.Args) != 2 {
			return true
		}
		if id, ok := call.Fun.(*ast.Ident); !ok || id.Name != "IntervalFromEndpoints" {
			return true
		}
		inner := func(e ast.Expr) flin {
			if cl, ok := ast.Unparen(e).(*ast.CallExpr); ok && len(cl.Args) == 2 { // math.Remainder(x, 2*Pi)
				return flinOf(info, cl.Args[0])
			}
			return flinOf(info, e)
		}
		lo, hi := inner(call.Args[0]), inner(call.Args[1])
		if lo.ok && hi.ok && lo.coef[recv+".Lo"] == 1 && hi.coef[recv+".Hi"] == 1 {
			k = hi.coef[margin] - lo.coef[margin]
		}
		return true
	})
	site := c.Pos(decl.Pos())
	if math.IsNaN(k) || k <= 0 {
		return append(obs, core.Ob("R-EXPAND", "thresholds:result", site, f.FullName(), core.Undecided, "the result IntervalFromEndpoints(Lo - margin, Hi + margin) was not recognised"))
	}
	// the predicted-length tests
	n := 0
	ast.Inspect(decl.Body, func(nd ast.Node) bool {
		cmp, ok := nd.(*ast.BinaryExpr)
		if !ok || (cmp.Op != token.LEQ && cmp.Op != token.GEQ && cmp.Op != token.LSS && cmp.Op != token.GTR) {
			return true
		}
		l, r := flinOf(info, cmp.X), flinOf(info, cmp.Y)
		if !l.ok || !r.ok || l.coef[recv+".Length()"] == 0 {
			return true
		}
		for key, v := range r.coef {
			l.coef[key] -= v
		}
		l.k -= r.k
		n++
		construct := fmt.Sprintf("thresholds:test#%d", n)
		kind := "empty"
		if cmp.Op == token.GEQ || cmp.Op == token.GTR {
			kind = "full"
		}
		cl := l.coef[recv+".Length()"]
		cm := l.coef[margin] / cl
		slack := l.k / cl
		// package-level tolerances (var dblEpsilon = 2.2e-16) count with their initial value
		for atom, cf := range l.coef {
			if init, pinfo := pkgVarInit(c, "s1", atom); init != nil {
				if tv, ok := pinfo.Types[init]; ok && tv.Value != nil {
					v, _ := constant.Float64Val(constant.ToFloat(tv.Value))
					slack += cf * v / cl
				}
			}
		}
		piCoef := l.coef["pi"] / cl
		want := 0.0
		wantPi := 0.0
		if kind == "full" {
			wantPi = -2
		}
		// the exact threshold is length + k*margin + wantPi*pi (<=|>=) 0; the constant left over is the rounding
		// allowance: it must make "empty" and "full" answers MORE likely, never less.
		if math.Abs(piCoef-wantPi) > 1e-12 {
			obs = append(obs, core.Ob("R-EXPAND", construct, c.Pos(cmp.Pos()), f.FullName(), core.Violated,
				fmt.Sprintf("the %s test compares the predicted length with %g*pi, expected %g*pi", kind, -piCoef, -wantPi)))
			return true
		}
		switch {
		case math.Abs(cm-k) > 1e-12:
			obs = append(obs, core.Ob("R-EXPAND", construct, c.Pos(cmp.Pos()), f.FullName(), core.Violated,
				fmt.Sprintf("the test that predicts a%s %s result uses length %+g*margin, but the result's length is length %+g*margin: between the two the endpoints cross and the result is an inverted interval covering almost the whole circle", map[string]string{"empty": "n", "full": ""}[kind], kind, cm, k)))
		case kind == "empty" && slack > want, kind == "full" && slack < want:
			obs = append(obs, core.Ob("R-EXPAND", construct, c.Pos(cmp.Pos()), f.FullName(), core.Violated,
				fmt.Sprintf("the rounding allowance of the %s test has the wrong sign (constant term %g, exact threshold %g)", kind, slack, want)))
		default:
			expandSlack[kind] = math.Abs(slack - want)
			obs = append(obs, core.Ob("R-EXPAND", construct, c.Pos(cmp.Pos()), f.FullName(), core.Discharged,
				fmt.Sprintf("predicts a%s %s result from length %+g*margin (the result's own length), rounding allowance %g has the conservative sign (its size is not decided here, see result-checked-against-original)", map[string]string{"empty": "n", "full": ""}[kind], kind, cm, slack-want)))
		}
		return true
	})
	if n < 2 {
		obs = append(obs, core.Ob("R-EXPAND", "thresholds:anchor", site, f.FullName(), core.Violated, fmt.Sprintf("only %d predicted-length tests found in s1.Interval.Expanded, 2 expected", n)))
	}
	return obs
}

// expandResultChecked (written with D29): the two shortcut tests of s1.Interval.Expanded predict a full / empty result
// from the length, with an allowance for rounding - but the endpoints are computed at magnitudes of up to 3*Pi and can
// lose several times that allowance. If they pass each other, the arc between them is the complement of the intended
// result (a point instead of almost everything, almost everything instead of nothing). The allowance in the source (2 epsilon) does not
// exclude that; either it is raised to what the rounding really needs (4.2e-15, see below) or the computed interval is
// returned only after it has been compared with the original:
// every path from the endpoint computation to the return of its result passes the "true" side of a ContainsInterval
// test between the result and the receiver.
func expandResultChecked(c *core.Ctx) core.Obligation {
	const construct = "s1.Interval.Expanded:result-checked-against-original"
	fn := c.Fn("s1", "Interval", "Expanded")
	if fn == nil {
		return core.Ob("R-EXPAND", construct, "-", "", core.Violated, "unresolved anchor")
	}
	site := c.Pos(fn.Pos())
	var mk *ssa.Call
	core.AllInstrs(fn, func(in ssa.Instruction) {
		if call, ok := in.(*ssa.Call); ok && core.StaticCallee(call) != nil && core.StaticCallee(call).Name() == "IntervalFromEndpoints" {
			mk = call
		}
	})
	if mk == nil {
		return core.Ob("R-EXPAND", construct, site, core.FuncName(fn), core.Violated, "unresolved anchor: the endpoint computation IntervalFromEndpoints(...) was not found")
	}
	// the edges on which a ContainsInterval test has answered true
	var pass []core.Edge
	for _, b := range fn.Blocks {
		ifi, ok := b.Instrs[len(b.Instrs)-1].(*ssa.If)
		if !ok {
			continue
		}
		cond, side := ifi.Cond, 0
		if u, ok := cond.(*ssa.UnOp); ok && u.Op == token.NOT {
			cond, side = u.X, 1
		}
		if call, ok := cond.(*ssa.Call); ok && core.StaticCallee(call) != nil && core.StaticCallee(call).Name() == "ContainsInterval" {
			pass = append(pass, core.Edge{From: b, Idx: side})
		}
	}
	// returns that hand out the computed interval: every return reachable from the computation that is not a
	// call result (FullInterval() / EmptyInterval()) or the receiver itself
	start := mk.Block()
	nret := 0
	for _, b := range fn.Blocks {
		ret, ok := b.Instrs[len(b.Instrs)-1].(*ssa.Return)
		if !ok || len(ret.Results) != 1 {
			continue
		}
		if _, isCall := ret.Results[0].(*ssa.Call); isCall {
			continue
		}
		if ret.Results[0] == ssa.Value(fn.Params[0]) {
			continue
		}
		if !core.ReachFrom(start)[b] {
			continue
		}
		nret++
		// the alternative repair: an allowance that really covers the rounding. The endpoints Lo - margin and
		// Hi + margin are rounded at magnitudes up to 2*Pi each, the predicted length takes four more roundings at
		// magnitudes up to 2*Pi: 12*Pi*2^-53 = 4.2e-15 in all.
		const needed = 4.2e-15
		if expandSlack["full"] >= needed && expandSlack["empty"] >= needed {
			continue
		}
		if b == start || core.ReachableAvoiding(start, b, pass, nil) {
			return core.Ob("R-EXPAND", construct, c.Pos(ret.Pos()), core.FuncName(fn), core.Violated,
				"the interval between the computed endpoints is returned without having been compared with the original (result.ContainsInterval(i) for a positive margin, i.ContainsInterval(result) for a negative one): when rounding makes the endpoints pass each other - the shortcut tests allow for 2*epsilon, the endpoints lose up to several times that - the arc returned is the complement of the intended one, e.g. Interval{-1.8109732854504852, -0.25699139464404097}.Expanded(2.3646017081865707) = [2.1076103, 2.1076103], which has lost every point of the original")
		}
	}
	if nret == 0 {
		return core.Ob("R-EXPAND", construct, site, core.FuncName(fn), core.Violated, "unresolved anchor: no return of the computed interval found")
	}
	return core.Ob("R-EXPAND", construct, site, core.FuncName(fn), core.Discharged, fmt.Sprintf("%d return(s) of the computed interval, each behind a containment test against the original (or the shortcut allowances, %.2g and %.2g, cover the rounding of the endpoints)", nret, expandSlack["full"], expandSlack["empty"]))
}
