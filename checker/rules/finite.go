package rules

import (
	"golang.org/x/tools/go/ssa"

	"verif/checker/core"
)

// R-FINITE: written after a sub-agent reported, on the unmodified tree, that a NaN or infinite coordinate in the input
// makes Decode (or the first query on the decoded value) panic inside math/big (Float.SetFloat64(NaN), "addition of
// infinities with opposite signs").

func init() {
	core.Register(&core.Rule{
		Name: "R-FINITE",
		Clause: "C15 'Decode never panics and a value it returns can be queried without panicking': every floating-point field of every format is read through decoder.readFloat64; the exact " +
			"predicates that later run on decoded points convert coordinates to big.Float, which panics on NaN and on Inf - Inf. readFloat64 therefore rejects non-finite values: it tests " +
			"the value it read with math.IsNaN and math.IsInf and records the decoder's sticky error.",
		Min: 1,
		Run: runFinite,
	})
}

func runFinite(c *core.Ctx) []core.Obligation {
	fn := c.Fn("s2", "decoder", "readFloat64")
	if fn == nil {
		return []core.Obligation{core.Ob("R-FINITE", "decoder.readFloat64", "-", "", core.Violated, "unresolved anchor")}
	}
	var value ssa.Value
	core.AllInstrs(fn, func(in ssa.Instruction) {
		if call, ok := in.(*ssa.Call); ok && core.StaticCallee(call) != nil && core.StaticCallee(call).Name() == "Float64frombits" {
			value = call
		}
	})
	if value == nil {
		return []core.Obligation{core.Ob("R-FINITE", "decoder.readFloat64", c.Pos(fn.Pos()), core.FuncName(fn), core.Violated, "unresolved anchor: the conversion math.Float64frombits was not found")}
	}
	nan, inf, setsErr := false, false, false
	core.AllInstrs(fn, func(in ssa.Instruction) {
		switch x := in.(type) {
		case *ssa.Call:
			f := core.StaticCallee(x)
			if f == nil || f.Pkg == nil || f.Pkg.Pkg.Path() != "math" || len(x.Call.Args) == 0 || x.Call.Args[0] != value {
				return
			}
			switch f.Name() {
			case "IsNaN":
				nan = true
			case "IsInf":
				inf = true
			}
		case *ssa.Store:
			if fr, ok := core.AsFieldAddr(x.Addr); ok && fr.Name == "err" {
				if _, fromRead := x.Val.(*ssa.Extract); !fromRead {
					setsErr = true
				}
			}
		}
	})
	if nan && inf && setsErr {
		return []core.Obligation{core.Ob("R-FINITE", "decoder.readFloat64", c.Pos(fn.Pos()), core.FuncName(fn), core.Discharged, "NaN and infinities are rejected with the decoder's sticky error")}
	}
	return []core.Obligation{core.Ob("R-FINITE", "decoder.readFloat64", c.Pos(fn.Pos()), core.FuncName(fn), core.Violated,
		"readFloat64 hands NaN and infinite values to the decoders unchecked: a vertex with such a coordinate is accepted, and the first exact predicate that touches it (inside Decode for an indexed or compressed loop, otherwise in the first query) panics in math/big")}
}
