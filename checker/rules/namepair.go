package rules

import (
	"fmt"
	"strings"

	"golang.org/x/tools/go/ssa"

	"verif/checker/core"
)

// R-NAMEPAIR: found while evaluating a narrow claim for C11 (exploratory seed: CellUnion.Contains(CellUnion) asked
// IntersectsCellID of each cell instead of ContainsCellID).

func init() {
	core.Register(&core.Rule{
		Name: "R-NAMEPAIR",
		Clause: "C11/C05/C07: a containment predicate of an aggregate is built from the containment predicate of its parts, an intersection predicate from the intersection predicate: a method " +
			"named Contains* never calls an Intersects* method of its own receiver type (the converse is fine: a contained point proves an intersection). Exceptions are listed with the reason.",
		Min: 8,
		Run: runNamePair,
	})
}

// namePairExceptions: confirmed by reading.
var namePairExceptions = map[string]string{
	"(s2.Cap).ContainsCell": "decided through the complement: the cap contains the cell iff the complementary cap does not intersect it",
}

func runNamePair(c *core.Ctx) []core.Obligation {
	var obs []core.Obligation
	kind := func(name string) string {
		switch {
		case strings.HasPrefix(name, "Contains") || strings.HasPrefix(name, "contains") || strings.HasPrefix(name, "InteriorContains"):
			return "contains"
		case strings.HasPrefix(name, "Intersects") || strings.HasPrefix(name, "intersects") || strings.HasPrefix(name, "InteriorIntersects"):
			return "intersects"
		}
		return ""
	}
	// the wedge predicates (added after round-9 seed C07-r9m2, ContainsNested ending in WedgeIntersects): where two
	// loops share a vertex the relation of the loops is read off the relation of the two wedges at that vertex, and a
	// containment question asks WedgeContains, an intersection question WedgeIntersects. The kind of the question is
	// taken from the function's name or, for the loopRelation implementations, from the receiver type's name.
	nwedge := 0
	for _, fn := range c.GeoFuncs() {
		if fn.Synthetic != "" || fn.Pkg == nil || fn.Pkg.Pkg.Name() != "s2" {
			continue
		}
		k := kind(fn.Name())
		if k == "" && fn.Signature.Recv() != nil {
			t := strings.TrimPrefix(fn.Signature.Recv().Type().String(), "*")
			k = kind(t[strings.LastIndex(t, ".")+1:])
		}
		if k == "" {
			continue
		}
		core.AllInstrs(fn, func(in ssa.Instruction) {
			ci, ok := in.(ssa.CallInstruction)
			if !ok {
				return
			}
			f := core.StaticCallee(ci)
			if f == nil || f.Signature.Recv() != nil || (f.Name() != "WedgeContains" && f.Name() != "WedgeIntersects") {
				return
			}
			nwedge++
			construct := "wedge:" + core.FuncName(fn)
			if (k == "contains") == (f.Name() == "WedgeContains") {
				obs = append(obs, core.Ob("R-NAMEPAIR", construct, c.Pos(in.Pos()), core.FuncName(fn), core.Discharged, "a "+k+" question asks "+f.Name()+" of the wedges at a shared vertex"))
			} else {
				obs = append(obs, core.Ob("R-NAMEPAIR", construct, c.Pos(in.Pos()), core.FuncName(fn), core.Violated,
					"a "+k+" question is decided at a shared vertex by "+f.Name()+": two wedges that merely overlap are then taken as one containing the other (or the converse), so two loops that share a vertex and partly overlap there get the wrong relation"))
			}
		})
	}
	if nwedge < 3 {
		obs = append(obs, core.Ob("R-NAMEPAIR", "wedge:anchor", "-", "", core.Violated, fmt.Sprintf("unresolved anchor: only %d calls of the wedge predicates from contains/intersects functions", nwedge)))
	}
	for _, fn := range c.GeoFuncs() {
		if fn.Signature.Recv() == nil || fn.Synthetic != "" {
			continue
		}
		k := kind(fn.Name())
		if k == "" {
			continue
		}
		recvT := fn.Signature.Recv().Type().String()
		recvT = strings.TrimPrefix(recvT, "*")
		bad := ""
		ncalls := 0
		core.AllInstrs(fn, func(in ssa.Instruction) {
			ci, ok := in.(ssa.CallInstruction)
			if !ok {
				return
			}
			f := core.StaticCallee(ci)
			if f == nil || f.Signature.Recv() == nil {
				return
			}
			ft := strings.TrimPrefix(f.Signature.Recv().Type().String(), "*")
			if ft != recvT {
				return
			}
			k2 := kind(f.Name())
			if k2 == "" {
				return
			}
			ncalls++
			if k == "contains" && k2 == "intersects" {
				bad = f.Name()
			}
		})
		construct := "delegates:" + core.FuncName(fn)
		switch {
		case bad != "" && namePairExceptions[core.FuncName(fn)] != "":
			obs = append(obs, core.Ob("R-NAMEPAIR", construct, c.Pos(fn.Pos()), core.FuncName(fn), core.Discharged, "named exception: "+namePairExceptions[core.FuncName(fn)]))
		case bad != "":
			obs = append(obs, core.Ob("R-NAMEPAIR", construct, c.Pos(fn.Pos()), core.FuncName(fn), core.Violated,
				fmt.Sprintf("%s decides a %s relation by calling %s of its own type: an aggregate that is only partly covered (or only touched) is then reported as contained (or a contained one as merely intersecting)", fn.Name(), k, bad)))
		default:
			o := core.Ob("R-NAMEPAIR", construct, c.Pos(fn.Pos()), core.FuncName(fn), core.Discharged, fmt.Sprintf("%d calls of like-named predicates of its own type", ncalls))
			if ncalls == 0 {
				o.Trivial = true
			}
			obs = append(obs, o)
		}
	}
	return obs
}
