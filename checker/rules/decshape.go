package rules

import (
	"fmt"
	"go/types"
	"sort"

	"golang.org/x/tools/go/ssa"

	"verif/checker/core"
)

// R-DECSHAPE: three shape conditions of the decoders, added after round-6 seeds C09-r6m1 (io.ReadFull replaced by a
// single Read call: a reader that returns the 8 bytes of a float64 in two pieces now yields garbage without an error),
// C15-r6m2 (`if d.err == nil { d.err = ... }` flipped to `!= nil`: the limit violation is never recorded, Decode returns
// nil and an uninitialised value) and C15-r6m3 (the `default:` arm of the version switch no longer returns, so the nil
// function value `dec` is called).

func init() {
	core.Register(&core.Rule{
		Name: "R-DECSHAPE",
		Clause: "C09/C15, decoder shape: (readfull) the library never calls Read([]byte) on a reader directly - io.Reader may return fewer bytes than asked without an error, so every multi-byte " +
			"read goes through io.ReadFull, encoding/binary or ReadByte; (errguard) no store of a new error into decoder.err sits on the 'an error is already recorded' side of a test of that " +
			"field - such a store can never record a first error, so the failure it was written for is silently dropped; (nilfunc) in the code reachable from the Decode methods no call goes " +
			"through a function value that is nil on some path into the call; (zerovertices) a loop decoded with a vertex count of 0 becomes the empty loop or an error (Vertex divides by the count).",
		Min: 10,
		Run: runDecShape,
	})
}

// isReadBytes: method Read([]byte) (int, error)
func isReadBytes(f *types.Func) bool {
	if f == nil || f.Name() != "Read" {
		return false
	}
	sig, ok := f.Type().(*types.Signature)
	if !ok || sig.Recv() == nil || sig.Params().Len() != 1 || sig.Results().Len() != 2 {
		return false
	}
	sl, ok := sig.Params().At(0).Type().Underlying().(*types.Slice)
	if !ok {
		return false
	}
	b, ok := sl.Elem().Underlying().(*types.Basic)
	return ok && b.Kind() == types.Byte
}

func runDecShape(c *core.Ctx) []core.Obligation {
	var obs []core.Obligation
	// (readfull)
	readerUses, direct := 0, 0
	for _, fn := range c.GeoFuncs() {
		if isReadBytes(asTypesFunc(fn)) {
			continue // an io.Reader implementation forwards Read by contract
		}
		n := 0
		core.AllInstrs(fn, func(in ssa.Instruction) {
			ci, ok := in.(ssa.CallInstruction)
			if !ok {
				return
			}
			com := ci.Common()
			var callee *types.Func
			if com.IsInvoke() {
				callee = com.Method
			} else if sc := com.StaticCallee(); sc != nil {
				callee = asTypesFunc(sc)
			}
			if callee == nil {
				return
			}
			if callee.Pkg() != nil && (callee.Pkg().Path() == "io" || callee.Pkg().Path() == "encoding/binary") && (callee.Name() == "ReadFull" || callee.Name() == "Read" || callee.Name() == "ReadUvarint" || callee.Name() == "ReadVarint") {
				readerUses++
			}
			if callee.Name() == "ReadByte" {
				readerUses++
			}
			if isReadBytes(callee) {
				direct++
				n++
				obs = append(obs, core.Ob("R-DECSHAPE", fmt.Sprintf("readfull:%s#%d", core.FuncName(fn), n), c.Pos(in.Pos()), core.FuncName(fn), core.Violated,
					"a reader's Read([]byte) is called directly: io.Reader may deliver fewer bytes than the buffer holds and report no error, so the remaining bytes of the value are whatever the buffer held before; use io.ReadFull"))
			}
		})
	}
	st := core.Discharged
	detail := fmt.Sprintf("%d reads go through io.ReadFull, encoding/binary or ReadByte; no direct Read([]byte) call in the library", readerUses)
	if readerUses < 8 {
		st, detail = core.Violated, fmt.Sprintf("unresolved anchor: only %d reader calls found, 8 expected", readerUses)
	}
	obs = append(obs, core.Ob("R-DECSHAPE", "readfull:scan", "-", "", st, detail))

	// (errguard)
	dec := c.NamedType("s2", "decoder")
	stores := 0
	for _, fn := range c.GeoFuncs() {
		n := 0
		for _, b := range fn.Blocks {
			for _, in := range b.Instrs {
				s, ok := in.(*ssa.Store)
				if !ok {
					continue
				}
				fr, ok := core.AsFieldAddr(s.Addr)
				if !ok || fr.Name != "err" || dec == nil || !types.Identical(fr.Struct, dec) {
					continue
				}
				if _, fromCall := s.Val.(*ssa.Extract); fromCall {
					continue // x, d.err = read(): the reader's own verdict
				}
				if cst, ok := s.Val.(*ssa.Const); ok && cst.IsNil() {
					continue
				}
				stores++
				n++
				key := fmt.Sprintf("errguard:%s#%d", core.FuncName(fn), n)
				if e, found := errAlreadySetEdge(fn, b); found {
					obs = append(obs, core.Ob("R-DECSHAPE", key, c.Pos(s.Pos()), core.FuncName(fn), core.Violated,
						fmt.Sprintf("this store into decoder.err is only reached when the test at %s has found an error already recorded: it can never record the first error, so the condition it reports (a limit exceeded, a bad count) passes silently and Decode returns nil", c.Pos(e.Pos()))))
				} else {
					obs = append(obs, core.Ob("R-DECSHAPE", key, c.Pos(s.Pos()), core.FuncName(fn), core.Discharged, "reachable with no error recorded"))
				}
			}
		}
	}
	if stores < 10 {
		obs = append(obs, core.Ob("R-DECSHAPE", "errguard:anchor", "-", "", core.Violated, fmt.Sprintf("unresolved anchor: only %d error stores found, 10 expected", stores)))
	}

	// (nilfunc)
	scope := c.ReachableFuncs(decodeRoots(c), nil)
	var fns []*ssa.Function
	for fn := range scope {
		if core.IsGeo(fn) {
			fns = append(fns, fn)
		}
	}
	sort.Slice(fns, func(i, j int) bool { return core.FuncName(fns[i]) < core.FuncName(fns[j]) })
	dyn := 0
	for _, fn := range fns {
		n := 0
		core.AllInstrs(fn, func(in ssa.Instruction) {
			ci, ok := in.(ssa.CallInstruction)
			if !ok || ci.Common().IsInvoke() {
				return
			}
			v := ci.Common().Value
			switch v.(type) {
			case *ssa.Function, *ssa.MakeClosure, *ssa.Builtin:
				return
			}
			dyn++
			n++
			key := fmt.Sprintf("nilfunc:%s#%d", core.FuncName(fn), n)
			if mayBeNilFunc(v, map[ssa.Value]bool{}) && !nilChecked(v, in.Block()) {
				obs = append(obs, core.Ob("R-DECSHAPE", key, c.Pos(in.Pos()), core.FuncName(fn), core.Violated,
					"the function value called here is nil on some path into the call (a switch arm that no longer returns, a variable never set): reaching the call that way panics, so Decode crashes instead of returning an error"))
			} else {
				obs = append(obs, core.Ob("R-DECSHAPE", key, c.Pos(in.Pos()), core.FuncName(fn), core.Discharged, "every path into the call assigns a function"))
			}
		})
	}
	obs = append(obs, core.Ob("R-DECSHAPE", "nilfunc:scan", "-", "", core.Discharged, fmt.Sprintf("%d calls through function values in %d functions reachable from the Decode methods", dyn, len(fns))))

	// (limitmsg) the limit that is tested is the limit that is reported (after round-8 seed C15-r8m2,
	// `nloops > maxEncodedVertices` with the message still printing maxEncodedLoops): where a comparison with a
	// constant leads straight to an error whose message prints constants, one of them is the constant compared -
	// the message states what the author believed the test to be (Engler et al.: a stated belief contradicted by the
	// code), and the documented limits are what "rejected before memory is allocated" refers to.
	nlim := 0
	for _, fn := range c.GeoFuncs() {
		n := 0
		for _, b := range fn.Blocks {
			ifi, ok := b.Instrs[len(b.Instrs)-1].(*ssa.If)
			if !ok {
				continue
			}
			bo, ok := ifi.Cond.(*ssa.BinOp)
			if !ok {
				continue
			}
			var limit int64
			var have bool
			switch bo.Op.String() {
			case ">", ">=", "<", "<=":
				if k, ok := core.ConstInt(core.StripConv(bo.Y)); ok {
					limit, have = k, true
				} else if k, ok := core.ConstInt(core.StripConv(bo.X)); ok {
					limit, have = k, true
				}
			}
			if !have || limit < 1000 {
				continue // only documented size limits, not small structural constants
			}
			// an error message built in the failing branch (either successor, up to two blocks deep)
			var printed []int64
			seenErr := false
			visit := func(blk *ssa.BasicBlock) {
				for _, in := range blk.Instrs {
					call, ok := in.(*ssa.Call)
					if !ok || core.StaticCallee(call) == nil || core.StaticCallee(call).Name() != "Errorf" {
						continue
					}
					seenErr = true
					// variadic arguments: MakeInterface values stored into the argument array
					core.AllInstrs(fn, func(in2 ssa.Instruction) {
						mi, ok := in2.(*ssa.MakeInterface)
						if !ok || mi.Block() != blk && !(len(blk.Preds) == 1 && mi.Block() == blk.Preds[0]) {
							return
						}
						if k, ok := core.ConstInt(core.StripConv(mi.X)); ok {
							printed = append(printed, k)
						}
					})
				}
			}
			for _, su := range b.Succs {
				visit(su)
				if len(su.Succs) > 0 && len(su.Instrs) <= 5 {
					for _, s2 := range su.Succs {
						visit(s2)
					}
				}
			}
			if !seenErr || len(printed) == 0 {
				continue
			}
			nlim++
			n++
			key := fmt.Sprintf("limitmsg:%s#%d", core.FuncName(fn), n)
			match := false
			for _, p := range printed {
				if p == limit {
					match = true
				}
			}
			if match {
				obs = append(obs, core.Ob("R-DECSHAPE", key, c.Pos(bo.Pos()), core.FuncName(fn), core.Discharged, fmt.Sprintf("the limit %d is both tested and reported", limit)))
			} else {
				obs = append(obs, core.Ob("R-DECSHAPE", key, c.Pos(bo.Pos()), core.FuncName(fn), core.Violated,
					fmt.Sprintf("the count is compared with %d but the error that follows reports the limit %v: the message states the documented limit, the test enforces another one, so counts between the two are accepted and memory is allocated for them before anything else is checked", limit, printed)))
			}
		}
	}
	if nlim < 4 {
		obs = append(obs, core.Ob("R-DECSHAPE", "limitmsg:anchor", "-", "", core.Violated, fmt.Sprintf("unresolved anchor: %d limit tests with a reported limit found, 4 expected", nlim)))
	}

	obs = append(obs, byteReaderPassthrough(c), capDecodeValidated(c))
	obs = append(obs, boundAfterErrorCheck(c)...)
	obs = append(obs, polylineFirstVertex(c)...)

	// (zerovertices) D31: Vertex(i) is vertices[i % len(vertices)], so a Loop with no vertices panics (integer divide
	// by zero) in ContainsPoint, Contains, ... as soon as its bound lets a query through. Both decoders accept a
	// vertex count of 0; each must therefore turn such a loop into the empty loop (or report an error): the lossless
	// decoder itself, the compressed one through initBound.
	// decodeCompressed (D33): the loop is handed to its index only after initBound has run (which normalises a
	// zero-vertex loop) or on the "count is not zero" side of a test of the vertex count.
	if fn := c.Fn("s2", "Loop", "decodeCompressed"); fn != nil {
		key := "zerovertices:(*s2.Loop).decodeCompressed"
		stop := map[*ssa.BasicBlock]bool{}
		var avoid []core.Edge
		var adds []*ssa.BasicBlock
		for _, b := range fn.Blocks {
			for _, in := range b.Instrs {
				call, ok := in.(*ssa.Call)
				if !ok || core.StaticCallee(call) == nil {
					continue
				}
				switch core.StaticCallee(call).Name() {
				case "initBound":
					stop[b] = true
				case "Add":
					if core.StaticCallee(call).Signature.Recv() != nil && core.IsNamed(core.StaticCallee(call).Signature.Recv().Type(), "s2", "ShapeIndex") {
						adds = append(adds, b)
					}
				}
			}
			ifi, ok := b.Instrs[len(b.Instrs)-1].(*ssa.If)
			if !ok {
				continue
			}
			bo, ok := ifi.Cond.(*ssa.BinOp)
			if !ok {
				continue
			}
			isCount := func(v ssa.Value) bool {
				v = core.StripConv(v)
				if call, ok := v.(*ssa.Call); ok {
					if bi, ok := call.Call.Value.(*ssa.Builtin); ok && bi.Name() == "len" {
						fr, ok := core.AsFieldLoad(call.Call.Args[0])
						return ok && fr.Name == "vertices"
					}
					if f := core.StaticCallee(call); f != nil && f.Name() == "readUvarint" {
						return true
					}
				}
				return false
			}
			isZero := func(v ssa.Value) bool { n, ok := core.ConstInt(v); return ok && n == 0 }
			if (isCount(bo.X) && isZero(bo.Y)) || (isCount(bo.Y) && isZero(bo.X)) {
				switch bo.Op.String() {
				case "==":
					avoid = append(avoid, core.Edge{From: b, Idx: 1}) // the non-zero side
				case "!=", ">":
					avoid = append(avoid, core.Edge{From: b, Idx: 0})
				}
			}
		}
		bad := len(adds) == 0
		for _, a := range adds {
			if !stop[a] && core.ReachableAvoiding(fn.Blocks[0], a, avoid, stop) {
				bad = true
			}
		}
		if bad {
			obs = append(obs, core.Ob("R-DECSHAPE", key, c.Pos(fn.Pos()), core.FuncName(fn), core.Violated,
				"a compressed loop can reach its index with zero vertices: on the path where the properties word says a bound is encoded, initBound (which turns a zero-vertex loop into the empty loop) is not called and the vertex count is not tested - Polygon.Decode of 04 1E 01 00 00 02 00 plus a full rectangle returns nil and ContainsPoint divides by zero in Loop.Vertex"))
		} else {
			obs = append(obs, core.Ob("R-DECSHAPE", key, c.Pos(fn.Pos()), core.FuncName(fn), core.Discharged, "every path to index.Add passes initBound or the non-zero side of a test of the vertex count"))
		}
	} else {
		obs = append(obs, core.Ob("R-DECSHAPE", "zerovertices:(*s2.Loop).decodeCompressed", "-", "", core.Violated, "unresolved anchor"))
	}
	for _, name := range []string{"decode", "initBound"} {
		key := "zerovertices:(*s2.Loop)." + name
		fn := c.Fn("s2", "Loop", name)
		if fn == nil {
			obs = append(obs, core.Ob("R-DECSHAPE", key, "-", "", core.Violated, "unresolved anchor"))
			continue
		}
		handled := false
		for _, b := range fn.Blocks {
			ifi, ok := b.Instrs[len(b.Instrs)-1].(*ssa.If)
			if !ok {
				continue
			}
			bo, ok := ifi.Cond.(*ssa.BinOp)
			if !ok {
				continue
			}
			zeroSide := -1
			isZero := func(v ssa.Value) bool { n, ok := core.ConstInt(v); return ok && n == 0 }
			isCount := func(v ssa.Value) bool {
				v = core.StripConv(v)
				if call, ok := v.(*ssa.Call); ok {
					if bi, ok := call.Call.Value.(*ssa.Builtin); ok && bi.Name() == "len" {
						fr, ok := core.AsFieldLoad(call.Call.Args[0])
						return ok && fr.Name == "vertices"
					}
					if f := core.StaticCallee(call); f != nil && f.Name() == "readUint32" {
						return true
					}
				}
				return false
			}
			if (isCount(bo.X) && isZero(bo.Y)) || (isCount(bo.Y) && isZero(bo.X)) {
				switch bo.Op.String() {
				case "==":
					zeroSide = 0
				case "!=", ">":
					zeroSide = 1
				}
			}
			if zeroSide < 0 {
				continue
			}
			// on the zero side: the receiver is overwritten with EmptyLoop(), or an error is recorded
			for _, blk := range fn.Blocks {
				if !core.EdgeDominates(core.Edge{From: b, Idx: zeroSide}, blk) {
					continue
				}
				for _, in := range blk.Instrs {
					if call, ok := in.(*ssa.Call); ok && core.StaticCallee(call) != nil && core.StaticCallee(call).Name() == "EmptyLoop" {
						handled = true
					}
					if st, ok := in.(*ssa.Store); ok {
						if fr, ok := core.AsFieldAddr(st.Addr); ok && fr.Name == "err" {
							handled = true
						}
					}
				}
			}
		}
		if handled {
			obs = append(obs, core.Ob("R-DECSHAPE", key, c.Pos(fn.Pos()), core.FuncName(fn), core.Discharged, "a vertex count of 0 is turned into the empty loop (or rejected)"))
		} else {
			obs = append(obs, core.Ob("R-DECSHAPE", key, c.Pos(fn.Pos()), core.FuncName(fn), core.Violated,
				"a loop decoded with a vertex count of 0 keeps zero vertices: Vertex(i) computes i % len(vertices), so ContainsPoint, Contains and others panic with an integer divide by zero as soon as the decoded bound lets a query reach them (Decode returns nil for: version 1, 0 vertices, any flags, a full rectangle as bound)"))
		}
	}
	return obs
}

func asTypesFunc(fn *ssa.Function) *types.Func {
	if fn == nil {
		return nil
	}
	f, _ := fn.Object().(*types.Func)
	return f
}

// errAlreadySetEdge: an If whose "decoder.err != nil" side dominates block b.
func errAlreadySetEdge(fn *ssa.Function, b *ssa.BasicBlock) (*ssa.BinOp, bool) {
	for _, blk := range fn.Blocks {
		if len(blk.Instrs) == 0 {
			continue
		}
		ifi, ok := blk.Instrs[len(blk.Instrs)-1].(*ssa.If)
		if !ok {
			continue
		}
		bo, ok := ifi.Cond.(*ssa.BinOp)
		if !ok {
			continue
		}
		var other ssa.Value
		if fr, ok := core.AsFieldLoad(bo.X); ok && fr.Name == "err" {
			other = bo.Y
		} else if fr, ok := core.AsFieldLoad(bo.Y); ok && fr.Name == "err" {
			other = bo.X
		} else {
			continue
		}
		if cst, ok := other.(*ssa.Const); !ok || !cst.IsNil() {
			continue
		}
		side := -1
		switch bo.Op.String() {
		case "!=":
			side = 0
		case "==":
			side = 1
		}
		if side < 0 {
			continue
		}
		if core.EdgeDominates(core.Edge{From: blk, Idx: side}, b) {
			return bo, true
		}
	}
	return nil, false
}

func mayBeNilFunc(v ssa.Value, seen map[ssa.Value]bool) bool {
	if seen[v] {
		return false
	}
	seen[v] = true
	switch x := v.(type) {
	case *ssa.Const:
		return x.IsNil()
	case *ssa.Phi:
		for _, e := range x.Edges {
			if mayBeNilFunc(e, seen) {
				return true
			}
		}
	case *ssa.ChangeType:
		return mayBeNilFunc(x.X, seen)
	}
	return false
}

// nilChecked: block b is dominated by the non-nil side of a test of v against nil.
func nilChecked(v ssa.Value, b *ssa.BasicBlock) bool {
	for _, r := range *v.Referrers() {
		bo, ok := r.(*ssa.BinOp)
		if !ok {
			continue
		}
		var other ssa.Value
		if bo.X == v {
			other = bo.Y
		} else {
			other = bo.X
		}
		if cst, ok := other.(*ssa.Const); !ok || !cst.IsNil() {
			continue
		}
		for _, u := range *bo.Referrers() {
			ifi, ok := u.(*ssa.If)
			if !ok {
				continue
			}
			side := 0
			if bo.Op.String() == "==" {
				side = 1
			}
			blk := ifi.Block()
			if core.EdgeDominates(core.Edge{From: blk, Idx: side}, b) {
				return true
			}
		}
	}
	return false
}
