package rules

import (
	"fmt"
	"go/ast"
	"go/constant"
	"go/token"
	"go/types"
	"strings"

	"verif/checker/core"
)

// R-WIRECOUNT: added after round-3 seed C09-r3m2 (writer's fixed-length field width "tightened", reader unchanged).

func init() {
	core.Register(&core.Rule{
		Name: "R-WIRECOUNT",
		Clause: "C09 'decode(encode(x)) = x': a field whose byte count is computed from a parameter (not read from the stream) has the same count in the writer and in the reader. For every " +
			"encode*/decode* pair of the point compression code whose two sides contain a counted loop of primitive I/O bounded by an integer expression over the cell level, both expressions are " +
			"folded for every level 0..MaxLevel and the two tables compared.",
		Min: 1,
		Run: runWireCount,
	})
}

// intEval folds an integer expression under an environment for parameters; locals with exactly one
// assignment are replaced by their definition.
type intEval struct {
	info    *types.Info
	env     map[types.Object]int64
	assigns map[types.Object][]ast.Expr
	depth   int
}

func (ev *intEval) eval(e ast.Expr) (int64, bool) {
	if ev.depth > 30 {
		return 0, false
	}
	ev.depth++
	defer func() { ev.depth-- }()
	e = ast.Unparen(e)
	if tv, ok := ev.info.Types[e]; ok && tv.Value != nil {
		if v, ok := constant.Int64Val(constant.ToInt(tv.Value)); ok {
			return v, true
		}
		return 0, false
	}
	switch x := e.(type) {
	case *ast.Ident:
		o := ev.info.Uses[x]
		if v, ok := ev.env[o]; ok {
			return v, true
		}
		if rhs := ev.assigns[o]; len(rhs) == 1 && rhs[0] != nil {
			return ev.eval(rhs[0])
		}
	case *ast.UnaryExpr:
		v, ok := ev.eval(x.X)
		if ok && x.Op == token.SUB {
			return -v, true
		}
		if ok && x.Op == token.ADD {
			return v, true
		}
	case *ast.CallExpr:
		// integer conversions
		if len(x.Args) == 1 {
			if tv, ok := ev.info.Types[x.Fun]; ok && tv.IsType() {
				if b, ok := tv.Type.Underlying().(*types.Basic); ok && b.Info()&types.IsInteger != 0 {
					return ev.eval(x.Args[0])
				}
			}
		}
	case *ast.BinaryExpr:
		a, ok1 := ev.eval(x.X)
		b, ok2 := ev.eval(x.Y)
		if !ok1 || !ok2 {
			return 0, false
		}
		switch x.Op {
		case token.ADD:
			return a + b, true
		case token.SUB:
			return a - b, true
		case token.MUL:
			return a * b, true
		case token.QUO:
			if b != 0 {
				return a / b, true
			}
		case token.REM:
			if b != 0 {
				return a % b, true
			}
		case token.SHL:
			if b >= 0 && b < 63 {
				return a << uint(b), true
			}
		case token.SHR:
			if b >= 0 && b < 63 {
				return a >> uint(b), true
			}
		case token.AND:
			return a & b, true
		case token.OR:
			return a | b, true
		}
	}
	return 0, false
}

// countedIOLoop finds a loop "for i := 0; i < N; i++" whose body performs primitive coder I/O and returns N.
func countedIOLoop(info *types.Info, fd *ast.FuncDecl) ast.Expr {
	var bound ast.Expr
	ast.Inspect(fd.Body, func(n ast.Node) bool {
		fs, ok := n.(*ast.ForStmt)
		if !ok || fs.Cond == nil || bound != nil {
			return true
		}
		cmp, ok := fs.Cond.(*ast.BinaryExpr)
		if !ok || cmp.Op != token.LSS {
			return true
		}
		init, ok := fs.Init.(*ast.AssignStmt)
		if !ok || len(init.Rhs) != 1 {
			return true
		}
		if tv := info.Types[init.Rhs[0]]; tv.Value == nil || tv.Value.String() != "0" {
			return true
		}
		io := false
		ast.Inspect(fs.Body, func(m ast.Node) bool {
			if call, ok := m.(*ast.CallExpr); ok {
				if sel, ok := call.Fun.(*ast.SelectorExpr); ok {
					if s, ok := info.Selections[sel]; ok && isCoderType(s.Recv()) {
						if _, isPrim := primWidth[sel.Sel.Name]; isPrim {
							io = true
						}
					}
				}
			}
			return true
		})
		if io {
			bound = cmp.Y
		}
		return true
	})
	return bound
}

func runWireCount(c *core.Ctx) []core.Obligation {
	var obs []core.Obligation
	pkg := c.Pkgs["s2"]
	info := pkg.TypesInfo
	maxLevel := int64(-1)
	if o, ok := pkg.Types.Scope().Lookup("MaxLevel").(*types.Const); ok {
		maxLevel, _ = constant.Int64Val(constant.ToInt(o.Val()))
	}
	if maxLevel <= 0 {
		return append(obs, core.Ob("R-WIRECOUNT", "anchor", "-", "", core.Violated, "unresolved anchor: MaxLevel"))
	}
	// every package-level encodeX / decodeX pair
	scope := pkg.Types.Scope()
	for _, n := range scope.Names() {
		if !strings.HasPrefix(n, "encode") {
			continue
		}
		enc, _ := scope.Lookup(n).(*types.Func)
		dec, _ := scope.Lookup("decode" + strings.TrimPrefix(n, "encode")).(*types.Func)
		if enc == nil || dec == nil || c.Decl(enc) == nil || c.Decl(dec) == nil {
			continue
		}
		eb, db := countedIOLoop(info, c.Decl(enc)), countedIOLoop(info, c.Decl(dec))
		if eb == nil && db == nil {
			continue
		}
		construct := "count:" + enc.Name() + "/" + dec.Name()
		site := c.Pos(dec.Pos())
		if eb == nil || db == nil {
			o := core.Ob("R-WIRECOUNT", construct, site, dec.FullName(), core.Discharged, "not decided - only one side has a counted loop of primitive I/O")
			o.Trivial = true
			obs = append(obs, o)
			continue
		}
		levelParam := func(fd *ast.FuncDecl) types.Object {
			for _, f := range fd.Type.Params.List {
				for _, nm := range f.Names {
					if nm.Name == "level" {
						return info.Defs[nm]
					}
				}
			}
			return nil
		}
		le, ld := levelParam(c.Decl(enc)), levelParam(c.Decl(dec))
		if le == nil || ld == nil {
			o := core.Ob("R-WIRECOUNT", construct, site, dec.FullName(), core.Discharged, "not decided - the count does not depend on a 'level' parameter")
			o.Trivial = true
			obs = append(obs, o)
			continue
		}
		ea, da := collectAssigns(info, c.Decl(enc)), collectAssigns(info, c.Decl(dec))
		bad := ""
		undecided := false
		for lv := int64(0); lv <= maxLevel; lv++ {
			e1 := &intEval{info: info, env: map[types.Object]int64{le: lv}, assigns: ea}
			d1 := &intEval{info: info, env: map[types.Object]int64{ld: lv}, assigns: da}
			ve, ok1 := e1.eval(eb)
			vd, ok2 := d1.eval(db)
			if !ok1 || !ok2 {
				undecided = true
				break
			}
			if ve == vd && ve*8 < 2*lv && bad == "" && strings.Contains(enc.Name(), "FirstPoint") {
				bad = fmt.Sprintf("at level %d the field is %d bytes wide, too narrow for the two interleaved %d-bit coordinates", lv, ve, lv)
			}
			if ve != vd && bad == "" {
				bad = fmt.Sprintf("at level %d the writer emits %d bytes (%s) but the reader consumes %d (%s)", lv, ve, types.ExprString(eb), vd, types.ExprString(db))
			}
		}
		switch {
		case undecided:
			obs = append(obs, core.Ob("R-WIRECOUNT", construct, site, dec.FullName(), core.Undecided, "the byte count could not be folded: "+types.ExprString(eb)+" / "+types.ExprString(db)))
		case bad != "":
			obs = append(obs, core.Ob("R-WIRECOUNT", construct, site, dec.FullName(), core.Violated, bad+": every later field of the stream is decoded from the wrong bytes"))
		default:
			obs = append(obs, core.Ob("R-WIRECOUNT", construct, site, dec.FullName(), core.Discharged,
				fmt.Sprintf("writer and reader agree on the byte count for every level 0..%d (and the field is wide enough for the two interleaved level-bit coordinates)", maxLevel)))
		}
	}
	return obs
}
