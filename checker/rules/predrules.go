package rules

import (
	"encoding/json"
	"fmt"
	"go/ast"
	"go/constant"
	"go/token"
	"go/types"
	"os"
	"os/exec"
	"path/filepath"
	"sort"
	"strings"

	"golang.org/x/tools/go/ssa"

	"verif/checker/core"
)

func init() {
	core.Register(&core.Rule{
		Name: "R-FMA",
		Clause: "C02 'explicit float64() casts prevent fused multiply-add from changing rounding': in r3.Vector.Dot and Cross every floating-point product that is an operand of + or - is the " +
			"argument of an explicit float64 conversion (the Go specification lets a compiler fuse x*y+z unless the product is explicitly converted; arm64, ppc64, s390x and GOAMD64=v3 do). " +
			"The antisymmetry of Sign and every error bound derived for the determinant assume unfused products.",
		Min: 2,
		Run: runFMA,
	})
	core.Register(&core.Rule{
		Name: "R-STAGES",
		Clause: "C02 'returns the sign of the exact quantity': the staged predicates trust a floating-point stage only beyond its error bound and fall through to the next stage otherwise - " +
			"triage/stable stages return a definite sign only on the strict side of their bound; RobustSign calls the expensive stage exactly when triage is Indeterminate; expensiveSign returns " +
			"Indeterminate only for two identical arguments; exactSign pairs every argument swap with a sign flip and consults the symbolic perturbation exactly when the exact determinant is zero; " +
			"the exact distance comparisons multiply by a sign only where both signs were found equal; the symbolic perturbation never returns zero.",
		Min: 16,
		Run: runStages,
	})
	core.Register(&core.Rule{
		Name: "R-SOS",
		Clause: "C02 'answers on exactly-degenerate inputs are those of one fixed infinitesimal perturbation': the ordered list of quantities that symbolicallyPerturbedSign tests is, as polynomials in the " +
			"coordinates, the coefficient sequence of the simulation-of-simplicity expansion of det(a+da, b+db, c+dc) with the perturbation order stated in its documentation (reference sequence below).",
		Min: 13,
		Run: runSOS,
	})
}

func runFMA(c *core.Ctx) []core.Obligation {
	var obs []core.Obligation
	for _, name := range []string{"Dot", "Cross"} {
		fn := c.LookupFunc("r3", "Vector", name)
		construct := "r3.Vector." + name
		if fn == nil || c.Decl(fn) == nil {
			obs = append(obs, core.Ob("R-FMA", construct, "-", "", core.Violated, "unresolved anchor"))
			continue
		}
		info := c.Pkgs["r3"].TypesInfo
		products, bare := 0, 0
		var where token.Pos
		isFloat := func(e ast.Expr) bool {
			b, ok := info.TypeOf(e).Underlying().(*types.Basic)
			return ok && b.Info()&types.IsFloat != 0
		}
		strip := func(e ast.Expr) ast.Expr {
			for {
				p, ok := e.(*ast.ParenExpr)
				if !ok {
					return e
				}
				e = p.X
			}
		}
		ast.Inspect(c.Decl(fn).Body, func(n ast.Node) bool {
			be, ok := n.(*ast.BinaryExpr)
			if !ok || (be.Op != token.ADD && be.Op != token.SUB) || !isFloat(be) {
				return true
			}
			for _, opnd := range []ast.Expr{be.X, be.Y} {
				o := strip(opnd)
				if m, ok := o.(*ast.BinaryExpr); ok && m.Op == token.MUL {
					products++
					bare++
					where = m.Pos()
				}
				if call, ok := o.(*ast.CallExpr); ok && len(call.Args) == 1 {
					if tv, ok := info.Types[call.Fun]; ok && tv.IsType() {
						if m, ok := strip(call.Args[0]).(*ast.BinaryExpr); ok && m.Op == token.MUL {
							products++
						}
					}
				}
			}
			return true
		})
		want := map[string]int{"Dot": 3, "Cross": 6}[name]
		switch {
		case bare > 0:
			obs = append(obs, core.Ob("R-FMA", construct, c.Pos(where), fn.FullName(), core.Violated,
				fmt.Sprintf("%d product(s) feed an addition/subtraction without an explicit float64() conversion: the compiler may fuse them into an FMA, changing the rounding the error bounds assume", bare)))
		case products < want:
			obs = append(obs, core.Ob("R-FMA", construct, c.Pos(fn.Pos()), fn.FullName(), core.Violated,
				fmt.Sprintf("only %d explicitly converted products found, %d expected (anchor changed shape)", products, want)))
		default:
			obs = append(obs, core.Ob("R-FMA", construct, c.Pos(fn.Pos()), fn.FullName(), core.Discharged, fmt.Sprintf("all %d products are explicitly converted before being added", products)))
		}
	}
	return obs
}

// ---------------------------------------------------------------------------

func constOf(c *core.Ctx, name string) (int64, bool) {
	k, ok := c.Pkgs["s2"].Types.Scope().Lookup(name).(*types.Const)
	if !ok {
		return 0, false
	}
	return constInt64(k)
}

// retConstBlocks returns the blocks of fn that return the integer constant v.
func retConstBlocks(fn *ssa.Function, v int64) []*ssa.BasicBlock {
	var out []*ssa.BasicBlock
	for _, b := range fn.Blocks {
		if r, ok := b.Instrs[len(b.Instrs)-1].(*ssa.Return); ok && len(r.Results) == 1 {
			if k, ok := core.ConstInt(r.Results[0]); ok && k == v {
				out = append(out, b)
				continue
			}
			// functions with a defer spill the result: *res = K; rundefers; return *res
			if ld, ok := r.Results[0].(*ssa.UnOp); ok && ld.Op == token.MUL {
				for _, in := range b.Instrs {
					if st, ok := in.(*ssa.Store); ok && st.Addr == ld.X {
						if k, ok := core.ConstInt(st.Val); ok && k == v {
							out = append(out, b)
						}
					}
				}
			}
		}
	}
	return out
}

// strictBoundEdge finds an If `val OP bound` (OP strict) and returns the edge on which val lies strictly beyond the bound
// in the given direction (+1: val > bound, -1: val < -bound / val < bound where bound is a negation).
func strictBoundEdges(fn *ssa.Function) (pos, neg []core.Edge, nonStrict []token.Pos) {
	var weak []*ssa.BinOp
	for _, b := range fn.Blocks {
		iff, ok := b.Instrs[len(b.Instrs)-1].(*ssa.If)
		if !ok {
			continue
		}
		bo, ok := iff.Cond.(*ssa.BinOp)
		if !ok {
			continue
		}
		isNegated := func(v ssa.Value) bool {
			if u, ok := v.(*ssa.UnOp); ok && u.Op == token.SUB {
				return true
			}
			if k, ok := v.(*ssa.Const); ok && k.Value != nil && strings.HasPrefix(k.Value.String(), "-") {
				return true
			}
			return false
		}
		if b, ok := bo.X.Type().Underlying().(*types.Basic); !ok || b.Info()&types.IsFloat == 0 {
			continue
		}
		switch bo.Op {
		case token.GTR:
			if !isNegated(bo.Y) {
				pos = append(pos, core.Edge{From: b, Idx: 0})
			}
		case token.LSS:
			if isNegated(bo.Y) {
				neg = append(neg, core.Edge{From: b, Idx: 0})
			}
		case token.GEQ, token.LEQ:
			weak = append(weak, bo)
		}
	}
	// a non-strict comparison counts only if it tests the same value as a bound comparison
	for _, w := range weak {
		for _, e := range append(append([]core.Edge{}, pos...), neg...) {
			if b := e.From.Instrs[len(e.From.Instrs)-1].(*ssa.If).Cond.(*ssa.BinOp); b.X == w.X {
				nonStrict = append(nonStrict, w.Pos())
			}
		}
	}
	return
}

func runStages(c *core.Ctx) []core.Obligation {
	var obs []core.Obligation
	ccw, _ := constOf(c, "CounterClockwise")
	cw, _ := constOf(c, "Clockwise")
	ind, _ := constOf(c, "Indeterminate")
	add := func(construct string, fn *ssa.Function, ok bool, good, bad string) {
		site, name := "-", ""
		if fn != nil {
			site, name = c.Pos(fn.Pos()), core.FuncName(fn)
		}
		st, d := core.Discharged, good
		if !ok {
			st, d = core.Violated, bad
		}
		obs = append(obs, core.Ob("R-STAGES", construct, site, name, st, d))
	}
	// (1) triageSign / stableSign
	for _, name := range []string{"triageSign", "stableSign"} {
		fn := c.Fn("s2", "", name)
		if fn == nil {
			add("bound:"+name, nil, false, "", "unresolved anchor")
			continue
		}
		pos, neg, nonStrict := strictBoundEdges(fn)
		ok := true
		why := ""
		for _, b := range retConstBlocks(fn, ccw) {
			dom := false
			for _, e := range pos {
				if core.EdgeDominates(e, b) {
					dom = true
				}
			}
			if !dom {
				ok, why = false, "CounterClockwise is returned on a path where the determinant was not found strictly greater than the error bound"
			}
		}
		for _, b := range retConstBlocks(fn, cw) {
			dom := false
			for _, e := range neg {
				if core.EdgeDominates(e, b) {
					dom = true
				}
			}
			if !dom {
				ok, why = false, "Clockwise is returned on a path where the determinant was not found strictly less than minus the error bound"
			}
		}
		if len(retConstBlocks(fn, ccw)) == 0 || len(retConstBlocks(fn, cw)) == 0 || len(retConstBlocks(fn, ind)) == 0 {
			ok, why = false, "the function no longer has the three outcomes (CCW beyond the bound, CW beyond the bound, Indeterminate otherwise)"
		}
		if len(nonStrict) > 0 && ok {
			ok, why = false, fmt.Sprintf("non-strict comparison against the error bound at %s: a determinant equal to the bound is not known to have the right sign", c.Pos(nonStrict[0]))
		}
		add("bound:"+name, fn, ok, "a definite sign is returned only strictly beyond the error bound; Indeterminate otherwise", why)
	}
	// (2) RobustSign staging
	if fn := c.Fn("s2", "", "RobustSign"); fn != nil {
		var triage, expensive *ssa.Call
		core.AllInstrs(fn, func(in ssa.Instruction) {
			if call, ok := in.(*ssa.Call); ok {
				switch f := core.StaticCallee(call); {
				case f != nil && f.Name() == "triageSign":
					triage = call
				case f != nil && f.Name() == "expensiveSign":
					expensive = call
				}
			}
		})
		ok := triage != nil && expensive != nil
		why := "triageSign / expensiveSign calls not found"
		if ok {
			ok = false
			why = "expensiveSign is not called exactly when triageSign returned Indeterminate"
			for _, b := range fn.Blocks {
				iff, isIf := b.Instrs[len(b.Instrs)-1].(*ssa.If)
				if !isIf {
					continue
				}
				bo, isBo := iff.Cond.(*ssa.BinOp)
				if !isBo || bo.X != ssa.Value(triage) {
					continue
				}
				k, isK := core.ConstInt(bo.Y)
				if !isK || k != ind {
					continue
				}
				eqEdge := 0
				if bo.Op == token.NEQ {
					eqEdge = 1
				}
				if core.EdgeDominates(core.Edge{From: b, Idx: eqEdge}, expensive.Block()) && !core.ReachableAvoiding(b.Succs[1-eqEdge], expensive.Block(), nil, nil) {
					ok = true
				}
			}
			// the returned value is the triage result or the expensive result
			if ok {
				core.AllInstrs(fn, func(in ssa.Instruction) {
					if r, isRet := in.(*ssa.Return); isRet {
						v := r.Results[0]
						good := v == ssa.Value(triage) || v == ssa.Value(expensive)
						if phi, isPhi := v.(*ssa.Phi); isPhi {
							good = true
							for _, e := range phi.Edges {
								if e != ssa.Value(triage) && e != ssa.Value(expensive) {
									good = false
								}
							}
						}
						if !good {
							ok, why = false, "RobustSign does not return the triage result or, when that is Indeterminate, the expensive result"
						}
					}
				})
			}
		}
		add("staging:RobustSign", fn, ok, "expensiveSign runs exactly when triageSign is Indeterminate and its result is returned", why)
	} else {
		add("staging:RobustSign", nil, false, "", "unresolved anchor")
	}
	// (3) expensiveSign: Indeterminate constant only under the equal-arguments guard; exactSign called with perturb = true
	if fn := c.Fn("s2", "", "expensiveSign"); fn != nil {
		ok := true
		why := ""
		// equality comparisons between the three point parameters
		var eqTrue []core.Edge
		for _, b := range fn.Blocks {
			iff, isIf := b.Instrs[len(b.Instrs)-1].(*ssa.If)
			if !isIf {
				continue
			}
			if bo, isBo := iff.Cond.(*ssa.BinOp); isBo && bo.Op == token.EQL && core.IsNamed(bo.X.Type(), "s2", "Point") {
				eqTrue = append(eqTrue, core.Edge{From: b, Idx: 0})
			}
		}
		if len(eqTrue) != 3 {
			ok, why = false, fmt.Sprintf("%d point-equality tests found, 3 expected (a==b, b==c, c==a)", len(eqTrue))
		}
		for _, b := range retConstBlocks(fn, ind) {
			// reachable only through one of the equality true-edges
			if core.ReachableAvoiding(fn.Blocks[0], b, eqTrue, nil) {
				ok, why = false, "Indeterminate can be returned although no two arguments are identical"
			}
		}
		exactOK := false
		core.AllInstrs(fn, func(in ssa.Instruction) {
			if call, isCall := in.(*ssa.Call); isCall {
				if f := core.StaticCallee(call); f != nil && f.Name() == "exactSign" {
					if k, isK := call.Call.Args[3].(*ssa.Const); isK && k.Value != nil && k.Value.String() == "true" {
						exactOK = true
					}
				}
			}
		})
		if !exactOK && ok {
			ok, why = false, "exactSign is not called with perturbation enabled"
		}
		add("staging:expensiveSign", fn, ok, "Indeterminate only behind one of the three equality tests; stableSign's definite answer is returned; otherwise exactSign with perturbation", why)
	} else {
		add("staging:expensiveSign", nil, false, "", "unresolved anchor")
	}
	// (4) exactSign: each swap negates permSign; perturbation exactly when det sign is 0 (and perturb)
	if fn := c.Fn("s2", "", "exactSign"); fn != nil {
		swaps, flips := 0, 0
		for _, b := range fn.Blocks {
			iff, isIf := b.Instrs[len(b.Instrs)-1].(*ssa.If)
			if !isIf {
				continue
			}
			bo, isBo := iff.Cond.(*ssa.BinOp)
			if !isBo || bo.Op != token.GTR {
				continue
			}
			if call, isCall := bo.X.(*ssa.Call); isCall {
				if f := core.StaticCallee(call); f != nil && f.Name() == "Cmp" {
					swaps++
					// the true successor negates permSign
					for _, in := range b.Succs[0].Instrs {
						if u, isU := in.(*ssa.UnOp); isU && u.Op == token.SUB && core.IsNamed(u.Type(), "s2", "Direction") {
							flips++
						}
					}
				}
			}
		}
		ok := swaps == 3 && flips == 3
		why := fmt.Sprintf("%d ordering swaps but %d sign flips: every transposition of the arguments must negate the result", swaps, flips)
		// result = permSign * detSign
		mulOK := false
		core.AllInstrs(fn, func(in ssa.Instruction) {
			if r, isRet := in.(*ssa.Return); isRet {
				if bo, isBo := r.Results[0].(*ssa.BinOp); isBo && bo.Op == token.MUL {
					mulOK = true
				}
			}
		})
		if ok && !mulOK {
			ok, why = false, "the result is not permSign * detSign"
		}
		// symbolicallyPerturbedSign call dominated by detSign == Indeterminate
		var sps *ssa.Call
		core.AllInstrs(fn, func(in ssa.Instruction) {
			if call, isCall := in.(*ssa.Call); isCall {
				if f := core.StaticCallee(call); f != nil && f.Name() == "symbolicallyPerturbedSign" {
					sps = call
				}
			}
		})
		if ok && sps == nil {
			ok, why = false, "symbolicallyPerturbedSign is never consulted"
		}
		if ok {
			guard := false
			for _, b := range fn.Blocks {
				iff, isIf := b.Instrs[len(b.Instrs)-1].(*ssa.If)
				if !isIf {
					continue
				}
				if bo, isBo := iff.Cond.(*ssa.BinOp); isBo && bo.Op == token.EQL {
					if k, isK := core.ConstInt(bo.Y); isK && k == ind && core.EdgeDominates(core.Edge{From: b, Idx: 0}, sps.Block()) {
						guard = true
					}
				}
			}
			if !guard {
				ok, why = false, "the symbolic perturbation is consulted although the exact determinant is non-zero (or not consulted when it is zero)"
			}
		}
		add("exactSign:permutation-and-perturbation", fn, ok, "3 argument swaps each paired with a sign flip; result permSign*detSign; perturbation consulted exactly when the exact determinant is 0", why)
	} else {
		add("exactSign:permutation-and-perturbation", nil, false, "", "unresolved anchor")
	}
	// (5) exact distance comparisons: sign * cmp.Sign() only where the two signs are equal
	for _, name := range []string{"exactCompareDistances", "exactCompareDistance"} {
		fn := c.Fn("s2", "", name)
		if fn == nil {
			add("exact-sign-product:"+name, nil, false, "", "unresolved anchor")
			continue
		}
		isSign := func(v ssa.Value) bool {
			call, ok := v.(*ssa.Call)
			if !ok {
				return false
			}
			f := core.StaticCallee(call)
			return f != nil && f.Name() == "Sign"
		}
		ok := false
		why := "no return of sign * cmp.Sign() found"
		core.AllInstrs(fn, func(in ssa.Instruction) {
			r, isRet := in.(*ssa.Return)
			if !isRet {
				return
			}
			bo, isBo := r.Results[0].(*ssa.BinOp)
			if !isBo || bo.Op != token.MUL {
				return
			}
			var s ssa.Value
			if isSign(bo.X) && isSign(bo.Y) {
				// the factor that is one of the two compared signs
				s = bo.X
			}
			if s == nil {
				return
			}
			// dominated by the equality edge of a comparison between two Sign() results, one of which is a factor
			dom := false
			for _, b := range fn.Blocks {
				iff, isIf := b.Instrs[len(b.Instrs)-1].(*ssa.If)
				if !isIf {
					continue
				}
				cmp, isCmp := iff.Cond.(*ssa.BinOp)
				if !isCmp || (cmp.Op != token.NEQ && cmp.Op != token.EQL) || !isSign(cmp.X) || !isSign(cmp.Y) {
					continue
				}
				if cmp.X != bo.X && cmp.X != bo.Y && cmp.Y != bo.X && cmp.Y != bo.Y {
					continue
				}
				eq := 1
				if cmp.Op == token.EQL {
					eq = 0
				}
				if core.EdgeDominates(core.Edge{From: b, Idx: eq}, r.Block()) {
					dom = true
				}
			}
			if dom {
				ok = true
			} else {
				why = "the squared comparison is multiplied by one sign on a path where the two signs were not established to be equal (e.g. one of them is zero): the product is then not the sign of the exact difference"
			}
		})
		add("exact-sign-product:"+name, fn, ok, "sign * cmp.Sign() is returned only where the two cosine signs were compared equal", why)
	}
	// (6) symbolicallyPerturbedSign never returns 0
	if fn := c.Fn("s2", "", "symbolicallyPerturbedSign"); fn != nil {
		ok := true
		why := ""
		nret := 0
		core.AllInstrs(fn, func(in ssa.Instruction) {
			r, isRet := in.(*ssa.Return)
			if !isRet {
				return
			}
			nret++
			v := core.StripConv(r.Results[0])
			if k, isK := core.ConstInt(v); isK {
				if k == 0 {
					ok, why = false, "a constant zero is returned"
				}
				return
			}
			// v != 0 established on the way
			dom := false
			for _, b := range fn.Blocks {
				iff, isIf := b.Instrs[len(b.Instrs)-1].(*ssa.If)
				if !isIf {
					continue
				}
				bo, isBo := iff.Cond.(*ssa.BinOp)
				if !isBo || bo.X != v {
					continue
				}
				if k, isK := core.ConstInt(bo.Y); isK && k == 0 {
					ne := 0
					if bo.Op == token.EQL {
						ne = 1
					} else if bo.Op != token.NEQ {
						continue
					}
					if core.EdgeDominates(core.Edge{From: b, Idx: ne}, r.Block()) {
						dom = true
					}
				}
			}
			if !dom {
				ok, why = false, fmt.Sprintf("the value returned at %s is not known to be non-zero", c.Pos(r.Pos()))
			}
		})
		if nret < 13 {
			ok, why = false, fmt.Sprintf("%d returns, 13 expected", nret)
		}
		add("symbolicallyPerturbedSign:nonzero", fn, ok, fmt.Sprintf("all %d returns yield a non-zero sign", nret), why)
	} else {
		add("symbolicallyPerturbedSign:nonzero", nil, false, "", "unresolved anchor")
	}
	// (7) distance comparison staging: CompareDistances / CompareDistance / SignDotProd reach the exact stage only after every triage returned 0
	for _, name := range []string{"CompareDistances", "CompareDistance", "SignDotProd"} {
		fn := c.Fn("s2", "", name)
		if fn == nil {
			add("staging:"+name, nil, false, "", "unresolved anchor")
			continue
		}
		// every call to an exact*/symbolic* function must be unreachable from any edge where a triage result was != 0
		ok := true
		why := ""
		var exactCalls []*ssa.Call
		core.AllInstrs(fn, func(in ssa.Instruction) {
			if call, isCall := in.(*ssa.Call); isCall {
				if f := core.StaticCallee(call); f != nil && (strings.HasPrefix(f.Name(), "exact") || strings.HasPrefix(f.Name(), "symbolic") || f.Name() == "PreciseVectorFromVector") {
					exactCalls = append(exactCalls, call)
				}
			}
		})
		if len(exactCalls) == 0 {
			ok, why = false, "no exact stage found"
		}
		for _, b := range fn.Blocks {
			iff, isIf := b.Instrs[len(b.Instrs)-1].(*ssa.If)
			if !isIf {
				continue
			}
			bo, isBo := iff.Cond.(*ssa.BinOp)
			if !isBo || (bo.Op != token.NEQ && bo.Op != token.EQL) {
				continue
			}
			call, isCall := bo.X.(*ssa.Call)
			if !isCall {
				continue
			}
			f := core.StaticCallee(call)
			if f == nil || !strings.HasPrefix(f.Name(), "triage") {
				continue
			}
			if k, isK := core.ConstInt(bo.Y); !isK || k != 0 {
				continue
			}
			decided := 0
			if bo.Op == token.EQL {
				decided = 1
			}
			for _, ec := range exactCalls {
				if core.ReachableAvoiding(b.Succs[decided], ec.Block(), nil, nil) {
					ok, why = false, fmt.Sprintf("the exact stage can run although %s already gave a definite answer", f.Name())
				}
			}
		}
		add("staging:"+name, fn, ok, "a definite triage answer is returned at once; the exact stage runs only after every triage returned 0", why)
	}
	// (8) sin^2 is increasing in the angle below 90 degrees and decreasing above: the sin^2 triage of CompareDistances is
	// used as it is only where cos(angle) > K for some K >= 0 and with its sign flipped only where cos(angle) < K for
	// some K <= 0 - never in between, where neither form orders the distances.
	if fn := c.Fn("s2", "", "CompareDistances"); fn != nil {
		ok, why, n := true, "", 0
		core.AllInstrs(fn, func(in ssa.Instruction) {
			call, isCall := in.(*ssa.Call)
			if !isCall || core.StaticCallee(call) == nil || core.StaticCallee(call).Name() != "triageCompareSin2Distances" {
				return
			}
			n++
			negated := false
			for _, r := range *call.Referrers() {
				if u, isU := r.(*ssa.UnOp); isU && u.Op == token.SUB {
					negated = true
				}
			}
			// the guarding comparison cos ? K on every path to the call
			guarded := false
			for _, b := range fn.Blocks {
				iff, isIf := b.Instrs[len(b.Instrs)-1].(*ssa.If)
				if !isIf {
					continue
				}
				bo, isBo := iff.Cond.(*ssa.BinOp)
				if !isBo {
					continue
				}
				kc, isK := bo.Y.(*ssa.Const)
				if !isK || kc.Value == nil || (bo.Op != token.GTR && bo.Op != token.LSS && bo.Op != token.GEQ && bo.Op != token.LEQ) {
					continue
				}
				if dot, isDot := bo.X.(*ssa.Call); !isDot || core.StaticCallee(dot) == nil || core.StaticCallee(dot).Name() != "Dot" {
					continue
				}
				if !core.EdgeDominates(core.Edge{From: b, Idx: 0}, call.Block()) {
					continue
				}
				k, _ := constant.Float64Val(constant.ToFloat(kc.Value))
				switch {
				case !negated && (bo.Op == token.GTR || bo.Op == token.GEQ) && k >= 0:
					guarded = true
				case negated && (bo.Op == token.LSS || bo.Op == token.LEQ) && k <= 0:
					guarded = true
				case negated:
					why = fmt.Sprintf("the sign-flipped sin^2 comparison is used where cos(angle) %s %g, which includes angles below 90 degrees where sin^2 is increasing: a resolved comparison comes back inverted", bo.Op, k)
				default:
					why = fmt.Sprintf("the sin^2 comparison is used where cos(angle) %s %g, which includes angles above 90 degrees where sin^2 is decreasing", bo.Op, k)
				}
			}
			if !guarded {
				ok = false
				if why == "" {
					why = "a sin^2 comparison is not guarded by the sign of cos(angle)"
				}
			}
		})
		if n < 2 {
			ok, why = false, fmt.Sprintf("only %d sin^2 triage calls found in CompareDistances, 2 expected", n)
		}
		add("CompareDistances:sin2-monotone-range", fn, ok, "sin^2 is compared directly only for cos > K >= 0 and with flipped sign only for cos < K <= 0", why)
	} else {
		add("CompareDistances:sin2-monotone-range", nil, false, "", "unresolved anchor")
	}
	// (8b) the sin^2 comparisons are valid only when the two distances are on the same side of 90 degrees; the code
	// relies on the cosine triage, which is valid everywhere, having ALREADY failed to separate them (so they are
	// nearly equal): every sin^2 triage call is reached only through the "returned 0" edge of a cosine triage.
	for _, name := range []string{"CompareDistances", "CompareDistance"} {
		fn := c.Fn("s2", "", name)
		if fn == nil {
			add("sin2-after-cos:"+name, nil, false, "", "unresolved anchor")
			continue
		}
		ok, why, n := true, "", 0
		core.AllInstrs(fn, func(in ssa.Instruction) {
			call, isCall := in.(*ssa.Call)
			if !isCall || core.StaticCallee(call) == nil || !strings.HasPrefix(core.StaticCallee(call).Name(), "triageCompareSin2") {
				return
			}
			n++
			guarded := false
			for _, b := range fn.Blocks {
				iff, isIf := b.Instrs[len(b.Instrs)-1].(*ssa.If)
				if !isIf {
					continue
				}
				bo, isBo := iff.Cond.(*ssa.BinOp)
				if !isBo || (bo.Op != token.NEQ && bo.Op != token.EQL) {
					continue
				}
				cc, isC := bo.X.(*ssa.Call)
				if !isC || core.StaticCallee(cc) == nil || !strings.HasPrefix(core.StaticCallee(cc).Name(), "triageCompareCos") {
					continue
				}
				if k, isK := core.ConstInt(bo.Y); !isK || k != 0 {
					continue
				}
				undecided := 1 // sign != 0: false edge
				if bo.Op == token.EQL {
					undecided = 0
				}
				if core.EdgeDominates(core.Edge{From: b, Idx: undecided}, call.Block()) {
					guarded = true
				}
			}
			if !guarded {
				ok, why = false, "a sin^2 comparison runs before (or without) the cosine comparison having returned 0: for distances on opposite sides of 90 degrees - a point near the antipode against a small limit - sin^2 orders them the wrong way round and a definite, wrong answer is returned"
			}
		})
		if n == 0 {
			ok, why = false, "no sin^2 triage call found"
		}
		add("sin2-after-cos:"+name, fn, ok, "every sin^2 triage is reached only after the cosine triage returned 0", why)
	}
	// (8c) a constant "equal" answer is given only for bit-identical arguments: a floating-point computation that comes out
	// as exactly zero proves nothing about the exact quantity, so it must go on to the exact stage
	for _, name := range []string{"SignDotProd", "CompareDistances", "CompareDistance"} {
		fn := c.Fn("s2", "", name)
		if fn == nil {
			add("zero-only-exact:"+name, nil, false, "", "unresolved anchor")
			continue
		}
		ok, why, nzero := true, "", 0
		for _, rb := range retConstBlocks(fn, 0) {
			nzero++
			justified := false
			for _, b := range fn.Blocks {
				iff, isIf := b.Instrs[len(b.Instrs)-1].(*ssa.If)
				if !isIf {
					continue
				}
				bo, isBo := iff.Cond.(*ssa.BinOp)
				if !isBo || bo.Op != token.EQL {
					continue
				}
				if _, isStruct := bo.X.Type().Underlying().(*types.Struct); !isStruct {
					continue
				}
				if core.EdgeDominates(core.Edge{From: b, Idx: 0}, rb) {
					justified = true
				}
			}
			if !justified {
				ok = false
				why = name + " returns the constant 0 on a path that is not guarded by the identity of two of its point arguments: a float result that happens to be exactly zero (cancellation, underflow) does not mean the exact quantity is zero, so distinct inputs are reported as tied"
			}
		}
		add("zero-only-exact:"+name, fn, ok, fmt.Sprintf("%d constant-zero returns, each behind an identity test of two arguments; every other zero comes from the exact stage", nzero), why)
	}
	// (8d) the exact distance comparison decides the "cosines of different sign" case by comparing the two signs with
	// each other (after seeds C02-r6m2 / C02-r7m1, `aSign > bSign` turned into `aSign > 0`): signs are -1, 0, +1, and a
	// test of one sign against a constant gives the wrong answer for the pairs that contain a zero (AX exactly 90
	// degrees and BX a hair beyond: cos(AX) = 0 > cos(BX), so AX < BX, but 0 > 0 is false).
	if fn := c.Fn("s2", "", "exactCompareDistances"); fn != nil {
		isSign := func(v ssa.Value) bool {
			call, ok := v.(*ssa.Call)
			return ok && core.StaticCallee(call) != nil && core.StaticCallee(call).Name() == "Sign"
		}
		var neq *ssa.BasicBlock
		for _, b := range fn.Blocks {
			if iff, ok := b.Instrs[len(b.Instrs)-1].(*ssa.If); ok {
				if bo, ok := iff.Cond.(*ssa.BinOp); ok && bo.Op == token.NEQ && isSign(bo.X) && isSign(bo.Y) && bo.X != bo.Y {
					neq = b
				}
			}
		}
		if neq == nil {
			add("exactCompareDistances:sign-case-compares-both-signs", fn, false, "", "unresolved anchor: the test aSign != bSign was not found")
		} else {
			ok, n := true, 0
			for _, b := range fn.Blocks {
				iff, isIf := b.Instrs[len(b.Instrs)-1].(*ssa.If)
				if !isIf || !core.EdgeDominates(core.Edge{From: neq, Idx: 0}, b) {
					continue
				}
				n++
				bo, isBo := iff.Cond.(*ssa.BinOp)
				if !isBo || !isSign(bo.X) || !isSign(bo.Y) || bo.X == bo.Y {
					ok = false
				}
			}
			add("exactCompareDistances:sign-case-compares-both-signs", fn, ok && n > 0, "when the two cosines have different signs the answer is decided by comparing the signs with each other",
				"in the 'cosines have different signs' case the decision does not compare the two signs with each other: a sign is -1, 0 or +1, and testing one of them against a constant is wrong for the pairs with a zero (AX exactly 90 degrees, BX a hair more: CompareDistances answers +1 for AX < BX, and also +1 with A and B swapped)")
		}
	} else {
		add("exactCompareDistances:sign-case-compares-both-signs", nil, false, "", "unresolved anchor")
	}
	// (9) who may call the incomplete stages: triageSign and stableSign may answer Indeterminate and expensiveSign/exactSign
	// have preconditions; only the staged evaluators (which go on to the next stage) may call them. Anything else that
	// needs an orientation calls RobustSign/Sign.
	mayCall := map[string]map[string]bool{
		"triageSign":    {"s2.RobustSign": true, "(*s2.EdgeCrosser).RestartAt": true, "(*s2.EdgeCrosser).ChainCrossingSign": true},
		"stableSign":    {"s2.expensiveSign": true},
		"exactSign":     {"s2.expensiveSign": true},
		"expensiveSign": {"s2.RobustSign": true, "(*s2.EdgeCrosser).crossingSign": true},
	}
	ncall := 0
	for _, fn := range c.GeoFuncs() {
		k := 0
		core.AllInstrs(fn, func(in ssa.Instruction) {
			ci, isCall := in.(ssa.CallInstruction)
			if !isCall {
				return
			}
			f := core.StaticCallee(ci)
			if f == nil || f.Signature.Recv() != nil || f.Pkg == nil || f.Pkg.Pkg.Name() != "s2" {
				return
			}
			allowed, staged := mayCall[f.Name()]
			if !staged {
				return
			}
			ncall++
			k++
			construct := fmt.Sprintf("stage-callers:%s<-%s#%d", f.Name(), core.FuncName(fn), k)
			if allowed[core.FuncName(fn)] {
				obs = append(obs, core.Ob("R-STAGES", construct, c.Pos(in.Pos()), core.FuncName(fn), core.Discharged, "called from a staged evaluator that continues with the next stage"))
			} else {
				obs = append(obs, core.Ob("R-STAGES", construct, c.Pos(in.Pos()), core.FuncName(fn), core.Violated,
					f.Name()+" is one stage of the orientation predicate (it can answer Indeterminate, or has preconditions) and is called from outside the staged evaluators: for exactly or nearly collinear points the caller gets no sign, or a sign without the symbolic perturbation - call RobustSign"))
			}
		})
	}
	if ncall < 4 {
		add("stage-callers:anchor", nil, false, "", fmt.Sprintf("only %d calls of the stage functions found", ncall))
	}
	obs = append(obs, coincidenceShortcuts(c)...)
	return obs
}

// ---------------------------------------------------------------------------

// sosReference is the coefficient sequence of the simulation-of-simplicity expansion, in the order tested
// (see the documentation of symbolicallyPerturbedSign and S2's s2predicates.cc): the perturbations satisfy
// da.Z > da.Y > da.X > db.Z > db.Y > db.X > dc.Z > dc.Y > dc.X > 0, each infinitely smaller than any product of the
// earlier ones. bc = b x c is passed in. Terms whose coefficient is forced to zero by earlier zero tests are skipped.
var sosReference = []string{
	"bc.Z",            // da.Z
	"bc.Y",            // da.Y
	"bc.X",            // da.X
	"c.X*a.Y-c.Y*a.X", // db.Z
	"c.X",             // db.Z*da.Y
	"-c.Y",            // db.Z*da.X
	"c.Z*a.X-c.X*a.Z", // db.Y
	"c.Z",             // db.Y*da.X
	"a.X*b.Y-a.Y*b.X", // dc.Z
	"-b.X",            // dc.Z*da.Y
	"b.Y",             // dc.Z*da.X
	"a.X",             // dc.Z*db.Y
	"+1",              // dc.Z*db.Y*da.X
}

// polyOf renders a big.Float expression tree (Sub/Mul/Neg of coordinates) as a canonical polynomial string.
func polyOf(info *types.Info, e ast.Expr, names map[types.Object]string) string {
	type mono struct {
		coef int
		vars []string
	}
	var eval func(e ast.Expr) []mono
	eval = func(e ast.Expr) []mono {
		switch x := e.(type) {
		case *ast.ParenExpr:
			return eval(x.X)
		case *ast.UnaryExpr:
			if x.Op == token.SUB {
				m := eval(x.X)
				for i := range m {
					m[i].coef = -m[i].coef
				}
				return m
			}
		case *ast.SelectorExpr:
			if id, ok := x.X.(*ast.Ident); ok {
				if n, ok := names[info.Uses[id]]; ok {
					return []mono{{1, []string{n + "." + x.Sel.Name}}}
				}
			}
		case *ast.CallExpr:
			sel, ok := x.Fun.(*ast.SelectorExpr)
			if !ok {
				return nil
			}
			switch sel.Sel.Name {
			case "Sign":
				return eval(sel.X)
			case "Sub":
				if len(x.Args) == 2 {
					a, b := eval(x.Args[0]), eval(x.Args[1])
					for _, m := range b {
						a = append(a, mono{-m.coef, m.vars})
					}
					return a
				}
			case "Add":
				if len(x.Args) == 2 {
					return append(eval(x.Args[0]), eval(x.Args[1])...)
				}
			case "Mul":
				if len(x.Args) == 2 {
					a, b := eval(x.Args[0]), eval(x.Args[1])
					var out []mono
					for _, p := range a {
						for _, q := range b {
							out = append(out, mono{p.coef * q.coef, append(append([]string{}, p.vars...), q.vars...)})
						}
					}
					return out
				}
			case "Neg":
				if len(x.Args) == 1 {
					m := eval(x.Args[0])
					for i := range m {
						m[i].coef = -m[i].coef
					}
					return m
				}
			}
		}
		return nil
	}
	ms := eval(e)
	if ms == nil {
		return "?"
	}
	// canonical: sort variables within monomials, combine, sort monomials
	comb := map[string]int{}
	for _, m := range ms {
		sort.Strings(m.vars)
		comb[strings.Join(m.vars, "*")] += m.coef
	}
	var keys []string
	for k, v := range comb {
		if v != 0 {
			keys = append(keys, k)
		}
	}
	sort.Strings(keys)
	var b strings.Builder
	for _, k := range keys {
		v := comb[k]
		switch {
		case v == 1:
			b.WriteString("+" + k)
		case v == -1:
			b.WriteString("-" + k)
		default:
			fmt.Fprintf(&b, "%+d*%s", v, k)
		}
	}
	return b.String()
}

func canonRef(s string) string {
	// parse the tiny reference syntax: sum of signed products of names
	s = strings.ReplaceAll(s, " ", "")
	if s == "+1" {
		return "+1"
	}
	if !strings.HasPrefix(s, "-") && !strings.HasPrefix(s, "+") {
		s = "+" + s
	}
	comb := map[string]int{}
	i := 0
	for i < len(s) {
		sign := 1
		if s[i] == '-' {
			sign = -1
		}
		i++
		j := i
		for j < len(s) && s[j] != '+' && s[j] != '-' {
			j++
		}
		vars := strings.Split(s[i:j], "*")
		sort.Strings(vars)
		comb[strings.Join(vars, "*")] += sign
		i = j
	}
	var keys []string
	for k, v := range comb {
		if v != 0 {
			keys = append(keys, k)
		}
	}
	sort.Strings(keys)
	var b strings.Builder
	for _, k := range keys {
		if comb[k] == 1 {
			b.WriteString("+" + k)
		} else {
			b.WriteString("-" + k)
		}
	}
	return b.String()
}

// sosSequence extracts the ordered list of tested quantities from symbolicallyPerturbedSign (canonical polynomial strings).
func sosSequence(c *core.Ctx) ([]string, *types.Func, bool) {
	fn := c.LookupFunc("s2", "", "symbolicallyPerturbedSign")
	if fn == nil || c.Decl(fn) == nil {
		return nil, nil, false
	}
	decl := c.Decl(fn)
	info := c.Pkgs["s2"].TypesInfo
	names := map[types.Object]string{}
	pi := 0
	for _, f := range decl.Type.Params.List {
		for _, nm := range f.Names {
			if pi < 4 {
				names[info.Defs[nm]] = []string{"a", "b", "c", "bc"}[pi]
			}
			pi++
		}
	}
	var seq []string
	var lastAssigned ast.Expr
	for _, st := range decl.Body.List {
		switch x := st.(type) {
		case *ast.AssignStmt:
			if len(x.Rhs) == 1 {
				lastAssigned = x.Rhs[0]
			}
		case *ast.IfStmt:
			if lastAssigned != nil {
				seq = append(seq, polyOf(info, lastAssigned, names))
				lastAssigned = nil
			}
		case *ast.ReturnStmt:
			if len(x.Results) == 1 {
				if id, ok := x.Results[0].(*ast.Ident); ok && id.Name == "CounterClockwise" {
					seq = append(seq, "+1")
				} else {
					seq = append(seq, "const:"+types.ExprString(x.Results[0]))
				}
			}
		}
	}
	return seq, fn, true
}

func runSOS(c *core.Ctx) []core.Obligation {
	var obs []core.Obligation
	seq, fn, ok := sosSequence(c)
	if !ok {
		return append(obs, core.Ob("R-SOS", "anchor", "-", "", core.Violated, "unresolved anchor: symbolicallyPerturbedSign"))
	}
	decl := c.Decl(fn)
	for i, ref := range sosReference {
		construct := fmt.Sprintf("term#%02d", i+1)
		want := canonRef(ref)
		got := "<missing>"
		if i < len(seq) {
			got = seq[i]
		}
		if got == want {
			obs = append(obs, core.Ob("R-SOS", construct, c.Pos(decl.Pos()), fn.FullName(), core.Discharged, "tests the sign of "+ref))
		} else {
			obs = append(obs, core.Ob("R-SOS", construct, c.Pos(decl.Pos()), fn.FullName(), core.Violated,
				fmt.Sprintf("term %d of the perturbation expansion should be %s (canonical %s) but the code tests %s: degenerate inputs would be resolved by something other than one fixed perturbation", i+1, ref, want, got)))
		}
	}
	if len(seq) != len(sosReference) {
		obs = append(obs, core.Ob("R-SOS", "length", c.Pos(decl.Pos()), fn.FullName(), core.Violated, fmt.Sprintf("%d tested terms, %d expected", len(seq), len(sosReference))))
	}
	return obs
}

func init() {
	core.Register(&core.Rule{
		Name: "R-SOSDERIVE",
		Clause: "C02 (thorough tier): the coefficient sequence that the symbolic perturbation must test is DERIVED by computer algebra (sympy: mixed partial derivatives of the 3x3 determinant in order of " +
			"the eps^(2^k) weights of the documented perturbation order; a term is skipped when it reduces to zero modulo a Groebner basis of the coefficients already known to vanish; the sequence ends at " +
			"the first non-zero constant) and compared, polynomial by polynomial with signs, against the sequence extracted from the source. This validates both the code and the reference table of R-SOS.",
		Min:          1,
		ThoroughOnly: true,
		Run:          runSOSDerive,
	})
}

func runSOSDerive(c *core.Ctx) []core.Obligation {
	var obs []core.Obligation
	seq, fn, ok := sosSequence(c)
	if !ok {
		return append(obs, core.Ob("R-SOSDERIVE", "derivation", "-", "", core.Violated, "unresolved anchor: symbolicallyPerturbedSign"))
	}
	site := c.Pos(fn.Pos())
	for _, s := range seq {
		if s == "?" || strings.HasPrefix(s, "const:") {
			return append(obs, core.Ob("R-SOSDERIVE", "derivation", site, fn.FullName(), core.Undecided, "a tested quantity could not be read as a polynomial: "+s))
		}
	}
	tmp, err := os.CreateTemp("", "sos-*.json")
	if err != nil {
		return append(obs, core.Ob("R-SOSDERIVE", "derivation", site, fn.FullName(), core.Undecided, err.Error()))
	}
	defer os.Remove(tmp.Name())
	b, _ := json.Marshal(seq)
	tmp.Write(b)
	tmp.Close()
	script := filepath.Join(c.VerifDir, "sos", "derive_sos.py")
	out, err := exec.Command("python3-vt", script, tmp.Name()).Output()
	if err != nil {
		return append(obs, core.Ob("R-SOSDERIVE", "derivation", site, fn.FullName(), core.Undecided, "the sympy derivation could not be run (python3-vt with sympy is required in the thorough tier): "+err.Error()))
	}
	var res struct {
		OK      bool     `json:"ok"`
		Derived []string `json:"derived"`
		Terms   []string `json:"derived_terms"`
		Diff    string   `json:"diff"`
	}
	if err := json.Unmarshal(out, &res); err != nil {
		return append(obs, core.Ob("R-SOSDERIVE", "derivation", site, fn.FullName(), core.Undecided, "unreadable output of the derivation: "+err.Error()))
	}
	if res.OK {
		obs = append(obs, core.Ob("R-SOSDERIVE", "derivation", site, fn.FullName(), core.Discharged,
			fmt.Sprintf("the %d tested quantities equal, with signs, the coefficients derived for the terms %s", len(res.Derived), strings.Join(res.Terms, ", "))))
	} else {
		obs = append(obs, core.Ob("R-SOSDERIVE", "derivation", site, fn.FullName(), core.Violated,
			"the source does not test the coefficient sequence of the documented perturbation: "+res.Diff))
	}
	return obs
}
