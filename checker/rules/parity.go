package rules

import (
	"fmt"
	"go/token"
	"go/types"
	"strings"

	"golang.org/x/tools/go/ssa"

	"verif/checker/core"
)

func init() {
	core.Register(&core.Rule{
		Name: "R-PARITY",
		Clause: "C04/C06 'containment equals the parity of exact edge crossings from a fixed reference point, whichever evaluation path is taken': in each of the six evaluators the accumulator starts from the " +
			"reference bit (originInside, containsCenter, ReferencePoint().Contained, or false for the XOR over a polygon's loops), is only ever updated as acc = acc != <crossing predicate>, is what the " +
			"function returns, chain evaluators restart the crosser whenever the next edge is not the successor of the previous one, brute-force loops visit every edge including the closing one, and an early " +
			"constant answer inside the crossing loop is taken only when the query point equals an edge endpoint.",
		Min: 14,
		Run: runParity,
	})
	core.Register(&core.Rule{
		Name: "R-INITORDER",
		Clause: "C04 'before or after the index exists': loop initialisation keeps the order the containment pre-check relies on - the origin bit is assigned before the first ContainsPoint that reads it, " +
			"and the bound is computed (initBound) before the loop is added to its index, in every initialiser and decoder; cell loops take their vertices from Cell.Vertex.",
		Min: 4,
		Run: runInitOrder,
	})
}

var parityEvaluators = []struct {
	recv, name string
	refBits    []string // acceptable reference bits (field names) or "false"
	chain      bool     // uses RestartAt with a successor test
}{
	{"Loop", "bruteForceContainsPoint", []string{"originInside"}, false},
	{"Loop", "iteratorContainsPoint", []string{"containsCenter"}, true},
	{"Polygon", "ContainsPoint", []string{"false"}, false},
	{"Polygon", "iteratorContainsPoint", []string{"containsCenter"}, false},
	{"ContainsPointQuery", "shapeContains", []string{"containsCenter"}, false},
	{"", "containsBruteForce", []string{"Contained"}, false},
}

var crossingPredicates = map[string]bool{
	"EdgeOrVertexChainCrossing": true, "EdgeOrVertexCrossing": true, "bruteForceContainsPoint": true,
}

func runParity(c *core.Ctx) []core.Obligation {
	var obs []core.Obligation
	crossK, _ := constOf(c, "Cross")
	for _, ev := range parityEvaluators {
		fn := c.Fn("s2", ev.recv, ev.name)
		name := ev.name
		if ev.recv != "" {
			name = ev.recv + "." + ev.name
		}
		if fn == nil {
			obs = append(obs, core.Ob("R-PARITY", name+":anchor", "-", "", core.Violated, "unresolved anchor"))
			continue
		}
		site := c.Pos(fn.Pos())
		fname := core.FuncName(fn)
		// accumulators
		type acc struct {
			phi  *ssa.Phi
			upd  []*ssa.BinOp
			init []ssa.Value
		}
		var accs []*acc
		core.AllInstrs(fn, func(in ssa.Instruction) {
			phi, ok := in.(*ssa.Phi)
			if !ok {
				return
			}
			if b, ok := phi.Type().Underlying().(*types.Basic); !ok || b.Kind() != types.Bool {
				return
			}
			a := &acc{phi: phi}
			for _, e := range phi.Edges {
				if bo, ok := e.(*ssa.BinOp); ok && bo.Op == token.NEQ && (bo.X == ssa.Value(phi) || bo.Y == ssa.Value(phi)) {
					a.upd = append(a.upd, bo)
				} else if e == ssa.Value(phi) {
					// unchanged on this path (continue)
				} else {
					a.init = append(a.init, e)
				}
			}
			if len(a.upd) > 0 {
				accs = append(accs, a)
			}
		})
		if len(accs) == 0 {
			obs = append(obs, core.Ob("R-PARITY", name+":accumulator", site, fname, core.Violated,
				"no accumulator of the form acc = acc != <crossing> found: containment is no longer computed as a parity of crossings"))
			continue
		}
		for i, a := range accs {
			tag := ""
			if len(accs) > 1 {
				tag = fmt.Sprintf("#%d", i+1)
			}
			// update predicate
			okUpd := true
			why := ""
			for _, bo := range a.upd {
				pred := bo.Y
				if bo.Y == ssa.Value(a.phi) {
					pred = bo.X
				}
				switch p := pred.(type) {
				case *ssa.Call:
					f := core.StaticCallee(p)
					if f == nil || !crossingPredicates[f.Name()] {
						okUpd, why = false, "the accumulator is toggled by something that is not a crossing test"
					}
				case *ssa.BinOp:
					k, isK := core.ConstInt(p.Y)
					if p.Op != token.EQL || !isK || k != crossK {
						okUpd, why = false, "the accumulator is toggled by a comparison other than sign == Cross"
					} else if call, isCall := p.X.(*ssa.Call); isCall {
						if f := core.StaticCallee(call); f != nil && (f.Name() == "CrossingSign" || f.Name() == "ChainCrossingSign") {
							okUpd, why = false, "the accumulator is toggled by "+f.Name()+"(...) == Cross directly: MaybeCross (the test segment shares a vertex with the edge) is counted as no crossing instead of being resolved by VertexCrossing, so the parity flips when an edge endpoint lies on the reference segment's endpoint"
						}
					}
				default:
					okUpd, why = false, fmt.Sprintf("the accumulator is toggled by an unexpected value (%T)", pred)
				}
			}
			if okUpd {
				obs = append(obs, core.Ob("R-PARITY", name+":update"+tag, site, fname, core.Discharged, "acc = acc != <exact crossing test>"))
			} else {
				obs = append(obs, core.Ob("R-PARITY", name+":update"+tag, site, fname, core.Violated, why))
			}
			// initial value
			okInit := len(a.init) > 0
			whyInit := "no initial value"
			for _, iv := range a.init {
				good := false
				if k, isK := iv.(*ssa.Const); isK && k.Value != nil && k.Value.String() == "false" {
					for _, r := range ev.refBits {
						if r == "false" {
							good = true
						}
					}
				}
				if fr, isF := core.AsFieldLoad(iv); isF {
					for _, r := range ev.refBits {
						if fr.Name == r {
							good = true
						}
					}
				}
				if !good {
					okInit, whyInit = false, "the parity does not start from the reference bit ("+strings.Join(ev.refBits, "/")+")"
				}
			}
			if okInit {
				obs = append(obs, core.Ob("R-PARITY", name+":init"+tag, site, fname, core.Discharged, "starts from "+strings.Join(ev.refBits, "/")))
			} else {
				obs = append(obs, core.Ob("R-PARITY", name+":init"+tag, site, fname, core.Violated, whyInit))
			}
			// returned
			returned := false
			core.AllInstrs(fn, func(in ssa.Instruction) {
				if r, ok := in.(*ssa.Return); ok && len(r.Results) == 1 {
					v := r.Results[0]
					if v == ssa.Value(a.phi) {
						returned = true
					}
					if p2, ok := v.(*ssa.Phi); ok {
						for _, e := range p2.Edges {
							if e == ssa.Value(a.phi) {
								returned = true
							}
						}
					}
				}
			})
			if returned {
				obs = append(obs, core.Ob("R-PARITY", name+":returned"+tag, site, fname, core.Discharged, "the accumulated parity is the value returned"))
			} else {
				obs = append(obs, core.Ob("R-PARITY", name+":returned"+tag, site, fname, core.Violated, "the accumulated parity is not what the function returns"))
			}
		}
		// chain evaluators: RestartAt under `ai != aiPrev+1`
		if ev.chain {
			ok := restartGuarded(fn)
			if ok {
				obs = append(obs, core.Ob("R-PARITY", name+":restart", site, fname, core.Discharged, "the crosser is restarted exactly when the next edge id is not previous+1"))
			} else {
				obs = append(obs, core.Ob("R-PARITY", name+":restart", site, fname, core.Violated, "RestartAt is not guarded by `edge != previous+1`: a gap in the clipped edge list would be bridged by a phantom edge"))
			}
		}
	}
	// the same chain discipline in the loop-relation crosser (C07): edgeCrossesCell walks the clipped edges of a cell
	// with ChainCrossingSign and must restart whenever the next edge id is not the previous one plus one
	if fn := c.Fn("s2", "loopCrosser", "edgeCrossesCell"); fn != nil {
		if restartGuarded(fn) {
			obs = append(obs, core.Ob("R-PARITY", "loopCrosser.edgeCrossesCell:restart", c.Pos(fn.Pos()), core.FuncName(fn), core.Discharged, "the crosser is restarted exactly when the next edge id is not previous+1"))
		} else {
			obs = append(obs, core.Ob("R-PARITY", "loopCrosser.edgeCrossesCell:restart", c.Pos(fn.Pos()), core.FuncName(fn), core.Violated,
				"RestartAt is not guarded by `edge != previous+1`: when the edge ids of successive cells are not ascending the chain continues from the wrong vertex and a chord between two unrelated vertices is tested instead of the loop's edge"))
		}
	} else {
		obs = append(obs, core.Ob("R-PARITY", "loopCrosser.edgeCrossesCell:restart", "-", "", core.Violated, "unresolved anchor"))
	}
	// brute force loop visits every edge including the closing one: induction from 1 with <= len, or from 0 with < len
	if fn := c.Fn("s2", "Loop", "bruteForceContainsPoint"); fn != nil {
		ok, why := false, "loop bound not recognised"
		for h := range loopsOf(fn) {
			iff, isIf := h.Instrs[len(h.Instrs)-1].(*ssa.If)
			if !isIf {
				continue
			}
			bo, isBo := iff.Cond.(*ssa.BinOp)
			if !isBo {
				continue
			}
			phi, isPhi := bo.X.(*ssa.Phi)
			if !isPhi {
				continue
			}
			var start int64 = -1
			for _, e := range phi.Edges {
				if k, isK := core.ConstInt(e); isK {
					start = k
				}
			}
			isLen := false
			if call, isCall := bo.Y.(*ssa.Call); isCall {
				if b, isB := call.Call.Value.(*ssa.Builtin); isB && b.Name() == "len" {
					isLen = true
				}
			}
			switch {
			case isLen && start == 1 && bo.Op == token.LEQ, isLen && start == 0 && bo.Op == token.LSS:
				ok = true
			case isLen:
				why = fmt.Sprintf("the loop runs from %d while i %s len(vertices): the closing edge (or the first edge) is not counted", start, bo.Op)
			}
		}
		if ok {
			obs = append(obs, core.Ob("R-PARITY", "Loop.bruteForceContainsPoint:all-edges", c.Pos(fn.Pos()), core.FuncName(fn), core.Discharged, "the crossing loop covers all len(vertices) edges, closing edge included"))
		} else {
			obs = append(obs, core.Ob("R-PARITY", "Loop.bruteForceContainsPoint:all-edges", c.Pos(fn.Pos()), core.FuncName(fn), core.Violated, why))
		}
	}
	// shapeContains: early constant returns inside the crossing loop only under a point equality with the query point
	if fn := c.Fn("s2", "ContainsPointQuery", "shapeContains"); fn != nil {
		// the crossing loop: the loop containing the CrossingSign call
		var body map[*ssa.BasicBlock]bool
		core.AllInstrs(fn, func(in ssa.Instruction) {
			if ci, ok := in.(ssa.CallInstruction); ok {
				if f := core.StaticCallee(ci); f != nil && f.Name() == "CrossingSign" {
					_, body = loopContaining(fn, in.Block())
				}
			}
		})
		ok := body != nil
		why := "crossing loop not found"
		if ok {
			// point equalities with parameter p
			var eq []core.Edge
			for _, b := range fn.Blocks {
				iff, isIf := b.Instrs[len(b.Instrs)-1].(*ssa.If)
				if !isIf {
					continue
				}
				bo, isBo := iff.Cond.(*ssa.BinOp)
				if !isBo || bo.Op != token.EQL || !core.IsNamed(bo.X.Type(), "s2", "Point") {
					continue
				}
				isP := func(v ssa.Value) bool {
					if p, ok := v.(*ssa.Parameter); ok && p.Name() == "p" {
						return true
					}
					if ld, ok := v.(*ssa.UnOp); ok && ld.Op == token.MUL {
						if a, ok := ld.X.(*ssa.Alloc); ok && a.Comment == "p" {
							return true
						}
					}
					return false
				}
				if isP(bo.X) || isP(bo.Y) {
					eq = append(eq, core.Edge{From: b, Idx: 0})
				}
			}
			n := 0
			for _, b := range fn.Blocks {
				if _, isRet := b.Instrs[len(b.Instrs)-1].(*ssa.Return); !isRet {
					continue
				}
				// a return "inside" the loop: its only predecessors are loop blocks and it is not the loop exit path
				inLoop := false
				for _, p := range b.Preds {
					if body[p] {
						inLoop = true
					}
				}
				if !inLoop || body[b] {
					continue
				}
				// skip the normal exit (reached from the loop header)
				fromHeaderOnly := true
				h, _ := loopContaining(fn, b.Preds[0])
				for _, p := range b.Preds {
					if p != h {
						fromHeaderOnly = false
					}
				}
				if fromHeaderOnly {
					continue
				}
				n++
				dom := len(eq) > 0 && !core.ReachableAvoiding(fn.Blocks[0], b, eq, nil)
				if !dom {
					ok, why = false, "an early answer is returned from inside the crossing loop although the query point was not found equal to an endpoint of the edge (a MaybeCross can also come from the cell centre being a vertex)"
				}
			}
			if n == 0 && ok {
				// the vertex-model shortcut is gone: acceptable (parity alone is correct for the semi-open model) only if no model constant is returned
			}
		}
		if ok {
			obs = append(obs, core.Ob("R-PARITY", "ContainsPointQuery.shapeContains:vertex-shortcut", c.Pos(fn.Pos()), core.FuncName(fn), core.Discharged, "the open/closed-model shortcut is taken only when the query point equals an endpoint of the current edge"))
		} else {
			obs = append(obs, core.Ob("R-PARITY", "ContainsPointQuery.shapeContains:vertex-shortcut", c.Pos(fn.Pos()), core.FuncName(fn), core.Violated, why))
		}
	}
	obs = append(obs, vertexModelSites(c)...)
	obs = append(obs, referencePointParity(c))
	obs = append(obs, edgeIDAccessor(c)...)
	return obs
}

// referencePointParity (after round-6 seed C04-r6m1, `containsOrigin != l.ContainsOrigin()` turned into `||`):
// Polygon.ReferencePoint tells the index builder whether the fixed origin is inside the polygon, and the origin is
// inside exactly when an odd number of loops contain it. The accumulated flag therefore starts false and is
// updated in the loop over p.loops as flag = flag != l.ContainsOrigin() (or ^) and nothing else.
func referencePointParity(c *core.Ctx) core.Obligation {
	const key = "Polygon.ReferencePoint:xor-over-loops"
	fn := c.Fn("s2", "Polygon", "ReferencePoint")
	if fn == nil {
		return core.Ob("R-PARITY", key, "-", "", core.Violated, "unresolved anchor")
	}
	var arg ssa.Value
	core.AllInstrs(fn, func(in ssa.Instruction) {
		if call, ok := in.(*ssa.Call); ok {
			if sc := core.StaticCallee(call); sc != nil && sc.Name() == "OriginReferencePoint" && len(call.Call.Args) == 1 {
				arg = call.Call.Args[0]
			}
		}
	})
	site := c.Pos(fn.Pos())
	phi, ok := arg.(*ssa.Phi)
	if !ok {
		return core.Ob("R-PARITY", key, site, core.FuncName(fn), core.Violated, "the value given to OriginReferencePoint is not a flag accumulated over the loops of the polygon")
	}
	good, inits := 0, 0
	for _, e := range phi.Edges {
		if cst, ok := e.(*ssa.Const); ok {
			if cst.Value != nil && cst.Value.String() == "false" {
				inits++
				continue
			}
			return core.Ob("R-PARITY", key, site, core.FuncName(fn), core.Violated, "the origin flag does not start from false")
		}
		if e == ssa.Value(phi) {
			continue // the path of a loop that does not contain the origin: unchanged
		}
		if u, isU := e.(*ssa.UnOp); isU && u.Op == token.NOT && u.X == ssa.Value(phi) {
			// the toggle form: if l.ContainsOrigin() { flag = !flag }
			byOrigin := false
			for _, b := range fn.Blocks {
				if ifi, isIf := b.Instrs[len(b.Instrs)-1].(*ssa.If); isIf {
					if call, isC := ifi.Cond.(*ssa.Call); isC && core.StaticCallee(call) != nil && core.StaticCallee(call).Name() == "ContainsOrigin" {
						if core.EdgeDominates(core.Edge{From: b, Idx: 0}, u.Block()) {
							byOrigin = true
						}
					}
				}
			}
			if byOrigin {
				good++
				continue
			}
		}
		// the toggle form: if l.ContainsOrigin() { flag = !flag } shows up as phi(flag, !flag) one level down
		if inner, isPhi := e.(*ssa.Phi); isPhi && len(inner.Edges) == 2 {
			toggle := func(a, b ssa.Value) bool {
				u, isU := b.(*ssa.UnOp)
				return a == ssa.Value(phi) && isU && u.Op == token.NOT && u.X == ssa.Value(phi)
			}
			if toggle(inner.Edges[0], inner.Edges[1]) || toggle(inner.Edges[1], inner.Edges[0]) {
				// ... and the toggle is chosen by the loop's ContainsOrigin()
				byOrigin := false
				for _, pred := range inner.Block().Preds {
					for _, pp := range append([]*ssa.BasicBlock{pred}, pred.Preds...) {
						if ifi, isIf := pp.Instrs[len(pp.Instrs)-1].(*ssa.If); isIf {
							if call, isC := ifi.Cond.(*ssa.Call); isC && core.StaticCallee(call) != nil && core.StaticCallee(call).Name() == "ContainsOrigin" {
								byOrigin = true
							}
						}
					}
				}
				if byOrigin {
					good++
					continue
				}
			}
		}
		bo, ok := e.(*ssa.BinOp)
		if !ok || (bo.Op != token.NEQ && bo.Op != token.XOR) {
			return core.Ob("R-PARITY", key, site, core.FuncName(fn), core.Violated,
				"the origin flag is not updated as flag != l.ContainsOrigin(): the origin is inside the polygon exactly when an ODD number of loops contain it (a shell and its hole both containing the origin leave it outside); any other combination gives the index builder the wrong starting state, and every indexed ContainsPoint answer is inverted")
		}
		isCall := func(v ssa.Value) bool {
			call, ok := v.(*ssa.Call)
			if !ok {
				return false
			}
			sc := core.StaticCallee(call)
			return sc != nil && sc.Name() == "ContainsOrigin"
		}
		if (bo.X == phi && isCall(bo.Y)) || (bo.Y == phi && isCall(bo.X)) {
			good++
			continue
		}
		return core.Ob("R-PARITY", key, site, core.FuncName(fn), core.Violated, "the origin flag is combined with something other than the loop's ContainsOrigin()")
	}
	if good != 1 || inits != 1 {
		return core.Ob("R-PARITY", key, site, core.FuncName(fn), core.Violated, "unexpected shape of the origin-flag accumulation")
	}
	return core.Ob("R-PARITY", key, site, core.FuncName(fn), core.Discharged, "starts false, toggled once per loop that contains the origin")
}

// vertexModelSites: wherever the library itself answers "is this point inside" through a ContainsPointQuery (the
// indexed path of Polygon.ContainsPoint, the containing-shapes visitors of the distance targets, ShapeIndexRegion)
// it uses the semi-open vertex model, the one the brute-force paths and Loop.ContainsPoint implement: with any
// other model the indexed and the brute-force answer differ at a vertex.
func vertexModelSites(c *core.Ctx) []core.Obligation {
	var obs []core.Obligation
	semi, okK := constOf(c, "VertexModelSemiOpen")
	ctor := c.Fn("s2", "", "NewContainsPointQuery")
	if !okK || ctor == nil {
		return append(obs, core.Ob("R-PARITY", "vertex-model:anchor", "-", "", core.Violated, "unresolved anchor: NewContainsPointQuery / VertexModelSemiOpen"))
	}
	total := 0
	for _, fn := range c.GeoFuncs() {
		n := 0
		core.AllInstrs(fn, func(in ssa.Instruction) {
			ci, ok := in.(ssa.CallInstruction)
			if !ok || core.StaticCallee(ci) != ctor || len(ci.Common().Args) != 2 {
				return
			}
			n++
			total++
			construct := fmt.Sprintf("vertex-model:%s#%d", core.FuncName(fn), n)
			k, isK := core.ConstInt(ci.Common().Args[1])
			switch {
			case !isK:
				o := core.Ob("R-PARITY", construct, c.Pos(in.Pos()), core.FuncName(fn), core.Discharged, "the model is chosen by the caller")
				o.Trivial = true
				obs = append(obs, o)
			case k == semi:
				obs = append(obs, core.Ob("R-PARITY", construct, c.Pos(in.Pos()), core.FuncName(fn), core.Discharged, "semi-open vertex model, as in the brute-force evaluators"))
			default:
				obs = append(obs, core.Ob("R-PARITY", construct, c.Pos(in.Pos()), core.FuncName(fn), core.Violated,
					"this internal containment test does not use VertexModelSemiOpen: at a point equal to a vertex the indexed answer differs from the brute-force evaluators and from Loop.ContainsPoint (a vertex is contained by neither a polygon nor its complement, or by both)"))
			}
		})
	}
	if total < 4 {
		obs = append(obs, core.Ob("R-PARITY", "vertex-model:anchor", "-", "", core.Violated, fmt.Sprintf("only %d internal ContainsPointQuery constructions found, 4 expected", total)))
	}
	return obs
}

// ---------------------------------------------------------------------------

func runInitOrder(c *core.Ctx) []core.Obligation {
	var obs []core.Obligation
	initBound := c.Fn("s2", "Loop", "initBound")
	add := c.Fn("s2", "ShapeIndex", "Add")
	if initBound == nil || add == nil {
		return append(obs, core.Ob("R-INITORDER", "anchor", "-", "", core.Violated, "unresolved anchor: Loop.initBound / ShapeIndex.Add"))
	}
	// every Loop method that both computes the bound and adds the loop to its index does so in that order
	n := 0
	for _, fn := range c.GeoFuncs() {
		if fn.Signature.Recv() == nil || !core.IsNamed(fn.Signature.Recv().Type(), "s2", "Loop") {
			continue
		}
		var bounds, adds []ssa.Instruction
		core.AllInstrs(fn, func(in ssa.Instruction) {
			if ci, ok := in.(ssa.CallInstruction); ok {
				switch core.StaticCallee(ci) {
				case initBound:
					bounds = append(bounds, in)
				case add:
					adds = append(adds, in)
				}
			}
		})
		if len(bounds) == 0 || len(adds) == 0 {
			continue
		}
		n++
		construct := "bound-before-index:" + core.FuncName(fn)
		bad := ""
		for _, a := range adds {
			for _, b := range bounds {
				after := a.Block() == b.Block() && core.InstrBlockIndex(a) < core.InstrBlockIndex(b) ||
					a.Block() != b.Block() && core.ReachableAvoiding(a.Block(), b.Block(), nil, nil)
				if after {
					bad = fmt.Sprintf("initBound (at %s) can run after the loop was added to its index (at %s): while the index is stale ContainsPoint rejects through the still-unset bound, so the pole tests of initBound see 'outside'", c.Pos(b.Pos()), c.Pos(a.Pos()))
				}
			}
		}
		if bad != "" {
			obs = append(obs, core.Ob("R-INITORDER", construct, c.Pos(fn.Pos()), core.FuncName(fn), core.Violated, bad))
		} else {
			obs = append(obs, core.Ob("R-INITORDER", construct, c.Pos(fn.Pos()), core.FuncName(fn), core.Discharged, "the bound is computed before the loop is added to its index on every path"))
		}
	}
	if n < 2 {
		obs = append(obs, core.Ob("R-INITORDER", "bound-before-index:count", "-", "", core.Violated, fmt.Sprintf("only %d initialisers found that compute the bound and index the loop, 2 expected", n)))
	}
	// originInside assigned before the ContainsPoint call in initOriginAndBound
	if fn := c.Fn("s2", "Loop", "initOriginAndBound"); fn != nil {
		var cp ssa.Instruction
		core.AllInstrs(fn, func(in ssa.Instruction) {
			if ci, ok := in.(ssa.CallInstruction); ok {
				if f := core.StaticCallee(ci); f != nil && f.Name() == "ContainsPoint" {
					cp = in
				}
			}
		})
		ok := false
		if cp != nil {
			core.AllInstrs(fn, func(in ssa.Instruction) {
				if st, isSt := in.(*ssa.Store); isSt {
					if fr, isF := core.AsFieldAddr(st.Addr); isF && fr.Name == "originInside" {
						if in.Block() == cp.Block() && core.InstrBlockIndex(in) < core.InstrBlockIndex(cp) || in.Block() != cp.Block() && in.Block().Dominates(cp.Block()) {
							ok = true
						}
					}
				}
			})
		}
		if ok {
			obs = append(obs, core.Ob("R-INITORDER", "origin-bit-before-use:initOriginAndBound", c.Pos(fn.Pos()), core.FuncName(fn), core.Discharged, "originInside is assigned before the ContainsPoint call that reads it"))
		} else {
			obs = append(obs, core.Ob("R-INITORDER", "origin-bit-before-use:initOriginAndBound", c.Pos(fn.Pos()), core.FuncName(fn), core.Violated, "ContainsPoint is called before originInside has been given its provisional value"))
		}
	} else {
		obs = append(obs, core.Ob("R-INITORDER", "origin-bit-before-use:initOriginAndBound", "-", "", core.Violated, "unresolved anchor"))
	}
	// LoopFromCell takes its four vertices from Cell.Vertex(0..3)
	if fn := c.Fn("s2", "", "LoopFromCell"); fn != nil {
		ks := map[int64]bool{}
		core.AllInstrs(fn, func(in ssa.Instruction) {
			if call, ok := in.(*ssa.Call); ok {
				if f := core.StaticCallee(call); f != nil && f.Name() == "Vertex" && f.Signature.Recv() != nil && core.IsNamed(f.Signature.Recv().Type(), "s2", "Cell") {
					if k, isK := core.ConstInt(call.Call.Args[1]); isK {
						ks[k] = true
					}
				}
			}
		})
		if len(ks) == 4 && ks[0] && ks[1] && ks[2] && ks[3] {
			obs = append(obs, core.Ob("R-INITORDER", "cell-loop-vertices:LoopFromCell", c.Pos(fn.Pos()), core.FuncName(fn), core.Discharged, "vertices are Cell.Vertex(0..3): neighbouring cell loops share bit-identical vertices"))
		} else {
			obs = append(obs, core.Ob("R-INITORDER", "cell-loop-vertices:LoopFromCell", c.Pos(fn.Pos()), core.FuncName(fn), core.Violated, "the cell loop is not built from Cell.Vertex(0), (1), (2), (3)"))
		}
	}
	return obs
}

// restartGuarded: some RestartAt call of fn sits on the true edge of a branch `x != y+1`.
func restartGuarded(fn *ssa.Function) bool {
	ok := false
	core.AllInstrs(fn, func(in ssa.Instruction) {
		ci, isCall := in.(ssa.CallInstruction)
		if !isCall {
			return
		}
		if f := core.StaticCallee(ci); f == nil || f.Name() != "RestartAt" {
			return
		}
		for _, b := range fn.Blocks {
			iff, isIf := b.Instrs[len(b.Instrs)-1].(*ssa.If)
			if !isIf {
				continue
			}
			bo, isBo := iff.Cond.(*ssa.BinOp)
			if !isBo || (bo.Op != token.NEQ && bo.Op != token.EQL) {
				continue
			}
			edgeIdx := 0 // x != y+1: restart on the true edge; x == y+1: on the false edge
			if bo.Op == token.EQL {
				edgeIdx = 1
			}
			plus1 := func(v ssa.Value) bool {
				a, isA := v.(*ssa.BinOp)
				if !isA || a.Op != token.ADD {
					return false
				}
				k, isK := core.ConstInt(a.Y)
				return isK && k == 1
			}
			if (plus1(bo.X) || plus1(bo.Y)) && core.EdgeDominates(core.Edge{From: b, Idx: edgeIdx}, in.Block()) {
				ok = true
			}
		}
	})
	return ok
}

// edgeIDAccessor (after round-6 seed C05-r6m3, iteratorContainsPoint switched to OrientedVertex): a loop's own index
// is built from Loop.Edge(i), which reads its endpoints with one accessor. The edge ids stored in the index cells mean
// "edge i as Loop.Edge enumerates it", so every function that walks the clipped edge ids of a loop's own index must
// read the endpoints with the same accessor; for a hole (odd depth) the other accessor yields mirror-image edges.
func edgeIDAccessor(c *core.Ctx) []core.Obligation {
	const rule = "R-PARITY"
	edge := c.Fn("s2", "Loop", "Edge")
	if edge == nil {
		return []core.Obligation{core.Ob(rule, "edge-id-accessor:anchor", "-", "", core.Violated, "unresolved anchor (*Loop).Edge")}
	}
	isVertexAccessor := func(f *ssa.Function) bool {
		if f == nil || f.Signature.Recv() == nil || !core.IsNamed(f.Signature.Recv().Type(), "s2", "Loop") {
			return false
		}
		sig := f.Signature
		if sig.Params().Len() != 1 || sig.Results().Len() != 1 || !core.IsNamed(sig.Results().At(0).Type(), "s2", "Point") {
			return false
		}
		b, ok := sig.Params().At(0).Type().Underlying().(*types.Basic)
		return ok && b.Kind() == types.Int
	}
	accessors := map[string]bool{}
	core.AllInstrs(edge, func(in ssa.Instruction) {
		if call, ok := in.(*ssa.Call); ok {
			if f := core.StaticCallee(call); isVertexAccessor(f) {
				accessors[f.Name()] = true
			}
		}
	})
	if len(accessors) != 1 {
		return []core.Obligation{core.Ob(rule, "edge-id-accessor:anchor", c.Pos(edge.Pos()), core.FuncName(edge), core.Violated, "unresolved anchor: (*Loop).Edge does not read its endpoints through exactly one vertex accessor")}
	}
	var acc string
	for k := range accessors {
		acc = k
	}
	var obs []core.Obligation
	sites := 0
	for _, fn := range c.GeoFuncs() {
		// only the loop's own walkers: methods of Loop and of loopCrosser
		recv := fn.Signature.Recv()
		if recv == nil || !(core.IsNamed(recv.Type(), "s2", "Loop") || core.IsNamed(recv.Type(), "s2", "loopCrosser")) {
			continue
		}
		walks := false
		core.AllInstrs(fn, func(in ssa.Instruction) {
			if fa, ok := in.(*ssa.FieldAddr); ok {
				if fr, ok := core.AsFieldAddr(fa); ok && fr.Name == "edges" && fr.Struct != nil && fr.Struct.Obj().Name() == "clippedShape" {
					walks = true
				}
			}
			if f, ok := in.(*ssa.Field); ok {
				if fr, ok := core.AsFieldLoad(f); ok && fr.Name == "edges" && fr.Struct != nil && fr.Struct.Obj().Name() == "clippedShape" {
					walks = true
				}
			}
		})
		if !walks {
			continue
		}
		n, bad := 0, ""
		core.AllInstrs(fn, func(in ssa.Instruction) {
			call, ok := in.(*ssa.Call)
			if !ok {
				return
			}
			f := core.StaticCallee(call)
			if !isVertexAccessor(f) {
				return
			}
			n++
			if f.Name() != acc && bad == "" {
				bad = fmt.Sprintf("%s reads an endpoint with %s at %s", core.FuncName(fn), f.Name(), c.Pos(call.Pos()))
			}
		})
		if n == 0 {
			continue
		}
		sites += n
		key := "edge-id-accessor:" + core.FuncName(fn)
		if bad != "" {
			obs = append(obs, core.Ob(rule, key, c.Pos(fn.Pos()), core.FuncName(fn), core.Violated,
				bad+", but the edge ids in the loop's index are positions in the enumeration of (*Loop).Edge, which uses "+acc+": for a loop of odd depth (a polygon hole) the two accessors run in opposite directions, so the crossing count is taken against mirror-image edges and containment of the hole's interior is wrong"))
		} else {
			obs = append(obs, core.Ob(rule, key, c.Pos(fn.Pos()), core.FuncName(fn), core.Discharged, fmt.Sprintf("%d endpoint reads, all through %s like (*Loop).Edge", n, acc)))
		}
	}
	if sites < 6 {
		obs = append(obs, core.Ob(rule, "edge-id-accessor:anchor", "-", "", core.Violated, fmt.Sprintf("unresolved anchor: only %d endpoint reads in walkers of clipped edge ids, 6 expected", sites)))
	}
	return obs
}
