package rules

import (
	"fmt"
	"go/ast"
	"go/token"
	"go/types"
	"strings"

	"verif/checker/core"
)

// R-RENAME: inconsistent renaming in cloned statements (the "forgot to rename one occurrence" slip), found while
// evaluating narrow claims for C16/C17 (exploratory seed: compareEdges canonicalised the second edge with
// b0.Cmp(a1.Vector)).

func init() {
	core.Register(&core.Rule{
		Name: "R-RENAME",
		Clause: "several properties: two neighbouring statements (or neighbouring if / case clauses) that are clones of one another up to a renaming of identifiers use ONE renaming: if an " +
			"identifier x of the first is replaced by y at two or more places of the second but left as x at another, the clone was edited incompletely and the second statement mixes the " +
			"operands of the two cases. Only statements with at least four identifier occurrences and a non-trivial renaming are considered. Reported under every property that anchors the file.",
		Min: 1,
		Run: runRename,
	})
}

type rnTok struct {
	shape string // token class
	name  string // identifier name ("" for non-identifiers)
	pos   token.Pos
}

func rnTokens(info *types.Info, n ast.Node) []rnTok {
	var out []rnTok
	ast.Inspect(n, func(x ast.Node) bool {
		switch y := x.(type) {
		case nil:
			return false
		case *ast.Ident:
			// only local variables and parameters take part in the renaming; everything else is shape
			o := info.Uses[y]
			if o == nil {
				o = info.Defs[y]
			}
			if v, ok := o.(*types.Var); ok && !v.IsField() && v.Pkg() != nil && v.Parent() != v.Pkg().Scope() {
				out = append(out, rnTok{"var", y.Name, y.Pos()})
			} else {
				out = append(out, rnTok{"id:" + y.Name, "", y.Pos()})
			}
			return false
		case *ast.BasicLit:
			out = append(out, rnTok{"lit:" + y.Value, "", y.Pos()})
		case *ast.BinaryExpr:
			out = append(out, rnTok{"bin:" + y.Op.String(), "", y.Pos()})
		case *ast.UnaryExpr:
			out = append(out, rnTok{"un:" + y.Op.String(), "", y.Pos()})
		case *ast.AssignStmt:
			out = append(out, rnTok{"as:" + y.Tok.String(), "", y.Pos()})
		case *ast.FuncLit:
			out = append(out, rnTok{"funclit", "", y.Pos()})
			return false
		case *ast.ParenExpr:
		default:
			out = append(out, rnTok{fmt.Sprintf("%T", x), "", x.Pos()})
		}
		return true
	})
	return out
}

// inconsistent returns a description when b is a clone of a under a renaming that is applied inconsistently.
func rnInconsistent(a, b []rnTok) (string, token.Pos) {
	if len(a) != len(b) || len(a) == 0 {
		return "", token.NoPos
	}
	nvars := 0
	for i := range a {
		if a[i].shape != b[i].shape {
			return "", token.NoPos
		}
		if a[i].shape == "var" {
			nvars++
		}
	}
	if nvars < 4 {
		return "", token.NoPos
	}
	// how often x (in a) maps to each name (in b)
	maps := map[string]map[string]int{}
	for i := range a {
		if a[i].shape != "var" {
			continue
		}
		if maps[a[i].name] == nil {
			maps[a[i].name] = map[string]int{}
		}
		maps[a[i].name][b[i].name]++
	}
	renamed := false
	for x, m := range maps {
		for y := range m {
			if y != x {
				renamed = true
			}
		}
	}
	if !renamed {
		return "", token.NoPos
	}
	// role letters: a0 -> b0 and a1 -> b1 say "the a-edge becomes the b-edge"; then every other name of the a family
	// (aLen2, aNorm) must change family too. A family member that stays while two or more others move is the
	// incomplete-renaming slip at the level of the family instead of the single identifier.
	type role struct{ p, q byte }
	evidence := map[role]int{}
	for x, m := range maps {
		if len(m) != 1 || len(x) < 2 {
			continue
		}
		for y := range m {
			if y != x && len(y) == len(x) && x[1:] == y[1:] && x[0] != y[0] {
				evidence[role{x[0], y[0]}]++
			}
		}
	}
	for r, n := range evidence {
		if n < 2 {
			continue
		}
		for z, m := range maps {
			if len(z) < 2 || z[0] != r.p || !(z[1] >= '0' && z[1] <= '9' || z[1] >= 'A' && z[1] <= 'Z') {
				continue
			}
			if _, stays := m[z]; !stays || len(m) != 1 {
				continue
			}
			// the counterpart name must exist somewhere in the enclosing code for the report to make sense; the
			// caller checks nothing further - a family member that cannot be renamed has no counterpart and is
			// not written with the role letter in this code base
			for i := range a {
				if a[i].shape == "var" && a[i].name == z {
					return fmt.Sprintf("the clone renames the %c-names to %c-names (%d of them) but leaves %s, which belongs to the same family, unchanged", r.p, r.q, n, z), b[i].pos
				}
			}
		}
	}
	for x, m := range maps {
		if len(m) != 2 {
			continue
		}
		// x -> y at least twice, x -> x exactly once
		if m[x] != 1 {
			continue
		}
		for y, n := range m {
			if y == x || n < 2 {
				continue
			}
			// y must not itself be a name that legitimately stays (it must not occur in a)
			if _, alsoInA := maps[y]; alsoInA {
				continue
			}
			for i := range a {
				if a[i].shape == "var" && a[i].name == x && b[i].name == x {
					return fmt.Sprintf("%s is renamed to %s at %d places of the cloned statement but left as %s at one", x, y, n, x), b[i].pos
				}
			}
		}
	}
	return "", token.NoPos
}

func runRename(c *core.Ctx) []core.Obligation {
	var obs []core.Obligation
	pairs := 0
	for _, pkg := range c.Pkgs {
		info := pkg.TypesInfo
		for _, file := range pkg.Syntax {
			fname := c.Fset.Position(file.Pos()).Filename
			if strings.HasSuffix(fname, "_test.go") {
				continue
			}
			rel := fname
			if i := strings.Index(fname, "/"+pkg.Types.Name()+"/"); i >= 0 {
				rel = fname[i+1:]
			}
			for _, d := range file.Decls {
				fd, ok := d.(*ast.FuncDecl)
				if !ok || fd.Body == nil {
					continue
				}
				fn := fd.Name.Name
				if fd.Recv != nil && len(fd.Recv.List) == 1 {
					fn = types.ExprString(fd.Recv.List[0].Type) + "." + fn
				}
				n := 0
				check := func(a, b ast.Node) {
					pairs++
					if why, pos := rnInconsistent(rnTokens(info, a), rnTokens(info, b)); why != "" {
						n++
						obs = append(obs, core.Ob("R-RENAME", fmt.Sprintf("dup:%s:%s#%d", rel, fn, n), c.Pos(pos), fn, core.Violated,
							why+": the clone was edited incompletely, so this statement mixes the operands of the two cases it was copied for"))
					}
				}
				ast.Inspect(fd.Body, func(nd ast.Node) bool {
					switch x := nd.(type) {
					case *ast.BlockStmt:
						for i := 0; i+1 < len(x.List); i++ {
							check(x.List[i], x.List[i+1])
							// `if c { return f(...) }` followed by `return f(...)`: the two returns are the two cases
							if ifs, ok := x.List[i].(*ast.IfStmt); ok && ifs.Else == nil && len(ifs.Body.List) == 1 {
								check(ifs.Body.List[0], x.List[i+1])
							}
						}
					case *ast.SwitchStmt:
						for i := 0; i+1 < len(x.Body.List); i++ {
							check(x.Body.List[i], x.Body.List[i+1])
						}
					case *ast.IfStmt:
						if els, ok := x.Else.(*ast.IfStmt); ok {
							check(&ast.IfStmt{Cond: x.Cond, Body: x.Body}, &ast.IfStmt{Cond: els.Cond, Body: els.Body})
						} else if els, ok := x.Else.(*ast.BlockStmt); ok {
							check(x.Body, els)
						}
					}
					return true
				})
			}
		}
	}
	obs = append(obs, core.Ob("R-RENAME", "scan", "-", "", core.Discharged, fmt.Sprintf("%d pairs of neighbouring statements and clauses examined across the library; no inconsistently renamed clone", pairs)))
	return obs
}
