package rules

import (
	"fmt"
	"go/constant"
	"go/token"

	"golang.org/x/tools/go/ssa"

	"verif/checker/core"
)

// R-GUARD: "this answer is only given behind that test". Added after round-6 seeds C03-r6m2 (VertexCrossing: the
// AB=CD shortcut hoisted above the `a == b || c == d` guard, so four identical points "cross"), C06-r6m1
// (boundaryApproxIntersects: the "target is the index cell" shortcut moved above the "cell has no edges" test, so an
// edge-less interior cell is said to meet the boundary and ContainsCell turns false) and C09-r6m2 (xyzToFaceSiTi:
// `p.Vector == centre || p.Vector.Normalize() == centre`, so a non-unit vertex is encoded as a cell centre and decodes
// to a different vector).

func init() {
	core.Register(&core.Rule{
		Name: "R-GUARD",
		Clause: "C03/C06/C09, guarded answers: (VertexCrossing) every return other than the constant false lies behind the failed tests a == b and c == d - the documented rule that a degenerate edge " +
			"crosses nothing; (boundaryApproxIntersects, Loop and Polygon) every return other than the constant false lies behind 'the index cell has edges of this shape' - an edge-less cell has no " +
			"boundary in it; (xyzToFaceSiTi) a level other than -1 is returned only behind the exact comparison of the argument's own vector with the recomputed cell centre - the compressed " +
			"format stores nothing but (face, si, ti) for such a vertex, so any vertex that is not bit-identical to the centre must take the lossless path.",
		Min: 4,
		Run: runGuard,
	})
}

type guardSpec struct {
	pkg, recv, name string
	// protected selects the returns that need the guard
	protected func(r *ssa.Return) bool
	// guards: each returns (matches, sideThatMustBeTaken) for a condition value
	guards []guardCond
	why    string
}

type guardCond struct {
	what  string
	match func(fn *ssa.Function, cond ssa.Value) (bool, int)
}

func notConstFalse(idx int) func(r *ssa.Return) bool {
	return func(r *ssa.Return) bool {
		if idx >= len(r.Results) {
			return false
		}
		if c, ok := r.Results[idx].(*ssa.Const); ok && c.Value != nil && c.Value.String() == "false" {
			return false
		}
		return true
	}
}

// paramEq matches `x == y` / `x != y` on the two named parameters; the guard is the side where they differ.
func paramEq(a, b string) guardCond {
	return guardCond{what: a + " != " + b, match: func(fn *ssa.Function, cond ssa.Value) (bool, int) {
		bo, ok := cond.(*ssa.BinOp)
		if !ok || (bo.Op != token.EQL && bo.Op != token.NEQ) {
			return false, 0
		}
		x, y := paramName(fn, bo.X), paramName(fn, bo.Y)
		if !(x == a && y == b) && !(x == b && y == a) {
			return false, 0
		}
		if bo.Op == token.EQL {
			return true, 1
		}
		return true, 0
	}}
}

// paramName resolves v to the name of the parameter it is (directly, or reloaded from the parameter's spill slot).
func paramName(fn *ssa.Function, v ssa.Value) string {
	switch x := v.(type) {
	case *ssa.Parameter:
		return x.Name()
	case *ssa.UnOp:
		if x.Op == token.MUL {
			if al, ok := x.X.(*ssa.Alloc); ok {
				var src ssa.Value
				n := 0
				for _, r := range *al.Referrers() {
					if st, ok := r.(*ssa.Store); ok && st.Addr == al {
						n++
						src = st.Val
					}
				}
				if n == 1 {
					if p, ok := src.(*ssa.Parameter); ok {
						return p.Name()
					}
				}
			}
		}
	}
	return ""
}

// hasEdges matches len(<x>.edges) compared with 0; the guard is the side where the length is not zero.
func hasEdges() guardCond {
	return guardCond{what: "len(edges) != 0", match: func(fn *ssa.Function, cond ssa.Value) (bool, int) {
		bo, ok := cond.(*ssa.BinOp)
		if !ok {
			return false, 0
		}
		isLenEdges := func(v ssa.Value) bool {
			call, ok := v.(*ssa.Call)
			if !ok {
				return false
			}
			b, ok := call.Call.Value.(*ssa.Builtin)
			if !ok || b.Name() != "len" || len(call.Call.Args) != 1 {
				return false
			}
			fr, ok := core.AsFieldLoad(call.Call.Args[0])
			return ok && fr.Name == "edges"
		}
		konst := func(v ssa.Value) (int64, bool) { return core.ConstInt(v) }
		var op token.Token
		var k int64
		if isLenEdges(bo.X) {
			n, ok := konst(bo.Y)
			if !ok {
				return false, 0
			}
			op, k = bo.Op, n
		} else if isLenEdges(bo.Y) {
			n, ok := konst(bo.X)
			if !ok {
				return false, 0
			}
			op, k = map[token.Token]token.Token{token.EQL: token.EQL, token.NEQ: token.NEQ, token.LSS: token.GTR, token.GTR: token.LSS, token.LEQ: token.GEQ, token.GEQ: token.LEQ}[bo.Op], n
		} else {
			return false, 0
		}
		// which side of `len op k` implies len >= 1 ?
		switch {
		case (op == token.EQL && k == 0) || (op == token.LEQ && k == 0) || (op == token.LSS && k == 1):
			return true, 1
		case (op == token.NEQ && k == 0) || (op == token.GTR && k == 0) || (op == token.GEQ && k == 1):
			return true, 0
		}
		return false, 0
	}}
}

// ownVectorEq matches `p.Vector == <anything>` where p is the named parameter; the guard is the equal side.
func ownVectorEq(param string) guardCond {
	return guardCond{what: param + ".Vector == centre", match: func(fn *ssa.Function, cond ssa.Value) (bool, int) {
		bo, ok := cond.(*ssa.BinOp)
		if !ok || (bo.Op != token.EQL && bo.Op != token.NEQ) {
			return false, 0
		}
		isOwn := func(v ssa.Value) bool {
			fr, ok := core.AsFieldLoad(v)
			if !ok || fr.Name != "Vector" {
				return false
			}
			if paramName(fn, fr.Base) == param {
				return true
			}
			// &p.Vector on the spill slot of p
			if al, ok := fr.Base.(*ssa.Alloc); ok {
				for _, r := range *al.Referrers() {
					if st, ok := r.(*ssa.Store); ok && st.Addr == al {
						if p, ok := st.Val.(*ssa.Parameter); ok && p.Name() == param {
							return true
						}
					}
				}
			}
			return false
		}
		if !isOwn(bo.X) && !isOwn(bo.Y) {
			return false, 0
		}
		if bo.Op == token.EQL {
			return true, 0
		}
		return true, 1
	}}
}

// maxDistWithinRight matches `X <= RightChordAngle` (or the negated forms) where X is c.MaxDistance(param), or the
// maxChordAngle of values that include it; the guard is the side where X is at most 90 degrees.
func maxDistWithinRight(param string) guardCond {
	return guardCond{what: "MaxDistance(" + param + ") <= 90 degrees", match: func(fn *ssa.Function, cond ssa.Value) (bool, int) {
		bo, ok := cond.(*ssa.BinOp)
		if !ok {
			return false, 0
		}
		var derived func(v ssa.Value, d int) bool
		derived = func(v ssa.Value, d int) bool {
			call, ok := v.(*ssa.Call)
			if !ok || d > 3 || core.StaticCallee(call) == nil {
				return false
			}
			switch core.StaticCallee(call).Name() {
			case "MaxDistance":
				for _, a := range call.Call.Args {
					if paramName(fn, a) == param {
						return true
					}
				}
			case "maxChordAngle":
				for _, a := range call.Call.Args {
					if derived(a, d+1) {
						return true
					}
					// variadic: the arguments sit in a temporary array
					if sl, ok := a.(*ssa.Slice); ok {
						if al, ok := sl.X.(*ssa.Alloc); ok {
							for _, r := range *al.Referrers() {
								ia, ok := r.(*ssa.IndexAddr)
								if !ok {
									continue
								}
								for _, r2 := range *ia.Referrers() {
									if st, ok := r2.(*ssa.Store); ok && st.Addr == ssa.Value(ia) && derived(st.Val, d+1) {
										return true
									}
								}
							}
						}
					}
				}
			}
			return false
		}
		isRight := func(v ssa.Value) bool {
			k, ok := v.(*ssa.Const)
			if !ok || k.Value == nil {
				return false
			}
			f, _ := constant.Float64Val(constant.ToFloat(k.Value))
			return f > 0 && f <= 2
		}
		switch {
		case derived(bo.X, 0) && isRight(bo.Y):
			switch bo.Op {
			case token.LEQ, token.LSS:
				return true, 0
			case token.GTR, token.GEQ:
				return true, 1
			}
		case derived(bo.Y, 0) && isRight(bo.X):
			switch bo.Op {
			case token.GEQ, token.GTR:
				return true, 0
			case token.LSS, token.LEQ:
				return true, 1
			}
		}
		return false, 0
	}}
}

func runGuard(c *core.Ctx) []core.Obligation {
	specs := []guardSpec{
		{pkg: "s2", recv: "Cell", name: "MaxDistanceToEdge", protected: func(r *ssa.Return) bool {
			if len(r.Results) != 1 {
				return false
			}
			// the general answer is StraightChordAngle - DistanceToEdge(antipodal edge); everything else is the shortcut
			if bo, ok := r.Results[0].(*ssa.BinOp); ok && bo.Op == token.SUB {
				return false
			}
			return true
		}, guards: []guardCond{maxDistWithinRight("a"), maxDistWithinRight("b")},
			why: "the maximum over the two endpoints is returned although one endpoint is more than 90 degrees from the cell: the edge's interior can then pass near the cell's antipode and be farther than both endpoints (an edge through the antipode is at 180 degrees), so the reported maximum is too small"},
		{pkg: "s2", name: "VertexCrossing", protected: notConstFalse(0), guards: []guardCond{paramEq("a", "b"), paramEq("c", "d")},
			why: "a degenerate edge (A == B or C == D) is reported as crossing"},
		{pkg: "s2", recv: "Loop", name: "boundaryApproxIntersects", protected: notConstFalse(0), guards: []guardCond{hasEdges()},
			why: "an index cell without edges of the loop is reported as meeting its boundary, so ContainsCell answers false for a cell that lies inside"},
		{pkg: "s2", recv: "Polygon", name: "boundaryApproxIntersects", protected: notConstFalse(0), guards: []guardCond{hasEdges()},
			why: "an index cell without edges of the polygon is reported as meeting its boundary, so ContainsCell answers false for a cell that lies inside"},
		{pkg: "s2", name: "xyzToFaceSiTi", protected: func(r *ssa.Return) bool {
			if len(r.Results) != 4 {
				return false
			}
			n, ok := core.ConstInt(r.Results[3])
			return !(ok && n == -1)
		}, guards: []guardCond{ownVectorEq("p")},
			why: "a vertex that is not bit-identical to a cell centre is given a cell level, so the compressed encoding stores only (face, si, ti) for it and decoding returns a different vector"},
	}
	var obs []core.Obligation
	for _, sp := range specs {
		fn := c.Fn(sp.pkg, sp.recv, sp.name)
		construct := sp.name
		if sp.recv != "" {
			construct = sp.recv + "." + sp.name
		}
		if fn == nil {
			obs = append(obs, core.Ob("R-GUARD", construct, "-", "", core.Violated, "unresolved anchor"))
			continue
		}
		for gi, g := range sp.guards {
			key := fmt.Sprintf("%s:%s", construct, g.what)
			var edges []core.Edge
			for _, b := range fn.Blocks {
				if len(b.Instrs) == 0 {
					continue
				}
				ifi, ok := b.Instrs[len(b.Instrs)-1].(*ssa.If)
				if !ok {
					continue
				}
				if m, side := g.match(fn, ifi.Cond); m {
					edges = append(edges, core.Edge{From: b, Idx: side})
				}
			}
			_ = gi
			if len(edges) == 0 {
				obs = append(obs, core.Ob("R-GUARD", key, c.Pos(fn.Pos()), core.FuncName(fn), core.Violated, "the guarding test was not found in the function: "+sp.why))
				continue
			}
			nret, bad := 0, ""
			for _, b := range fn.Blocks {
				if len(b.Instrs) == 0 {
					continue
				}
				ret, ok := b.Instrs[len(b.Instrs)-1].(*ssa.Return)
				if !ok || !sp.protected(ret) {
					continue
				}
				nret++
				dominated := false
				for _, e := range edges {
					if core.EdgeDominates(e, b) {
						dominated = true
					}
				}
				if !dominated && bad == "" {
					bad = c.Pos(ret.Pos())
				}
			}
			switch {
			case nret == 0:
				obs = append(obs, core.Ob("R-GUARD", key, c.Pos(fn.Pos()), core.FuncName(fn), core.Violated, "unresolved anchor: no guarded return found"))
			case bad != "":
				obs = append(obs, core.Ob("R-GUARD", key, bad, core.FuncName(fn), core.Violated, fmt.Sprintf("the return at %s can be reached without passing the test %s: %s", bad, g.what, sp.why)))
			default:
				obs = append(obs, core.Ob("R-GUARD", key, c.Pos(fn.Pos()), core.FuncName(fn), core.Discharged, fmt.Sprintf("%d guarded return(s), each only reachable through %s", nret, g.what)))
			}
		}
	}
	obs = append(obs, findVertexIndex(c))
	obs = append(obs, getCellsRootTest(c))
	obs = append(obs, cellOverlapShortcuts(c)...)
	return obs
}

// findVertexIndex (after round-7 seed C07-r7m1, the two endpoint tests of an indexed edge merged into one `||`
// that returns the edge's first index for either match): findVertex(p) promises an index k with Vertex(k) == p; the
// callers run their wedge tests at Vertex(k-1), Vertex(k), Vertex(k+1). Every `return k, true` must therefore lie
// behind the successful comparison of Vertex(k) - the same k - with p (the wrap-around `return len(vertices), true`
// stands for index 0 and is behind Vertex(ai) == p with ai == 0).
func findVertexIndex(c *core.Ctx) core.Obligation {
	const construct = "Loop.findVertex:returned-index-is-the-matched-vertex"
	fn := c.Fn("s2", "Loop", "findVertex")
	if fn == nil {
		return core.Ob("R-GUARD", construct, "-", "", core.Violated, "unresolved anchor")
	}
	var same func(a, b ssa.Value, d int) bool
	same = func(a, b ssa.Value, d int) bool {
		if a == b {
			return true
		}
		if d > 4 {
			return false
		}
		if ka, ok := a.(*ssa.Const); ok {
			kb, ok := b.(*ssa.Const)
			return ok && ka.Value != nil && kb.Value != nil && ka.Value.String() == kb.Value.String()
		}
		ba, ok1 := a.(*ssa.BinOp)
		bb, ok2 := b.(*ssa.BinOp)
		if ok1 && ok2 && ba.Op == bb.Op {
			return same(ba.X, bb.X, d+1) && same(ba.Y, bb.Y, d+1)
		}
		return false
	}
	// the comparisons Vertex(k) == p
	type match struct {
		e core.Edge
		k ssa.Value
	}
	var matches []match
	for _, b := range fn.Blocks {
		ifi, ok := b.Instrs[len(b.Instrs)-1].(*ssa.If)
		if !ok {
			continue
		}
		bo, ok := ifi.Cond.(*ssa.BinOp)
		if !ok || (bo.Op != token.EQL && bo.Op != token.NEQ) {
			continue
		}
		for _, side := range []ssa.Value{bo.X, bo.Y} {
			call, ok := side.(*ssa.Call)
			if ok && core.StaticCallee(call) != nil && core.StaticCallee(call).Name() == "Vertex" && len(call.Call.Args) == 2 {
				idx := 0
				if bo.Op == token.NEQ {
					idx = 1
				}
				matches = append(matches, match{core.Edge{From: b, Idx: idx}, call.Call.Args[1]})
			}
		}
	}
	nret, bad := 0, ""
	for _, b := range fn.Blocks {
		ret, ok := b.Instrs[len(b.Instrs)-1].(*ssa.Return)
		if !ok || len(ret.Results) != 2 {
			continue
		}
		if k, ok := ret.Results[1].(*ssa.Const); !ok || k.Value == nil || k.Value.String() != "true" {
			continue
		}
		nret++
		idx := ret.Results[0]
		wrap := false
		if call, ok := idx.(*ssa.Call); ok {
			if bi, ok := call.Call.Value.(*ssa.Builtin); ok && bi.Name() == "len" {
				wrap = true
			}
		}
		okRet := false
		for _, m := range matches {
			if !core.EdgeDominates(m.e, b) {
				continue
			}
			if wrap || same(m.k, idx, 0) {
				okRet = true
			}
		}
		if !okRet && bad == "" {
			bad = c.Pos(ret.Pos())
		}
	}
	switch {
	case nret < 2 || len(matches) < 2:
		return core.Ob("R-GUARD", construct, c.Pos(fn.Pos()), core.FuncName(fn), core.Violated, fmt.Sprintf("unresolved anchor: %d successful returns and %d vertex comparisons found", nret, len(matches)))
	case bad != "":
		return core.Ob("R-GUARD", construct, bad, core.FuncName(fn), core.Violated,
			"the index returned at "+bad+" is not the index whose vertex was found equal to p on every path to that return: the callers (ContainsNested, containsNonCrossingBoundary) then run their wedge test at a neighbouring vertex, so a hole that touches its shell at that vertex is classified as not nested and polygon Contains/Intersects give the wrong answer")
	}
	return core.Ob("R-GUARD", construct, c.Pos(fn.Pos()), core.FuncName(fn), core.Discharged, fmt.Sprintf("%d successful returns, each behind Vertex(k) == p for the k it returns", nret))
}

// getCellsRootTest (after round-8 seed C07-r8m1, `root.Bound().Intersects(edgeBound)` turned into `Contains`): the
// cells under a root cell that a query edge meets are collected whenever the edge's bounding rectangle MEETS the
// root's padded bound. The edge need not lie inside the root - the loop-relation walk calls this with edges that
// stick out of their own index cell - so a stronger test skips the collection, and crossings with the other loop's
// edges in those cells are never looked for.
func getCellsRootTest(c *core.Ctx) core.Obligation {
	const construct = "CrossingEdgeQuery.getCells:collects-when-bounds-meet"
	fn := c.Fn("s2", "CrossingEdgeQuery", "getCells")
	if fn == nil {
		return core.Ob("R-GUARD", construct, "-", "", core.Violated, "unresolved anchor")
	}
	var work *ssa.Call
	core.AllInstrs(fn, func(in ssa.Instruction) {
		if call, ok := in.(*ssa.Call); ok && core.StaticCallee(call) != nil && core.StaticCallee(call).Name() == "computeCellsIntersected" {
			work = call
		}
	})
	if work == nil {
		return core.Ob("R-GUARD", construct, c.Pos(fn.Pos()), core.FuncName(fn), core.Violated, "unresolved anchor: computeCellsIntersected is not called")
	}
	guard := ""
	for _, b := range fn.Blocks {
		ifi, ok := b.Instrs[len(b.Instrs)-1].(*ssa.If)
		if !ok {
			continue
		}
		call, ok := ifi.Cond.(*ssa.Call)
		if !ok || core.StaticCallee(call) == nil || core.StaticCallee(call).Signature.Recv() == nil || !core.IsNamed(core.StaticCallee(call).Signature.Recv().Type(), "r2", "Rect") {
			continue
		}
		if core.EdgeDominates(core.Edge{From: b, Idx: 0}, work.Block()) {
			guard = core.StaticCallee(call).Name()
		}
	}
	switch guard {
	case "Intersects":
		return core.Ob("R-GUARD", construct, c.Pos(fn.Pos()), core.FuncName(fn), core.Discharged, "the cells are collected whenever the edge's bound meets the root's bound")
	case "":
		return core.Ob("R-GUARD", construct, c.Pos(fn.Pos()), core.FuncName(fn), core.Discharged, "the cells are collected unconditionally")
	}
	return core.Ob("R-GUARD", construct, c.Pos(work.Pos()), core.FuncName(fn), core.Violated,
		"the cells under the root are collected only when r2.Rect."+guard+" holds between the root's bound and the edge's bound, which is stronger than 'they meet': an edge that sticks out of the root cell collects nothing, so the relation walk misses the crossings in those cells and reports crossing loops as disjoint (or contained)")
}
