package rules

import (
	"fmt"
	"go/token"
	"go/types"
	"strings"

	"golang.org/x/tools/go/ssa"

	"verif/checker/core"
)

// R-UPDATER: added after round-5 seed C17-r5m2 (EdgePairClosestPoints kept the 'updated' flag of one
// UpdateMinDistance call but dropped the improved minimum, so the next probe compared against a stale minimum).

func init() {
	core.Register(&core.Rule{
		Name: "R-UPDATER",
		Clause: "C08/C17 'the reported distance is the minimum (maximum) over all cases': the Update*/update* functions return the possibly improved value together with a flag; wherever the " +
			"flag of a call is used, the value of that call is used too (assigned to the running minimum/maximum) - a call whose value is discarded but whose flag steers the code leaves " +
			"the running value stale for the cases examined after it.",
		Min: 20,
		Run: runUpdater,
	})
}

func runUpdater(c *core.Ctx) []core.Obligation {
	var obs []core.Obligation
	for _, fn := range c.GeoFuncs() {
		k := 0
		core.AllInstrs(fn, func(in ssa.Instruction) {
			call, ok := in.(*ssa.Call)
			if !ok {
				return
			}
			var name string
			var sig *types.Signature
			if f := core.StaticCallee(call); f != nil {
				name, sig = f.Name(), f.Signature
			} else if call.Call.IsInvoke() {
				name, sig = call.Call.Method.Name(), call.Call.Method.Type().(*types.Signature)
			} else {
				return
			}
			if !strings.HasPrefix(strings.ToLower(name), "update") || sig.Results().Len() != 2 {
				return
			}
			if b, isB := sig.Results().At(1).Type().Underlying().(*types.Basic); !isB || b.Kind() != types.Bool {
				return
			}
			k++
			construct := fmt.Sprintf("value-and-flag:%s#%d", core.FuncName(fn), k)
			valueUsed, flagUsed := false, false
			for _, r := range *call.Referrers() {
				ex, isEx := r.(*ssa.Extract)
				if !isEx {
					// the whole tuple is returned or passed on
					valueUsed, flagUsed = true, true
					continue
				}
				used := false
				for _, rr := range *ex.Referrers() {
					if _, isDbg := rr.(*ssa.DebugRef); !isDbg {
						used = true
					}
				}
				if ex.Index == 0 && used {
					valueUsed = true
				}
				if ex.Index == 1 && used {
					flagUsed = true
				}
			}
			// is another update call of the same function reachable after this one?
			later := false
			if flagUsed && !valueUsed {
				isUpdate := func(x ssa.Instruction) bool {
					c2, ok := x.(*ssa.Call)
					if !ok || c2 == call {
						return false
					}
					n2 := ""
					if f := core.StaticCallee(c2); f != nil {
						n2 = f.Name()
					} else if c2.Call.IsInvoke() {
						n2 = c2.Call.Method.Name()
					}
					return strings.HasPrefix(strings.ToLower(n2), "update")
				}
				idx := core.InstrBlockIndex(call)
				for _, x := range call.Block().Instrs[idx+1:] {
					if isUpdate(x) {
						later = true
					}
				}
				reach := core.ReachFrom(call.Block())
				for b := range reach {
					if b == call.Block() {
						continue
					}
					for _, x := range b.Instrs {
						if isUpdate(x) {
							later = true
						}
					}
				}
			}
			switch {
			case flagUsed && !valueUsed && !later:
				obs = append(obs, core.Ob("R-UPDATER", construct, c.Pos(call.Pos()), core.FuncName(fn), core.Discharged, "only the flag is needed: no further case is examined after this call"))
			case flagUsed && !valueUsed:
				obs = append(obs, core.Ob("R-UPDATER", construct, c.Pos(call.Pos()), core.FuncName(fn), core.Violated,
					"the flag returned by "+name+" is used but the value it returns is discarded: the running minimum/maximum is not advanced by this case, so the cases examined afterwards are compared with a stale value and can overwrite the true optimum"))
			case !flagUsed && !valueUsed:
				o := core.Ob("R-UPDATER", construct, c.Pos(call.Pos()), core.FuncName(fn), core.Discharged, "neither result is used")
				o.Trivial = true
				obs = append(obs, o)
			default:
				obs = append(obs, core.Ob("R-UPDATER", construct, c.Pos(call.Pos()), core.FuncName(fn), core.Discharged, "the returned value is used wherever the flag is"))
			}
		})
	}
	obs = append(obs, bothDirections(c)...)
	return obs
}

// bothDirections (after round-7 seed C12-r7m1, the `vb[i]` against `va` edges line removed from both cell-to-cell
// distance functions): the extreme distance between two cells is attained between a vertex of ONE cell and an edge of
// the OTHER, in either direction - 32 (vertex, edge) pairs as the comment in the source says. Each of the two functions
// must therefore feed its updater both with a vertex of the first cell against the edges of the second and with a
// vertex of the second against the edges of the first; with one direction only the answer is not even symmetric.
func bothDirections(c *core.Ctx) []core.Obligation {
	var obs []core.Obligation
	for _, name := range []string{"DistanceToCell", "MaxDistanceToCell"} {
		construct := "(s2.Cell)." + name + ":both-directions"
		fn := c.Fn("s2", "Cell", name)
		if fn == nil {
			obs = append(obs, core.Ob("R-UPDATER", construct, "-", "", core.Violated, "unresolved anchor"))
			continue
		}
		arrayOf := func(v ssa.Value) ssa.Value {
			ld, ok := v.(*ssa.UnOp)
			if !ok || ld.Op != token.MUL {
				return nil
			}
			ia, ok := ld.X.(*ssa.IndexAddr)
			if !ok {
				return nil
			}
			return ia.X
		}
		type dir struct{ vertex, edge ssa.Value }
		seen := map[dir]bool{}
		ncalls := 0
		core.AllInstrs(fn, func(in ssa.Instruction) {
			call, ok := in.(*ssa.Call)
			if !ok || core.StaticCallee(call) == nil || len(call.Call.Args) < 3 {
				return
			}
			nm := core.StaticCallee(call).Name()
			if nm != "UpdateMinDistance" && nm != "UpdateMaxDistance" {
				return
			}
			v, e0, e1 := arrayOf(call.Call.Args[0]), arrayOf(call.Call.Args[1]), arrayOf(call.Call.Args[2])
			if v == nil || e0 == nil || e0 != e1 {
				return
			}
			ncalls++
			seen[dir{v, e0}] = true
		})
		ok := false
		for d := range seen {
			if d.vertex != d.edge && seen[dir{d.edge, d.vertex}] {
				ok = true
			}
		}
		switch {
		case ncalls == 0:
			obs = append(obs, core.Ob("R-UPDATER", construct, c.Pos(fn.Pos()), core.FuncName(fn), core.Violated, "unresolved anchor: no vertex-against-edge update found"))
		case ok:
			obs = append(obs, core.Ob("R-UPDATER", construct, c.Pos(fn.Pos()), core.FuncName(fn), core.Discharged, fmt.Sprintf("%d updates: vertices of each cell against the edges of the other", ncalls)))
		default:
			obs = append(obs, core.Ob("R-UPDATER", construct, c.Pos(fn.Pos()), core.FuncName(fn), core.Violated,
				"only the vertices of one cell are tested against the edges of the other: when the extreme point is a vertex of the other cell over the interior of one of this cell's edges it is never examined, so the minimum comes out too large (the maximum too small) and a.DistanceToCell(b) differs from b.DistanceToCell(a)"))
		}
	}
	return obs
}
