package rules

import (
	"fmt"
	"go/token"
	"go/types"
	"sort"
	"strings"

	"golang.org/x/tools/go/ssa"

	"verif/checker/core"
)

func init() {
	core.Register(&core.Rule{
		Name: "R-XSTATE",
		Clause: "C03 'the incremental edge crosser gives the same answer as the stateless test in any call order': every path through RestartAt, ChainCrossingSign and crossingSign leaves the cached chain " +
			"vertex (c) equal to the vertex just processed and the cached orientation (acb) equal to minus the LAST value of the orientation computed for it (directly, through a callee that does, or through a " +
			"deferred closure that captures the variable, not a copy); the vertex-crossing fallback receives the chain vertex that was current BEFORE the call that advances it.",
		Min: 5,
		Run: runXState,
	})
	core.Register(&core.Rule{
		Name: "R-CROSSENUM",
		Clause: "C03 'reports maybe exactly when the edges share an endpoint' and the three-valued crossing result is consumed consistently: DoNotCross -> false, Cross -> true, MaybeCross -> VertexCrossing; " +
			"MaybeCross is returned only behind one of the four endpoint-equality tests.",
		Min: 3,
		Run: runCrossEnum,
	})
}

func isCrosserField(v ssa.Value, name string) bool {
	fr, ok := core.AsFieldAddr(v)
	return ok && fr.Name == name && fr.Struct != nil && fr.Struct.Obj().Name() == "EdgeCrosser"
}

// stateStores classifies the instructions of fn that update the crosser state: stores to c / acb, calls of
// functions in the updater set, and defers of closures that store both.
type xstate struct {
	c        *core.Ctx
	updaters map[*ssa.Function]bool
}

// closureStoresBoth reports whether the closure stores c and acb, and whether acb's value comes from a captured variable.
func closureStoresBoth(clo *ssa.Function) (bool, string) {
	hasC, hasAcb := false, false
	note := ""
	core.AllInstrs(clo, func(in ssa.Instruction) {
		st, ok := in.(*ssa.Store)
		if !ok {
			return
		}
		if isCrosserField(st.Addr, "c") {
			hasC = true
		}
		if isCrosserField(st.Addr, "acb") {
			hasAcb = true
			// value must be -(load of a free variable cell)
			v := st.Val
			if u, ok := v.(*ssa.UnOp); ok && u.Op == token.SUB {
				v = u.X
			}
			ok2 := false
			if ld, ok := v.(*ssa.UnOp); ok && ld.Op == token.MUL {
				if _, isFV := ld.X.(*ssa.FreeVar); isFV {
					ok2 = true
				}
			}
			if !ok2 {
				note = "the deferred update of acb does not read the captured orientation variable (it would see a stale copy)"
			}
		}
	})
	return hasC && hasAcb, note
}

// updatesOnAllPaths: every return of fn is preceded on every path by an update of both fields.
func (x *xstate) updatesOnAllPaths(fn *ssa.Function) (bool, string) {
	// deferred closure in the entry block covers every return
	for _, in := range fn.Blocks[0].Instrs {
		if d, ok := in.(*ssa.Defer); ok {
			if mc, ok := d.Call.Value.(*ssa.MakeClosure); ok {
				if both, note := closureStoresBoth(mc.Fn.(*ssa.Function)); both {
					if note != "" {
						return false, note
					}
					return true, "deferred closure registered at entry stores c and acb"
				}
			}
		}
	}
	// otherwise: per field, blocks that establish it
	fieldBlocks := map[string]map[*ssa.BasicBlock]bool{"c": {}, "acb": {}}
	core.AllInstrs(fn, func(in ssa.Instruction) {
		switch y := in.(type) {
		case *ssa.Store:
			for _, f := range []string{"c", "acb"} {
				if isCrosserField(y.Addr, f) {
					fieldBlocks[f][in.Block()] = true
				}
			}
		case ssa.CallInstruction:
			if g := core.StaticCallee(y); g != nil && x.updaters[g] {
				fieldBlocks["c"][in.Block()] = true
				fieldBlocks["acb"][in.Block()] = true
			}
		}
	})
	for _, f := range []string{"c", "acb"} {
		for _, b := range fn.Blocks {
			if _, isRet := b.Instrs[len(b.Instrs)-1].(*ssa.Return); !isRet || b == fn.Recover {
				continue
			}
			if fieldBlocks[f][b] {
				continue
			}
			if b == fn.Blocks[0] || core.ReachableAvoiding(fn.Blocks[0], b, nil, fieldBlocks[f]) {
				return false, fmt.Sprintf("the return in block %d is reachable without updating the cached %s", b.Index, map[string]string{"c": "chain vertex (c)", "acb": "orientation (acb)"}[f])
			}
		}
	}
	return true, "every return is preceded by updates of c and acb (directly or through an updating callee)"
}

func runXState(c *core.Ctx) []core.Obligation {
	var obs []core.Obligation
	x := &xstate{c: c, updaters: map[*ssa.Function]bool{}}
	names := []string{"RestartAt", "crossingSign", "ChainCrossingSign"}
	fns := map[string]*ssa.Function{}
	for _, n := range names {
		fns[n] = c.Fn("s2", "EdgeCrosser", n)
	}
	// fixpoint over the three functions
	why := map[string]string{}
	for changed := true; changed; {
		changed = false
		for _, n := range names {
			fn := fns[n]
			if fn == nil || x.updaters[fn] {
				continue
			}
			ok, w := x.updatesOnAllPaths(fn)
			why[n] = w
			if ok {
				x.updaters[fn] = true
				changed = true
			}
		}
	}
	for _, n := range names {
		construct := "updates-state:(*s2.EdgeCrosser)." + n
		fn := fns[n]
		switch {
		case fn == nil:
			obs = append(obs, core.Ob("R-XSTATE", construct, "-", "", core.Violated, "unresolved anchor"))
		case x.updaters[fn]:
			obs = append(obs, core.Ob("R-XSTATE", construct, c.Pos(fn.Pos()), core.FuncName(fn), core.Discharged, why[n]))
		default:
			obs = append(obs, core.Ob("R-XSTATE", construct, c.Pos(fn.Pos()), core.FuncName(fn), core.Violated,
				why[n]+": the next chained call would be evaluated against a stale vertex or orientation"))
		}
	}
	// values: the stored c is the vertex parameter; the stored acb is a negation
	for _, n := range names {
		fn := fns[n]
		if fn == nil {
			continue
		}
		funcs := []*ssa.Function{fn}
		funcs = append(funcs, fn.AnonFuncs...)
		bad := ""
		nStores := 0
		for _, f := range funcs {
			core.AllInstrs(f, func(in ssa.Instruction) {
				st, ok := in.(*ssa.Store)
				if !ok {
					return
				}
				if isCrosserField(st.Addr, "c") {
					nStores++
					v := st.Val
					// parameter (possibly through a spill cell or free variable)
					okV := false
					switch y := v.(type) {
					case *ssa.Parameter:
						okV = true
					case *ssa.UnOp:
						if y.Op == token.MUL {
							switch y.X.(type) {
							case *ssa.FreeVar, *ssa.Alloc:
								okV = true
							}
						}
					case *ssa.FreeVar:
						okV = true
					}
					if !okV {
						bad = fmt.Sprintf("c is assigned something other than the vertex passed in (%s)", c.Pos(st.Pos()))
					}
				}
				if isCrosserField(st.Addr, "acb") {
					nStores++
					if u, ok := st.Val.(*ssa.UnOp); !ok || u.Op != token.SUB {
						bad = fmt.Sprintf("acb is assigned a value that is not the negation of an orientation (%s): acb caches sign(a,c,b) = -sign(a,b,c)", c.Pos(st.Pos()))
					}
				}
			})
		}
		construct := "state-values:(*s2.EdgeCrosser)." + n
		if bad != "" {
			obs = append(obs, core.Ob("R-XSTATE", construct, c.Pos(fn.Pos()), core.FuncName(fn), core.Violated, bad))
		} else if nStores > 0 {
			obs = append(obs, core.Ob("R-XSTATE", construct, c.Pos(fn.Pos()), core.FuncName(fn), core.Discharged, fmt.Sprintf("%d state stores: c receives the vertex argument, acb a negated orientation", nStores)))
		}
	}
	// EdgeOrVertexChainCrossing: VertexCrossing gets e.c loaded before the advancing call
	if fn := c.Fn("s2", "EdgeCrosser", "EdgeOrVertexChainCrossing"); fn != nil {
		var adv, vc *ssa.Call
		core.AllInstrs(fn, func(in ssa.Instruction) {
			if call, ok := in.(*ssa.Call); ok {
				switch f := core.StaticCallee(call); {
				case f != nil && f.Name() == "ChainCrossingSign":
					adv = call
				case f != nil && f.Name() == "VertexCrossing":
					vc = call
				}
			}
		})
		construct := "saved-vertex:(*s2.EdgeCrosser).EdgeOrVertexChainCrossing"
		ok := adv != nil && vc != nil
		whyNot := "calls not found"
		if ok {
			arg := vc.Call.Args[2]
			ld, isLd := arg.(*ssa.UnOp)
			if isLd && ld.Op == token.MUL {
				if a, isAlloc := ld.X.(*ssa.Alloc); isAlloc {
					// local copy: find its defining store
					for _, ref := range *a.Referrers() {
						if st, isSt := ref.(*ssa.Store); isSt && st.Addr == a {
							arg = st.Val
							ld, isLd = arg.(*ssa.UnOp)
						}
					}
				}
			}
			if !isLd || ld.Op != token.MUL || !isCrosserField(ld.X, "c") {
				ok, whyNot = false, "the third argument of VertexCrossing is not the crosser's chain vertex"
			} else {
				before := ld.Block() == adv.Block() && core.InstrBlockIndex(ld) < core.InstrBlockIndex(adv) ||
					ld.Block() != adv.Block() && ld.Block().Dominates(adv.Block())
				if !before {
					ok, whyNot = false, "the chain vertex passed to VertexCrossing is read AFTER ChainCrossingSign has advanced it to d: VertexCrossing(a, b, d, d) is always false"
				}
			}
		}
		if ok {
			obs = append(obs, core.Ob("R-XSTATE", construct, c.Pos(fn.Pos()), core.FuncName(fn), core.Discharged, "the chain vertex is read before the call that advances it"))
		} else {
			obs = append(obs, core.Ob("R-XSTATE", construct, c.Pos(fn.Pos()), core.FuncName(fn), core.Violated, whyNot))
		}
	}
	// the two-argument wrappers: whatever they return comes from the chain method applied to THEIR second
	// argument, so that the crosser is left at d (the next ChainCrossingSign continues from d).
	for _, w := range []struct{ name, chain string }{{"CrossingSign", "ChainCrossingSign"}, {"EdgeOrVertexCrossing", "EdgeOrVertexChainCrossing"}} {
		fn := c.Fn("s2", "EdgeCrosser", w.name)
		construct := "wrapper:" + w.name
		if fn == nil || len(fn.Params) != 3 {
			obs = append(obs, core.Ob("R-XSTATE", construct, "-", "", core.Violated, "unresolved anchor"))
			continue
		}
		d := fn.Params[2]
		ok, why := true, ""
		nret := 0
		var check func(v ssa.Value, seen map[ssa.Value]bool)
		check = func(v ssa.Value, seen map[ssa.Value]bool) {
			if seen[v] {
				return
			}
			seen[v] = true
			switch x := v.(type) {
			case *ssa.Phi:
				for _, e := range x.Edges {
					check(e, seen)
				}
			case *ssa.Call:
				f := core.StaticCallee(x)
				if f == nil || f.Name() != w.chain || len(x.Call.Args) != 2 {
					ok, why = false, "a result does not come from "+w.chain
					return
				}
				arg := x.Call.Args[1]
				if ld, isLoad := arg.(*ssa.UnOp); isLoad {
					// d spilled to a local: *alloc where alloc was stored d
					if al, isAl := ld.X.(*ssa.Alloc); isAl {
						for _, ref := range *al.Referrers() {
							if st, isSt := ref.(*ssa.Store); isSt && st.Addr == al {
								arg = st.Val
							}
						}
					}
				}
				if arg != ssa.Value(d) {
					ok, why = false, w.name+"(c, d) returns "+w.chain+"(x) for an x that is not its argument d: the answer for the edge may be right, but the crosser is left at the wrong vertex, so the next chained call tests an edge that starts somewhere else"
				}
			default:
				ok, why = false, fmt.Sprintf("a result does not come from %s (%T)", w.chain, v)
			}
		}
		for _, b := range fn.Blocks {
			if ret, isRet := b.Instrs[len(b.Instrs)-1].(*ssa.Return); isRet && len(ret.Results) == 1 {
				nret++
				check(ret.Results[0], map[ssa.Value]bool{})
			}
		}
		if nret == 0 {
			ok, why = false, "no return found"
		}
		if ok {
			obs = append(obs, core.Ob("R-XSTATE", construct, c.Pos(fn.Pos()), core.FuncName(fn), core.Discharged, "every result is "+w.chain+"(d): the crosser is left at d"))
		} else {
			obs = append(obs, core.Ob("R-XSTATE", construct, c.Pos(fn.Pos()), core.FuncName(fn), core.Violated, why))
		}
	}
	obs = append(obs, crosserStatePrivate(c)...)
	return obs
}

// ---------------------------------------------------------------------------

// enumOutcomes follows fn from the instruction that produces v, deciding comparisons of v with constants, for each
// given value of v, and reports what is returned: "true", "false", "call:<name>", or "?".
func enumOutcomes(fn *ssa.Function, v ssa.Value, vals map[string]int64) map[string]string {
	out := map[string]string{}
	start := v.(ssa.Instruction).Block()
	for name, val := range vals {
		b := start
		res := "?"
		for steps := 0; steps < 64 && b != nil; steps++ {
			last := b.Instrs[len(b.Instrs)-1]
			switch y := last.(type) {
			case *ssa.If:
				bo, ok := y.Cond.(*ssa.BinOp)
				if !ok || (bo.Op != token.EQL && bo.Op != token.NEQ) {
					b = nil
					continue
				}
				var k ssa.Value
				if bo.X == v {
					k = bo.Y
				} else if bo.Y == v {
					k = bo.X
				}
				kv, isK := core.ConstInt(k)
				if k == nil || !isK {
					b = nil
					continue
				}
				if (kv == val) == (bo.Op == token.EQL) {
					b = b.Succs[0]
				} else {
					b = b.Succs[1]
				}
			case *ssa.Jump:
				b = b.Succs[0]
			case *ssa.Return:
				r := y.Results[0]
				switch z := r.(type) {
				case *ssa.Const:
					res = z.Value.String()
				case *ssa.Call:
					if f := core.StaticCallee(z); f != nil {
						res = "call:" + f.Name()
					}
				}
				b = nil
			default:
				b = nil
			}
		}
		out[name] = res
	}
	return out
}

func runCrossEnum(c *core.Ctx) []core.Obligation {
	var obs []core.Obligation
	vals := map[string]int64{}
	for _, n := range []string{"Cross", "MaybeCross", "DoNotCross"} {
		k, ok := c.Pkgs["s2"].Types.Scope().Lookup(n).(*types.Const)
		if !ok {
			return append(obs, core.Ob("R-CROSSENUM", "anchor:Crossing", "-", "", core.Violated, "unresolved constants"))
		}
		vals[n], _ = constInt64(k)
	}
	consumers := []struct{ recv, name, producer string }{
		{"EdgeCrosser", "EdgeOrVertexChainCrossing", "ChainCrossingSign"},
		{"", "EdgeOrVertexCrossing", "CrossingSign"},
	}
	for _, cs := range consumers {
		fn := c.Fn("s2", cs.recv, cs.name)
		construct := "consumer:" + cs.name
		if fn == nil {
			obs = append(obs, core.Ob("R-CROSSENUM", construct, "-", "", core.Violated, "unresolved anchor"))
			continue
		}
		var prod *ssa.Call
		core.AllInstrs(fn, func(in ssa.Instruction) {
			if call, ok := in.(*ssa.Call); ok {
				if f := core.StaticCallee(call); f != nil && f.Name() == cs.producer {
					prod = call
				}
			}
		})
		if prod == nil {
			obs = append(obs, core.Ob("R-CROSSENUM", construct, c.Pos(fn.Pos()), core.FuncName(fn), core.Violated, "the three-valued crossing sign is no longer computed here"))
			continue
		}
		got := enumOutcomes(fn, prod, vals)
		want := map[string]string{"DoNotCross": "false", "Cross": "true", "MaybeCross": "call:VertexCrossing"}
		var diffs []string
		for k, w := range want {
			if got[k] != w {
				diffs = append(diffs, fmt.Sprintf("%s -> %s (expected %s)", k, got[k], w))
			}
		}
		sort.Strings(diffs)
		if len(diffs) == 0 {
			obs = append(obs, core.Ob("R-CROSSENUM", construct, c.Pos(fn.Pos()), core.FuncName(fn), core.Discharged, "DoNotCross -> false, Cross -> true, MaybeCross -> VertexCrossing"))
		} else {
			obs = append(obs, core.Ob("R-CROSSENUM", construct, c.Pos(fn.Pos()), core.FuncName(fn), core.Violated, "the crossing sign is mapped wrongly: "+strings.Join(diffs, "; ")))
		}
	}
	// MaybeCross only behind the four endpoint equalities
	if fn := c.Fn("s2", "EdgeCrosser", "crossingSign"); fn != nil {
		construct := "maybe-iff-shared-endpoint:crossingSign"
		role := func(v ssa.Value) string {
			if fr, ok := core.AsFieldLoad(v); ok && fr.Struct != nil && fr.Struct.Obj().Name() == "EdgeCrosser" {
				return fr.Name
			}
			if p, ok := v.(*ssa.Parameter); ok {
				return p.Name()
			}
			if ld, ok := v.(*ssa.UnOp); ok && ld.Op == token.MUL {
				if a, ok := ld.X.(*ssa.Alloc); ok {
					return a.Comment
				}
			}
			return "?"
		}
		var eqEdges []core.Edge
		pairs := map[string]bool{}
		for _, b := range fn.Blocks {
			iff, isIf := b.Instrs[len(b.Instrs)-1].(*ssa.If)
			if !isIf {
				continue
			}
			bo, isBo := iff.Cond.(*ssa.BinOp)
			if !isBo || bo.Op != token.EQL || !core.IsNamed(bo.X.Type(), "s2", "Point") {
				continue
			}
			r1, r2 := role(bo.X), role(bo.Y)
			if r1 > r2 {
				r1, r2 = r2, r1
			}
			key := r1 + "=" + r2
			if (r1 == "a" || r1 == "b") && (r2 == "c" || r2 == "d") {
				pairs[key] = true
				eqEdges = append(eqEdges, core.Edge{From: b, Idx: 0})
			}
		}
		ok := len(pairs) == 4
		why := fmt.Sprintf("found the endpoint tests %v, expected a=c, a=d, b=c, b=d", keysOf(pairs))
		for _, b := range retConstBlocks(fn, vals["MaybeCross"]) {
			if core.ReachableAvoiding(fn.Blocks[0], b, eqEdges, nil) {
				ok, why = false, "MaybeCross can be returned although no endpoint is shared"
			}
		}
		if len(retConstBlocks(fn, vals["MaybeCross"])) == 0 {
			ok, why = false, "MaybeCross is never returned"
		}
		if ok {
			obs = append(obs, core.Ob("R-CROSSENUM", construct, c.Pos(fn.Pos()), core.FuncName(fn), core.Discharged, "MaybeCross is returned only behind a==c, a==d, b==c or b==d"))
		} else {
			obs = append(obs, core.Ob("R-CROSSENUM", construct, c.Pos(fn.Pos()), core.FuncName(fn), core.Violated, why))
		}
	}
	return obs
}

func keysOf(m map[string]bool) []string {
	var out []string
	for k := range m {
		out = append(out, k)
	}
	sort.Strings(out)
	return out
}
