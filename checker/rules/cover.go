package rules

import (
	"fmt"
	"go/ast"
	"go/token"
	"go/types"
	"sort"
	"strings"

	"golang.org/x/tools/go/ssa"

	"verif/checker/core"
)

func init() {
	core.Register(&core.Rule{
		Name: "R-COVER",
		Clause: "C05 'coverings cover, interior coverings are contained, level limits are honoured': the coverer discards a cell only when the region reports that it does not intersect it (or, for interior " +
			"coverings, that it cannot be used), marks a cell terminal in an interior covering only when the region contains it, recurses into every intersecting child, post-processes with " +
			"Normalize/Denormalize using the same clamped parameters as the coverer itself, aligns levels to LevelMod AFTER clamping to MaxLevel, and the fast covering goes through normalizeCovering.",
		Min: 9,
		Run: runCover,
	})
	core.Register(&core.Rule{
		Name: "R-CELLREL",
		Clause: "C05/C06 'region predicates are one-sidedly safe': for Loop and Polygon, ContainsCell answers false for a cell that is Disjoint from or Subdivided by the index (never true), IntersectsCell " +
			"answers false for Disjoint and true for Subdivided, a boundary that (approximately) meets the cell makes ContainsCell false and IntersectsCell true, and the remaining case is decided by " +
			"containment of the cell centre; Cap's shared helper handles the cell that contains the cap centre; getCellsForEdge/updateEdges-style consumers handle all three relations.",
		Min: 9,
		Run: runCellRel,
	})
}

// callEdges returns the edges on which a call to a method with the given name returned true / false.
func callEdges(fn *ssa.Function, method string) (trueE, falseE []core.Edge, calls []*ssa.Call) {
	for _, b := range fn.Blocks {
		iff, ok := b.Instrs[len(b.Instrs)-1].(*ssa.If)
		if !ok {
			continue
		}
		cond := iff.Cond
		t := 0
		for {
			if u, ok := cond.(*ssa.UnOp); ok && u.Op == token.NOT {
				cond = u.X
				t = 1 - t
				continue
			}
			break
		}
		call, ok := cond.(*ssa.Call)
		if !ok {
			continue
		}
		name := ""
		if call.Call.IsInvoke() {
			name = call.Call.Method.Name()
		} else if f := core.StaticCallee(call); f != nil {
			name = f.Name()
		}
		if name != method {
			continue
		}
		calls = append(calls, call)
		trueE = append(trueE, core.Edge{From: b, Idx: t})
		falseE = append(falseE, core.Edge{From: b, Idx: 1 - t})
	}
	return
}

// fieldEdges returns the edges on which a boolean field of the receiver is true / false.
func fieldEdges(fn *ssa.Function, field string) (trueE, falseE []core.Edge) {
	for _, b := range fn.Blocks {
		iff, ok := b.Instrs[len(b.Instrs)-1].(*ssa.If)
		if !ok {
			continue
		}
		cond := iff.Cond
		t := 0
		for {
			if u, ok := cond.(*ssa.UnOp); ok && u.Op == token.NOT {
				cond = u.X
				t = 1 - t
				continue
			}
			break
		}
		if fr, ok := core.AsFieldLoad(cond); ok && fr.Name == field {
			trueE = append(trueE, core.Edge{From: b, Idx: t})
			falseE = append(falseE, core.Edge{From: b, Idx: 1 - t})
		}
	}
	return
}

func runCover(c *core.Ctx) []core.Obligation {
	var obs []core.Obligation
	add := func(construct string, fn *ssa.Function, ok bool, good, bad string) {
		site, name := "-", ""
		if fn != nil {
			site, name = c.Pos(fn.Pos()), core.FuncName(fn)
		}
		if ok {
			obs = append(obs, core.Ob("R-COVER", construct, site, name, core.Discharged, good))
		} else {
			obs = append(obs, core.Ob("R-COVER", construct, site, name, core.Violated, bad))
		}
	}
	nc := c.Fn("s2", "coverer", "newCandidate")
	if nc == nil {
		add("newCandidate", nil, false, "", "unresolved anchor")
	} else {
		_, isectFalse, ic := callEdges(nc, "IntersectsCell")
		containsTrue, _, cc := callEdges(nc, "ContainsCell")
		intTrue, intFalse := fieldEdges(nc, "interiorCovering")
		// (1) nil returns
		ok := len(ic) > 0
		why := "IntersectsCell is no longer consulted"
		nNil := 0
		for _, b := range nc.Blocks {
			r, isRet := b.Instrs[len(b.Instrs)-1].(*ssa.Return)
			if !isRet {
				continue
			}
			k, isK := r.Results[0].(*ssa.Const)
			if !isK || !k.IsNil() {
				continue
			}
			nNil++
			allowed := append(append([]core.Edge{}, isectFalse...), intTrue...)
			if core.ReachableAvoiding(nc.Blocks[0], b, allowed, nil) {
				ok, why = false, "a candidate can be discarded although the region intersects the cell and the covering is not an interior covering: the covering would not cover the region"
			}
		}
		if nNil == 0 {
			ok, why = false, "no discard path found (anchor changed)"
		}
		add("newCandidate:discard", nc, ok, "a cell is dropped only when the region does not intersect it, or (interior covering) when it cannot be used", why)
		// (2) terminal stores
		ok = len(cc) > 0
		why = "ContainsCell is no longer consulted"
		nT := 0
		core.AllInstrs(nc, func(in ssa.Instruction) {
			st, isSt := in.(*ssa.Store)
			if !isSt {
				return
			}
			fr, isF := core.AsFieldAddr(st.Addr)
			if !isF || fr.Name != "terminal" {
				return
			}
			nT++
			allowed := append(append([]core.Edge{}, containsTrue...), intFalse...)
			if core.ReachableAvoiding(nc.Blocks[0], in.Block(), allowed, nil) {
				ok, why = false, "a cell of an INTERIOR covering can be marked terminal (emitted) although the region was not asked, or did not confirm, that it contains the cell"
			}
		})
		if nT == 0 {
			ok, why = false, "terminal is never set (anchor changed)"
		}
		add("newCandidate:terminal", nc, ok, "in an interior covering a cell becomes terminal only when the region contains it", why)
	}
	// (3) expandChildren: recursion guarded by IntersectsCell true; leaf children through newCandidate
	if fn := c.Fn("s2", "coverer", "expandChildren"); fn != nil {
		isectTrue, _, _ := callEdges(fn, "IntersectsCell")
		var rec, leaf ssa.Instruction
		core.AllInstrs(fn, func(in ssa.Instruction) {
			if ci, ok := in.(ssa.CallInstruction); ok {
				if f := core.StaticCallee(ci); f != nil {
					switch f.Name() {
					case "expandChildren":
						rec = in
					case "newCandidate":
						leaf = in
					}
				}
			}
		})
		ok := rec != nil && leaf != nil
		why := "the recursive call or the leaf newCandidate call is missing"
		if ok {
			dom := false
			for _, e := range isectTrue {
				if core.EdgeDominates(e, rec.Block()) {
					dom = true
				}
			}
			if !dom {
				ok, why = false, "the recursion into a child is not guarded by region.IntersectsCell(child)"
			}
			// no other guard may stand between the loop body and the recursion/leaf except numLevels > 0
			h, body := loopContaining(fn, rec.Block())
			if h == nil || !body[leaf.Block()] {
				ok, why = false, "recursion and leaf creation are not in the same child loop"
			}
		}
		add("expandChildren:children", fn, ok, "every child is either expanded (when the region intersects it) or offered to newCandidate", why)
	} else {
		add("expandChildren:children", nil, false, "", "unresolved anchor")
	}
	// (4) coveringInternal: Normalize then Denormalize(minLevel, levelMod)
	if fn := c.Fn("s2", "coverer", "coveringInternal"); fn != nil {
		var norm, denorm ssa.Instruction
		denormArgs := ""
		core.AllInstrs(fn, func(in ssa.Instruction) {
			if ci, ok := in.(ssa.CallInstruction); ok {
				if f := core.StaticCallee(ci); f != nil {
					switch f.Name() {
					case "Normalize":
						norm = in
					case "Denormalize":
						denorm = in
						var names []string
						for _, a := range ci.Common().Args[1:] {
							if fr, ok := core.AsFieldLoad(a); ok {
								names = append(names, fr.Name)
							} else {
								names = append(names, "?")
							}
						}
						denormArgs = strings.Join(names, ",")
					}
				}
			}
		})
		ok := norm != nil && denorm != nil && denormArgs == "minLevel,levelMod"
		add("coveringInternal:post-processing", fn, ok, "result is normalised and then denormalised with (minLevel, levelMod)",
			"the result is not post-processed with Normalize and Denormalize(minLevel, levelMod): "+denormArgs)
	} else {
		add("coveringInternal:post-processing", nil, false, "", "unresolved anchor")
	}
	// (5) Covering / InteriorCovering denormalise with the same clamped parameters as newCoverer
	{
		info := c.Pkgs["s2"].TypesInfo
		ev := &symEval{c: c, info: info, noInline: true}
		newCov := c.LookupFunc("s2", "RegionCoverer", "newCoverer")
		want := map[string]string{}
		if newCov != nil {
			res := ev.evalFunc(newCov, sxAtom("recv", ""), nil)
			// res = addr(lit coverer{...}) ; find the literal
			var lit *sx
			var find func(n *sx)
			find = func(n *sx) {
				if n == nil || lit != nil {
					return
				}
				if n.op == "lit" {
					lit = n
					return
				}
				for _, a := range n.args {
					find(a)
				}
			}
			find(res)
			if lit != nil {
				if st, ok := c.NamedType("s2", "coverer").Underlying().(*types.Struct); ok {
					for i := 0; i < st.NumFields() && i < len(lit.args); i++ {
						want[st.Field(i).Name()] = lit.args[i].String()
					}
				}
			}
		}
		for _, m := range []string{"Covering", "InteriorCovering"} {
			fn := c.LookupFunc("s2", "RegionCoverer", m)
			construct := m + ":denormalize-parameters"
			if fn == nil || c.Decl(fn) == nil || len(want) == 0 {
				add(construct, nil, false, "", "unresolved anchor")
				continue
			}
			// find the Denormalize call in the AST and evaluate its arguments symbolically
			decl := c.Decl(fn)
			got := []string{}
			ev2 := &symEval{c: c, info: info, noInline: true}
			env := &symEnv{vars: map[types.Object]*sx{}}
			if len(decl.Recv.List) > 0 && len(decl.Recv.List[0].Names) > 0 {
				env.vars[info.Defs[decl.Recv.List[0].Names[0]]] = sxAtom("recv", "")
			}
			for _, call := range findCalls(decl, "Denormalize") {
				for _, a := range call.Args {
					got = append(got, ev2.eval(a, env).String())
				}
			}
			ok := len(got) == 2 && got[0] == want["minLevel"] && got[1] == want["levelMod"]
			ssaFn := c.SSA(fn)
			add(construct, ssaFn, ok, "Denormalize receives exactly the clamped MinLevel and LevelMod that newCoverer uses",
				fmt.Sprintf("Denormalize is called with %v but the coverer itself works with minLevel=%s levelMod=%s: cells below MinLevel or off the LevelMod grid can be returned", got, want["minLevel"], want["levelMod"]))
		}
	}
	// (6) FastCovering passes through normalizeCovering
	if fn := c.Fn("s2", "RegionCoverer", "FastCovering"); fn != nil {
		var nc2 ssa.Instruction
		core.AllInstrs(fn, func(in ssa.Instruction) {
			if ci, ok := in.(ssa.CallInstruction); ok {
				if f := core.StaticCallee(ci); f != nil && f.Name() == "normalizeCovering" {
					nc2 = in
				}
			}
		})
		ok := nc2 != nil
		if ok {
			for _, b := range fn.Blocks {
				if _, isRet := b.Instrs[len(b.Instrs)-1].(*ssa.Return); isRet && b != fn.Recover && !nc2.Block().Dominates(b) {
					ok = false
				}
			}
		}
		add("FastCovering:normalize", fn, ok, "every return passes through normalizeCovering", "the fast covering can be returned without being normalised to the level constraints")
	} else {
		add("FastCovering:normalize", nil, false, "", "unresolved anchor")
	}
	// (7) normalizeCovering: the level given to Parent() is adjustLevel(min(level, MaxLevel)): clamp first, align last
	if fn := c.Fn("s2", "coverer", "normalizeCovering"); fn != nil {
		ok := false
		why := "no Parent(newLevel) whose level comes from adjustLevel(minInt(level, MaxLevel)) in the per-cell fix-up"
		core.AllInstrs(fn, func(in ssa.Instruction) {
			call, isCall := in.(*ssa.Call)
			if !isCall {
				return
			}
			f := core.StaticCallee(call)
			if f == nil || f.Name() != "Parent" {
				return
			}
			lv := call.Call.Args[1]
			adj, isAdj := lv.(*ssa.Call)
			if !isAdj || core.StaticCallee(adj) == nil {
				return
			}
			switch core.StaticCallee(adj).Name() {
			case "adjustLevel":
				inner, isInner := adj.Call.Args[1].(*ssa.Call)
				if isInner && core.StaticCallee(inner) != nil && core.StaticCallee(inner).Name() == "minInt" {
					for _, a := range inner.Call.Args {
						for _, v := range variadicElems(a) {
							if fr, isF := core.AsFieldLoad(v); isF && fr.Name == "MaxLevel" {
								ok = true
							}
						}
					}
				}
			case "minInt":
				why = "the level is clamped to MaxLevel AFTER it was aligned to LevelMod: when MaxLevel is not on the LevelMod grid the clamped level is misaligned and Denormalize pushes the cells below MaxLevel"
			}
		})
		add("normalizeCovering:clamp-then-align", fn, ok, "levels are clamped to MaxLevel first and aligned to the LevelMod grid last", why)
	} else {
		add("normalizeCovering:clamp-then-align", nil, false, "", "unresolved anchor")
	}
	// (9) the MaxCells merge loop of normalizeCovering never merges above MinLevel: every replacement of cells by an
	// ancestor is reached only through a comparison of the ancestor's level with minLevel
	if fn := c.Fn("s2", "coverer", "normalizeCovering"); fn != nil {
		usesMinLevel := func(v ssa.Value) bool {
			bo, ok := v.(*ssa.BinOp)
			if !ok {
				return false
			}
			for _, side := range []ssa.Value{bo.X, bo.Y} {
				if fr, ok := core.AsFieldLoad(side); ok && fr.Name == "minLevel" {
					return true
				}
			}
			return false
		}
		guards := map[*ssa.BasicBlock]bool{}
		for _, b := range fn.Blocks {
			if iff, ok := b.Instrs[len(b.Instrs)-1].(*ssa.If); ok && usesMinLevel(iff.Cond) {
				guards[b] = true
			}
		}
		// the merge loop: the loop whose header compares len(covering) with maxCells
		n, ok, why := 0, true, ""
		for h, body := range loopsOf(fn) {
			iff, isIf := h.Instrs[len(h.Instrs)-1].(*ssa.If)
			if !isIf {
				continue
			}
			bo, isBo := iff.Cond.(*ssa.BinOp)
			if !isBo {
				continue
			}
			isMax := false
			for _, side := range []ssa.Value{bo.X, bo.Y} {
				if fr, okf := core.AsFieldLoad(side); okf && fr.Name == "maxCells" {
					isMax = true
				}
			}
			if !isMax {
				continue
			}
			for b := range body {
				for _, in := range b.Instrs {
					call, isCall := in.(*ssa.Call)
					if !isCall || core.StaticCallee(call) == nil || core.StaticCallee(call).Name() != "replaceCellsWithAncestor" {
						continue
					}
					n++
					// every path from the loop header to this call passes a minLevel comparison
					if !guards[b] && core.ReachableAvoiding(h, b, nil, guards) {
						ok, why = false, "in the MaxCells merge loop cells are replaced by an ancestor on a path that never compares the ancestor's level with minLevel: with MinLevel > 0 and a small MaxCells the covering contains cells coarser than MinLevel"
					}
				}
			}
		}
		if n == 0 {
			ok, why = false, "unresolved anchor: no replaceCellsWithAncestor call in the merge loop"
		}
		add("normalizeCovering:merge-respects-minLevel", fn, ok, "every replacement by an ancestor in the MaxCells merge loop is behind a comparison of its level with minLevel", why)
	} else {
		add("normalizeCovering:merge-respects-minLevel", nil, false, "", "unresolved anchor")
	}
	return obs
}

func runCellRel(c *core.Ctx) []core.Obligation {
	var obs []core.Obligation
	vals := map[string]int64{}
	for _, n := range []string{"Indexed", "Subdivided", "Disjoint"} {
		k, ok := c.Pkgs["s2"].Types.Scope().Lookup(n).(*types.Const)
		if !ok {
			return append(obs, core.Ob("R-CELLREL", "anchor:CellRelation", "-", "", core.Violated, "unresolved constants"))
		}
		vals[n], _ = constInt64(k)
	}
	spec := map[string]map[string]string{
		"ContainsCell":   {"Disjoint": "false", "Subdivided": "false", "Indexed": "?"},
		"IntersectsCell": {"Disjoint": "false", "Subdivided": "true", "Indexed": "?"},
	}
	for _, T := range []string{"Loop", "Polygon"} {
		for _, m := range []string{"ContainsCell", "IntersectsCell"} {
			fn := c.Fn("s2", T, m)
			construct := fmt.Sprintf("(*s2.%s).%s", T, m)
			if fn == nil {
				obs = append(obs, core.Ob("R-CELLREL", construct+":relations", "-", "", core.Violated, "unresolved anchor"))
				continue
			}
			var rel *ssa.Call
			core.AllInstrs(fn, func(in ssa.Instruction) {
				if call, ok := in.(*ssa.Call); ok {
					if f := core.StaticCallee(call); f != nil && f.Name() == "LocateCellID" {
						rel = call
					}
				}
			})
			if rel == nil {
				obs = append(obs, core.Ob("R-CELLREL", construct+":relations", c.Pos(fn.Pos()), core.FuncName(fn), core.Violated, "LocateCellID is no longer consulted"))
				continue
			}
			got := enumOutcomes(fn, rel, vals)
			var diffs []string
			for k, w := range spec[m] {
				g := got[k]
				if strings.HasPrefix(g, "call:") {
					g = "?"
				}
				if g != w {
					diffs = append(diffs, fmt.Sprintf("%s -> %s (contract: %s)", k, got[k], w))
				}
			}
			sort.Strings(diffs)
			if len(diffs) == 0 {
				obs = append(obs, core.Ob("R-CELLREL", construct+":relations", c.Pos(fn.Pos()), core.FuncName(fn), core.Discharged,
					fmt.Sprintf("Disjoint -> %s, Subdivided -> %s, Indexed -> decided by edges and centre", spec[m]["Disjoint"], spec[m]["Subdivided"])))
			} else {
				obs = append(obs, core.Ob("R-CELLREL", construct+":relations", c.Pos(fn.Pos()), core.FuncName(fn), core.Violated, "one-sided safety broken: "+strings.Join(diffs, "; ")))
			}
			// boundary test outcome
			bt, _, bc := callEdges(fn, "boundaryApproxIntersects")
			want := "false"
			if m == "IntersectsCell" {
				want = "true"
			}
			ok := len(bc) == 1
			why := "boundaryApproxIntersects is not consulted exactly once"
			if ok {
				tgt := bt[0].From.Succs[bt[0].Idx]
				r, isRet := tgt.Instrs[len(tgt.Instrs)-1].(*ssa.Return)
				if !isRet {
					ok, why = false, "a boundary that meets the cell does not decide the answer at once"
				} else if k, isK := r.Results[0].(*ssa.Const); !isK || k.Value == nil || k.Value.String() != want {
					ok, why = false, "a boundary that (approximately) meets the cell must make "+m+" return "+want
				}
			}
			// final answer: centre containment
			if ok {
				final := false
				core.AllInstrs(fn, func(in ssa.Instruction) {
					if r, isRet := in.(*ssa.Return); isRet {
						if call, isCall := r.Results[0].(*ssa.Call); isCall {
							if f := core.StaticCallee(call); f != nil && f.Name() == "iteratorContainsPoint" {
								final = true
							}
						}
					}
				})
				if !final {
					ok, why = false, "the remaining case is not decided by containment of the cell centre"
				}
			}
			if ok {
				obs = append(obs, core.Ob("R-CELLREL", construct+":boundary-then-centre", c.Pos(fn.Pos()), core.FuncName(fn), core.Discharged,
					"boundary meets cell -> "+want+"; otherwise containment of the cell centre"))
			} else {
				obs = append(obs, core.Ob("R-CELLREL", construct+":boundary-then-centre", c.Pos(fn.Pos()), core.FuncName(fn), core.Violated, why))
			}
		}
	}
	// Cap: the helper shared by ContainsCell and IntersectsCell tests whether the cell contains the cap centre
	if fn := c.Fn("s2", "Cap", "intersects"); fn != nil {
		ct, _, cc := callEdges(fn, "ContainsPoint")
		ok := false
		for i, call := range cc {
			// argument is the cap's centre
			if fr, isF := core.AsFieldLoad(call.Call.Args[1]); isF && fr.Name == "center" {
				tgt := ct[i].From.Succs[ct[i].Idx]
				if r, isRet := tgt.Instrs[len(tgt.Instrs)-1].(*ssa.Return); isRet {
					if k, isK := r.Results[0].(*ssa.Const); isK && k.Value != nil && k.Value.String() == "true" {
						ok = true
					}
				}
			}
		}
		// both callers use the helper
		users := 0
		for _, m := range []string{"ContainsCell", "IntersectsCell"} {
			if u := c.Fn("s2", "Cap", m); u != nil {
				core.AllInstrs(u, func(in ssa.Instruction) {
					if ci, isCall := in.(ssa.CallInstruction); isCall && core.StaticCallee(ci) == fn {
						users++
					}
				})
			}
		}
		if ok && users == 2 {
			obs = append(obs, core.Ob("R-CELLREL", "(s2.Cap).intersects:centre-in-cell", c.Pos(fn.Pos()), core.FuncName(fn), core.Discharged,
				"the helper used by both ContainsCell (on the complement) and IntersectsCell answers true when the cell contains the cap centre"))
		} else {
			obs = append(obs, core.Ob("R-CELLREL", "(s2.Cap).intersects:centre-in-cell", c.Pos(fn.Pos()), core.FuncName(fn), core.Violated,
				fmt.Sprintf("the shared helper must answer true when the cell contains the cap centre (centre test present: %v, callers using the helper: %d of 2): otherwise ContainsCell accepts a cell with the complement cap inside it", ok, users)))
		}
	} else {
		obs = append(obs, core.Ob("R-CELLREL", "(s2.Cap).intersects:centre-in-cell", "-", "", core.Violated, "unresolved anchor"))
	}
	// Cap.ContainsCell: "all four vertices inside" is not enough (a cap larger than a hemisphere is not convex; the hole can
	// lie inside the cell): true is returned only as the negation of "the complement intersects the cell"
	if fn := c.Fn("s2", "Cap", "ContainsCell"); fn != nil {
		ok, why := true, ""
		nret := 0
		for _, b := range fn.Blocks {
			r, isRet := b.Instrs[len(b.Instrs)-1].(*ssa.Return)
			if !isRet || len(r.Results) != 1 {
				continue
			}
			nret++
			seen := map[ssa.Value]bool{}
			var check func(v ssa.Value)
			check = func(v ssa.Value) {
				if seen[v] {
					return
				}
				seen[v] = true
				switch x := v.(type) {
				case *ssa.Const:
					if x.Value != nil && x.Value.String() == "true" {
						ok, why = false, "Cap.ContainsCell answers true without asking whether the complementary cap intersects the cell: for a cap larger than a hemisphere all four vertices can be inside while the uncovered hole lies in the cell's interior or pokes through an edge, so an interior covering contains points outside the cap"
					}
				case *ssa.Phi:
					for _, e := range x.Edges {
						check(e)
					}
				case *ssa.UnOp:
					if x.Op == token.NOT {
						if call, isCall := x.X.(*ssa.Call); isCall && core.StaticCallee(call) != nil && core.StaticCallee(call).Name() == "intersects" {
							return
						}
					}
					ok, why = false, "Cap.ContainsCell returns something other than false or !complement.intersects(cell)"
				default:
					ok, why = false, "Cap.ContainsCell returns something other than false or !complement.intersects(cell)"
				}
			}
			check(r.Results[0])
		}
		if nret == 0 {
			ok, why = false, "no return found"
		}
		if ok {
			obs = append(obs, core.Ob("R-CELLREL", "(s2.Cap).ContainsCell:true-only-via-complement", c.Pos(fn.Pos()), core.FuncName(fn), core.Discharged, "true is returned only as !complement.intersects(cell, vertices)"))
		} else {
			obs = append(obs, core.Ob("R-CELLREL", "(s2.Cap).ContainsCell:true-only-via-complement", c.Pos(fn.Pos()), core.FuncName(fn), core.Violated, why))
		}
	} else {
		obs = append(obs, core.Ob("R-CELLREL", "(s2.Cap).ContainsCell:true-only-via-complement", "-", "", core.Violated, "unresolved anchor"))
	}
	return obs
}

// findCalls returns the calls in decl whose function or method name is name.
func findCalls(decl *ast.FuncDecl, name string) []*ast.CallExpr {
	var out []*ast.CallExpr
	ast.Inspect(decl, func(n ast.Node) bool {
		if call, ok := n.(*ast.CallExpr); ok {
			switch f := call.Fun.(type) {
			case *ast.Ident:
				if f.Name == name {
					out = append(out, call)
				}
			case *ast.SelectorExpr:
				if f.Sel.Name == name {
					out = append(out, call)
				}
			}
		}
		return true
	})
	return out
}

// variadicElems returns v itself, or, when v is the slice the compiler builds for a variadic call, the values stored in it.
func variadicElems(v ssa.Value) []ssa.Value {
	sl, ok := v.(*ssa.Slice)
	if !ok {
		return []ssa.Value{v}
	}
	arr, ok := sl.X.(*ssa.Alloc)
	if !ok {
		return []ssa.Value{v}
	}
	var out []ssa.Value
	for _, ref := range *arr.Referrers() {
		if ia, ok := ref.(*ssa.IndexAddr); ok {
			for _, r2 := range *ia.Referrers() {
				if st, ok := r2.(*ssa.Store); ok && st.Addr == ia {
					out = append(out, st.Val)
				}
			}
		}
	}
	return out
}
