package rules

import (
	"fmt"

	"golang.org/x/tools/go/ssa"

	"verif/checker/core"
)

// R-REINIT: added after round-4 seed C13-r4m2 (Polygon.initEdgesAndIndex kept the old cumulative edge table when its
// length still matched; Invert reorders the loops and re-enters the function, so the table described the old order).

func init() {
	core.Register(&core.Rule{
		Name: "R-REINIT",
		Clause: "C13 'the answer does not depend on what the object went through before': a function that re-derives cached fields of a polygon (it runs again after Invert) starts each of them " +
			"from a history-independent value - on every path the first access to the field is a store of a constant, nil, an empty value or a freshly made object, never a read of what an " +
			"earlier run left there.",
		Min: 5,
		Run: runReinit,
	})
}

var reinitialisers = []struct {
	recv, fn string
	fields   []string
}{
	{"Polygon", "initEdgesAndIndex", []string{"numEdges", "cumulativeEdges", "index"}},
	{"Polygon", "initLoopProperties", []string{"numVertices", "hasHoles", "bound"}},
}

func runReinit(c *core.Ctx) []core.Obligation {
	var obs []core.Obligation
	for _, ri := range reinitialisers {
		fn := c.Fn("s2", ri.recv, ri.fn)
		if fn == nil {
			obs = append(obs, core.Ob("R-REINIT", ri.recv+"."+ri.fn, "-", "", core.Violated, "unresolved anchor"))
			continue
		}
		for _, field := range ri.fields {
			construct := ri.recv + "." + ri.fn + ":" + field
			isReset := func(v ssa.Value) bool {
				switch x := v.(type) {
				case *ssa.Const:
					return true
				case *ssa.MakeSlice, *ssa.MakeMap, *ssa.Alloc:
					return true
				case *ssa.Call:
					// a constructor without arguments that depend on the object: EmptyRect(), NewShapeIndex()
					return len(x.Call.Args) == 0 && core.StaticCallee(x) != nil
				}
				return false
			}
			resetBlocks := map[*ssa.BasicBlock]int{} // block -> index of first reset store
			type access struct {
				b   *ssa.BasicBlock
				idx int
				in  ssa.Instruction
			}
			var loads []access
			nStores := 0
			for _, b := range fn.Blocks {
				for i, in := range b.Instrs {
					switch x := in.(type) {
					case *ssa.Store:
						if fr, ok := core.AsFieldAddr(x.Addr); ok && fr.Name == field && fr.Base == ssa.Value(fn.Params[0]) {
							nStores++
							if isReset(x.Val) {
								if _, seen := resetBlocks[b]; !seen {
									resetBlocks[b] = i
								}
							}
						}
					case *ssa.UnOp:
						if fr, ok := core.AsFieldLoad(x); ok && fr.Name == field && fr.Base == ssa.Value(fn.Params[0]) {
							loads = append(loads, access{b, i, in})
						}
					}
				}
			}
			if nStores == 0 {
				obs = append(obs, core.Ob("R-REINIT", construct, c.Pos(fn.Pos()), core.FuncName(fn), core.Violated, "unresolved anchor: the field is not assigned in this function"))
				continue
			}
			stop := map[*ssa.BasicBlock]bool{}
			for b := range resetBlocks {
				stop[b] = true
			}
			bad := ""
			for _, ld := range loads {
				if ri, ok := resetBlocks[ld.b]; ok && ri < ld.idx {
					continue
				}
				entry := fn.Blocks[0]
				if ld.b == entry || core.ReachableAvoiding(entry, ld.b, nil, stop) {
					if stop[entry] && ld.b != entry {
						continue
					}
					bad = fmt.Sprintf("%s reads %s.%s (at %s) on a path on which it has not yet been reset in this run: the value an earlier run left there (before the loops were reordered or replaced) leaks into the re-derived state", ri.fn, ri.recv, field, c.Pos(ld.in.Pos()))
				}
			}
			if bad != "" {
				obs = append(obs, core.Ob("R-REINIT", construct, c.Pos(fn.Pos()), core.FuncName(fn), core.Violated, bad))
			} else {
				obs = append(obs, core.Ob("R-REINIT", construct, c.Pos(fn.Pos()), core.FuncName(fn), core.Discharged, fmt.Sprintf("reset before its first use on every path (%d reads examined)", len(loads))))
			}
		}
	}
	return obs
}
