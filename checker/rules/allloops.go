package rules

import (
	"fmt"
	"go/types"

	"golang.org/x/tools/go/ssa"

	"verif/checker/core"
)

// R-ALLLOOPS: added after round-3 seed C10-r3m2 (ConvexHullQuery.AddPolygon left its loop over the polygon's loops
// with break where continue was meant, so shells stored after the first hole were never added).

func init() {
	core.Register(&core.Rule{
		Name: "R-ALLLOOPS",
		Clause: "C10/C18/C04 'bounds, hulls, areas and parities account for the whole polygon': a function that accumulates over all loops of a polygon (sum, union, exclusive-or, AddLoop) " +
			"leaves its loop over the polygon's loops only when the loops are exhausted - no break and no return inside. The accumulating functions are listed with the reason; " +
			"search loops (any/first) are not in the list.",
		Min: 13,
		Run: runAllLoops,
	})
}

var accumulatingOverLoops = []struct{ recv, name, what, elem string }{
	{"CrossingEdgeQuery", "getCellsForEdge", "collects the index cells met by every face segment of the query edge", "FaceSegment"},
	{"ConvexHullQuery", "AddPolygon", "adds every depth-0 loop to the hull input", ""},
	{"Polygon", "decode", "allocates and decodes every loop (a nil entry is dereferenced by the initialisation that follows)", ""},
	{"Polygon", "decodeCompressed", "allocates and decodes every loop (a nil entry is dereferenced by the initialisation that follows)", ""},
	{"Polygon", "Area", "signed sum of the loop areas", ""},
	{"Polygon", "Centroid", "signed sum of the loop centroids", ""},
	{"Polygon", "ReferencePoint", "exclusive-or of the loops' origin bits", ""},
	{"Polygon", "ContainsPoint", "exclusive-or of the loops' brute-force containment", ""},
	{"Polygon", "initLoopProperties", "vertex count, hole flag and bound over all loops", ""},
	{"Polygon", "initEdgesAndIndex", "edge count and cumulative edge table over all loops", ""},
	{"Polygon", "Invert", "every former sibling and every former descendant is kept", ""},
	{"Polygon", "encodeLossless", "writes every loop", ""},
	{"Polygon", "encodeCompressed", "writes every loop", ""},
}

// rangesOverLoops: the loop's trip count is the length of a []*Loop (range statement or i < len(loops)).
func rangesOverLoops(h *ssa.BasicBlock, elem string) bool {
	if elem == "" {
		elem = "Loop"
	}
	iff, ok := h.Instrs[len(h.Instrs)-1].(*ssa.If)
	if !ok {
		return false
	}
	bo, ok := iff.Cond.(*ssa.BinOp)
	if !ok {
		return false
	}
	isLoopsLen := func(v ssa.Value) bool {
		call, ok := v.(*ssa.Call)
		if !ok {
			return false
		}
		if b, ok := call.Call.Value.(*ssa.Builtin); !ok || b.Name() != "len" {
			return false
		}
		sl, ok := call.Call.Args[0].Type().Underlying().(*types.Slice)
		if !ok {
			return false
		}
		return core.IsNamed(sl.Elem(), "s2", elem)
	}
	return isLoopsLen(bo.X) || isLoopsLen(bo.Y)
}

func runAllLoops(c *core.Ctx) []core.Obligation {
	var obs []core.Obligation
	for _, a := range accumulatingOverLoops {
		fn := c.Fn("s2", a.recv, a.name)
		construct := a.recv + "." + a.name
		if fn == nil {
			obs = append(obs, core.Ob("R-ALLLOOPS", construct, "-", "", core.Violated, "unresolved anchor"))
			continue
		}
		n, bad := 0, ""
		for h, body := range loopsOf(fn) {
			if !rangesOverLoops(h, a.elem) {
				continue
			}
			n++
			for b := range body {
				if b == h {
					continue
				}
				for _, s := range b.Succs {
					if !body[s] && a.recv == "Polygon" && (a.name == "decode" || a.name == "decodeCompressed") && errorExitIsSafe(fn, s) {
						continue // leaves the loop on a decoding error and returns before the loops are used
					}
					if !body[s] {
						bad = fmt.Sprintf("the loop over all elements is left from inside its body (block %d, %s): the elements after that point are not accounted for (%s)", b.Index, b.Comment, a.what)
					}
				}
				if _, isRet := b.Instrs[len(b.Instrs)-1].(*ssa.Return); isRet {
					bad = fmt.Sprintf("the loop over all elements returns from inside its body: the remaining elements are not accounted for (%s)", a.what)
				}
			}
		}
		switch {
		case n == 0:
			obs = append(obs, core.Ob("R-ALLLOOPS", construct, c.Pos(fn.Pos()), core.FuncName(fn), core.Violated, "unresolved anchor: no loop over the expected slice found"))
		case bad != "":
			obs = append(obs, core.Ob("R-ALLLOOPS", construct, c.Pos(fn.Pos()), core.FuncName(fn), core.Violated, bad))
		default:
			obs = append(obs, core.Ob("R-ALLLOOPS", construct, c.Pos(fn.Pos()), core.FuncName(fn), core.Discharged, fmt.Sprintf("%d loop(s) over all loops, left only when exhausted: %s", n, a.what)))
		}
	}
	return obs
}

// errorExitIsSafe: from block start (the target of an early exit of a decoding loop) no call that uses the decoded
// loops (init*, a shape index Add) is reachable without first passing a test of the decoder's sticky error.
func errorExitIsSafe(fn *ssa.Function, start *ssa.BasicBlock) bool {
	errTests := map[*ssa.BasicBlock]bool{}
	for _, b := range fn.Blocks {
		iff, ok := b.Instrs[len(b.Instrs)-1].(*ssa.If)
		if !ok {
			continue
		}
		dep := false
		var walk func(v ssa.Value, d int)
		walk = func(v ssa.Value, d int) {
			if d > 4 || v == nil {
				return
			}
			if fr, ok := core.AsFieldLoad(v); ok && fr.Name == "err" {
				dep = true
			}
			switch x := v.(type) {
			case *ssa.BinOp:
				walk(x.X, d+1)
				walk(x.Y, d+1)
			case *ssa.UnOp:
				walk(x.X, d+1)
			}
		}
		walk(iff.Cond, 0)
		if dep {
			errTests[b] = true
		}
	}
	uses := func(b *ssa.BasicBlock) bool {
		for _, in := range b.Instrs {
			if call, ok := in.(*ssa.Call); ok {
				if f := core.StaticCallee(call); f != nil && (len(f.Name()) > 4 && f.Name()[:4] == "init" || f.Name() == "Add") {
					return true
				}
			}
		}
		return false
	}
	if errTests[start] {
		return true
	}
	if uses(start) {
		return false
	}
	for _, b := range fn.Blocks {
		if b != start && uses(b) && core.ReachableAvoiding(start, b, nil, errTests) {
			return false
		}
	}
	return true
}
