package rules

// errorBudgetTable: the floating-point error budgets, paddings and safety margins of the library, keyed by the
// named constant or by the function whose expressions contain them. Values are the absolute values (coefficient
// times rounding unit) extracted from the pinned tree with `s2lint -dump-consts`; during design every coefficient
// was compared with the C++ S2 reference the port was made from (s2predicates.cc, s2edge_crosser.cc,
// s2edge_clipping.h, s2latlng_rect_bounder.cc, s2edge_crossings.cc, s2edge_distances.cc, s1chord_angle.cc,
// s2cell.cc, s2padded_cell.cc, s2loop.cc, s2builderutil_snap_functions.cc) and agrees with it.
// R-CONST requires every listed budget to be present and NOT SMALLER than the value here (one-sided: a larger
// padding is always safe for the properties that rely on it; a smaller one silently voids the derivation).
var errorBudgetTable = []struct {
	key  string
	vals []float64
	src  string
}{
	{"(*s2.EdgeCrosser).crossingSign", []float64{4.6126441981311788e-16}, "maxError ; (1.5 + 1 / math.Sqrt(3)) * dblEpsilon ; maxError ; maxError ; maxError ; maxError"},
	{"(*s2.Loop).boundaryApproxIntersects", []float64{2.3551386880256627e-15}, "maxError ; (faceClipErrorUVCoord + intersectsRectErrorUVDist) ; maxError ; maxError"},
	{"(*s2.Loop).turningAngleMaxError", []float64{2.4980018054066022e-15}, "maxErrorPerVertex ; 11.25 * dblEpsilon ; maxErrorPerVertex"},
	{"(*s2.PaddedCell).ShrinkToFit", []float64{3.3306690738754696e-16}, "1.5 * dblEpsilon"},
	{"(*s2.Polygon).boundaryApproxIntersects", []float64{2.3551386880256627e-15}, "maxError ; (faceClipErrorUVCoord + intersectsRectErrorUVDist) ; maxError ; maxError"},
	{"(*s2.RectBounder).AddPoint", []float64{6.8317399999999996e-31, 2.2204460492503131e-16, 6.06638e-16, 6.6613381477509392e-16, 1.9134600000000001e-15}, "1.91346e-15 ; math.Pi - 2 * dblEpsilon ; 6.06638e-16 ; 6.83174e-31 ; 3 * dblEpsilon ; dblEpsilon"},
	{"(*s2.RectBounder).RectBound", []float64{4.4408920985006262e-16}, "s1.Angle(2 * dblEpsilon)"},
	{"(*s2.ShapeIndex).absorbIndexCell", []float64{3.8253671477934359e-15}, "cellPadding"},
	{"(*s2.ShapeIndex).addFaceEdge", []float64{3.8253671477934359e-15}, "maxUV ; 1 - cellPadding ; maxUV ; maxUV ; maxUV ; maxUV ; cellPadding"},
	{"(*s2.ShapeIndex).skipCellRange", []float64{3.8253671477934359e-15}, "cellPadding"},
	{"(*s2.ShapeIndex).updateFaceEdges", []float64{3.8253671477934359e-15}, "cellPadding ; cellPadding"},
	{"(s1.ChordAngle).MaxAngleError", []float64{2.2204460490000001e-16}, "dblEpsilon"},
	{"(s1.ChordAngle).MaxPointError", []float64{7.8886090504315375e-31, 9.9920072205000003e-16}, "4.5 * dblEpsilon ; 16 * dblEpsilon * dblEpsilon"},
	{"(s1.Interval).Expanded", []float64{4.4408920980000002e-16}, "2 * dblEpsilon ; 2 * dblEpsilon"},
	{"(s2.Cap).AddCap", []float64{2.2204460492503131e-16}, "dblEpsilon"},
	// D38: NOT the C++ value (dblEpsilon), which is too small. Derived: uvToST(u) rounds three times (3u, 1+3u, sqrt;
	// 0.5* and, on the negative branch, 1- are exact), |e_s| <= 2s*2^-53, which stToUV's slope 8s/3 turns into
	// (4|u| + 4/3)*2^-53 in u; the cell bound stToUV(i/2^30) rounds four times (s*s, -1, 1/3., *), (4|u| + 1/3)*2^-53.
	// Sum at |u| = 1: (29/3)*2^-53. The formulas themselves are pinned by R-MIRROR `stToUV:branches-are-mirror-images`.
	{"(s2.Cell).ContainsPoint", []float64{1.0732155904709846e-15}, "(29/3) * 2^-53 (derived, see comment)"},
	{"(s2.Cell).RectBound", []float64{2.2204460492503131e-16, 4.4408920985006262e-16}, "s1.Angle(2 * dblEpsilon) ; s1.Angle(2 * dblEpsilon) ; poleMinLat ; -poleMinLat ; s1.Angle(dblEpsilon)"},
	{"(s2.CellIDSnapper).levelForMaxSnapRadius", []float64{8.8817841970012523e-16}, "4 * dblEpsilon"},
	{"(s2.CellIDSnapper).minSnapRadiusForLevel", []float64{8.8817841970012523e-16}, "4 * dblEpsilon"},
	{"(s2.IntLatLngSnapper).exponentForMaxSnapRadius", []float64{1.0000000000000001e-30, 4.4408920985006262e-16, 3.159233333018342e-15}, "(9 * math.Sqrt2 + 1.5) * dblEpsilon ; 1e-30 ; 2 * dblEpsilon"},
	{"(s2.IntLatLngSnapper).minSnapRadiusForExponent", []float64{3.159233333018342e-15}, "s1.Angle((9 * math.Sqrt2 + 1.5) * dblEpsilon)"},
	{"r1.dblEpsilon", []float64{2.2204460492503131e-16}, "2.220446049250313e-16"},
	{"s1.dblEpsilon", []float64{2.2204460490000001e-16}, "2.220446049e-16"},
	{"s2.ExpandForSubregions", []float64{5.5511151231257827e-16, 1.3539999999999999e-15, 1.687e-15, 1.7650000000000001e-15, 1.9984014443252818e-15}, "2.5 * dblEpsilon ; 1.354e-15 ; 1.687e-15 ; 1.765e-15 ; latExpansion ; 9 * dblEpsilon ; s1.Angle(latExpansion)"},
	{"s2.cellPadding", []float64{3.8253671477934359e-15}, "2.0 * (faceClipErrorUVCoord + edgeClipErrorUVCoord)"},
	{"s2.cosDistance", []float64{1.6653345369377341e-16, 1.0547118733938981e-15}, "9.5 * dblError ; 1.5 * dblError"},
	{"s2.dblEpsilon", []float64{2.2204460492503131e-16}, "2.220446049250313e-16"},
	{"s2.dblError", []float64{1.110223024625156e-16}, "1.110223024625156e-16"},
	{"s2.detErrorMultiplier", []float64{7.1767036757819368e-16}, "3.2321 * dblEpsilon"},
	{"s2.edgeClipErrorUVCoord", []float64{4.9960036108132044e-16}, "2.25 * dblEpsilon"},
	{"s2.edgeClipErrorUVDist", []float64{4.9960036108132044e-16}, "2.25 * dblEpsilon"},
	{"s2.faceClipErrorRadians", []float64{6.6613381477509392e-16}, "3 * dblEpsilon"},
	{"s2.faceClipErrorUVCoord", []float64{1.4130832128153975e-15}, "9.0 * (1.0 / math.Sqrt2) * dblEpsilon"},
	{"s2.faceClipErrorUVDist", []float64{1.9984014443252818e-15}, "9 * dblEpsilon"},
	{"s2.interiorDist", []float64{3.9443045261050586e-31, 1.0547118733938987e-15}, "4.75 * dblEpsilon ; 8 * dblEpsilon * dblEpsilon"},
	{"s2.intersectionError", []float64{8.8817841970012484e-16}, "s1.Angle(8 * dblError)"},
	{"s2.intersectionMergeRadius", []float64{1.7763568394002497e-15}, "2 * intersectionError"},
	{"s2.intersectionStableSorted", []float64{8.8817841970012484e-16}, "maxError ; intersectionError ; float64(maxError)"},
	{"s2.intersectsRectErrorUVDist", []float64{9.4205547521026495e-16}, "3 * math.Sqrt2 * dblEpsilon"},
	{"s2.maxDeterminantError", []float64{4.0576431104000219e-16}, "1.8274 * dblEpsilon"},
	{"s2.maxXYZtoUVError", []float64{1.1102230246251565e-16}, "0.5 * dblEpsilon"},
	{"s2.minUpdateInteriorDistanceMaxError", []float64{2.2204460492503131e-16, 7.1581861120848548e-15}, "(23 + 16 / sqrt3) * dblEpsilon ; dblEpsilon"},
	{"s2.projection", []float64{6.1534805964274018e-15}, "32 * math.Sqrt(3) * dblError"},
	{"s2.sin2Distance", []float64{1.1668153645989618e-61, 6.8317358397378388e-31, 3.1006534262662529e-15}, "(21 + 4 * sqrt3) * dblError ; 32 * sqrt3 * dblError * dblError ; 768 * dblError * dblError * dblError * dblErr"},
	{"s2.stableSign", []float64{7.1767036757819368e-16}, "detErrorMultiplier"},
	{"s2.triageCompareCosDistance", []float64{2.2204460492503121e-16}, "2.0 * dblError"},
	{"s2.triageCompareSin2Distance", []float64{3.3306690738754681e-16}, "3.0 * dblError"},
	{"s2.triageIntersectionOrdering", []float64{7.1054273576010019e-15}, "maxError ; 32 * dblEpsilon ; maxError"},
	{"s2.triageSign", []float64{4.0576431104000219e-16}, "maxDeterminantError ; -maxDeterminantError"},
	{"s2.triageSignDotProd", []float64{6.7654215563095477e-16}, "maxError ; 3.046875 * dblEpsilon ; maxError"},
}

// exactLiteralTable: kernels whose numeric thresholds have no safe direction (they switch between two formulas that
// are each accurate on one side); every float literal of the function is compared exactly.
var exactLiteralTable = map[string][]float64{
	// s2/point_measures.go PointArea: l'Huilier vs Girard switch (s >= 3e-4, dmin < 1e-2*s^5, dmin < s*0.1*(area+5e-15)), tan(0.5*s), 0.25
	"s2.PointArea": {0, 5e-15, 3e-4, 1e-2, 0.1, 0.5, 0.5, 0.5, 0.5, 0.5, 4},
}
