package rules

import (
	"fmt"
	"go/ast"
	"go/constant"
	"go/token"
	"go/types"
	"math"
	"sort"
	"strings"

	"golang.org/x/tools/go/ssa"

	"verif/checker/core"
)

// Rules added after the second round of independently written seeded changes (see DESIGN.md section 9).

func init() {
	core.Register(&core.Rule{
		Name: "R-CLIPENDS",
		Clause: "C06 'edges clipped to padded cells so that any cell whose intersection is non-empty lists the edge': when an edge is split between the children of a cell, the piece for the lower " +
			"children is clipped at the UPPER end of the padded middle band and the piece for the upper children at its LOWER end, so that both pieces keep the band: every clipUBound/clipVBound(edge, end, x) " +
			"passes middle.Hi with end=1 and middle.Lo with end=0.",
		Min: 8,
		Run: runClipEnds,
	})
	core.Register(&core.Rule{
		Name: "R-FLAGS",
		Clause: "C04/C09 'origin-containment flags are serialised': a set of bit flags that has been built up with |= is never overwritten by a plain constant on a later path (that would drop the " +
			"flags set before); and the compressed point encoder lists as off-centre exactly the vertices whose level differs from the snap level.",
		Min: 2,
		Run: runFlags,
	})
	core.Register(&core.Rule{
		Name: "R-VERTEXSYM",
		Clause: "C03 'exactly one of two edges meeting at a vertex counts as crossing' and symmetry under swapping/reversing the edges: the four shared-vertex cases of VertexCrossing form one orbit - " +
			"each case's OrderedCCW arguments are the image of the a==c case under the corresponding exchange of (a,b) and/or (c,d).",
		Min: 4,
		Run: runVertexSym,
	})
	core.Register(&core.Rule{
		Name: "R-PADDING",
		Clause: "C05 'conservative cell tests with padded clipping': in Loop.boundaryApproxIntersects and its Polygon twin the cell's uv bound is expanded by the SAME error that is given to " +
			"ClipToPaddedFace; Cap.RectBound treats both poles alike (south: lat.Lo <= -Pi/2, north: lat.Hi >= Pi/2).",
		Min: 3,
		Run: runPadding,
	})
	core.Register(&core.Rule{
		Name: "R-ROLES",
		Clause: "C07: hasCrossing roots the crossing-edge query at A's cell (the cell whose B sub-cells are being examined); Loop.Contains and Loop.Intersects accept the 'bounds together cover the " +
			"sphere' alternative wherever they use the sub-region bound to decide which loop may contain the other; C18: the canonical first vertex is chosen by full lexicographic comparison only; " +
			"a polygon built from a single loop resets that loop's depth; C19: ChordAngle.Add/Sub clamp their result to the valid range.",
		Min: 6,
		Run: runRoles,
	})
	core.Register(&core.Rule{
		Name: "R-IDLE",
		Clause: "C14 'first queries that trigger deferred construction': a goroutine that queued on the index mutex re-runs the update after 'fresh' was published; that idle re-application must not " +
			"touch the state lock-free readers use - applyUpdatesInternal itself writes cells/cellMap only inside its per-shape / per-face loops (through the update functions), never unconditionally.",
		Min: 1,
		Run: runIdle,
	})
	core.Register(&core.Rule{
		Name: "R-NOALIAS",
		Clause: "C13/C14 'queries never write shared index state': a slice stored inside an index cell (clippedShape.edges) is never handed out by reference into a result container that is later filtered " +
			"in place - every place that puts such a slice into a map or returns it from a query copies it first.",
		Min: 1,
		Run: runNoAlias,
	})
	core.Register(&core.Rule{
		Name: "R-CONSTREL",
		Clause: "C10/C02: relations between constants that are derived together - the longitude-gap allowance of ExpandForSubregions exceeds the span at which RectBounder.AddPoint already widens an " +
			"edge to the full longitude range; exact arithmetic precision (r3.MaxPrec) is not reduced; stableSign's error bound is proportional to the lengths of BOTH edge vectors; the " +
			"conservative-cell-distance flag tests zero < limit - maxError.",
		Min: 4,
		Run: runConstRel,
	})
}

// ---------------------------------------------------------------------------

func runClipEnds(c *core.Ctx) []core.Obligation {
	var obs []core.Obligation
	for _, fn := range c.GeoFuncs() {
		n := 0
		core.AllInstrs(fn, func(in ssa.Instruction) {
			call, ok := in.(*ssa.Call)
			if !ok {
				return
			}
			f := core.StaticCallee(call)
			if f == nil || (f.Name() != "clipUBound" && f.Name() != "clipVBound") || len(call.Call.Args) != 4 {
				return
			}
			end, isK := core.ConstInt(call.Call.Args[2])
			fr, isF := core.AsFieldLoad(call.Call.Args[3])
			if !isK || !isF {
				return // forwarded parameters (clipVAxis passes through): the constant call sites are the ones that matter
			}
			n++
			construct := fmt.Sprintf("%s:%s#%d", core.FuncName(fn), f.Name(), n)
			want := map[int64]string{1: "Hi", 0: "Lo"}[end]
			if fr.Name == want {
				obs = append(obs, core.Ob("R-CLIPENDS", construct, c.Pos(call.Pos()), core.FuncName(fn), core.Discharged,
					fmt.Sprintf("end %d is clipped at middle.%s", end, fr.Name)))
			} else {
				obs = append(obs, core.Ob("R-CLIPENDS", construct, c.Pos(call.Pos()), core.FuncName(fn), core.Violated,
					fmt.Sprintf("end %d is clipped at middle.%s, expected middle.%s: the piece handed to these children no longer reaches across the padded middle band, so an edge that touches a child only near the cell centre is missing from that child", end, fr.Name, want)))
			}
		})
	}
	return obs
}

// ---------------------------------------------------------------------------

func runFlags(c *core.Ctx) []core.Obligation {
	var obs []core.Obligation
	// (1) flag accumulators overwritten by a constant
	isOrAccum := func(v ssa.Value) bool {
		bo, ok := v.(*ssa.BinOp)
		if !ok || bo.Op != token.OR {
			return false
		}
		_, k1 := bo.X.(*ssa.Const)
		_, k2 := bo.Y.(*ssa.Const)
		return k1 || k2 // `flags |= K` (the accumulator itself may still be the constant 0)
	}
	var derivedFromOr func(v ssa.Value, depth int) bool
	derivedFromOr = func(v ssa.Value, depth int) bool {
		if depth > 6 {
			return false
		}
		if isOrAccum(v) {
			return true
		}
		if p, ok := v.(*ssa.Phi); ok {
			for _, e := range p.Edges {
				if _, again := e.(*ssa.Phi); !again && derivedFromOr(e, depth+1) {
					return true
				}
			}
		}
		return false
	}
	examined := 0
	for _, fn := range c.GeoFuncs() {
		n := 0
		core.AllInstrs(fn, func(in ssa.Instruction) {
			p, ok := in.(*ssa.Phi)
			if !ok || !core.IsInteger(p.Type()) {
				return
			}
			hasOr, hasConst := false, false
			for _, e := range p.Edges {
				if derivedFromOr(e, 0) {
					hasOr = true
				}
				if k, isK := core.ConstInt(e); isK && k != 0 {
					hasConst = true
				}
			}
			if hasOr {
				examined++
			}
			if hasOr && hasConst {
				n++
				obs = append(obs, core.Ob("R-FLAGS", fmt.Sprintf("%s:overwritten-flags#%d", core.FuncName(fn), n), c.Pos(p.Pos()), core.FuncName(fn), core.Violated,
					"a flag word built with |= is replaced by a plain constant on one path: the flags set earlier (e.g. originInside) are dropped whenever that path is taken"))
			}
		})
	}
	obs = append(obs, core.Ob("R-FLAGS", "flag-accumulators", "-", "", core.Discharged, fmt.Sprintf("%d merge points of |=-accumulated flag words examined; none merges in a plain constant", examined)))
	// (2) off-centre list guard
	if fn := c.Fn("s2", "", "encodePointsCompressed"); fn != nil {
		ok := false
		why := "the off-centre list is not guarded by `vertex.level != level`"
		for _, b := range fn.Blocks {
			iff, isIf := b.Instrs[len(b.Instrs)-1].(*ssa.If)
			if !isIf {
				continue
			}
			bo, isBo := iff.Cond.(*ssa.BinOp)
			if !isBo {
				continue
			}
			fr, isF := core.AsFieldLoad(bo.X)
			_, isP := bo.Y.(*ssa.Parameter)
			if !isF || fr.Name != "level" || !isP {
				continue
			}
			if bo.Op == token.NEQ {
				ok = true
			} else {
				why = fmt.Sprintf("vertices are listed as off-centre when level %s snapLevel; a vertex snapped to a DIFFERENT level (finer or coarser) is not reproduced by the snap-level grid and must be stored exactly", bo.Op)
			}
		}
		if ok {
			obs = append(obs, core.Ob("R-FLAGS", "encodePointsCompressed:off-centre-guard", c.Pos(fn.Pos()), core.FuncName(fn), core.Discharged, "every vertex whose level differs from the snap level is stored exactly"))
		} else {
			obs = append(obs, core.Ob("R-FLAGS", "encodePointsCompressed:off-centre-guard", c.Pos(fn.Pos()), core.FuncName(fn), core.Violated, why))
		}
	} else {
		obs = append(obs, core.Ob("R-FLAGS", "encodePointsCompressed:off-centre-guard", "-", "", core.Violated, "unresolved anchor"))
	}
	obs = append(obs, flagControlsOptionalPart(c), uvarintFastPath(c))
	obs = append(obs, flagWordOrdered(c)...)
	return obs
}

// ---------------------------------------------------------------------------

func runVertexSym(c *core.Ctx) []core.Obligation {
	var obs []core.Obligation
	fn := c.LookupFunc("s2", "", "VertexCrossing")
	if fn == nil || c.Decl(fn) == nil {
		return append(obs, core.Ob("R-VERTEXSYM", "anchor", "-", "", core.Violated, "unresolved anchor: VertexCrossing"))
	}
	// extract per case: condition "x == y" and the OrderedCCW argument list
	type vcase struct {
		cond string
		args []string
		pos  token.Pos
	}
	var cases []vcase
	ast.Inspect(c.Decl(fn).Body, func(n ast.Node) bool {
		cl, ok := n.(*ast.CaseClause)
		if !ok || len(cl.List) != 1 {
			return true
		}
		be, ok := cl.List[0].(*ast.BinaryExpr)
		if !ok || be.Op != token.EQL {
			return true
		}
		vc := vcase{cond: types.ExprString(be.X) + "==" + types.ExprString(be.Y), pos: cl.Pos()}
		ast.Inspect(cl, func(m ast.Node) bool {
			call, ok := m.(*ast.CallExpr)
			if !ok {
				return true
			}
			if id, ok := call.Fun.(*ast.Ident); ok && id.Name == "OrderedCCW" {
				for _, a := range call.Args {
					vc.args = append(vc.args, types.ExprString(a))
				}
			}
			return true
		})
		cases = append(cases, vc)
		return true
	})
	by := map[string]vcase{}
	for _, vc := range cases {
		by[vc.cond] = vc
	}
	base, ok := by["a==c"]
	if !ok || len(base.args) != 4 {
		return append(obs, core.Ob("R-VERTEXSYM", "case:a==c", c.Pos(fn.Pos()), fn.FullName(), core.Violated, "the a == c case with its OrderedCCW call was not found"))
	}
	rename := func(args []string, m map[string]string) []string {
		var out []string
		for _, a := range args {
			var b strings.Builder
			for i := 0; i < len(a); i++ {
				ch := string(a[i])
				isIdent := func(j int) bool {
					return j >= 0 && j < len(a) && (a[j] == '_' || a[j] >= 'a' && a[j] <= 'z' || a[j] >= 'A' && a[j] <= 'Z' || a[j] >= '0' && a[j] <= '9')
				}
				if r, ok := m[ch]; ok && !isIdent(i-1) && !isIdent(i+1) {
					b.WriteString(r)
				} else {
					b.WriteString(ch)
				}
			}
			out = append(out, b.String())
		}
		return out
	}
	images := map[string]map[string]string{
		"a==c": {},
		"a==d": {"c": "d", "d": "c"},
		"b==d": {"a": "b", "b": "a", "c": "d", "d": "c"},
		"b==c": {"a": "b", "b": "a"},
	}
	for _, cond := range []string{"a==c", "b==d", "a==d", "b==c"} {
		vc, ok := by[cond]
		construct := "case:" + cond
		if !ok {
			obs = append(obs, core.Ob("R-VERTEXSYM", construct, c.Pos(fn.Pos()), fn.FullName(), core.Violated, "case missing"))
			continue
		}
		want := rename(base.args, images[cond])
		if strings.Join(vc.args, ",") == strings.Join(want, ",") {
			obs = append(obs, core.Ob("R-VERTEXSYM", construct, c.Pos(vc.pos), fn.FullName(), core.Discharged, "OrderedCCW("+strings.Join(vc.args, ", ")+") is the image of the a==c case under the exchange that maps a==c to "+cond))
		} else {
			obs = append(obs, core.Ob("R-VERTEXSYM", construct, c.Pos(vc.pos), fn.FullName(), core.Violated,
				fmt.Sprintf("OrderedCCW(%s) is not the image of the a==c case (expected OrderedCCW(%s)): the rule would depend on which edge is called AB and in which direction it is traversed", strings.Join(vc.args, ", "), strings.Join(want, ", "))))
		}
	}
	obs = append(obs, edgeOrVertexArgs(c))
	return obs
}

// ---------------------------------------------------------------------------

func runPadding(c *core.Ctx) []core.Obligation {
	var obs []core.Obligation
	for _, T := range []string{"Loop", "Polygon"} {
		fn := c.Fn("s2", T, "boundaryApproxIntersects")
		construct := fmt.Sprintf("(*s2.%s).boundaryApproxIntersects:same-padding", T)
		if fn == nil {
			obs = append(obs, core.Ob("R-PADDING", construct, "-", "", core.Violated, "unresolved anchor"))
			continue
		}
		var clipErr, rectArg ssa.Value
		core.AllInstrs(fn, func(in ssa.Instruction) {
			call, ok := in.(*ssa.Call)
			if !ok {
				return
			}
			f := core.StaticCallee(call)
			if f == nil {
				return
			}
			switch f.Name() {
			case "ClipToPaddedFace":
				clipErr = call.Call.Args[3]
			case "edgeIntersectsRect":
				rectArg = call.Call.Args[2]
			}
		})
		ok := false
		why := "ClipToPaddedFace / edgeIntersectsRect calls not found"
		if clipErr != nil && rectArg != nil {
			why = "the cell's uv bound is not expanded by the clipping error before the clipped edges are tested against it: an edge that lies on the cell boundary to within rounding is reported as not meeting the cell"
			if exp, isCall := traceLocal(rectArg).(*ssa.Call); isCall {
				if f := core.StaticCallee(exp); f != nil && f.Name() == "ExpandedByMargin" && len(exp.Call.Args) == 2 {
					a, b := exp.Call.Args[1], clipErr
					fa, okA := floatConstOf(a)
					fb, okB := floatConstOf(b)
					if a == b || (okA && okB && fa == fb) {
						ok = true
					} else {
						why = "the bound is expanded by a different margin than the one given to ClipToPaddedFace"
					}
				}
			}
		}
		if ok {
			obs = append(obs, core.Ob("R-PADDING", construct, c.Pos(fn.Pos()), core.FuncName(fn), core.Discharged, "the uv bound is expanded by the same error that ClipToPaddedFace is given"))
		} else {
			obs = append(obs, core.Ob("R-PADDING", construct, c.Pos(fn.Pos()), core.FuncName(fn), core.Violated, why))
		}
	}
	// Cap.RectBound pole tests
	if fn := c.Fn("s2", "Cap", "RectBound"); fn != nil {
		south, north := "", ""
		halfPi := math.Pi / 2
		for _, b := range fn.Blocks {
			iff, isIf := b.Instrs[len(b.Instrs)-1].(*ssa.If)
			if !isIf {
				continue
			}
			bo, isBo := iff.Cond.(*ssa.BinOp)
			if !isBo {
				continue
			}
			k, isK := floatConstOf(bo.Y)
			if !isK {
				continue
			}
			if math.Abs(k+halfPi) < 1e-12 {
				south = bo.Op.String()
			}
			if math.Abs(k-halfPi) < 1e-12 {
				north = bo.Op.String()
			}
		}
		if south == "<=" && north == ">=" {
			obs = append(obs, core.Ob("R-PADDING", "(s2.Cap).RectBound:poles", c.Pos(fn.Pos()), core.FuncName(fn), core.Discharged, "a cap reaching a pole exactly gets all longitudes at both poles (lat.Lo <= -Pi/2, lat.Hi >= Pi/2)"))
		} else {
			obs = append(obs, core.Ob("R-PADDING", "(s2.Cap).RectBound:poles", c.Pos(fn.Pos()), core.FuncName(fn), core.Violated,
				fmt.Sprintf("the pole tests are `lat.Lo %s -Pi/2` and `lat.Hi %s Pi/2`; a cap whose boundary passes exactly through a pole must get the full longitude range at both poles (<= and >=)", south, north)))
		}
	} else {
		obs = append(obs, core.Ob("R-PADDING", "(s2.Cap).RectBound:poles", "-", "", core.Violated, "unresolved anchor"))
	}
	obs = append(obs, boundMargins(c)...)
	return obs
}

// boundMargins (after round-6 seed C12-r6m3, the latitude half of Cell.RectBound's final expansion reduced from
// 2*dblEpsilon to dblEpsilon while the longitude half kept it): where a bound is widened by a constant LatLng margin
// to absorb the normalisation error of the vertices, the comment in the source derives the same 2*dblEpsilon for the
// latitude and for the longitude. R-CONST sees the set of constants of the function, which still contains 2*dblEpsilon
// when only one component is weakened; here every component of every such margin is evaluated on its own.
func boundMargins(c *core.Ctx) []core.Obligation {
	var obs []core.Obligation
	pkg := c.Pkgs["s2"]
	eps := 2.220446049250313e-16
	for _, site := range []struct{ recv, name string }{{"Cell", "RectBound"}} {
		f := c.LookupFunc("s2", site.recv, site.name)
		construct := fmt.Sprintf("(s2.%s).%s:margin-both-components", site.recv, site.name)
		if f == nil || c.Decl(f) == nil || pkg == nil {
			obs = append(obs, core.Ob("R-PADDING", construct, "-", "", core.Violated, "unresolved anchor"))
			continue
		}
		decl := c.Decl(f)
		fo := &folder{c: c, pkg: pkg, decl: decl, seen: map[types.Object]bool{}}
		n, bad := 0, ""
		ast.Inspect(decl.Body, func(nd ast.Node) bool {
			call, ok := nd.(*ast.CallExpr)
			if !ok || len(call.Args) != 1 {
				return true
			}
			sel, ok := call.Fun.(*ast.SelectorExpr)
			if !ok || sel.Sel.Name != "expanded" {
				return true
			}
			// the general (level > 0) branch widens the rectangle it has just assembled from the vertex extremes:
			// Rect{lat, lng}.expanded(...). (The level-0 branch and RectBounder widen the latitude only, on purpose.)
			if _, assembled := ast.Unparen(sel.X).(*ast.CompositeLit); !assembled {
				return true
			}
			lit, ok := ast.Unparen(call.Args[0]).(*ast.CompositeLit)
			if !ok || len(lit.Elts) != 2 {
				return true
			}
			for i, el := range lit.Elts {
				if kv, isKV := el.(*ast.KeyValueExpr); isKV {
					el = kv.Value
				}
				// s1.Angle(x): fold the operand
				if conv, isCall := ast.Unparen(el).(*ast.CallExpr); isCall && len(conv.Args) == 1 {
					if tv, isT := pkg.TypesInfo.Types[conv.Fun]; isT && tv.IsType() {
						el = conv.Args[0]
					}
				}
				r := fo.fold(el)
				if !r.ok {
					continue
				}
				n++
				if r.v < 2*eps*(1-1e-9) && bad == "" {
					bad = fmt.Sprintf("component %d of the margin at %s is %.3g (%.2g * dblEpsilon)", i+1, c.Pos(call.Pos()), r.v, r.v/eps)
				}
			}
			return true
		})
		switch {
		case n < 2:
			obs = append(obs, core.Ob("R-PADDING", construct, c.Pos(decl.Pos()), f.FullName(), core.Violated, "unresolved anchor: the constant margin expanded(LatLng{...}) was not found"))
		case bad != "":
			obs = append(obs, core.Ob("R-PADDING", construct, c.Pos(decl.Pos()), f.FullName(), core.Violated,
				bad+": the source derives 2 * dblEpsilon for the latitude and for the longitude (normalising a vertex moves its latitude by up to 0.5 * dblEpsilon, the other error sources by 1.5 * dblEpsilon more); with less, a vertex of the cell can lie outside the cell's own bound"))
		default:
			obs = append(obs, core.Ob("R-PADDING", construct, c.Pos(decl.Pos()), f.FullName(), core.Discharged, fmt.Sprintf("%d margin components, each at least 2 * dblEpsilon", n)))
		}
	}
	return obs
}

// ---------------------------------------------------------------------------

func runRoles(c *core.Ctx) []core.Obligation {
	var obs []core.Obligation
	add := func(construct string, fn *ssa.Function, ok bool, good, bad string) {
		site, name := "-", ""
		if fn != nil {
			site, name = c.Pos(fn.Pos()), core.FuncName(fn)
		}
		if ok {
			obs = append(obs, core.Ob("R-ROLES", construct, site, name, core.Discharged, good))
		} else {
			obs = append(obs, core.Ob("R-ROLES", construct, site, name, core.Violated, bad))
		}
	}
	// (1) hasCrossing: cellCrossesAnySubcell(ai's clipped shape, ai.cellID())
	if fn := c.Fn("s2", "loopCrosser", "hasCrossing"); fn != nil {
		ok, why := false, "cellCrossesAnySubcell call not found"
		core.AllInstrs(fn, func(in ssa.Instruction) {
			call, isCall := in.(*ssa.Call)
			if !isCall || core.StaticCallee(call) == nil || core.StaticCallee(call).Name() != "cellCrossesAnySubcell" {
				return
			}
			r1, r2 := rootParam(call.Call.Args[1], 0), rootParam(call.Call.Args[2], 0)
			if r1 == 1 && r2 == 1 {
				ok = true
			} else {
				why = fmt.Sprintf("the crossing query is rooted at a cell of parameter %d (expected A's cell, parameter 1) for A's shape of parameter %d: B cells under A's cell other than the current one are never searched", r2, r1)
			}
		})
		add("hasCrossing:query-root", fn, ok, "the crossing-edge query is rooted at A's index cell", why)
	} else {
		add("hasCrossing:query-root", nil, false, "", "unresolved anchor")
	}
	// (2) Loop.Contains / Intersects: IsFull escape next to subregionBound.Contains used for deciding (not rejecting)
	for _, m := range []string{"Contains", "Intersects"} {
		fn := c.Fn("s2", "Loop", m)
		construct := "(*s2.Loop)." + m + ":sphere-union-escape"
		if fn == nil {
			add(construct, nil, false, "", "unresolved anchor")
			continue
		}
		// find a Contains(subregionBound, other.bound) call whose FALSE edge leads to a block that evaluates Union(...).IsFull()
		_, cf, calls := callEdges(fn, "Contains")
		ok := false
		for i, call := range calls {
			if _, isSub := isBoundLoad(call.Call.Args[0], "subregionBound"); !isSub {
				continue
			}
			tgt := cf[i].From.Succs[cf[i].Idx]
			for _, in := range tgt.Instrs {
				if c2, isCall := in.(*ssa.Call); isCall {
					if f := core.StaticCallee(c2); f != nil && f.Name() == "IsFull" {
						ok = true
					}
				}
			}
		}
		add(construct, fn, ok, "where the sub-region bound decides which loop may contain the other, the alternative 'the two bounds together cover the sphere' is also accepted",
			"no `|| bound.Union(other.bound).IsFull()` alternative next to subregionBound.Contains: when the two loops together cover the sphere neither bound contains the other, and the containment check is skipped")
	}
	// (3) CanonicalFirstVertex: only Cmp decides
	if fn := c.Fn("s2", "Loop", "CanonicalFirstVertex"); fn != nil {
		ok, why := true, ""
		ncmp := 0
		for _, b := range fn.Blocks {
			iff, isIf := b.Instrs[len(b.Instrs)-1].(*ssa.If)
			if !isIf {
				continue
			}
			bo, isBo := iff.Cond.(*ssa.BinOp)
			if !isBo {
				continue
			}
			if call, isCall := bo.X.(*ssa.Call); isCall && core.StaticCallee(call) != nil && core.StaticCallee(call).Name() == "Cmp" {
				ncmp++
				continue
			}
			// loop bound i < n
			if core.IsInteger(bo.X.Type()) {
				continue
			}
			ok, why = false, fmt.Sprintf("a comparison of coordinates (%s) decides which vertex is canonical besides the full lexicographic Cmp: ties in that coordinate make the choice depend on the starting vertex", bo.Op)
		}
		if ncmp < 2 {
			ok, why = false, "the lexicographic comparisons were not found"
		}
		add("CanonicalFirstVertex:lexicographic", fn, ok, "the canonical vertex and direction are decided by Vector.Cmp only", why)
	} else {
		add("CanonicalFirstVertex:lexicographic", nil, false, "", "unresolved anchor")
	}
	// (4) initOneLoop resets depth. When the helper has been merged away, the single-loop path of initNested
	// (initNested itself and what it calls, except initLoops, which assigns the depths of a nested set) must do it.
	{
		anchor := c.Fn("s2", "Polygon", "initOneLoop")
		if anchor == nil {
			anchor = c.Fn("s2", "Polygon", "initNested")
		}
		if anchor != nil {
			ok := false
			seen := map[*ssa.Function]bool{}
			var visit func(fn *ssa.Function, depth int)
			visit = func(fn *ssa.Function, depth int) {
				if fn == nil || seen[fn] || depth > 2 || !core.IsGeo(fn) || fn.Name() == "initLoops" {
					return
				}
				seen[fn] = true
				core.AllInstrs(fn, func(in ssa.Instruction) {
					if st, isSt := in.(*ssa.Store); isSt {
						if fr, isF := core.AsFieldAddr(st.Addr); isF && fr.Name == "depth" {
							if k, isK := core.ConstInt(st.Val); isK && k == 0 {
								ok = true
							}
						}
					}
					if call, isC := in.(*ssa.Call); isC {
						visit(core.StaticCallee(call), depth+1)
					}
				})
			}
			visit(anchor, 0)
			add("initOneLoop:depth", anchor, ok, "the single loop's depth is reset to 0 (it is a shell of the new polygon whatever it was before)",
				"a polygon built from one loop keeps that loop's previous depth: a loop that used to be a hole (or was decoded with depth 1) is then summed as a hole by Area/Centroid and left out of the bound")
		} else {
			add("initOneLoop:depth", nil, false, "", "unresolved anchor")
		}
	}
	// (5) ChordAngle.Add / Sub clamps
	for _, cs := range []struct{ name, clamp string }{{"Add", "Min"}, {"Sub", "Max"}} {
		fn := c.Fn("s1", "ChordAngle", cs.name)
		construct := "(s1.ChordAngle)." + cs.name + ":clamp"
		if fn == nil {
			add(construct, nil, false, "", "unresolved anchor")
			continue
		}
		ok := true
		why := ""
		core.AllInstrs(fn, func(in ssa.Instruction) {
			r, isRet := in.(*ssa.Return)
			if !isRet {
				return
			}
			v := core.StripConv(r.Results[0])
			switch x := v.(type) {
			case *ssa.Const, *ssa.Parameter:
			case *ssa.Call:
				if f := core.StaticCallee(x); f == nil || f.Name() != cs.clamp {
					ok, why = false, "a computed result is returned without math."+cs.clamp
				}
			case *ssa.UnOp:
				// load of the receiver copy
			default:
				ok, why = false, fmt.Sprintf("a computed chord angle is returned without being clamped with math.%s: rounding can push it outside [0, 4], which is not a valid ChordAngle (IsValid / IsFull then misbehave)", cs.clamp)
			}
		})
		add(construct, fn, ok, "every computed result passes through math."+cs.clamp, why)
	}
	return obs
}

// ---------------------------------------------------------------------------

func runIdle(c *core.Ctx) []core.Obligation {
	var obs []core.Obligation
	fn := c.Fn("s2", "ShapeIndex", "applyUpdatesInternal")
	if fn == nil {
		return append(obs, core.Ob("R-IDLE", "applyUpdatesInternal", "-", "", core.Violated, "unresolved anchor"))
	}
	loops := loopsOf(fn)
	inLoop := func(b *ssa.BasicBlock) bool {
		for _, body := range loops {
			if body[b] {
				return true
			}
		}
		return false
	}
	w := indexFieldWrites(fn)
	bad := ""
	for _, f := range []string{"cells", "cellMap"} {
		for _, in := range w[f] {
			if !inLoop(in.Block()) {
				bad = fmt.Sprintf("ShapeIndex.%s is written at %s on every application of updates, including the idle re-application by a goroutine that queued on the mutex while another one built the index: lock-free iterators are reading it at that time", f, c.Pos(in.Pos()))
			}
		}
	}
	// also calls to sort on cells outside loops
	core.AllInstrs(fn, func(in ssa.Instruction) {
		if ci, ok := in.(ssa.CallInstruction); ok && !inLoop(in.Block()) {
			if f := core.StaticCallee(ci); f != nil && f.Pkg != nil && f.Pkg.Pkg.Path() == "sort" {
				for _, a := range ci.Common().Args {
					v := a
					if mi, isMI := v.(*ssa.MakeInterface); isMI {
						v = mi.X
					}
					if fr, isF := core.AsFieldLoad(v); isF && fr.Name == "cells" {
						bad = fmt.Sprintf("ShapeIndex.cells is re-sorted in place at %s on every (also idle) application of updates while lock-free iterators may be searching it", c.Pos(in.Pos()))
					}
				}
			}
		}
	})
	if bad != "" {
		obs = append(obs, core.Ob("R-IDLE", "applyUpdatesInternal:idle-reapplication", c.Pos(fn.Pos()), core.FuncName(fn), core.Violated, bad))
	} else {
		obs = append(obs, core.Ob("R-IDLE", "applyUpdatesInternal:idle-reapplication", c.Pos(fn.Pos()), core.FuncName(fn), core.Discharged,
			"applyUpdatesInternal writes the reader-visible cell list / map only through its per-shape and per-face work, so a re-application with nothing pending leaves them untouched"))
	}
	obs = append(obs, idleFaceNoop(c))
	return obs
}

// ---------------------------------------------------------------------------

func runNoAlias(c *core.Ctx) []core.Obligation {
	var obs []core.Obligation
	// values that alias clippedShape.edges: loads of the field, and slices of those
	isEdgesAlias := func(v ssa.Value) bool {
		for i := 0; i < 4; i++ {
			if sl, ok := v.(*ssa.Slice); ok {
				v = sl.X
				continue
			}
			break
		}
		fr, ok := core.AsFieldLoad(v)
		return ok && fr.Name == "edges" && fr.Struct != nil && fr.Struct.Obj().Name() == "clippedShape"
	}
	scope, _ := readOnlyScope(c)
	n := 0
	examined := 0
	for fn := range scope {
		core.AllInstrs(fn, func(in ssa.Instruction) {
			switch x := in.(type) {
			case *ssa.MapUpdate:
				examined++
				if isEdgesAlias(x.Value) {
					n++
					obs = append(obs, core.Ob("R-NOALIAS", fmt.Sprintf("%s:aliases-index-edges#%d", core.FuncName(fn), n), c.Pos(x.Pos()), core.FuncName(fn), core.Violated,
						"the edge-id slice of an index cell is stored by reference into a result map; callers filter such results in place, which overwrites the ids inside the shared index cell (later queries miss those edges)"))
				}
			case *ssa.Return:
				for _, r := range x.Results {
					if isEdgesAlias(r) && fn.Object() != nil && fn.Object().Exported() {
						n++
						obs = append(obs, core.Ob("R-NOALIAS", fmt.Sprintf("%s:returns-index-edges#%d", core.FuncName(fn), n), c.Pos(x.Pos()), core.FuncName(fn), core.Violated,
							"an exported query returns the edge-id slice of an index cell by reference"))
					}
				}
			}
		})
	}
	obs = append(obs, core.Ob("R-NOALIAS", "scan", "-", "", core.Discharged, fmt.Sprintf("%d map insertions in query code examined; none stores an index cell's own edge slice", examined)))
	obs = append(obs, appendToSharedField(c)...)
	return obs
}

// ---------------------------------------------------------------------------

func runConstRel(c *core.Ctx) []core.Obligation {
	var obs []core.Obligation
	add := func(construct, site, fname string, ok bool, good, bad string) {
		if ok {
			obs = append(obs, core.Ob("R-CONSTREL", construct, site, fname, core.Discharged, good))
		} else {
			obs = append(obs, core.Ob("R-CONSTREL", construct, site, fname, core.Violated, bad))
		}
	}
	eps := 2.220446049250313e-16
	// (1) AddPoint full-longitude threshold vs ExpandForSubregions gap allowance
	{
		var all []constEntry = collectConsts(c)
		thr, gap := math.NaN(), math.NaN()
		site := "-"
		for _, e := range all {
			switch e.key {
			case "(*s2.RectBounder).AddPoint":
				for _, v := range e.vals {
					if v > 3 && v < math.Pi {
						thr = (math.Pi - v) / eps
						site = c.Pos(e.pos)
					}
				}
			case "s2.ExpandForSubregions":
				for i, v := range e.vals {
					_ = i
					if v > 0 && v < 1e-6 && strings.Contains(strings.Join(e.srcs, ";"), "2.5") && math.Abs(v/eps-2.5) < 1e-6 {
						gap = v / eps
					}
				}
				// fall back: the smallest epsilon multiple in the function
				if math.IsNaN(gap) {
					for _, v := range e.vals {
						if v > 0 && v < 1e-6 && (math.IsNaN(gap) || v/eps < gap) {
							gap = v / eps
						}
					}
				}
			}
		}
		ok := !math.IsNaN(thr) && !math.IsNaN(gap) && gap > thr
		add("ExpandForSubregions-vs-AddPoint", site, "s2.ExpandForSubregions", ok,
			fmt.Sprintf("AddPoint widens an edge to all longitudes from Pi - %.3g eps; ExpandForSubregions allows for a gap of %.3g eps, which is larger", thr, gap),
			fmt.Sprintf("AddPoint widens an edge to all longitudes from Pi - %.3g eps but ExpandForSubregions only allows for a longitude gap of %.3g eps: a sub-loop's bound can become full-longitude while the expanded bound of the enclosing loop does not, so Contains() wrongly rejects", thr, gap))
	}
	// (2) r3.MaxPrec
	{
		k, ok := c.Pkgs["r3"].Types.Scope().Lookup("MaxPrec").(*types.Const)
		v := int64(0)
		if ok {
			v, _ = constant.Int64Val(constant.ToInt(k.Val()))
		}
		// a product of two float64 (53-bit mantissas, exponents down to 2^-1074) summed three times needs ~ 2*(1074+1023)+106+2 bits to be exact
		const need = 2*(1074+1023) + 106 + 2
		add("r3.MaxPrec", "-", "r3.MaxPrec", ok && v >= need,
			fmt.Sprintf("big.Float precision %d bits >= %d bits, enough for exact dot and cross products of any finite float64 vectors", v, need),
			fmt.Sprintf("big.Float precision %d bits is below the %d bits an exact product-sum of arbitrary float64 coordinates needs: the 'exact' predicates silently round when coordinates of very different magnitude are mixed", v, need))
	}
	// (3) stableSign: the error bound is proportional to the lengths of the SAME two vectors whose cross product is the determinant
	if fn := c.Fn("s2", "", "stableSign"); fn != nil {
		ok, why := stableBoundPairs(fn)
		add("stableSign:bound-uses-both-edges", c.Pos(fn.Pos()), core.FuncName(fn), ok,
			"on every path the stable determinant's error bound is detErrorMultiplier * |e1| * |e2| for the two edge vectors e1, e2 whose cross product is the determinant", why)
	}
	// (4) useConservativeCellDistance: zero.less(limit - maxError)
	if fn := c.Fn("s2", "EdgeQuery", "findEdgesInternal"); fn != nil {
		ok := false
		why := "the conservative-distance flag's comparison was not found"
		core.AllInstrs(fn, func(in ssa.Instruction) {
			call, isCall := in.(*ssa.Call)
			if !isCall || !call.Call.IsInvoke() || call.Call.Method.Name() != "less" {
				return
			}
			recv, isRecvCall := call.Call.Value.(*ssa.Call)
			arg, isArgCall := call.Call.Args[0].(*ssa.Call)
			if !isRecvCall || !isArgCall || !recv.Call.IsInvoke() || !arg.Call.IsInvoke() {
				return
			}
			switch {
			case recv.Call.Method.Name() == "zero" && arg.Call.Method.Name() == "sub":
				ok = true
			case recv.Call.Method.Name() == "sub" && arg.Call.Method.Name() == "zero":
				why = "the flag is set when (limit - maxError) < zero instead of zero < (limit - maxError): cell distances stop being lower bounds exactly when the target uses the permitted error"
			}
		})
		add("findEdgesInternal:conservative-flag", c.Pos(fn.Pos()), core.FuncName(fn), ok, "useConservativeCellDistance requires zero < distanceLimit - maxError (or an infinite limit)", why)
	}
	// (5) maxDeterminantError bounds the error of (A x B) . C for unit vectors with the plain cross product: whatever
	// is compared with it is Dot(Cross(a, b), c), or Dot(field, c) for a field that only ever holds such a cross product
	if k, ok := c.Pkgs["s2"].Types.Scope().Lookup("maxDeterminantError").(*types.Const); ok {
		want, _ := constant.Float64Val(constant.ToFloat(k.Val()))
		isCross := func(v ssa.Value) bool {
			// Cross(...) possibly wrapped into Point{...}
			for i := 0; i < 4; i++ {
				switch x := v.(type) {
				case *ssa.Call:
					f := core.StaticCallee(x)
					return f != nil && f.Name() == "Cross"
				case *ssa.UnOp: // load of a composite literal temp
					if al, isAl := x.X.(*ssa.Alloc); isAl {
						for _, r := range *al.Referrers() {
							if fa, isFa := r.(*ssa.FieldAddr); isFa {
								for _, rr := range *fa.Referrers() {
									if st, isSt := rr.(*ssa.Store); isSt && st.Addr == ssa.Value(fa) {
										v = st.Val
									}
								}
							}
						}
						continue
					}
					return false
				default:
					return false
				}
			}
			return false
		}
		fieldHoldsCross := func(name string) (bool, string) {
			okAll, n, where := true, 0, ""
			for _, fn := range c.GeoFuncs() {
				core.AllInstrs(fn, func(in ssa.Instruction) {
					st, isSt := in.(*ssa.Store)
					if !isSt {
						return
					}
					fr, isF := core.AsFieldAddr(st.Addr)
					// a composite literal Point{v} may be built in place: &(&x.name).Vector = v
					if isF && fr.Name == "Vector" {
						if outer, isOuter := core.AsFieldAddr(fr.Base); isOuter {
							fr = outer
						}
					}
					if !isF || fr.Name != name {
						return
					}
					n++
					if !isCross(st.Val) {
						okAll, where = false, core.FuncName(fn)
					}
				})
			}
			return okAll && n > 0, where
		}
		n := 0
		for _, fn := range c.GeoFuncs() {
			perFn := 0
			core.AllInstrs(fn, func(in ssa.Instruction) {
				bo, isBo := in.(*ssa.BinOp)
				if !isBo || (bo.Op != token.GTR && bo.Op != token.LSS) {
					return
				}
				kc, isK := bo.Y.(*ssa.Const)
				if !isK || kc.Value == nil || kc.Value.Kind() != constant.Float {
					return
				}
				f, _ := constant.Float64Val(kc.Value)
				if math.Abs(f) != want {
					return
				}
				n++
				perFn++
				construct := fmt.Sprintf("maxDeterminantError:operand:%s#%d", core.FuncName(fn), perFn)
				good, why := false, "the compared value is not a determinant Dot(Cross(a, b), c)"
				if dot, isCall := bo.X.(*ssa.Call); isCall && core.StaticCallee(dot) != nil && core.StaticCallee(dot).Name() == "Dot" && len(dot.Call.Args) == 2 {
					a := dot.Call.Args[0]
					if isCross(a) {
						good = true
					} else if fr, isF := core.AsFieldLoad(a); isF {
						// e.aXb.Vector: step out of the embedded r3.Vector to the field that holds the point
						if fr.Name == "Vector" {
							if outer, isOuter := core.AsFieldAddr(fr.Base); isOuter {
								fr = outer
							} else if outer, isOuter := core.AsFieldLoad(fr.Base); isOuter {
								fr = outer
							}
						}
						if fr.Name == "Vector" {
							why = "the determinant's first factor could not be traced to a Cross product"
						} else if holds, where := fieldHoldsCross(fr.Name); holds {
							good = true
						} else {
							why = "the determinant uses the cached vector " + fr.Name + ", which " + where + " assigns something other than a plain Cross product (e.g. PointCross, which is (a+b)x(b-a) = 2 a x b with extra roundings): the absolute bound maxDeterminantError was derived for a x b of unit vectors and is too small for it"
						}
					} else if fl, isFl := a.(*ssa.Field); isFl {
						_ = fl
						why = "the determinant's first factor could not be traced to a Cross product"
					}
				}
				add(construct, c.Pos(bo.Pos()), core.FuncName(fn), good, "the bound is applied to (a x b) . c computed with the plain cross product of the arguments", why)
			})
		}
		if n < 2 {
			add("maxDeterminantError:operand:anchor", "-", "", false, "", fmt.Sprintf("only %d comparisons with maxDeterminantError found, 2 expected", n))
		}
	}
	// (6) RectBounder.AddPoint: the threshold on |N| (1.91346e-15) and the 3.84-epsilon direction error it guarantees were
	// derived for N = (A - B) x (A + B) = 2 A x B, the cross product that stays accurate for nearly parallel vectors
	if fn := c.Fn("s2", "RectBounder", "AddPoint"); fn != nil {
		ok, why := false, "the comparison of the normal's length with 1.91346e-15 was not found"
		core.AllInstrs(fn, func(in ssa.Instruction) {
			bo, isBo := in.(*ssa.BinOp)
			if !isBo || bo.Op != token.LSS {
				return
			}
			kc, isK := bo.Y.(*ssa.Const)
			if !isK || kc.Value == nil || kc.Value.Kind() != constant.Float {
				return
			}
			if f, _ := constant.Float64Val(kc.Value); math.Abs(f-1.91346e-15) > 1e-20 {
				return
			}
			norm, isCall := bo.X.(*ssa.Call)
			if !isCall || core.StaticCallee(norm) == nil || core.StaticCallee(norm).Name() != "Norm" {
				why = "the value compared with 1.91346e-15 is not the length of the edge normal"
				return
			}
			narg := norm.Call.Args[0]
			if ld, isLd := narg.(*ssa.UnOp); isLd { // n spilled to a local
				if al, isAl := ld.X.(*ssa.Alloc); isAl {
					var vals []ssa.Value
					for _, r := range *al.Referrers() {
						if st, isSt := r.(*ssa.Store); isSt && st.Addr == ssa.Value(al) {
							vals = append(vals, st.Val)
						}
					}
					if len(vals) == 1 {
						narg = vals[0]
					}
				}
			}
			switch x := narg.(type) {
			case *ssa.Call:
				f := core.StaticCallee(x)
				switch {
				case f != nil && f.Name() == "PointCross":
					ok = true
				case f != nil && f.Name() == "Cross" && len(x.Call.Args) == 2:
					names := map[string]bool{}
					for _, a := range x.Call.Args {
						if ac, isC := a.(*ssa.Call); isC && core.StaticCallee(ac) != nil {
							names[core.StaticCallee(ac).Name()] = true
						}
					}
					if names["Sub"] && names["Add"] {
						ok = true
					} else {
						why = "the edge normal is the plain cross product of the two endpoints: for a short edge its direction error is about epsilon/|A-B| (1e-13..1e-9 rad), far beyond the 3.84 epsilon that the threshold on |N| and the final padding assume, so the latitude extremum of the edge can fall outside the bound"
					}
				default:
					why = "the edge normal is not computed as (A - B) x (A + B): the threshold on |N| and the 3.84-epsilon direction error it guarantees hold for that form only (a plain or rescaled A x B loses about epsilon/|A-B| in direction on short edges)"
				}
			default:
				why = "the edge normal is not computed as (A - B) x (A + B): the threshold on |N| and the 3.84-epsilon direction error it guarantees hold for that form only"
			}
		})
		add("RectBounder.AddPoint:robust-normal", c.Pos(fn.Pos()), core.FuncName(fn), ok, "the normal whose length is tested against 1.91346e-15 is (A - B) x (A + B)", why)
	}
	// (7) RectBounder.AddPoint, degenerate normal: the edge may go anywhere (bound := full) exactly when A and B are nearly
	// ANTIPODAL, i.e. A.B < 0, equivalently |A-B| > |A+B|; for nearly identical points the endpoints' rectangle is enough
	if fn := c.Fn("s2", "RectBounder", "AddPoint"); fn != nil {
		ok, why := false, "the assignment of the full rectangle in the degenerate-normal branch was not found"
		core.AllInstrs(fn, func(in ssa.Instruction) {
			st, isSt := in.(*ssa.Store)
			if !isSt {
				return
			}
			call, isCall := st.Val.(*ssa.Call)
			if !isCall || core.StaticCallee(call) == nil || core.StaticCallee(call).Name() != "FullRect" {
				return
			}
			if fr, isF := core.AsFieldAddr(st.Addr); !isF || fr.Name != "bound" {
				return
			}
			// the branch that immediately controls the store
			for _, b := range fn.Blocks {
				iff, isIf := b.Instrs[len(b.Instrs)-1].(*ssa.If)
				if !isIf || len(b.Succs) != 2 {
					continue
				}
				edge := -1
				if b.Succs[0] == st.Block() {
					edge = 0
				} else if b.Succs[1] == st.Block() {
					edge = 1
				}
				if edge < 0 {
					continue
				}
				bo, isBo := iff.Cond.(*ssa.BinOp)
				if !isBo {
					why = "the condition of the full-rectangle branch was not recognised"
					continue
				}
				op := bo.Op
				if edge == 1 { // store on the false edge: negate
					op = map[token.Token]token.Token{token.LSS: token.GEQ, token.LEQ: token.GTR, token.GTR: token.LEQ, token.GEQ: token.LSS}[op]
				}
				nameOf := func(v ssa.Value) string {
					if cl, isC := v.(*ssa.Call); isC && core.StaticCallee(cl) != nil {
						return core.StaticCallee(cl).Name()
					}
					return ""
				}
				innerOf := func(v ssa.Value) string { // Norm2(x) / Norm(x): how x was built (Sub or Add)
					cl, isC := v.(*ssa.Call)
					if !isC || len(cl.Call.Args) == 0 {
						return ""
					}
					arg := cl.Call.Args[0]
					if ld, isLd := arg.(*ssa.UnOp); isLd {
						if al, isAl := ld.X.(*ssa.Alloc); isAl {
							for _, r := range *al.Referrers() {
								if s2, isS := r.(*ssa.Store); isS && s2.Addr == ssa.Value(al) {
									arg = s2.Val
								}
							}
						}
					}
					return nameOf(arg)
				}
				switch {
				case nameOf(bo.X) == "Dot":
					k, isK := bo.Y.(*ssa.Const)
					if isK && k.Value != nil && k.Value.String() == "0" && (op == token.LSS || op == token.LEQ) {
						ok = true
					} else {
						why = "the full rectangle is assigned when A.B is NOT negative, i.e. for nearly identical points, while nearly antipodal points get only the rectangle of their two endpoints: an edge through a pole or around the far side of the sphere is not covered by the bound"
					}
				case (nameOf(bo.X) == "Norm2" || nameOf(bo.X) == "Norm") && nameOf(bo.Y) == nameOf(bo.X):
					x, y := innerOf(bo.X), innerOf(bo.Y)
					bigger, smaller := x, y // op GTR/GEQ: X > Y
					if op == token.LSS || op == token.LEQ {
						bigger, smaller = y, x
					}
					if bigger == "Sub" && smaller == "Add" {
						ok = true
					} else if bigger == "Add" && smaller == "Sub" {
						why = "the full rectangle is assigned when |A-B| < |A+B|, i.e. for nearly IDENTICAL points, while nearly antipodal points (|A-B| > |A+B|) get only the rectangle of their two endpoints: an edge through a pole or around the far side of the sphere is not covered by the bound"
					} else {
						why = "the condition of the full-rectangle branch was not recognised"
					}
				default:
					why = "the condition of the full-rectangle branch was not recognised"
				}
			}
		})
		add("RectBounder.AddPoint:antipodal-branch", c.Pos(fn.Pos()), core.FuncName(fn), ok, "the full rectangle is assigned exactly on the nearly-antipodal side (A.B < 0)", why)
	}
	// (8) updateFaceEdges skips the cells of the face before and after the shrunk cell: both ranges are written begin <= end -
	// (face.RangeMin, shrunk.RangeMin) and (shrunk.RangeMax.Next, face.RangeMax.Next); with the arguments the other way
	// round the range is empty and the interior cells it should create are never made
	if fn := c.Fn("s2", "ShapeIndex", "updateFaceEdges"); fn != nil {
		origin := func(v ssa.Value) string { // "face" | "shrunk" | ""
			for i := 0; i < 6; i++ {
				call, isCall := v.(*ssa.Call)
				if !isCall || core.StaticCallee(call) == nil {
					return ""
				}
				switch core.StaticCallee(call).Name() {
				case "CellIDFromFace":
					return "face"
				case "shrinkToFit":
					return "shrunk"
				case "RangeMin", "RangeMax", "Next":
					v = call.Call.Args[0]
				default:
					return ""
				}
			}
			return ""
		}
		kindOf := func(v ssa.Value) string { // min | maxnext
			call, isCall := v.(*ssa.Call)
			if !isCall || core.StaticCallee(call) == nil {
				return ""
			}
			switch core.StaticCallee(call).Name() {
			case "RangeMin":
				return "min"
			case "Next":
				if inner, isC := call.Call.Args[0].(*ssa.Call); isC && core.StaticCallee(inner) != nil && core.StaticCallee(inner).Name() == "RangeMax" {
					return "maxnext"
				}
			}
			return ""
		}
		n, ok, why := 0, true, ""
		core.AllInstrs(fn, func(in ssa.Instruction) {
			call, isCall := in.(*ssa.Call)
			if !isCall || core.StaticCallee(call) == nil || core.StaticCallee(call).Name() != "skipCellRange" || len(call.Call.Args) < 3 {
				return
			}
			n++
			b, e := call.Call.Args[1], call.Call.Args[2]
			kb, ke, ob, oe := kindOf(b), kindOf(e), origin(b), origin(e)
			switch {
			case kb == "min" && ke == "min" && ob == "face" && oe == "shrunk":
			case kb == "maxnext" && ke == "maxnext" && ob == "shrunk" && oe == "face":
			case kb == "" || ke == "" || ob == "" || oe == "":
				ok, why = false, "the arguments of a skipCellRange call in updateFaceEdges were not recognised"
			default:
				ok, why = false, fmt.Sprintf("skipCellRange(%s of the %s cell, %s of the %s cell): the range is written end-first, so it is empty and the index cells for the part of the face before (after) the shrunk cell are never created - points there are reported as outside shapes whose interior covers them", kb, ob, ke, oe)
			}
		})
		if n < 2 {
			ok, why = false, fmt.Sprintf("%d skipCellRange calls found in updateFaceEdges, 2 expected", n)
		}
		add("updateFaceEdges:skip-ranges-ordered", c.Pos(fn.Pos()), core.FuncName(fn), ok, "both skipped ranges are written begin <= end", why)
	}
	// (9) a ShapeIndex target always uses the max error it is given (its sub-query does), so setMaxError answers true
	// unconditionally; the outer query decides from that answer whether cell distances are still lower bounds
	for _, typ := range []string{"MinDistanceToShapeIndexTarget", "MaxDistanceToShapeIndexTarget"} {
		fn := c.Fn("s2", typ, "setMaxError")
		if fn == nil {
			add(typ+".setMaxError:always-true", "-", "", false, "", "unresolved anchor")
			continue
		}
		allTrue, nret := true, 0
		for _, b := range fn.Blocks {
			if r, isRet := b.Instrs[len(b.Instrs)-1].(*ssa.Return); isRet && len(r.Results) == 1 {
				nret++
				k, isK := r.Results[0].(*ssa.Const)
				if !isK || k.Value == nil || k.Value.String() != "true" {
					allTrue = false
				}
			}
		}
		add(typ+".setMaxError:always-true", c.Pos(fn.Pos()), core.FuncName(fn), allTrue && nret > 0, "every return is true",
			typ+".setMaxError can answer false although the sub-query keeps using the error: the outer query then treats cell distances as exact lower bounds and stops before it has seen a closer edge")
	}
	// (10) direction of the conservative threshold tests (after round-6 seed C08-r6m3): "less or equal, conservatively"
	// must not miss a target whose true distance is within the limit, so the limit GROWS by the error before
	// IsDistanceLess; "greater or equal, conservatively" SHRINKS it (the error is negated) before IsDistanceGreater.
	for _, cs := range []struct {
		name, inner string
		negated     bool
	}{{"IsConservativeDistanceLessOrEqual", "IsDistanceLess", false}, {"IsConservativeDistanceGreaterOrEqual", "IsDistanceGreater", true}} {
		construct := "EdgeQuery." + cs.name + ":direction"
		fn := c.Fn("s2", "EdgeQuery", cs.name)
		if fn == nil {
			add(construct, "-", "", false, "", "unresolved anchor")
			continue
		}
		okInner, okDir, found := false, false, false
		core.AllInstrs(fn, func(in ssa.Instruction) {
			call, isC := in.(*ssa.Call)
			if !isC || core.StaticCallee(call) == nil {
				return
			}
			switch core.StaticCallee(call).Name() {
			case cs.inner:
				okInner = true
			case "Expanded":
				found = true
				arg := call.Call.Args[len(call.Call.Args)-1]
				neg := false
				if u, isU := arg.(*ssa.UnOp); isU && u.Op == token.SUB {
					neg, arg = true, u.X
				}
				if ec, isE := arg.(*ssa.Call); isE && core.StaticCallee(ec) != nil && strings.Contains(core.StaticCallee(ec).Name(), "MaxError") {
					okDir = neg == cs.negated
				}
			}
		})
		why := "the limit is moved the wrong way by the distance error: with the error added for 'greater or equal' (or subtracted for 'less or equal') a target whose true distance equals the limit, or is within the rounding error of it, gets the answer false - the opposite of conservative"
		if !found {
			why = "unresolved anchor: the call of ChordAngle.Expanded was not found"
		} else if !okInner {
			why = "the conservative test does not end in " + cs.inner
		}
		add(construct, c.Pos(fn.Pos()), core.FuncName(fn), found && okInner && okDir, "the limit is widened in the direction that keeps the borderline target, then handed to "+cs.inner, why)
	}
	// (11) the running minimum of Polyline.Project starts above every possible distance (after round-6 seed C17-r6m3,
	// `10 * s1.Radian` replaced by `math.Pi * s1.Radian`): the comparison is strict, so with a start value of Pi a
	// point antipodal to a segment never replaces it, minIndex stays -1 and the function indexes out of range.
	if fn := c.Fn("s2", "Polyline", "Project"); fn != nil {
		construct := "(*s2.Polyline).Project:sentinel-above-pi"
		var seen bool
		var val float64
		core.AllInstrs(fn, func(in ssa.Instruction) {
			phi, isPhi := in.(*ssa.Phi)
			if !isPhi || !core.IsNamed(phi.Type(), "s1", "Angle") {
				return
			}
			for _, e := range phi.Edges {
				if k, isK := e.(*ssa.Const); isK && k.Value != nil {
					f, _ := constant.Float64Val(constant.ToFloat(k.Value))
					seen, val = true, f
				}
				if call, isC := e.(*ssa.Call); isC && core.StaticCallee(call) != nil && core.StaticCallee(call).Name() == "InfAngle" {
					seen, val = true, math.Inf(1)
				}
			}
		})
		if !seen {
			add(construct, c.Pos(fn.Pos()), core.FuncName(fn), false, "", "unresolved anchor: the constant the running minimum starts from was not found")
		} else {
			add(construct, c.Pos(fn.Pos()), core.FuncName(fn), val > math.Pi*(1+1e-9), fmt.Sprintf("the running minimum starts at %g rad, above the largest possible distance Pi", val),
				fmt.Sprintf("the running minimum starts at %g rad, which is not above the largest possible distance Pi: the loop replaces it only when a segment is strictly closer, so for a point at distance Pi from every segment no segment is chosen, the index stays -1 and (*p)[minIndex-1] is out of range", val))
		}
	} else {
		add("(*s2.Polyline).Project:sentinel-above-pi", "-", "", false, "", "unresolved anchor")
	}
	// (12) the initial covering of a non-empty index is not empty (after round-6 seed C08-r6m1, the final
	// addInitialRange moved inside the "at least two cells" branch): every path through initCovering adds a range.
	if fn := c.Fn("s2", "EdgeQuery", "initCovering"); fn != nil {
		construct := "(*s2.EdgeQuery).initCovering:never-empty"
		stop := map[*ssa.BasicBlock]bool{}
		var exit []*ssa.BasicBlock
		for _, b := range fn.Blocks {
			for _, in := range b.Instrs {
				if call, isC := in.(*ssa.Call); isC && core.StaticCallee(call) != nil && core.StaticCallee(call).Name() == "addInitialRange" {
					stop[b] = true
				}
			}
			if _, isRet := b.Instrs[len(b.Instrs)-1].(*ssa.Return); isRet {
				exit = append(exit, b)
			}
		}
		ok := len(stop) > 0
		for _, x := range exit {
			if !stop[x] && core.ReachableAvoiding(fn.Blocks[0], x, nil, stop) {
				ok = false
			}
		}
		if stop[fn.Blocks[0]] {
			ok = true
		}
		add(construct, c.Pos(fn.Pos()), core.FuncName(fn), ok, "every path through initCovering adds at least one range of index cells",
			"initCovering can finish without adding any range (an index that is a single cell skips the only addInitialRange): the optimized search then starts from an empty covering, finds nothing, and reports no edges / an infinite distance where the exhaustive scan finds the edges of that cell")
	} else {
		add("(*s2.EdgeQuery).initCovering:never-empty", "-", "", false, "", "unresolved anchor")
	}
	// (13) the nearly-antipodal test of ExpandForSubregions for a bound that straddles the equator multiplies the
	// LARGER of the two pole gaps with the longitude gap (after round-8 seed C10-r8m2, `math.Max(s, n) * lngGap`
	// turned into `(s + n) * lngGap`): the documented condition is maxLatGap * lngGap < 1.765e-15; with the sum the
	// product is up to twice as large, the full rectangle is returned for fewer bounds, and a sub-region with an edge
	// between nearly antipodal vertices, whose own bound RectBounder widens to full, is no longer contained.
	if fn := c.Fn("s2", "", "ExpandForSubregions"); fn != nil {
		found, ok := false, false
		core.AllInstrs(fn, func(in ssa.Instruction) {
			bo, isBo := in.(*ssa.BinOp)
			if !isBo || (bo.Op != token.LSS && bo.Op != token.LEQ) {
				return
			}
			k, isK := bo.Y.(*ssa.Const)
			if !isK || k.Value == nil {
				return
			}
			f, _ := constant.Float64Val(constant.ToFloat(k.Value))
			if f < 1.7e-15 || f > 1.8e-15 {
				return
			}
			mul, isMul := bo.X.(*ssa.BinOp)
			if !isMul || mul.Op != token.MUL {
				return
			}
			// the branch with two gaps is the one whose factor is not a plain variable
			for _, o := range []ssa.Value{mul.X, mul.Y} {
				switch x := o.(type) {
				case *ssa.Call:
					if core.StaticCallee(x) != nil && core.StaticCallee(x).Name() == "Max" && len(x.Call.Args) == 2 {
						// lngGap itself is math.Max(0, ...): the maximum of the two pole gaps has no constant argument
						_, k0 := x.Call.Args[0].(*ssa.Const)
						_, k1 := x.Call.Args[1].(*ssa.Const)
						if !k0 && !k1 {
							found, ok = true, true
						}
					}
				case *ssa.BinOp:
					if x.Op == token.ADD {
						found = true
					}
				}
			}
		})
		if !found {
			add("ExpandForSubregions:equator-branch-uses-max-gap", c.Pos(fn.Pos()), core.FuncName(fn), false, "", "unresolved anchor: the product compared with 1.765e-15 in the equator-straddling branch was not found")
		} else {
			add("ExpandForSubregions:equator-branch-uses-max-gap", c.Pos(fn.Pos()), core.FuncName(fn), ok, "the larger pole gap times the longitude gap is compared with 1.765e-15",
				"the equator-straddling branch multiplies the SUM of the two pole gaps with the longitude gap, not the larger one: the documented threshold applies to maxLatGap * lngGap, so for a bound that comes equally close to both poles the full rectangle is returned only for half the range it must cover, and Loop.Contains answers false for a contained loop with nearly antipodal vertices")
		}
	} else {
		add("ExpandForSubregions:equator-branch-uses-max-gap", "-", "", false, "", "unresolved anchor")
	}
	_ = sort.Strings
	return obs
}

// stableBoundPairs checks, path by path, that the two vectors whose squared lengths are multiplied in stableSign's
// error bound are the two operands of the cross product the determinant is computed from.
func stableBoundPairs(fn *ssa.Function) (bool, string) {
	callee := func(v ssa.Value, name string) *ssa.Call {
		call, ok := v.(*ssa.Call)
		if !ok || core.StaticCallee(call) == nil || core.StaticCallee(call).Name() != name {
			return nil
		}
		return call
	}
	// determinant: Dot(Cross(E1, E2), op)
	var e1, e2 ssa.Value
	core.AllInstrs(fn, func(in ssa.Instruction) {
		if call, ok := in.(*ssa.Call); ok && core.StaticCallee(call) != nil && core.StaticCallee(call).Name() == "Dot" && len(call.Call.Args) == 2 {
			if cr := callee(call.Call.Args[0], "Cross"); cr != nil && len(cr.Call.Args) == 2 {
				e1, e2 = cr.Call.Args[0], cr.Call.Args[1]
			}
		}
	})
	if e1 == nil {
		return false, "the determinant e1.Cross(e2).Dot(op) was not found"
	}
	// lengths(v): the vectors whose lengths are multiplied in v, per incoming edge when v is a phi
	type pair struct{ a, b ssa.Value }
	var lengths func(v ssa.Value, squared bool) (vecs []ssa.Value, ok bool)
	lengths = func(v ssa.Value, squared bool) ([]ssa.Value, bool) {
		if call := callee(v, "Norm2"); call != nil && squared {
			return []ssa.Value{call.Call.Args[0]}, true
		}
		if call := callee(v, "Norm"); call != nil && !squared {
			return []ssa.Value{call.Call.Args[0]}, true
		}
		if call := callee(v, "Sqrt"); call != nil && !squared {
			return lengths(call.Call.Args[0], true)
		}
		if bo, ok := v.(*ssa.BinOp); ok && bo.Op == token.MUL {
			x, okx := lengths(bo.X, squared)
			y, oky := lengths(bo.Y, squared)
			if okx && oky {
				return append(x, y...), true
			}
		}
		return nil, false
	}
	// the bound: the value the determinant is compared with (det > maxErr); constant factors are dropped
	var bound ssa.Value
	core.AllInstrs(fn, func(in ssa.Instruction) {
		bo, ok := in.(*ssa.BinOp)
		if !ok || bo.Op != token.GTR || bound != nil {
			return
		}
		x := bo.X
		if u, isU := x.(*ssa.UnOp); isU && u.Op == token.SUB {
			x = u.X
		}
		if callee(x, "Dot") != nil {
			bound = bo.Y
		}
	})
	if bound == nil {
		return false, "the comparison of the determinant with its error bound was not found"
	}
	var stripConst func(v ssa.Value) ssa.Value
	stripConst = func(v ssa.Value) ssa.Value {
		if bo, ok := v.(*ssa.BinOp); ok && bo.Op == token.MUL {
			if _, isK := bo.X.(*ssa.Const); isK {
				return stripConst(bo.Y)
			}
			if _, isK := bo.Y.(*ssa.Const); isK {
				return stripConst(bo.X)
			}
			// (K * a) * b  ->  a * b
			if inner, ok := bo.X.(*ssa.BinOp); ok && inner.Op == token.MUL {
				if _, isK := inner.X.(*ssa.Const); isK {
					return &ssa.BinOp{Op: token.MUL, X: inner.Y, Y: bo.Y}
				}
				if _, isK := inner.Y.(*ssa.Const); isK {
					return &ssa.BinOp{Op: token.MUL, X: inner.X, Y: bo.Y}
				}
			}
		}
		return v
	}
	bound = stripConst(bound)
	check := func(vecs []ssa.Value, a, b ssa.Value, where string) (bool, string) {
		if len(vecs) != 2 {
			return false, fmt.Sprintf("%sthe bound multiplies %d lengths, expected 2", where, len(vecs))
		}
		if (vecs[0] == a && vecs[1] == b) || (vecs[0] == b && vecs[1] == a) {
			return true, ""
		}
		return false, where + "the error bound does not multiply the lengths of the two vectors whose cross product is taken (for instance the same length twice): with one edge much shorter than the other the bound is far too small and rounding noise is returned as a definite sign"
	}
	// unconditional form
	if vecs, ok := lengths(bound, false); ok {
		return check(vecs, e1, e2, "")
	}
	// per-path form: Sqrt(phi) or phi, with e1/e2 phis in the same block
	inner, squared := bound, false
	if call := callee(bound, "Sqrt"); call != nil {
		inner, squared = call.Call.Args[0], true
	}
	phi, isPhi := inner.(*ssa.Phi)
	p1, is1 := e1.(*ssa.Phi)
	p2, is2 := e2.(*ssa.Phi)
	if !isPhi || !is1 || !is2 || p1.Block() != phi.Block() || p2.Block() != phi.Block() {
		return false, "the shape of the error bound was not recognised (expected constant * sqrt(|e1|^2 * |e2|^2) or a per-branch product)"
	}
	for i, in := range phi.Edges {
		vecs, ok := lengths(in, squared)
		if !ok {
			return false, fmt.Sprintf("the error bound on the path through block %d is not a product of two vector lengths", phi.Block().Preds[i].Index)
		}
		if ok, why := check(vecs, p1.Edges[i], p2.Edges[i], fmt.Sprintf("on the path through block %d (%s) ", phi.Block().Preds[i].Index, phi.Block().Preds[i].Comment)); !ok {
			return false, why
		}
	}
	_ = pair{}
	return true, ""
}

// flagControlsOptionalPart (after round-8 seed C09-r8m1, the bound written when len(vertices) > 64 while the flag is set
// when len(vertices) >= 64): the compressed loop format has an optional trailing bound, announced by a bit of the
// properties word. The reader decides from that bit; the writer must decide from the very word it has just written,
// not from a second evaluation of the threshold - two evaluations can disagree (here: at exactly 64 vertices the bit
// says "bound follows" and none is written, so the reader eats the next loop's bytes).
func flagControlsOptionalPart(c *core.Ctx) core.Obligation {
	const construct = "(*s2.Loop).encodeCompressed:bound-written-iff-flag-written"
	fn := c.Fn("s2", "Loop", "encodeCompressed")
	if fn == nil {
		return core.Ob("R-FLAGS", construct, "-", "", core.Violated, "unresolved anchor")
	}
	// the properties word: the result of compressedEncodingProperties()
	var props ssa.Value
	var enc *ssa.Call
	core.AllInstrs(fn, func(in ssa.Instruction) {
		call, ok := in.(*ssa.Call)
		if !ok || core.StaticCallee(call) == nil {
			return
		}
		switch core.StaticCallee(call).Name() {
		case "compressedEncodingProperties":
			props = call
		case "encode":
			if len(call.Call.Args) > 0 {
				if fr, ok := core.AsFieldAddr(call.Call.Args[0]); ok && fr.Name == "bound" {
					enc = call
				} else if fr, ok := core.AsFieldLoad(call.Call.Args[0]); ok && fr.Name == "bound" {
					enc = call
				}
			}
		}
	})
	if props == nil || enc == nil {
		return core.Ob("R-FLAGS", construct, c.Pos(fn.Pos()), core.FuncName(fn), core.Violated, "unresolved anchor: the properties word or the write of the bound was not found")
	}
	for _, b := range fn.Blocks {
		ifi, ok := b.Instrs[len(b.Instrs)-1].(*ssa.If)
		if !ok {
			continue
		}
		bo, ok := ifi.Cond.(*ssa.BinOp)
		if !ok || (bo.Op != token.NEQ && bo.Op != token.EQL) {
			continue
		}
		and, ok := bo.X.(*ssa.BinOp)
		if !ok || and.Op != token.AND || (and.X != props && and.Y != props) {
			continue
		}
		side := 0
		if bo.Op == token.EQL {
			side = 1
		}
		if core.EdgeDominates(core.Edge{From: b, Idx: side}, enc.Block()) {
			return core.Ob("R-FLAGS", construct, c.Pos(fn.Pos()), core.FuncName(fn), core.Discharged, "the bound is written exactly when the bit of the properties word that was written says so")
		}
	}
	return core.Ob("R-FLAGS", construct, c.Pos(enc.Pos()), core.FuncName(fn), core.Violated,
		"whether the bound is written is not decided by a bit of the properties word returned by compressedEncodingProperties(): the reader goes by that bit, so wherever the writer's own condition and the bit disagree (one vertex count at a threshold is enough) the stream has a bound the reader does not expect, or lacks one it does, and everything after it is misparsed")
}

// uvarintFastPath (after round-8 seed C09-r8m2, a one-byte fast path in writeUvarint guarded by x <= 0x80): a uvarint
// byte carries 7 bits, so a value fits in one byte only below 128; 128 itself written as the single byte 0x80 is read
// back as a continuation byte. Any write in writeUvarint that does not go through binary.PutUvarint must be behind
// x < 128 (or x <= 127).
func uvarintFastPath(c *core.Ctx) core.Obligation {
	const construct = "(*s2.encoder).writeUvarint:one-byte-path-below-128"
	fn := c.Fn("s2", "encoder", "writeUvarint")
	if fn == nil {
		return core.Ob("R-FLAGS", construct, "-", "", core.Violated, "unresolved anchor")
	}
	put := false
	var direct []*ssa.Call
	core.AllInstrs(fn, func(in ssa.Instruction) {
		call, ok := in.(*ssa.Call)
		if !ok || core.StaticCallee(call) == nil {
			return
		}
		switch core.StaticCallee(call).Name() {
		case "PutUvarint", "AppendUvarint":
			put = true
		case "writeUint8", "WriteByte":
			direct = append(direct, call)
		}
	})
	if !put {
		return core.Ob("R-FLAGS", construct, c.Pos(fn.Pos()), core.FuncName(fn), core.Violated, "writeUvarint no longer encodes through encoding/binary")
	}
	for _, d := range direct {
		ok := false
		for _, b := range fn.Blocks {
			ifi, isIf := b.Instrs[len(b.Instrs)-1].(*ssa.If)
			if !isIf {
				continue
			}
			bo, isBo := ifi.Cond.(*ssa.BinOp)
			if !isBo {
				continue
			}
			k, isK := core.ConstInt(bo.Y)
			if _, isP := bo.X.(*ssa.Parameter); !isP || !isK {
				continue
			}
			side := -1
			switch {
			case bo.Op == token.LSS && k <= 128, bo.Op == token.LEQ && k <= 127:
				side = 0
			case bo.Op == token.GEQ && k <= 128, bo.Op == token.GTR && k <= 127:
				side = 1
			}
			if side >= 0 && core.EdgeDominates(core.Edge{From: b, Idx: side}, d.Block()) {
				ok = true
			}
		}
		if !ok {
			return core.Ob("R-FLAGS", construct, c.Pos(d.Pos()), core.FuncName(fn), core.Violated,
				"a value is written as a single raw byte on a path that is not limited to values below 128: a uvarint byte holds 7 bits, so 128 written as 0x80 is read back as a continuation byte and every later field of the stream is misaligned (a loop of 128 vertices, a polygon of 128 loops, a run of 21 vertices on face 2 all produce exactly that value)")
		}
	}
	return core.Ob("R-FLAGS", construct, c.Pos(fn.Pos()), core.FuncName(fn), core.Discharged, fmt.Sprintf("encoded by encoding/binary; %d single-byte shortcut(s), each below 128", len(direct)))
}
