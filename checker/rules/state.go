package rules

import (
	"fmt"
	"go/token"
	"go/types"
	"sort"
	"strings"

	"golang.org/x/tools/go/ssa"

	"verif/checker/core"
)

func init() {
	core.Register(&core.Rule{
		Name: "R-RESET",
		Clause: "C13 'after any interleaving of adding shapes, forcing builds, resetting and querying': ShapeIndex.Reset assigns every field that any operation other than the constructor can change, " +
			"so that a reset index is indistinguishable from a new one (Loop.Invert and Polygon re-initialisation rely on it).",
		Min: 6,
		Run: runReset,
	})
	core.Register(&core.Rule{
		Name: "R-SCRATCH",
		Clause: "C13 'whether a query object is fresh or has already answered other questions': every field of EdgeQuery that a query writes is either re-initialised on every call before it is read " +
			"(must-define-before-use through the single internal entry point), reset by Reset, or a named cache with a stated invalidation reason; the distance target is told the per-call error on every path.",
		Min: 10,
		Run: runScratch,
	})
	core.Register(&core.Rule{
		Name: "R-OPTS",
		Clause: "C13 'options the caller set': no EdgeQuery method writes through the pointer to the configured options (only copies may be modified), and EdgeQuery.opts is re-pointed only " +
			"under a save/restore that returns it to the configured value on every exit.",
		Min: 4,
		Run: runOpts,
	})
	core.Register(&core.Rule{
		Name: "R-INIT",
		Clause: "C04/C05/C13/C15 'no panics': every (re)initialiser of Loop and Polygon leaves the index pointer non-nil on every non-error path, and the exported Polygon methods that " +
			"dereference the index test it for nil first (the zero-value Polygon is documented as the empty polygon).",
		Min: 6,
		Run: runInit,
	})
}

// fieldAccess is one write (or read) of a struct field.
type fieldAccess struct {
	fn    *ssa.Function
	in    ssa.Instruction
	base  ssa.Value // the object pointer
	field string
}

// structFieldWrites returns every instruction in the library that writes a field of the named struct:
// plain stores, map updates / deletes on a map-typed field, and sync/atomic stores to the field.
func structFieldWrites(c *core.Ctx, structName string) []fieldAccess {
	var out []fieldAccess
	isField := func(v ssa.Value) (core.FieldRef, bool) {
		fr, ok := core.AsFieldAddr(v)
		if ok && fr.Struct != nil && fr.Struct.Obj().Name() == structName {
			return fr, true
		}
		return fr, false
	}
	for _, fn := range c.GeoFuncs() {
		core.AllInstrs(fn, func(in ssa.Instruction) {
			switch x := in.(type) {
			case *ssa.Store:
				if fr, ok := isField(x.Addr); ok {
					out = append(out, fieldAccess{fn, in, fr.Base, fr.Name})
				}
			case *ssa.MapUpdate:
				if fr, ok := core.AsFieldLoad(x.Map); ok && fr.Struct != nil && fr.Struct.Obj().Name() == structName {
					out = append(out, fieldAccess{fn, in, fr.Base, fr.Name})
				}
			case *ssa.Call:
				if b, ok := x.Call.Value.(*ssa.Builtin); ok && b.Name() == "delete" && len(x.Call.Args) > 0 {
					if fr, ok := core.AsFieldLoad(x.Call.Args[0]); ok && fr.Struct != nil && fr.Struct.Obj().Name() == structName {
						out = append(out, fieldAccess{fn, in, fr.Base, fr.Name})
					}
				}
				if f := core.StaticCallee(x); f != nil && f.Pkg != nil && f.Pkg.Pkg.Path() == "sync/atomic" &&
					(strings.HasPrefix(f.Name(), "Store") || strings.HasPrefix(f.Name(), "Add") || strings.HasPrefix(f.Name(), "Swap") || strings.HasPrefix(f.Name(), "CompareAndSwap")) {
					if len(x.Call.Args) > 0 {
						if fr, ok := isField(x.Call.Args[0]); ok {
							out = append(out, fieldAccess{fn, in, fr.Base, fr.Name})
						}
					}
				}
			}
		})
	}
	return out
}

// structFieldReads returns every load of a field of the named struct.
func structFieldReads(c *core.Ctx, structName string) []fieldAccess {
	var out []fieldAccess
	for _, fn := range c.GeoFuncs() {
		core.AllInstrs(fn, func(in ssa.Instruction) {
			switch x := in.(type) {
			case *ssa.UnOp:
				if x.Op == token.MUL {
					if fr, ok := core.AsFieldAddr(x.X); ok && fr.Struct != nil && fr.Struct.Obj().Name() == structName {
						out = append(out, fieldAccess{fn, in, fr.Base, fr.Name})
					}
				}
			case *ssa.Field:
				if fr, ok := core.AsFieldLoad(x); ok && fr.Struct != nil && fr.Struct.Obj().Name() == structName {
					out = append(out, fieldAccess{fn, in, fr.Base, fr.Name})
				}
			case *ssa.Call:
				// the address of the field passed to a callee (e.g. atomic.Load) is a read
				for _, a := range x.Call.Args {
					if fr, ok := core.AsFieldAddr(a); ok && fr.Struct != nil && fr.Struct.Obj().Name() == structName {
						if f := core.StaticCallee(x); f != nil && f.Pkg != nil && f.Pkg.Pkg.Path() == "sync/atomic" && strings.HasPrefix(f.Name(), "Load") {
							out = append(out, fieldAccess{fn, in, fr.Base, fr.Name})
						}
					}
				}
			}
		})
	}
	return out
}

func structFieldNames(c *core.Ctx, pkg, name string) []string {
	n := c.NamedType(pkg, name)
	if n == nil {
		return nil
	}
	st, ok := n.Underlying().(*types.Struct)
	if !ok {
		return nil
	}
	var out []string
	for i := 0; i < st.NumFields(); i++ {
		out = append(out, st.Field(i).Name())
	}
	return out
}

func isFreshBase(v ssa.Value) bool {
	_, ok := v.(*ssa.Alloc)
	return ok
}

func runReset(c *core.Ctx) []core.Obligation {
	var obs []core.Obligation
	reset := c.Fn("s2", "ShapeIndex", "Reset")
	ctor := c.Fn("s2", "", "NewShapeIndex")
	if reset == nil || ctor == nil {
		return append(obs, core.Ob("R-RESET", "anchor:ShapeIndex.Reset", "-", "", core.Violated, "unresolved anchor: ShapeIndex.Reset / NewShapeIndex"))
	}
	exceptions := map[string]string{
		"mu": "a mutex is never assigned; its zero value is the unlocked state",
	}
	writes := structFieldWrites(c, "ShapeIndex")
	changedBy := map[string][]string{}
	resetWrites := map[string]bool{}
	for _, w := range writes {
		switch {
		case w.fn == reset:
			resetWrites[w.field] = true
		case w.fn == ctor && isFreshBase(w.base):
			// construction
		default:
			changedBy[w.field] = append(changedBy[w.field], core.FuncName(w.fn))
		}
	}
	for _, f := range structFieldNames(c, "s2", "ShapeIndex") {
		construct := "ShapeIndex.Reset:" + f
		by := changedBy[f]
		sort.Strings(by)
		by = uniq(by)
		switch {
		case len(by) == 0:
			o := core.Ob("R-RESET", construct, c.Pos(reset.Pos()), core.FuncName(reset), core.Discharged, "field is only set by the constructor (configuration); nothing to reset")
			o.Trivial = true
			obs = append(obs, o)
		case exceptions[f] != "":
			obs = append(obs, core.Ob("R-RESET", construct, c.Pos(reset.Pos()), core.FuncName(reset), core.Discharged, "exception: "+exceptions[f]))
		case resetWrites[f]:
			obs = append(obs, core.Ob("R-RESET", construct, c.Pos(reset.Pos()), core.FuncName(reset), core.Discharged, "changed by "+strings.Join(by, ", ")+"; assigned by Reset"))
		default:
			obs = append(obs, core.Ob("R-RESET", construct, c.Pos(reset.Pos()), core.FuncName(reset), core.Violated,
				fmt.Sprintf("ShapeIndex.%s is changed by %s but Reset does not assign it: after Reset the index still carries state of its previous contents", f, strings.Join(by, ", "))))
		}
	}
	// Users of Reset for re-indexing must re-add the shape afterwards on every path.
	for _, fn := range c.GeoFuncs() {
		core.AllInstrs(fn, func(in ssa.Instruction) {
			ci, ok := in.(ssa.CallInstruction)
			if !ok || core.StaticCallee(ci) != reset || fn == reset {
				return
			}
			construct := "re-add-after-reset:" + core.FuncName(fn)
			// every path from the Reset call to a return passes an Add on the same index
			add := c.Fn("s2", "ShapeIndex", "Add")
			stop := map[*ssa.BasicBlock]bool{}
			sameBlockAfter := false
			core.AllInstrs(fn, func(j ssa.Instruction) {
				if cj, ok := j.(ssa.CallInstruction); ok && core.StaticCallee(cj) == add {
					if j.Block() == in.Block() && core.InstrBlockIndex(j) > core.InstrBlockIndex(in) {
						sameBlockAfter = true
					}
					stop[j.Block()] = true
				}
			})
			bad := false
			if !sameBlockAfter {
				for _, b := range fn.Blocks {
					if _, isRet := b.Instrs[len(b.Instrs)-1].(*ssa.Return); isRet && !stop[b] {
						if core.ReachableAvoiding(in.Block(), b, nil, stop) {
							bad = true
						}
					}
				}
			}
			if bad {
				obs = append(obs, core.Ob("R-RESET", construct, c.Pos(in.Pos()), core.FuncName(fn), core.Violated, "resets its index but can return without adding the shape again: later queries see an empty index"))
			} else {
				obs = append(obs, core.Ob("R-RESET", construct, c.Pos(in.Pos()), core.FuncName(fn), core.Discharged, "the shape is added again on every path after the reset"))
			}
		})
	}
	// the converse: a Loop or Polygon adds itself to its own index only after that index was emptied in the same
	// function - by Reset() or by replacing it with a new index - on every path. (Adding to an index that still holds
	// the previous version of the shape leaves the stale cells in place, or turns into an incremental update.)
	for _, fn := range c.GeoFuncs() {
		if fn.Signature.Recv() == nil || !(core.IsNamed(fn.Signature.Recv().Type(), "s2", "Loop") || core.IsNamed(fn.Signature.Recv().Type(), "s2", "Polygon")) {
			continue
		}
		recv := fn.Params[0]
		var adds []*ssa.Call
		clears := map[*ssa.BasicBlock][]int{}
		for _, b := range fn.Blocks {
			for i, in := range b.Instrs {
				switch x := in.(type) {
				case *ssa.Call:
					f := core.StaticCallee(x)
					if f == nil || f.Signature.Recv() == nil || !core.IsNamed(f.Signature.Recv().Type(), "s2", "ShapeIndex") {
						continue
					}
					fr, isF := core.AsFieldLoad(x.Call.Args[0])
					if !isF || fr.Name != "index" || fr.Base != ssa.Value(recv) {
						continue
					}
					switch f.Name() {
					case "Add":
						adds = append(adds, x)
					case "Reset":
						clears[b] = append(clears[b], i)
					}
				case *ssa.Store:
					if fr, isF := core.AsFieldAddr(x.Addr); isF && fr.Name == "index" && fr.Base == ssa.Value(recv) {
						if call, isCall := x.Val.(*ssa.Call); isCall && core.StaticCallee(call) != nil && core.StaticCallee(call).Name() == "NewShapeIndex" {
							clears[b] = append(clears[b], i)
						}
					}
				}
			}
		}
		for k, add := range adds {
			construct := fmt.Sprintf("add-after-clear:%s#%d", core.FuncName(fn), k+1)
			ok := false
			for _, i := range clears[add.Block()] {
				if i < core.InstrBlockIndex(add) {
					ok = true
				}
			}
			if !ok {
				stop := map[*ssa.BasicBlock]bool{}
				for b := range clears {
					stop[b] = true
				}
				ok = !stop[add.Block()] && (stop[fn.Blocks[0]] || !core.ReachableAvoiding(fn.Blocks[0], add.Block(), nil, stop))
			}
			if ok {
				obs = append(obs, core.Ob("R-RESET", construct, c.Pos(add.Pos()), core.FuncName(fn), core.Discharged, "the index is emptied (Reset or a new index) on every path before the shape is added"))
			} else {
				obs = append(obs, core.Ob("R-RESET", construct, c.Pos(add.Pos()), core.FuncName(fn), core.Violated,
					"the shape adds itself to its index on a path on which the index was not emptied first: the cells built for the previous version of the shape stay in the index (an inverted full loop still answers as full), or the add becomes an incremental update of a built index"))
			}
		}
	}
	obs = append(obs, cursorAdvance(c))
	obs = append(obs, refreshReloads(c))
	obs = append(obs, allFacesUpdated(c))
	return obs
}

// cursorAdvance (after round-6 seed C14-r6m2, `s.pendingAdditionsPos = int32(len(s.shapes))`): applyUpdatesInternal
// indexes the shapes with ids in [pendingAdditionsPos, nextID) and then moves the cursor. The cursor must move to the
// loop's own limit, the field nextID: any other quantity (the number of live shapes is smaller once a shape has been
// removed) leaves the cursor behind, and the next update indexes already indexed shapes a second time.
func cursorAdvance(c *core.Ctx) core.Obligation {
	const construct = "ShapeIndex.applyUpdatesInternal:cursor-moves-to-nextID"
	fn := c.Fn("s2", "ShapeIndex", "applyUpdatesInternal")
	if fn == nil {
		return core.Ob("R-RESET", construct, "-", "", core.Violated, "unresolved anchor")
	}
	n, bad := 0, ""
	core.AllInstrs(fn, func(in ssa.Instruction) {
		st, ok := in.(*ssa.Store)
		if !ok {
			return
		}
		fr, ok := core.AsFieldAddr(st.Addr)
		if !ok || fr.Name != "pendingAdditionsPos" {
			return
		}
		n++
		src, ok := core.AsFieldLoad(core.StripConv(st.Val))
		if !ok || src.Name != "nextID" {
			bad = c.Pos(st.Pos())
		}
	})
	switch {
	case n == 0:
		return core.Ob("R-RESET", construct, c.Pos(fn.Pos()), core.FuncName(fn), core.Violated, "applyUpdatesInternal no longer moves pendingAdditionsPos: every later update indexes all shapes again")
	case bad != "":
		return core.Ob("R-RESET", construct, bad, core.FuncName(fn), core.Violated,
			"pendingAdditionsPos is set to something other than nextID, the limit of the loop that has just indexed the pending shapes: once a shape has been removed the two differ, the cursor stays behind, and the next update adds the edges of already indexed shapes a second time (or, if it runs ahead, never indexes new ones)")
	}
	return core.Ob("R-RESET", construct, c.Pos(fn.Pos()), core.FuncName(fn), core.Discharged, "the cursor moves to nextID, the limit of the indexing loop")
}

func uniq(s []string) []string {
	var out []string
	for i, x := range s {
		if i == 0 || x != s[i-1] {
			out = append(out, x)
		}
	}
	return out
}

// ---------------------------------------------------------------------------

// defState computes, for one struct field, which functions define it on every path (definers) and which
// functions are only ever entered after it has been defined in the current query (safe).
type defState struct {
	c        *core.Ctx
	structN  string
	field    string
	writes   []fieldAccess
	definers map[*ssa.Function]bool
}

// defPoints returns the instructions of fn that define the field: stores to it and calls to definers.
func (d *defState) defPoints(fn *ssa.Function) []ssa.Instruction {
	var out []ssa.Instruction
	for _, w := range d.writes {
		if w.fn == fn && w.field == d.field {
			out = append(out, w.in)
		}
	}
	core.AllInstrs(fn, func(in ssa.Instruction) {
		if ci, ok := in.(ssa.CallInstruction); ok {
			callees := d.c.Callees(ci)
			if len(callees) == 0 {
				return
			}
			all := true
			for _, g := range callees {
				if !d.definers[g] {
					all = false
				}
			}
			if all {
				out = append(out, in)
			}
		}
	})
	return out
}

// definedBefore reports whether instruction at is preceded on every path from fn's entry by a definition point.
func (d *defState) definedBefore(fn *ssa.Function, at ssa.Instruction) bool {
	pts := d.defPoints(fn)
	stop := map[*ssa.BasicBlock]bool{}
	for _, p := range pts {
		if p.Block() == at.Block() && core.InstrBlockIndex(p) < core.InstrBlockIndex(at) {
			return true
		}
		if p.Block() != at.Block() {
			stop[p.Block()] = true
		}
	}
	entry := fn.Blocks[0]
	if at.Block() == entry {
		return false
	}
	if stop[entry] {
		return true
	}
	return !core.ReachableAvoiding(entry, at.Block(), nil, stop)
}

func (d *defState) computeDefiners() {
	d.definers = map[*ssa.Function]bool{}
	for changed := true; changed; {
		changed = false
		for _, fn := range d.c.GeoFuncs() {
			if d.definers[fn] || fn.Blocks == nil {
				continue
			}
			if len(d.defPoints(fn)) == 0 {
				continue
			}
			ok := true
			for _, b := range fn.Blocks {
				if ret, isRet := b.Instrs[len(b.Instrs)-1].(*ssa.Return); isRet {
					if !d.definedBefore(fn, ret) {
						ok = false
					}
				}
			}
			if ok {
				d.definers[fn] = true
				changed = true
			}
		}
	}
}

// safeSet: greatest set of functions all of whose in-scope call sites are preceded by a definition or lie in a safe function.
func (d *defState) safeSet(scope map[*ssa.Function]bool) map[*ssa.Function]bool {
	safe := map[*ssa.Function]bool{}
	for f := range scope {
		safe[f] = true
	}
	cg := d.c.CallGraph()
	for changed := true; changed; {
		changed = false
		for f := range safe {
			n := cg.Nodes[f]
			ok := n != nil && len(n.In) > 0
			if f.Parent() != nil {
				// closures are entered where they are created/called; treat like their parent
				ok = safe[f.Parent()]
			} else if ok {
				if f.Object() != nil && f.Object().Exported() {
					ok = false // can be entered from outside at any time
				}
				for _, e := range n.In {
					if !ok {
						break
					}
					if !scope[e.Caller.Func] {
						continue
					}
					if e.Site == nil {
						ok = false
						break
					}
					if safe[e.Caller.Func] || d.definedBefore(e.Caller.Func, e.Site) {
						continue
					}
					ok = false
				}
			}
			if !ok {
				delete(safe, f)
				changed = true
			}
		}
	}
	return safe
}

// scratchOther: the same must-define-before-use discipline for the other long-lived query and target objects (after
// round-8 seeds C13-r8m1, a shape-id memo in CrossingEdgeQuery, and C13-r8m2, a cap-bound cache in the ShapeIndex
// targets): a field that is written outside the constructor survives into the next call, so every read must be
// preceded, in the same call, by an assignment - otherwise the answer depends on what the object was used for before
// (and on what the index held then).
func scratchOther(c *core.Ctx, S string, caches map[string]string) []core.Obligation {
	var obs []core.Obligation
	writes := structFieldWrites(c, S)
	reads := structFieldReads(c, S)
	var roots []*ssa.Function
	for _, fn := range c.GeoFuncs() {
		if fn.Signature.Recv() != nil && core.IsNamed(fn.Signature.Recv().Type(), "s2", S) && fn.Parent() == nil {
			roots = append(roots, fn)
		}
	}
	if len(roots) == 0 {
		return append(obs, core.Ob("R-SCRATCH", S+":anchor", "-", "", core.Violated, "unresolved anchor: no methods of "+S))
	}
	ctors := map[*ssa.Function]bool{}
	for _, w := range writes {
		if isFreshBase(w.base) {
			ctors[w.fn] = true
		}
	}
	scopeSet := map[*ssa.Function]bool{}
	for f := range c.ReachableFuncs(roots, nil) {
		scopeSet[f] = true
	}
	for _, f := range structFieldNames(c, "s2", S) {
		construct := S + "." + f
		wset := map[*ssa.Function]bool{}
		for _, w := range writes {
			if w.field == f && !ctors[w.fn] {
				wset[w.fn] = true
			}
		}
		var writers []string
		for w := range wset {
			writers = append(writers, core.FuncName(w))
		}
		sort.Strings(writers)
		if len(writers) == 0 {
			o := core.Ob("R-SCRATCH", construct, "-", "", core.Discharged, "only set by the constructor")
			o.Trivial = true
			obs = append(obs, o)
			continue
		}
		ds := &defState{c: c, structN: S, field: f, writes: writes}
		ds.computeDefiners()
		safe := ds.safeSet(scopeSet)
		var whyNot []string
		for _, r := range reads {
			if r.field != f || ctors[r.fn] || !scopeSet[r.fn] {
				continue
			}
			if safe[r.fn] || (r.fn.Parent() != nil && safe[r.fn.Parent()]) || ds.definedBefore(r.fn, r.in) {
				continue
			}
			whyNot = append(whyNot, fmt.Sprintf("read in %s at %s is not preceded by an assignment in this call", core.FuncName(r.fn), c.Pos(r.in.Pos())))
		}
		switch {
		case len(whyNot) == 0:
			obs = append(obs, core.Ob("R-SCRATCH", construct, "-", "", core.Discharged, fmt.Sprintf("written by %s; every read is preceded on every path by an assignment made in the same call", strings.Join(writers, ", "))))
		case caches[f] != "":
			obs = append(obs, core.Ob("R-SCRATCH", construct, "-", "", core.Discharged, "named: "+caches[f]))
		default:
			sort.Strings(whyNot)
			if len(whyNot) > 2 {
				whyNot = whyNot[:2]
			}
			obs = append(obs, core.Ob("R-SCRATCH", construct, "-", "", core.Violated,
				fmt.Sprintf("%s.%s is written by %s and survives into the next call, and it is read before it is assigned again (%s): a reused object answers from what it saw in an earlier call - after the index has been reset and refilled that is stale data, so the answer differs from that of a fresh object", S, f, strings.Join(writers, ", "), strings.Join(whyNot, "; "))))
		}
	}
	return obs
}

func runScratch(c *core.Ctx) []core.Obligation {
	var obs []core.Obligation
	const S = "EdgeQuery"
	gate := c.Fn("s2", S, "findEdgesInternal")
	reset := c.Fn("s2", S, "Reset")
	if gate == nil || reset == nil {
		return append(obs, core.Ob("R-SCRATCH", "anchor:EdgeQuery.findEdgesInternal", "-", "", core.Violated, "unresolved anchor"))
	}
	obs = append(obs, scratchOther(c, "CrossingEdgeQuery", map[string]string{})...)
	obs = append(obs, scratchOther(c, "MinDistanceToShapeIndexTarget", map[string]string{})...)
	obs = append(obs, scratchOther(c, "MaxDistanceToShapeIndexTarget", map[string]string{})...)
	obs = append(obs, scratchOther(c, "ContainsPointQuery", map[string]string{})...)
	obs = append(obs, scratchOther(c, "loopCrosser", map[string]string{})...)
	writes := structFieldWrites(c, S)
	reads := structFieldReads(c, S)
	// public query entry points of EdgeQuery
	var roots []*ssa.Function
	for _, fn := range c.GeoFuncs() {
		if fn.Signature.Recv() != nil && core.IsNamed(fn.Signature.Recv().Type(), "s2", S) && fn.Object() != nil && fn.Object().Exported() && fn != reset {
			roots = append(roots, fn)
		}
	}
	ctors := map[*ssa.Function]bool{}
	for _, w := range writes {
		if isFreshBase(w.base) {
			ctors[w.fn] = true
		}
	}
	scopeSet := map[*ssa.Function]bool{}
	for f := range c.ReachableFuncs(roots, nil) {
		scopeSet[f] = true
	}
	caches := map[string]string{
		"opts":               "configuration; R-OPTS decides that it is restored after every call",
		"index":              "configuration: set by the constructor only",
		"queue":              "drained by findEdgesOptimized: the loop ends with an empty queue or calls reset() before leaving",
		"iter":               "re-created whenever indexCovering is empty, which Reset establishes",
		"indexCovering":      "cache of the index's top-level cells; invalidated by Reset (caller's duty when the index changes, as in the C++ original)",
		"indexCells":         "cache paired with indexCovering; invalidated by Reset",
		"indexNumEdges":      "cache, monotone in the target's brute-force threshold; invalidated by Reset",
		"indexNumEdgesLimit": "cache paired with indexNumEdges; invalidated by Reset",
	}
	resetWrites := map[string]bool{}
	for _, w := range writes {
		if w.fn == reset {
			resetWrites[w.field] = true
		}
	}
	for _, f := range structFieldNames(c, "s2", S) {
		construct := "EdgeQuery." + f
		var writers []string
		wset := map[*ssa.Function]bool{}
		for _, w := range writes {
			if w.field == f && !ctors[w.fn] && w.fn != reset {
				wset[w.fn] = true
			}
		}
		for w := range wset {
			writers = append(writers, core.FuncName(w))
		}
		sort.Strings(writers)
		if len(writers) == 0 {
			o := core.Ob("R-SCRATCH", construct, c.Pos(gate.Pos()), "", core.Discharged, "only set by the constructor")
			o.Trivial = true
			obs = append(obs, o)
			continue
		}
		// Every read of the field (outside Reset) must be preceded, in this query, by a definition.
		ds := &defState{c: c, structN: S, field: f, writes: writes}
		ds.computeDefiners()
		safe := ds.safeSet(scopeSet)
		var okVia string
		var whyNot []string
		allOK := true
		nreads := 0
		for _, r := range reads {
			if r.field != f || r.fn == reset || ctors[r.fn] {
				continue
			}
			if !scopeSet[r.fn] {
				continue
			}
			nreads++
			if safe[r.fn] || (r.fn.Parent() != nil && safe[r.fn.Parent()]) || ds.definedBefore(r.fn, r.in) {
				continue
			}
			allOK = false
			whyNot = append(whyNot, fmt.Sprintf("read in %s at %s is not preceded by an assignment in this call", core.FuncName(r.fn), c.Pos(r.in.Pos())))
		}
		if allOK {
			var ds2 []string
			for g := range ds.definers {
				ds2 = append(ds2, core.FuncName(g))
			}
			sort.Strings(ds2)
			okVia = strings.Join(ds2, ", ")
			if okVia == "" {
				okVia = "none needed: every reader is only entered after an assignment in its caller"
			}
		}
		_ = nreads
		switch {
		case okVia != "":
			obs = append(obs, core.Ob("R-SCRATCH", construct, c.Pos(gate.Pos()), okVia, core.Discharged,
				fmt.Sprintf("written by %s; every read is preceded on every path by an assignment made in the same call (defining functions: %s)", strings.Join(writers, ", "), okVia)))
		case caches[f] != "" && (resetWrites[f] || f == "opts" || f == "queue" || f == "iter" || f == "index"):
			obs = append(obs, core.Ob("R-SCRATCH", construct, c.Pos(gate.Pos()), "", core.Discharged, "named cache: "+caches[f]))
		default:
			obs = append(obs, core.Ob("R-SCRATCH", construct, c.Pos(gate.Pos()), "", core.Violated,
				fmt.Sprintf("EdgeQuery.%s is written by %s and survives into the next call: it is neither re-initialised before use on every path (%s) nor reset/a named cache",
					f, strings.Join(writers, ", "), strings.Join(whyNot, "; "))))
		}
	}
	// the target is configured for this call on every path before the search starts
	setMax := "setMaxError"
	var setCalls []ssa.Instruction
	var searchCalls []ssa.Instruction
	core.AllInstrs(gate, func(in ssa.Instruction) {
		ci, ok := in.(ssa.CallInstruction)
		if !ok {
			return
		}
		if ci.Common().IsInvoke() && ci.Common().Method.Name() == setMax {
			setCalls = append(setCalls, in)
		}
		if f := core.StaticCallee(ci); f != nil && (f.Name() == "findEdgesBruteForce" || f.Name() == "findEdgesOptimized") {
			searchCalls = append(searchCalls, in)
		}
	})
	construct := "target-config:setMaxError"
	switch {
	case len(setCalls) == 0 || len(searchCalls) < 2:
		obs = append(obs, core.Ob("R-SCRATCH", construct, c.Pos(gate.Pos()), core.FuncName(gate), core.Violated, "unresolved anchor: setMaxError call or the two search calls not found in findEdgesInternal"))
	default:
		ok := true
		for _, s := range searchCalls {
			dom := false
			for _, sc := range setCalls {
				if sc.Block().Dominates(s.Block()) {
					dom = true
				}
			}
			if !dom {
				ok = false
			}
		}
		if ok {
			obs = append(obs, core.Ob("R-SCRATCH", construct, c.Pos(setCalls[0].Pos()), core.FuncName(gate), core.Discharged, "the target is told this call's MaxError on every path before the search"))
		} else {
			obs = append(obs, core.Ob("R-SCRATCH", construct, c.Pos(setCalls[0].Pos()), core.FuncName(gate), core.Violated,
				"the call that tells the target this call's MaxError is conditional: a target reused from a call that permitted an error keeps it"))
		}
	}
	obs = append(obs, queueDrained(c)...)
	return obs
}

// queueDrained: EdgeQuery.queue is allocated once by the constructor and lives across calls, so its CONTENT is
// scratch state too. The search leaves it empty: the work loop of findEdgesOptimized is left either through its
// own condition (queue.size() > 0 is false) or on a path that calls queue.reset() - unless the queue is reset
// unconditionally before the loop, which would make leftovers harmless.
func queueDrained(c *core.Ctx) []core.Obligation {
	construct := "EdgeQuery.queue:drained"
	fn := c.Fn("s2", "EdgeQuery", "findEdgesOptimized")
	if fn == nil {
		return []core.Obligation{core.Ob("R-SCRATCH", construct, "-", "", core.Violated, "unresolved anchor: findEdgesOptimized")}
	}
	isQueueCall := func(in ssa.Instruction, name string) bool {
		ci, ok := in.(ssa.CallInstruction)
		if !ok {
			return false
		}
		f := core.StaticCallee(ci)
		if f == nil || f.Name() != name || f.Signature.Recv() == nil || !core.IsNamed(f.Signature.Recv().Type(), "s2", "queryQueue") {
			return false
		}
		return true
	}
	// the work loop: header whose condition comes from queue.size()
	var header *ssa.BasicBlock
	var body map[*ssa.BasicBlock]bool
	for h, b := range loopsOf(fn) {
		for _, in := range h.Instrs {
			if isQueueCall(in, "size") {
				header, body = h, b
			}
		}
	}
	if header == nil {
		return []core.Obligation{core.Ob("R-SCRATCH", construct, c.Pos(fn.Pos()), core.FuncName(fn), core.Violated, "unresolved anchor: the loop over queue.size() was not found in findEdgesOptimized")}
	}
	resetBlocks := map[*ssa.BasicBlock]bool{}
	for _, b := range fn.Blocks {
		for _, in := range b.Instrs {
			if isQueueCall(in, "reset") {
				resetBlocks[b] = true
			}
		}
	}
	// an unconditional reset before the loop (here or at the start of initQueue) makes leftovers harmless
	for b := range resetBlocks {
		if !body[b] && b.Dominates(header) {
			return []core.Obligation{core.Ob("R-SCRATCH", construct, c.Pos(fn.Pos()), core.FuncName(fn), core.Discharged, "the queue is reset on every path before the work loop")}
		}
	}
	if iq := c.Fn("s2", "EdgeQuery", "initQueue"); iq != nil && len(iq.Blocks) > 0 {
		for _, in := range iq.Blocks[0].Instrs {
			if isQueueCall(in, "reset") {
				return []core.Obligation{core.Ob("R-SCRATCH", construct, c.Pos(fn.Pos()), core.FuncName(fn), core.Discharged, "initQueue resets the queue unconditionally before filling it")}
			}
		}
	}
	// every way out of the loop body that does not go back through the loop condition must pass a reset
	stop := mergeStop(resetBlocks, header)
	for _, entry := range header.Succs {
		if !body[entry] || resetBlocks[entry] {
			continue
		}
		for _, b := range fn.Blocks {
			if len(b.Succs) != 0 || resetBlocks[b] {
				continue // not a function exit
			}
			if _, isRet := b.Instrs[len(b.Instrs)-1].(*ssa.Return); !isRet {
				continue
			}
			if core.ReachableAvoiding(entry, b, nil, stop) {
				return []core.Obligation{core.Ob("R-SCRATCH", construct, c.Pos(fn.Pos()), core.FuncName(fn), core.Violated,
					"the work loop can be left from inside its body with entries still in EdgeQuery.queue and no queue.reset() on the way out: the queue outlives the call, so the next search on this query "+
						"starts with cells of the previous one (of the previous target, or of an index that has since changed)")}
			}
		}
	}
	return []core.Obligation{core.Ob("R-SCRATCH", construct, c.Pos(fn.Pos()), core.FuncName(fn), core.Discharged,
		"the work loop is left only when queue.size() == 0 or through queue.reset(): no entry survives the call")}
}

func mergeStop(a map[*ssa.BasicBlock]bool, h *ssa.BasicBlock) map[*ssa.BasicBlock]bool {
	m := map[*ssa.BasicBlock]bool{h: true}
	for b := range a {
		m[b] = true
	}
	return m
}

// ---------------------------------------------------------------------------

func runOpts(c *core.Ctx) []core.Obligation {
	var obs []core.Obligation
	// scope: everything reachable from EdgeQuery's exported methods
	var roots []*ssa.Function
	for _, fn := range c.GeoFuncs() {
		if fn.Signature.Recv() != nil && core.IsNamed(fn.Signature.Recv().Type(), "s2", "EdgeQuery") && fn.Object() != nil && fn.Object().Exported() {
			roots = append(roots, fn)
		}
	}
	if len(roots) < 7 {
		obs = append(obs, core.Ob("R-OPTS", "anchor:EdgeQuery-methods", "-", "", core.Violated, fmt.Sprintf("only %d exported EdgeQuery methods", len(roots))))
	}
	scope := c.ReachableFuncs(roots, nil)
	fr := &freshness{c: c, scope: scope, memoRet: map[*ssa.Function]int{}, memoPar: map[*ssa.Parameter]int{}}
	// (a) stores to queryOptions fields
	n := 0
	for _, w := range structFieldWrites(c, "queryOptions") {
		if _, in := scope[w.fn]; !in {
			continue
		}
		n++
		name := core.FuncName(w.fn)
		construct := fmt.Sprintf("options-write:%s:%s", name, w.field)
		// exception: the private query owned by a ShapeIndex target
		if throughPrivateQuery(w.base) {
			obs = append(obs, core.Ob("R-OPTS", construct, c.Pos(w.in.Pos()), name, core.Discharged,
				"writes the options of the private EdgeQuery that a ShapeIndex target allocates in its constructor and never exposes"))
			continue
		}
		if fr.isFresh(w.base, 0) {
			obs = append(obs, core.Ob("R-OPTS", construct, c.Pos(w.in.Pos()), name, core.Discharged, "the options object written is a copy made by the query for this call"))
			continue
		}
		obs = append(obs, core.Ob("R-OPTS", construct, c.Pos(w.in.Pos()), name, core.Violated,
			fmt.Sprintf("writes queryOptions.%s through a pointer that may be the caller's configured options (reached via %s): the override outlives the call", w.field, core.PathTo(scope, w.fn))))
	}
	// (b) EdgeQuery.opts re-pointing
	for _, w := range structFieldWrites(c, "EdgeQuery") {
		if w.field != "opts" {
			continue
		}
		name := core.FuncName(w.fn)
		construct := "repoint:" + name
		if isFreshBase(w.base) {
			obs = append(obs, core.Ob("R-OPTS", construct, c.Pos(w.in.Pos()), name, core.Discharged, "constructor"))
			continue
		}
		if w.fn.Parent() != nil {
			// a closure: accepted if it is the restoring defer checked with its parent
			obs = append(obs, core.Ob("R-OPTS", construct, c.Pos(w.in.Pos()), name, core.Discharged, "restoring closure (checked with the function that re-points)"))
			continue
		}
		// every caller must save the configured value before the call and restore it on every exit
		node := c.CallGraph().Nodes[w.fn]
		bad := ""
		ncallers := 0
		for _, e := range node.In {
			if !core.IsGeo(e.Caller.Func) || e.Site == nil {
				continue
			}
			ncallers++
			if why := savesAndRestoresOpts(e.Caller.Func, e.Site); why != "" {
				bad = fmt.Sprintf("caller %s: %s", core.FuncName(e.Caller.Func), why)
			}
		}
		if ncallers == 0 {
			bad = "no callers found"
		}
		if bad != "" {
			obs = append(obs, core.Ob("R-OPTS", construct, c.Pos(w.in.Pos()), name, core.Violated,
				"re-points EdgeQuery.opts at per-call options without a save/restore around it ("+bad+"): later calls run with the previous call's overrides"))
		} else {
			obs = append(obs, core.Ob("R-OPTS", construct, c.Pos(w.in.Pos()), name, core.Discharged,
				fmt.Sprintf("re-points opts for the duration of the call; every caller (%d) saves the configured pointer first and restores it in a deferred function", ncallers)))
		}
	}
	obs = append(obs, subQueryLimit(c)...)
	return obs
}

// subQueryLimit: a ShapeIndex target keeps one sub-query and one options object for its whole life. Each
// updateDistanceTo* call must give that options object THIS call's distance limit on every path before it runs the
// sub-query; otherwise the limit of an earlier call (possibly of an earlier, tighter search) prunes the new one.
func subQueryLimit(c *core.Ctx) []core.Obligation {
	var obs []core.Obligation
	n := 0
	for _, fn := range c.GeoFuncs() {
		if fn.Signature.Recv() == nil {
			continue
		}
		if !core.IsNamed(fn.Signature.Recv().Type(), "s2", "MinDistanceToShapeIndexTarget") && !core.IsNamed(fn.Signature.Recv().Type(), "s2", "MaxDistanceToShapeIndexTarget") {
			continue
		}
		var calls []ssa.Instruction
		var stores []ssa.Instruction
		core.AllInstrs(fn, func(in ssa.Instruction) {
			if ci, ok := in.(ssa.CallInstruction); ok {
				if f := core.StaticCallee(ci); f != nil && f.Name() == "findEdge" && f.Signature.Recv() != nil && core.IsNamed(f.Signature.Recv().Type(), "s2", "EdgeQuery") {
					calls = append(calls, in)
				}
			}
			if st, ok := in.(*ssa.Store); ok {
				if fr, ok := core.AsFieldAddr(st.Addr); ok && fr.Name == "distanceLimit" {
					stores = append(stores, in)
				}
			}
		})
		for i, call := range calls {
			n++
			construct := fmt.Sprintf("subquery-limit:%s#%d", core.FuncName(fn), i+1)
			ok := false
			for _, st := range stores {
				if st.Block() == call.Block() && core.InstrBlockIndex(st) < core.InstrBlockIndex(call) {
					ok = true
				} else if st.Block() != call.Block() && st.Block().Dominates(call.Block()) {
					ok = true
				}
			}
			if ok {
				obs = append(obs, core.Ob("R-OPTS", construct, c.Pos(call.Pos()), core.FuncName(fn), core.Discharged, "the sub-query's distance limit is assigned on every path before the sub-query runs"))
			} else {
				obs = append(obs, core.Ob("R-OPTS", construct, c.Pos(call.Pos()), core.FuncName(fn), core.Violated,
					"the sub-query can run without its options' distanceLimit having been assigned in this call: the target object keeps its options between calls, so the limit left by an earlier call "+
						"(an earlier, tighter search) prunes cells of this one"))
			}
		}
	}
	if n < 6 {
		obs = append(obs, core.Ob("R-OPTS", "subquery-limit:anchor", "-", "", core.Violated, fmt.Sprintf("only %d sub-query calls found in the ShapeIndex targets, 6 expected", n)))
	}
	return obs
}

func throughPrivateQuery(base ssa.Value) bool {
	v := base
	for depth := 0; depth < 8; depth++ {
		switch x := v.(type) {
		case *ssa.UnOp:
			if x.Op != token.MUL {
				return false
			}
			v = x.X
		case *ssa.FieldAddr:
			if fr, ok := core.AsFieldAddr(x); ok && fr.Name == "query" && fr.Struct != nil && strings.HasSuffix(fr.Struct.Obj().Name(), "DistanceToShapeIndexTarget") {
				return true
			}
			v = x.X
		default:
			return false
		}
	}
	return false
}

// savesAndRestoresOpts checks that caller loads EdgeQuery.opts before site (dominating it) into a variable that a
// deferred closure (registered before site) stores back into EdgeQuery.opts. Returns "" if so.
func savesAndRestoresOpts(caller *ssa.Function, site ssa.CallInstruction) string {
	isOpts := func(v ssa.Value) bool {
		fr, ok := core.AsFieldAddr(v)
		return ok && fr.Name == "opts" && fr.Struct != nil && fr.Struct.Obj().Name() == "EdgeQuery"
	}
	var found bool
	core.AllInstrs(caller, func(in ssa.Instruction) {
		d, ok := in.(*ssa.Defer)
		if !ok {
			return
		}
		if !(d.Block().Dominates(site.Block())) {
			return
		}
		if d.Block() == site.Block() && core.InstrBlockIndex(d) > core.InstrBlockIndex(site) {
			return
		}
		mc, ok := d.Call.Value.(*ssa.MakeClosure)
		if !ok {
			return
		}
		clo := mc.Fn.(*ssa.Function)
		// the closure stores a free variable's content into opts
		core.AllInstrs(clo, func(ci ssa.Instruction) {
			st, ok := ci.(*ssa.Store)
			if !ok || !isOpts(st.Addr) {
				return
			}
			// value: load of a free variable cell, or the free variable itself
			var fv *ssa.FreeVar
			switch v := st.Val.(type) {
			case *ssa.FreeVar:
				fv = v
			case *ssa.UnOp:
				if f, ok := v.X.(*ssa.FreeVar); ok && v.Op == token.MUL {
					fv = f
				}
			}
			if fv == nil {
				return
			}
			// binding in the caller
			for i, f := range clo.FreeVars {
				if f != fv || i >= len(mc.Bindings) {
					continue
				}
				b := mc.Bindings[i]
				// b is either the saved value (load of e.opts) or a cell that was stored with it
				if ld, ok := b.(*ssa.UnOp); ok && ld.Op == token.MUL && isOpts(ld.X) {
					found = true
				}
				if cell, ok := b.(*ssa.Alloc); ok {
					for _, ref := range *cell.Referrers() {
						if s2, ok := ref.(*ssa.Store); ok && s2.Addr == cell {
							if ld, ok := s2.Val.(*ssa.UnOp); ok && ld.Op == token.MUL && isOpts(ld.X) &&
								(s2.Block() == site.Block() && core.InstrBlockIndex(s2) < core.InstrBlockIndex(site) || s2.Block() != site.Block() && s2.Block().Dominates(site.Block())) {
								found = true
							}
						}
					}
				}
			}
		})
	})
	if found {
		return ""
	}
	return "no deferred restore of the saved opts pointer dominates the call"
}

// ---------------------------------------------------------------------------

func runInit(c *core.Ctx) []core.Obligation {
	var obs []core.Obligation
	// (i) Every place that creates or zeroes a Loop / Polygon establishes a non-nil index before the object is
	// handed out: directly, or by calling (on that object) a method that assigns the index on every non-error path.
	for _, T := range []string{"Loop", "Polygon"} {
		sets := indexSetters(c, T)
		var names []string
		for f := range sets {
			names = append(names, core.FuncName(f))
		}
		sort.Strings(names)
		// the decoders and the polygon initialiser are the anchors that must be in the set
		want := map[string][]string{"Loop": {"decode", "decodeCompressed"}, "Polygon": {"initEdgesAndIndex", "initLoopProperties"}}[T]
		for _, w := range want {
			fn := c.Fn("s2", T, w)
			construct := fmt.Sprintf("sets-index:(*s2.%s).%s", T, w)
			switch {
			case fn == nil:
				obs = append(obs, core.Ob("R-INIT", construct, "-", "", core.Violated, "unresolved anchor"))
			case !sets[fn]:
				obs = append(obs, core.Ob("R-INIT", construct, c.Pos(fn.Pos()), core.FuncName(fn), core.Violated,
					"a non-error path returns without assigning the index: containment and cell queries on the resulting object dereference a nil index"))
			default:
				obs = append(obs, core.Ob("R-INIT", construct, c.Pos(fn.Pos()), core.FuncName(fn), core.Discharged, "every non-error path to a return assigns a non-nil index (directly or through "+strings.Join(names, ", ")+")"))
			}
		}
		// creation / zeroing sites
		for _, fn := range c.GeoFuncs() {
			n := 0
			core.AllInstrs(fn, func(in ssa.Instruction) {
				var obj ssa.Value
				kind := ""
				switch x := in.(type) {
				case *ssa.Alloc:
					if core.IsNamed(x.Type(), "s2", T) && x.Heap {
						obj, kind = x, "allocation"
					}
				case *ssa.Store:
					// *p = T{} (zero value)
					if core.IsNamed(x.Addr.Type(), "s2", T) {
						if k, ok := x.Val.(*ssa.Const); ok && k.Value == nil {
							if _, isParam := x.Addr.(*ssa.Parameter); isParam {
								obj, kind = x.Addr, "zeroing"
							}
						}
					}
				}
				if obj == nil {
					return
				}
				n++
				construct := fmt.Sprintf("creates:%s:%s#%d", core.FuncName(fn), T, n)
				ok, how := establishesIndex(c, fn, in, obj, T, sets)
				if fn.Name() == "init" || fn.Synthetic != "" {
					return // package-level interface assertions (var _ Shape = &Loop{})
				}
				if ok {
					obs = append(obs, core.Ob("R-INIT", construct, c.Pos(in.Pos()), core.FuncName(fn), core.Discharged, kind+" of a "+T+": "+how))
				} else {
					obs = append(obs, core.Ob("R-INIT", construct, c.Pos(in.Pos()), core.FuncName(fn), core.Violated,
						kind+" of a "+T+" that can leave the function without an index: "+how))
				}
			})
		}
	}
	// (ii) exported Polygon methods that dereference p.index test it for nil first
	for _, fn := range c.GeoFuncs() {
		if fn.Signature.Recv() == nil || !core.IsNamed(fn.Signature.Recv().Type(), "s2", "Polygon") || fn.Object() == nil || !fn.Object().Exported() {
			continue
		}
		n := 0
		core.AllInstrs(fn, func(in ssa.Instruction) {
			ld, ok := in.(*ssa.UnOp)
			if !ok || ld.Op != token.MUL {
				return
			}
			fr, ok := core.AsFieldAddr(ld.X)
			if !ok || fr.Name != "index" || fr.Struct == nil || fr.Struct.Obj().Name() != "Polygon" {
				return
			}
			// is the loaded pointer dereferenced (used as a call receiver / field base)?
			deref := false
			for _, ref := range *ld.Referrers() {
				switch r := ref.(type) {
				case ssa.CallInstruction:
					if len(r.Common().Args) > 0 && r.Common().Args[0] == ssa.Value(ld) {
						if f := core.StaticCallee(r); f != nil && f.Signature.Recv() != nil {
							deref = true
						}
					}
				case *ssa.FieldAddr:
					deref = true
				}
			}
			if !deref {
				return
			}
			n++
			construct := fmt.Sprintf("nil-guard:%s#%d", core.FuncName(fn), n)
			// dominated by an edge on which p.index != nil
			guarded := false
			for _, b := range fn.Blocks {
				iff, ok := b.Instrs[len(b.Instrs)-1].(*ssa.If)
				if !ok {
					continue
				}
				bo, ok := iff.Cond.(*ssa.BinOp)
				if !ok || (bo.Op != token.EQL && bo.Op != token.NEQ) {
					continue
				}
				isIdx := func(v ssa.Value) bool {
					l, ok := v.(*ssa.UnOp)
					if !ok || l.Op != token.MUL {
						return false
					}
					f2, ok := core.AsFieldAddr(l.X)
					return ok && f2.Name == "index" && f2.Struct != nil && f2.Struct.Obj().Name() == "Polygon"
				}
				isNil := func(v ssa.Value) bool { k, ok := v.(*ssa.Const); return ok && k.IsNil() }
				if !((isIdx(bo.X) && isNil(bo.Y)) || (isIdx(bo.Y) && isNil(bo.X))) {
					continue
				}
				nonNilEdge := 0
				if bo.Op == token.EQL {
					nonNilEdge = 1
				}
				if core.EdgeDominates(core.Edge{From: b, Idx: nonNilEdge}, ld.Block()) {
					guarded = true
				}
			}
			if guarded {
				obs = append(obs, core.Ob("R-INIT", construct, c.Pos(ld.Pos()), core.FuncName(fn), core.Discharged, "dereference of the index is dominated by a nil test"))
			} else {
				obs = append(obs, core.Ob("R-INIT", construct, c.Pos(ld.Pos()), core.FuncName(fn), core.Violated,
					"dereferences Polygon.index without a dominating nil test: the zero-value Polygon (documented as the empty polygon) panics here"))
			}
		})
	}
	return obs
}

// indexSetters: methods of T that assign a non-nil index to their receiver on every non-error path.
func indexSetters(c *core.Ctx, T string) map[*ssa.Function]bool {
	sets := map[*ssa.Function]bool{}
	for changed := true; changed; {
		changed = false
		for _, fn := range c.GeoFuncs() {
			if sets[fn] || fn.Signature.Recv() == nil || !core.IsNamed(fn.Signature.Recv().Type(), "s2", T) || len(fn.Params) == 0 {
				continue
			}
			recv := fn.Params[0]
			stop := map[*ssa.BasicBlock]bool{}
			core.AllInstrs(fn, func(in ssa.Instruction) {
				switch x := in.(type) {
				case *ssa.Store:
					if fr, ok := core.AsFieldAddr(x.Addr); ok && fr.Name == "index" && fr.Base == ssa.Value(recv) {
						if k, isConst := x.Val.(*ssa.Const); !(isConst && k.IsNil()) {
							stop[in.Block()] = true
						}
					}
				case ssa.CallInstruction:
					if g := core.StaticCallee(x); g != nil && sets[g] && len(x.Common().Args) > 0 && x.Common().Args[0] == ssa.Value(recv) {
						stop[in.Block()] = true
					}
				}
			})
			if len(stop) == 0 {
				continue
			}
			errEdges, errBlocks := errorExits(fn)
			for b := range errBlocks {
				stop[b] = true
			}
			ok := true
			for _, b := range fn.Blocks {
				if _, isRet := b.Instrs[len(b.Instrs)-1].(*ssa.Return); !isRet || stop[b] {
					continue
				}
				if b == fn.Blocks[0] || core.ReachableAvoiding(fn.Blocks[0], b, errEdges, stop) {
					ok = false
				}
			}
			if ok {
				sets[fn] = true
				changed = true
			}
		}
	}
	return sets
}

// establishesIndex checks that after instruction at (which creates/zeroes obj) every path to a return passes
// a store of a non-nil index into obj or a call of an index-setting method of T.
func establishesIndex(c *core.Ctx, fn *ssa.Function, at ssa.Instruction, obj ssa.Value, T string, sets map[*ssa.Function]bool) (bool, string) {
	stop := map[*ssa.BasicBlock]bool{}
	how := ""
	sameBlockAfter := false
	core.AllInstrs(fn, func(in ssa.Instruction) {
		hit := ""
		switch x := in.(type) {
		case *ssa.Store:
			if fr, ok := core.AsFieldAddr(x.Addr); ok && fr.Name == "index" && fr.Struct != nil && fr.Struct.Obj().Name() == T && fr.Base == obj {
				if k, isConst := x.Val.(*ssa.Const); !(isConst && k.IsNil()) {
					hit = "index assigned in the literal / directly"
				}
			}
			// whole-struct copy from an initialised object (*p = *FullPolygon())
			if x.Addr == obj && in != at {
				if ld, ok := x.Val.(*ssa.UnOp); ok && ld.Op == token.MUL {
					if call, ok := ld.X.(*ssa.Call); ok && core.IsGeo(core.StaticCallee(call)) {
						hit = "overwritten with a copy of a constructed object"
					}
				}
			}
		case ssa.CallInstruction:
			if g := core.StaticCallee(x); g != nil && sets[g] {
				// the receiver is obj itself, or a value of type *T loaded back from where obj was stored (slice element)
				if len(x.Common().Args) > 0 {
					a0 := x.Common().Args[0]
					if a0 == obj || core.IsNamed(a0.Type(), "s2", T) {
						hit = "then calls " + core.FuncName(g) + ", which assigns the index on every non-error path"
					}
				}
			}
		}
		if hit == "" {
			return
		}
		if in.Block() == at.Block() && core.InstrBlockIndex(in) > core.InstrBlockIndex(at) {
			sameBlockAfter = true
			how = hit
		} else if in.Block() != at.Block() {
			stop[in.Block()] = true
			if how == "" {
				how = hit
			}
		}
	})
	if sameBlockAfter {
		return true, how
	}
	errEdges, errBlocks := errorExits(fn)
	for b := range errBlocks {
		stop[b] = true
	}
	for _, b := range fn.Blocks {
		if _, isRet := b.Instrs[len(b.Instrs)-1].(*ssa.Return); !isRet || stop[b] {
			continue
		}
		if b == at.Block() || core.ReachableAvoiding(at.Block(), b, errEdges, stop) {
			return false, fmt.Sprintf("the return in block %d is reachable without an index being assigned", b.Index)
		}
	}
	if how == "" {
		how = "no return reachable"
	}
	return true, how
}

// refreshReloads (after round-7 seed C13-r7m1, refresh skipping the map lookup "when the iterator has not moved"): a
// long-lived iterator (inside a reused ContainsPointQuery, CrossingEdgeQuery or ShapeIndexRegion) outlives Reset and
// rebuilds of its index. The cell pointer it caches is only meaningful for the index contents it was read from, and a
// rebuilt index can have a cell with the same id, so whenever refresh finds the position in range it must read the
// cell from the index's map again - on every path, not only when the id changed.
func refreshReloads(c *core.Ctx) core.Obligation {
	const construct = "ShapeIndexIterator.refresh:cell-reloaded-on-every-path"
	fn := c.Fn("s2", "ShapeIndexIterator", "refresh")
	if fn == nil {
		return core.Ob("R-RESET", construct, "-", "", core.Violated, "unresolved anchor")
	}
	// blocks that store a map lookup into the field cell
	reload := map[*ssa.BasicBlock]bool{}
	other := map[*ssa.BasicBlock]bool{} // stores of anything else (nil on the out-of-range branch)
	core.AllInstrs(fn, func(in ssa.Instruction) {
		st, ok := in.(*ssa.Store)
		if !ok {
			return
		}
		fr, ok := core.AsFieldAddr(st.Addr)
		if !ok || fr.Name != "cell" {
			return
		}
		if _, isLookup := st.Val.(*ssa.Lookup); isLookup {
			reload[st.Block()] = true
		} else {
			other[st.Block()] = true
		}
	})
	if len(reload) == 0 {
		return core.Ob("R-RESET", construct, c.Pos(fn.Pos()), core.FuncName(fn), core.Violated, "refresh no longer reads the current cell from the index's cell map")
	}
	stop := map[*ssa.BasicBlock]bool{}
	for b := range reload {
		stop[b] = true
	}
	for b := range other {
		stop[b] = true
	}
	for _, b := range fn.Blocks {
		if _, isRet := b.Instrs[len(b.Instrs)-1].(*ssa.Return); !isRet {
			continue
		}
		if !stop[b] && core.ReachableAvoiding(fn.Blocks[0], b, nil, stop) {
			return core.Ob("R-RESET", construct, c.Pos(fn.Pos()), core.FuncName(fn), core.Violated,
				"refresh can return without assigning the cached cell (it keeps the old pointer when the cell id at the position is unchanged): after Reset, Add and Build the rebuilt index may have a cell with the same id, and a reused query then tests the new shapes against the old cell's edge lists and containsCenter bits, so its answers differ from those of a fresh query")
		}
	}
	return core.Ob("R-RESET", construct, c.Pos(fn.Pos()), core.FuncName(fn), core.Discharged, "every path through refresh assigns the cached cell (from the index's map, or nil past the end)")
}
