package rules

import (
	"fmt"
	"go/ast"
	"go/constant"
	"go/token"
	"go/types"
	"strings"

	"verif/checker/core"
)

// R-SAMEFACE: added after round-2 seed C01-r2m1 (EdgeNeighbors rewritten with a same-face shortcut whose
// upper guard was "<= MaxSize").

func init() {
	core.Register(&core.Rule{
		Name: "R-SAMEFACE",
		Clause: "C01 'neighbours across a face boundary': cellIDFromFaceIJSame(f, i, j, same) skips the wrap-around conversion when 'same' is true, so 'same' may only be true for (i,j) inside the face, " +
			"0 <= i,j < MaxSize. For every call site the guard is expanded (through the assignments of its boolean variables) into conjunctions of comparisons against constants; every upper bound must be " +
			"'E < K' with K <= MaxSize, every lower bound 'E >= K' with K >= 0, and a coordinate that is the base coordinate plus/minus a cell size must be covered by a bound on that base in that direction.",
		Min: 7,
		Run: runSameFace,
	})
}

// sfAtom is a comparison brought to the form  sum(coef*var) >= k  or  sum(coef*var) < k, oriented so that
// the coordinate variables (everything that is not a cell size) have positive coefficients.
type sfAtom struct {
	vars map[types.Object]int64
	ge   bool
	k    int64
	text string
}

// sfLin reads an integer expression as a linear form over local variables.
func sfLin(info *types.Info, e ast.Expr) (map[types.Object]int64, int64, bool) {
	e = ast.Unparen(e)
	if tv, ok := info.Types[e]; ok && tv.Value != nil {
		k, ok := constant.Int64Val(constant.ToInt(tv.Value))
		return map[types.Object]int64{}, k, ok
	}
	switch x := e.(type) {
	case *ast.Ident:
		if v, ok := info.Uses[x].(*types.Var); ok && !v.IsField() {
			return map[types.Object]int64{v: 1}, 0, true
		}
	case *ast.UnaryExpr:
		if x.Op == token.SUB || x.Op == token.ADD {
			m, k, ok := sfLin(info, x.X)
			if !ok {
				return nil, 0, false
			}
			if x.Op == token.SUB {
				for o := range m {
					m[o] = -m[o]
				}
				k = -k
			}
			return m, k, true
		}
	case *ast.BinaryExpr:
		switch x.Op {
		case token.ADD, token.SUB:
			a, ka, ok1 := sfLin(info, x.X)
			b, kb, ok2 := sfLin(info, x.Y)
			if !ok1 || !ok2 {
				return nil, 0, false
			}
			sg := int64(1)
			if x.Op == token.SUB {
				sg = -1
			}
			for o, cf := range b {
				a[o] += sg * cf
				if a[o] == 0 {
					delete(a, o)
				}
			}
			return a, ka + sg*kb, true
		case token.MUL:
			a, ka, ok1 := sfLin(info, x.X)
			b, kb, ok2 := sfLin(info, x.Y)
			if !ok1 || !ok2 {
				return nil, 0, false
			}
			if len(a) != 0 && len(b) != 0 {
				return nil, 0, false
			}
			if len(a) == 0 {
				a, b, ka, kb = b, a, kb, ka
			}
			for o := range a {
				a[o] *= kb
			}
			return a, ka * kb, true
		}
	}
	return nil, 0, false
}

const sfMaxAlts = 256

func runSameFace(c *core.Ctx) []core.Obligation {
	var obs []core.Obligation
	pkg := c.Pkgs["s2"]
	target := c.LookupFunc("s2", "", "cellIDFromFaceIJSame")
	if pkg == nil || target == nil {
		return append(obs, core.Ob("R-SAMEFACE", "anchor", "-", "", core.Violated, "unresolved anchor: cellIDFromFaceIJSame"))
	}
	info := pkg.TypesInfo
	maxSize := int64(-1)
	if o := pkg.Types.Scope().Lookup("MaxSize"); o != nil {
		if cst, ok := o.(*types.Const); ok {
			if v, ok := constant.Int64Val(constant.ToInt(cst.Val())); ok {
				maxSize = v
			}
		}
	}
	if maxSize < 0 {
		return append(obs, core.Ob("R-SAMEFACE", "anchor", "-", "", core.Violated, "unresolved anchor: constant MaxSize"))
	}
	for _, file := range pkg.Syntax {
		if strings.HasSuffix(c.Fset.Position(file.Pos()).Filename, "_test.go") {
			continue
		}
		for _, d := range file.Decls {
			fd, ok := d.(*ast.FuncDecl)
			if !ok || fd.Body == nil {
				continue
			}
			fobj, _ := info.Defs[fd.Name].(*types.Func)
			if fobj == nil || fobj == target {
				continue
			}
			n := 0
			ast.Inspect(fd.Body, func(nd ast.Node) bool {
				call, ok := nd.(*ast.CallExpr)
				if !ok || len(call.Args) != 4 {
					return true
				}
				id, ok := call.Fun.(*ast.Ident)
				if !ok || info.Uses[id] != target {
					return true
				}
				n++
				construct := fmt.Sprintf("guard:%s#%d", fobj.FullName(), n)
				obs = append(obs, sameFaceSite(c, info, fd, call, construct, fobj.FullName(), maxSize))
				return true
			})
			if fd.Name.Name == "VertexNeighbors" && n > 0 {
				obs = append(obs, sameFaceExact(c, info, fd, fobj.FullName(), maxSize))
			}
		}
	}
	return obs
}

func sameFaceSite(c *core.Ctx, info *types.Info, fd *ast.FuncDecl, call *ast.CallExpr, construct, fname string, maxSize int64) core.Obligation {
	site := c.Pos(call.Pos())
	assigns := collectAssigns(info, fd)
	alts, ok := sfExpand(info, assigns, call.Args[3], map[types.Object]bool{})
	if !ok {
		return core.Ob("R-SAMEFACE", construct, site, fname, core.Undecided, "the same-face guard "+types.ExprString(call.Args[3])+" could not be expanded into comparisons against constants")
	}
	// bound check on every atom
	for _, alt := range alts {
		for _, a := range alt {
			if !a.ge && a.k > maxSize {
				return core.Ob("R-SAMEFACE", construct, site, fname, core.Violated,
					fmt.Sprintf("the guard accepts %s, i.e. a coordinate up to %d >= MaxSize (%d) is treated as lying on the same face and converted without wrapping", a.text, a.k-1, maxSize))
			}
			if a.ge && a.k < 0 {
				return core.Ob("R-SAMEFACE", construct, site, fname, core.Violated,
					fmt.Sprintf("the guard accepts %s, i.e. a negative coordinate is treated as lying on the same face and converted without wrapping", a.text))
			}
		}
	}
	// coverage of size excursions
	var covered []string
	for ci := 1; ci <= 2; ci++ {
		base, up, down, isExc := sfExcursion(info, assigns, call.Args[ci])
		if !isExc {
			continue
		}
		anyUp, anyDown := false, false
		for _, alt := range alts {
			hasUp, hasDown := false, false
			for _, a := range alt {
				if a.vars[base] <= 0 {
					continue
				}
				if a.ge {
					hasDown = true
				} else {
					hasUp = true
				}
			}
			anyUp = anyUp || hasUp
			anyDown = anyDown || hasDown
			miss := ""
			switch {
			case up && !down && !hasUp:
				miss = "an upper bound '< MaxSize'"
			case down && !up && !hasDown:
				miss = "a lower bound '>= 0'"
			case up && down && !hasUp && !hasDown:
				miss = "any bound"
			}
			if miss != "" {
				return core.Ob("R-SAMEFACE", construct, site, fname, core.Violated,
					fmt.Sprintf("coordinate %s leaves the cell by a cell size, but one way the guard %s becomes true has %s missing on %s: an off-face coordinate would be converted without wrapping",
						types.ExprString(call.Args[ci]), types.ExprString(call.Args[3]), miss, base.Name()))
			}
		}
		if up && down && !(anyUp && anyDown) {
			return core.Ob("R-SAMEFACE", construct, site, fname, core.Violated,
				fmt.Sprintf("coordinate %s can leave the face on either side but the guard bounds %s on one side only", types.ExprString(call.Args[ci]), base.Name()))
		}
		covered = append(covered, types.ExprString(call.Args[ci]))
	}
	det := fmt.Sprintf("%d way(s) for the guard to hold, all bounds within [0, MaxSize)", len(alts))
	if len(covered) > 0 {
		det += "; size excursions covered: " + strings.Join(covered, ", ")
	}
	return core.Ob("R-SAMEFACE", construct, site, fname, core.Discharged, det)
}

// collectAssigns maps each local variable to the expressions assigned to it anywhere in the function
// (nil entry = assigned something that is not a single expression).
func collectAssigns(info *types.Info, fd *ast.FuncDecl) map[types.Object][]ast.Expr {
	m := map[types.Object][]ast.Expr{}
	obj := func(e ast.Expr) types.Object {
		id, ok := e.(*ast.Ident)
		if !ok {
			return nil
		}
		if o := info.Defs[id]; o != nil {
			return o
		}
		return info.Uses[id]
	}
	ast.Inspect(fd.Body, func(n ast.Node) bool {
		switch x := n.(type) {
		case *ast.AssignStmt:
			if len(x.Lhs) == len(x.Rhs) {
				for i, l := range x.Lhs {
					if o := obj(l); o != nil {
						if x.Tok == token.ASSIGN || x.Tok == token.DEFINE {
							m[o] = append(m[o], x.Rhs[i])
						} else {
							m[o] = append(m[o], nil)
						}
					}
				}
			} else {
				for _, l := range x.Lhs {
					if o := obj(l); o != nil {
						m[o] = append(m[o], nil)
					}
				}
			}
		case *ast.IncDecStmt:
			if o := obj(x.X); o != nil {
				m[o] = append(m[o], nil)
			}
		case *ast.ValueSpec:
			for i, nm := range x.Names {
				if o := info.Defs[nm]; o != nil && i < len(x.Values) {
					m[o] = append(m[o], x.Values[i])
				}
			}
		}
		return true
	})
	return m
}

// sfExpand turns a boolean expression into a disjunction of conjunctions of atoms.
func sfExpand(info *types.Info, assigns map[types.Object][]ast.Expr, e ast.Expr, busy map[types.Object]bool) ([][]sfAtom, bool) {
	e = ast.Unparen(e)
	if tv, ok := info.Types[e]; ok && tv.Value != nil && tv.Value.Kind() == constant.Bool {
		if constant.BoolVal(tv.Value) {
			return [][]sfAtom{{}}, true
		}
		return nil, true // constant false: never takes the shortcut
	}
	switch x := e.(type) {
	case *ast.Ident:
		o := info.Uses[x]
		v, isVar := o.(*types.Var)
		if !isVar || busy[o] {
			return nil, false
		}
		if v.IsField() || v.Parent() == nil || v.Parent() == v.Pkg().Scope() {
			return nil, false
		}
		rhs, has := assigns[o]
		if !has {
			// declared without initialiser and never assigned: false
			return nil, true
		}
		busy[o] = true
		defer delete(busy, o)
		var out [][]sfAtom
		for _, r := range rhs {
			if r == nil {
				return nil, false
			}
			alts, ok := sfExpand(info, assigns, r, busy)
			if !ok {
				return nil, false
			}
			out = append(out, alts...)
		}
		return out, len(out) <= sfMaxAlts
	case *ast.BinaryExpr:
		switch x.Op {
		case token.LAND:
			l, ok1 := sfExpand(info, assigns, x.X, busy)
			r, ok2 := sfExpand(info, assigns, x.Y, busy)
			if !ok1 || !ok2 {
				return nil, false
			}
			var out [][]sfAtom
			for _, a := range l {
				for _, b := range r {
					out = append(out, append(append([]sfAtom{}, a...), b...))
				}
			}
			return out, len(out) <= sfMaxAlts
		case token.LOR:
			l, ok1 := sfExpand(info, assigns, x.X, busy)
			r, ok2 := sfExpand(info, assigns, x.Y, busy)
			if !ok1 || !ok2 {
				return nil, false
			}
			return append(l, r...), true
		case token.LSS, token.LEQ, token.GTR, token.GEQ:
			l, kl, ok1 := sfLin(info, x.X)
			r, kr, ok2 := sfLin(info, x.Y)
			if !ok1 || !ok2 {
				return nil, false
			}
			for o, cf := range r {
				l[o] -= cf
				if l[o] == 0 {
					delete(l, o)
				}
			}
			d0 := kl - kr // comparison is  l + d0  op  0
			a := sfAtom{vars: l, text: types.ExprString(x)}
			switch x.Op {
			case token.LSS:
				a.ge, a.k = false, -d0
			case token.LEQ:
				a.ge, a.k = false, 1-d0
			case token.GEQ:
				a.ge, a.k = true, -d0
			case token.GTR:
				a.ge, a.k = true, 1-d0
			}
			// orientation: coordinate variables (not cell sizes) must count positively
			posv, negv := 0, 0
			for o, cf := range a.vars {
				if _, _, isSize := sfObjSize(info, assigns, o, map[types.Object]bool{}); isSize {
					continue
				}
				if cf > 0 {
					posv++
				} else {
					negv++
				}
			}
			if posv > 0 && negv > 0 || posv+negv == 0 {
				return nil, false
			}
			if negv > 0 {
				for o := range a.vars {
					a.vars[o] = -a.vars[o]
				}
				if a.ge { // v >= k  <=>  -v < -k+1
					a.ge, a.k = false, -a.k+1
				} else { // v < k  <=>  -v >= -k+1
					a.ge, a.k = true, -a.k+1
				}
			}
			return [][]sfAtom{{a}}, true
		}
	}
	return nil, false
}

// sfExcursion recognises a coordinate of the form base +/- t where t is a cell size (a value that comes
// from sizeIJ, possibly shifted or negated). up/down say on which side the coordinate can leave.
func sfExcursion(info *types.Info, assigns map[types.Object][]ast.Expr, e ast.Expr) (base types.Object, up, down, ok bool) {
	b, isBin := ast.Unparen(e).(*ast.BinaryExpr)
	if !isBin || (b.Op != token.ADD && b.Op != token.SUB) {
		return nil, false, false, false
	}
	bx, okx := ast.Unparen(b.X).(*ast.Ident)
	if !okx {
		return nil, false, false, false
	}
	pos, neg, isSize := sfSizeSign(info, assigns, b.Y, map[types.Object]bool{})
	if !isSize {
		return nil, false, false, false
	}
	if b.Op == token.SUB {
		pos, neg = neg, pos
	}
	return info.Uses[bx], pos, neg, info.Uses[bx] != nil
}

func sfSizeSign(info *types.Info, assigns map[types.Object][]ast.Expr, e ast.Expr, busy map[types.Object]bool) (pos, neg, ok bool) {
	e = ast.Unparen(e)
	switch x := e.(type) {
	case *ast.CallExpr:
		if id, isId := x.Fun.(*ast.Ident); isId {
			if f, isF := info.Uses[id].(*types.Func); isF && f.Name() == "sizeIJ" && f.Pkg() != nil && f.Pkg().Name() == "s2" {
				return true, false, true
			}
		}
	case *ast.UnaryExpr:
		if x.Op == token.SUB {
			p, n, ok := sfSizeSign(info, assigns, x.X, busy)
			return n, p, ok
		}
	case *ast.BinaryExpr:
		if x.Op == token.SHL || x.Op == token.SHR {
			return sfSizeSign(info, assigns, x.X, busy)
		}
	case *ast.Ident:
		return sfObjSize(info, assigns, info.Uses[x], busy)
	}
	return false, false, false
}

func sfObjSize(info *types.Info, assigns map[types.Object][]ast.Expr, o types.Object, busy map[types.Object]bool) (pos, neg, ok bool) {
	if _, isVar := o.(*types.Var); !isVar || busy[o] {
		return false, false, false
	}
	rhs := assigns[o]
	if len(rhs) == 0 {
		return false, false, false
	}
	busy[o] = true
	defer delete(busy, o)
	for _, r := range rhs {
		if r == nil {
			return false, false, false
		}
		p, n, ok := sfSizeSign(info, assigns, r, busy)
		if !ok {
			return false, false, false
		}
		pos, neg = pos || p, neg || n
	}
	return pos, neg, true
}

// sameFaceExact (after round-6 seed C10-r6m2, `(i - size) >= 0` simplified to `i > size`): in VertexNeighbors the
// same-face flags are not only a licence to skip the wrap-around conversion - `if isame || jsame` also decides whether
// the vertex has a fourth neighbour (only a cube vertex has three). A flag that is false for an in-face coordinate
// therefore drops a neighbour, and Cap.CellUnionBound, which is made of exactly these cells, no longer covers the cap.
// Every comparison the flags are built from must be tight: shifted coordinate >= 0, or shifted coordinate < MaxSize.
func sameFaceExact(c *core.Ctx, info *types.Info, fd *ast.FuncDecl, fname string, maxSize int64) core.Obligation {
	const construct = "exact:VertexNeighbors:fourth-neighbour"
	site := c.Pos(fd.Pos())
	assigns := collectAssigns(info, fd)
	var cond ast.Expr
	ast.Inspect(fd.Body, func(n ast.Node) bool {
		if ifs, ok := n.(*ast.IfStmt); ok && cond == nil {
			if b, ok := ast.Unparen(ifs.Cond).(*ast.BinaryExpr); ok && b.Op == token.LOR {
				cond = ifs.Cond
			}
		}
		return true
	})
	if cond == nil {
		return core.Ob("R-SAMEFACE", construct, site, fname, core.Violated, "unresolved anchor: the test that decides whether the vertex has a fourth neighbour was not found")
	}
	alts, ok := sfExpand(info, assigns, cond, map[types.Object]bool{})
	if !ok || len(alts) == 0 {
		return core.Ob("R-SAMEFACE", construct, site, fname, core.Undecided, "the condition "+types.ExprString(cond)+" could not be expanded into comparisons against constants")
	}
	natoms := 0
	for _, alt := range alts {
		for _, a := range alt {
			natoms++
			neg := false
			for _, cf := range a.vars {
				if cf < 0 {
					neg = true
				}
			}
			if a.ge && (a.k != 0 || !neg) {
				return core.Ob("R-SAMEFACE", construct, site, fname, core.Violated,
					fmt.Sprintf("the flag is built from %s, which is not the tight test 'coordinate - size >= 0': for the coordinate that lies exactly one cell inside the face the flag is wrong, `%s` drops the fourth vertex neighbour (or invents one at a cube vertex), and Cap.CellUnionBound loses a cell of its covering", a.text, types.ExprString(cond)))
			}
			if !a.ge && (a.k != maxSize || neg || len(a.vars) < 2) {
				return core.Ob("R-SAMEFACE", construct, site, fname, core.Violated,
					fmt.Sprintf("the flag is built from %s, which is not the tight test 'coordinate + size < MaxSize': for the coordinate that lies exactly one cell inside the face the flag is wrong, `%s` drops the fourth vertex neighbour (or invents one at a cube vertex), and Cap.CellUnionBound loses a cell of its covering", a.text, types.ExprString(cond)))
			}
		}
	}
	if natoms < 4 {
		return core.Ob("R-SAMEFACE", construct, site, fname, core.Violated, fmt.Sprintf("unresolved anchor: only %d comparisons behind %s, 4 expected", natoms, types.ExprString(cond)))
	}
	return core.Ob("R-SAMEFACE", construct, site, fname, core.Discharged, fmt.Sprintf("%d comparisons behind `%s`, each the tight in-face test of the shifted coordinate", natoms, types.ExprString(cond)))
}
