package rules

import (
	"fmt"
	"go/ast"
	"go/constant"
	"go/token"
	"go/types"
	"math"
	"sort"
	"strings"

	"verif/checker/core"
)

// Order-type abstract interpretation (R-ORDER).
//
// The interval predicates and constructors of r1 and s1 only COMPARE their
// float operands (and copy them, or pick +-Pi). For such code the result is
// a function of the weak ordering of the operands and the constants -Pi, Pi
// alone. The analysis therefore interprets the function's syntax over the
// finite abstract domain "position in a weak ordering": an abstract number is
// a rank, a comparison is decided by the ranks, arithmetic yields an opaque
// number, and a comparison involving an opaque number forks both ways. Every
// ordering of the operands is enumerated, so within this code class the result
// holds for all real inputs. The specification side (membership of a probe
// point placed on every operand and in every gap) is written here, not taken
// from the code under analysis.

type ovKind int

const (
	ovNum ovKind = iota
	ovBool
	ovStruct
	ovAbs
)

type oval struct {
	kind   ovKind
	rank   int  // ovNum (known): doubled rank
	known  bool // ovNum: rank is meaningful
	b      bool // ovBool
	fields map[string]*oval
	inner  *oval // ovAbs
}

func onum(rank int) *oval { return &oval{kind: ovNum, rank: rank, known: true} }
func oopaque() *oval      { return &oval{kind: ovNum} }
func obool(b bool) *oval  { return &oval{kind: ovBool, b: b} }
func (v *oval) copy() *oval {
	if v == nil {
		return nil
	}
	c := *v
	if v.fields != nil {
		c.fields = map[string]*oval{}
		for k, f := range v.fields {
			c.fields[k] = f.copy()
		}
	}
	return &c
}

type orderInterp struct {
	c       *core.Ctx
	pkg     string
	info    *types.Info
	piRank  int // rank of +Pi (-Pi is rank 0); -1 when the domain has no Pi (r1)
	tape    []bool
	pos     int
	forks   int
	problem string
	depth   int
}

type retSignal struct{ v *oval }

func (it *orderInterp) choose() bool {
	if it.pos < len(it.tape) {
		b := it.tape[it.pos]
		it.pos++
		return b
	}
	it.tape = append(it.tape, false)
	it.pos++
	it.forks++
	return false
}

func (it *orderInterp) fail(msg string) *oval {
	if it.problem == "" {
		it.problem = msg
	}
	return oopaque()
}

// callFunc interprets fn with the given receiver and arguments.
func (it *orderInterp) callFunc(fn *types.Func, recv *oval, args []*oval) *oval {
	decl := it.c.Decl(fn)
	if decl == nil || decl.Body == nil {
		return it.fail("no source for " + fn.FullName())
	}
	if it.depth > 8 {
		return it.fail("call depth")
	}
	it.depth++
	defer func() { it.depth-- }()
	oldInfo := it.info
	for _, p := range it.c.All {
		if p.Types == fn.Pkg() {
			it.info = p.TypesInfo
		}
	}
	defer func() { it.info = oldInfo }()
	env := map[types.Object]*oval{}
	if decl.Recv != nil && len(decl.Recv.List) > 0 && len(decl.Recv.List[0].Names) > 0 {
		env[it.info.Defs[decl.Recv.List[0].Names[0]]] = recv.copy()
	}
	i := 0
	for _, f := range decl.Type.Params.List {
		for _, nm := range f.Names {
			if i < len(args) {
				env[it.info.Defs[nm]] = args[i].copy()
			}
			i++
		}
	}
	var named []types.Object
	if decl.Type.Results != nil {
		for _, f := range decl.Type.Results.List {
			for _, nm := range f.Names {
				o := it.info.Defs[nm]
				named = append(named, o)
				env[o] = it.zeroOf(o.Type())
			}
		}
	}
	if r := it.execBlock(decl.Body.List, env); r != nil {
		if r.v == nil && len(named) == 1 {
			return env[named[0]]
		}
		return r.v
	}
	if len(named) == 1 {
		return env[named[0]]
	}
	return it.fail("function falls off its end: " + fn.Name())
}

func (it *orderInterp) zeroOf(t types.Type) *oval {
	if st, ok := t.Underlying().(*types.Struct); ok {
		v := &oval{kind: ovStruct, fields: map[string]*oval{}}
		for i := 0; i < st.NumFields(); i++ {
			v.fields[st.Field(i).Name()] = it.zeroOf(st.Field(i).Type())
		}
		return v
	}
	if b, ok := t.Underlying().(*types.Basic); ok && b.Info()&types.IsBoolean != 0 {
		return obool(false)
	}
	return oopaque()
}

func (it *orderInterp) execBlock(stmts []ast.Stmt, env map[types.Object]*oval) *retSignal {
	for _, st := range stmts {
		if r := it.exec(st, env); r != nil {
			return r
		}
	}
	return nil
}

func (it *orderInterp) exec(st ast.Stmt, env map[types.Object]*oval) *retSignal {
	switch x := st.(type) {
	case *ast.ReturnStmt:
		if len(x.Results) == 0 {
			return &retSignal{nil}
		}
		if len(x.Results) != 1 {
			it.fail("multi-value return")
			return &retSignal{oopaque()}
		}
		return &retSignal{it.eval(x.Results[0], env)}
	case *ast.BlockStmt:
		return it.execBlock(x.List, env)
	case *ast.IfStmt:
		if x.Init != nil {
			if r := it.exec(x.Init, env); r != nil {
				return r
			}
		}
		c := it.eval(x.Cond, env)
		if c.kind != ovBool {
			it.fail("non-boolean condition")
			return &retSignal{oopaque()}
		}
		if c.b {
			return it.execBlock(x.Body.List, env)
		}
		if x.Else != nil {
			return it.exec(x.Else, env)
		}
		return nil
	case *ast.AssignStmt:
		if len(x.Lhs) != len(x.Rhs) {
			it.fail("tuple assignment")
			return nil
		}
		vals := make([]*oval, len(x.Rhs))
		for i, r := range x.Rhs {
			vals[i] = it.eval(r, env).copy()
		}
		for i, l := range x.Lhs {
			if x.Tok != token.ASSIGN && x.Tok != token.DEFINE {
				// compound assignment: arithmetic
				vals[i] = oopaque()
			}
			it.assign(l, vals[i], env)
		}
		return nil
	case *ast.DeclStmt:
		if gd, ok := x.Decl.(*ast.GenDecl); ok {
			for _, sp := range gd.Specs {
				if vs, ok := sp.(*ast.ValueSpec); ok {
					for i, nm := range vs.Names {
						o := it.info.Defs[nm]
						if i < len(vs.Values) {
							env[o] = it.eval(vs.Values[i], env).copy()
						} else {
							env[o] = it.zeroOf(o.Type())
						}
					}
				}
			}
		}
		return nil
	case *ast.ExprStmt, *ast.EmptyStmt:
		return nil
	case *ast.SwitchStmt:
		if x.Init != nil {
			if r := it.exec(x.Init, env); r != nil {
				return r
			}
		}
		var tag *oval
		if x.Tag != nil {
			tag = it.eval(x.Tag, env)
		}
		var deflt *ast.CaseClause
		for _, cc := range x.Body.List {
			clause := cc.(*ast.CaseClause)
			if clause.List == nil {
				deflt = clause
				continue
			}
			for _, ce := range clause.List {
				var hit *oval
				if tag == nil {
					hit = it.eval(ce, env)
				} else {
					hit = it.compare(token.EQL, tag, it.eval(ce, env))
				}
				if hit.kind != ovBool {
					it.fail("non-boolean case")
					return &retSignal{oopaque()}
				}
				if hit.b {
					return it.execBlock(clause.Body, env)
				}
			}
		}
		if deflt != nil {
			return it.execBlock(deflt.Body, env)
		}
		return nil
	}
	it.fail(fmt.Sprintf("unsupported statement %T", st))
	return &retSignal{oopaque()}
}

func (it *orderInterp) assign(l ast.Expr, v *oval, env map[types.Object]*oval) {
	switch x := l.(type) {
	case *ast.Ident:
		if x.Name == "_" {
			return
		}
		o := it.info.Defs[x]
		if o == nil {
			o = it.info.Uses[x]
		}
		env[o] = v
	case *ast.SelectorExpr:
		if id, ok := x.X.(*ast.Ident); ok {
			o := it.info.Uses[id]
			if base, ok := env[o]; ok && base.kind == ovStruct {
				base.fields[x.Sel.Name] = v
				return
			}
		}
		it.fail("assignment to " + types.ExprString(l))
	default:
		it.fail("assignment to " + types.ExprString(l))
	}
}

func (it *orderInterp) constNum(val constant.Value) *oval {
	f, _ := constant.Float64Val(val)
	if it.piRank >= 0 {
		if f == math.Pi {
			return onum(it.piRank)
		}
		if f == -math.Pi {
			return onum(0)
		}
	}
	return oopaque()
}

func (it *orderInterp) eval(e ast.Expr, env map[types.Object]*oval) *oval {
	if tv, ok := it.info.Types[e]; ok && tv.Value != nil {
		switch tv.Value.Kind() {
		case constant.Bool:
			return obool(constant.BoolVal(tv.Value))
		case constant.Int, constant.Float:
			return it.constNum(tv.Value)
		}
	}
	switch x := e.(type) {
	case *ast.ParenExpr:
		return it.eval(x.X, env)
	case *ast.Ident:
		o := it.info.Uses[x]
		if o == nil {
			o = it.info.Defs[x]
		}
		if v, ok := env[o]; ok {
			return v
		}
		return it.fail("unbound identifier " + x.Name)
	case *ast.SelectorExpr:
		if sel, ok := it.info.Selections[x]; ok && sel.Kind() == types.FieldVal {
			base := it.eval(x.X, env)
			if base.kind == ovStruct {
				if f, ok := base.fields[x.Sel.Name]; ok {
					return f
				}
			}
			return it.fail("field of non-struct " + types.ExprString(x))
		}
		return it.fail("selector " + types.ExprString(x))
	case *ast.UnaryExpr:
		v := it.eval(x.X, env)
		switch x.Op {
		case token.NOT:
			if v.kind == ovBool {
				return obool(!v.b)
			}
		case token.SUB, token.ADD:
			return oopaque()
		}
		return it.fail("unary " + x.Op.String())
	case *ast.BinaryExpr:
		switch x.Op {
		case token.LAND:
			a := it.eval(x.X, env)
			if a.kind != ovBool {
				return it.fail("&& on non-bool")
			}
			if !a.b {
				return obool(false)
			}
			return it.eval(x.Y, env)
		case token.LOR:
			a := it.eval(x.X, env)
			if a.kind != ovBool {
				return it.fail("|| on non-bool")
			}
			if a.b {
				return obool(true)
			}
			return it.eval(x.Y, env)
		case token.EQL, token.NEQ, token.LSS, token.LEQ, token.GTR, token.GEQ:
			return it.compare(x.Op, it.eval(x.X, env), it.eval(x.Y, env))
		case token.ADD, token.SUB, token.MUL, token.QUO:
			it.eval(x.X, env)
			it.eval(x.Y, env)
			return oopaque()
		}
		return it.fail("binary " + x.Op.String())
	case *ast.CompositeLit:
		st, ok := it.info.TypeOf(x).Underlying().(*types.Struct)
		if !ok {
			return it.fail("composite literal of non-struct")
		}
		v := it.zeroOf(it.info.TypeOf(x))
		for i, el := range x.Elts {
			if kv, ok := el.(*ast.KeyValueExpr); ok {
				v.fields[kv.Key.(*ast.Ident).Name] = it.eval(kv.Value, env).copy()
			} else if i < st.NumFields() {
				v.fields[st.Field(i).Name()] = it.eval(el, env).copy()
			}
		}
		return v
	case *ast.CallExpr:
		return it.evalCall(x, env)
	}
	return it.fail(fmt.Sprintf("unsupported expression %T", e))
}

func (it *orderInterp) evalCall(x *ast.CallExpr, env map[types.Object]*oval) *oval {
	if tv, ok := it.info.Types[x.Fun]; ok && tv.IsType() && len(x.Args) == 1 {
		return it.eval(x.Args[0], env)
	}
	var args []*oval
	for _, a := range x.Args {
		args = append(args, it.eval(a, env))
	}
	switch f := x.Fun.(type) {
	case *ast.SelectorExpr:
		if sel, ok := it.info.Selections[f]; ok && sel.Kind() == types.MethodVal {
			fn := sel.Obj().(*types.Func)
			return it.callFunc(fn, it.eval(f.X, env), args)
		}
		if fn, ok := it.info.Uses[f.Sel].(*types.Func); ok {
			if fn.Pkg() != nil && fn.Pkg().Path() == "math" {
				switch fn.Name() {
				case "Abs":
					return &oval{kind: ovAbs, inner: args[0]}
				case "Max", "Min":
					a, b := args[0], args[1]
					if a.kind == ovNum && b.kind == ovNum && a.known && b.known {
						if (fn.Name() == "Max") == (a.rank >= b.rank) {
							return a
						}
						return b
					}
					return oopaque()
				}
				return oopaque()
			}
			if strings.HasPrefix(fn.Pkg().Path(), core.GeoPath) {
				return it.callFunc(fn, nil, args)
			}
		}
	case *ast.Ident:
		if fn, ok := it.info.Uses[f].(*types.Func); ok {
			return it.callFunc(fn, nil, args)
		}
	}
	return it.fail("call " + types.ExprString(x.Fun))
}

func (it *orderInterp) compare(op token.Token, a, b *oval) *oval {
	// |x| compared with Pi: operands are within [-Pi, Pi] by the domain
	if a.kind == ovAbs || b.kind == ovAbs {
		abs, other := a, b
		flipped := false
		if b.kind == ovAbs {
			abs, other = b, a
			flipped = true
		}
		if other.kind == ovNum && other.known && other.rank == it.piRank && abs.inner.kind == ovNum && abs.inner.known {
			isPi := abs.inner.rank == 0 || abs.inner.rank == it.piRank
			o := op
			if flipped {
				o = mirror(op)
			}
			switch o { // |x| o Pi  with |x| <= Pi always
			case token.LEQ:
				return obool(true)
			case token.GTR:
				return obool(false)
			case token.EQL, token.GEQ:
				return obool(isPi)
			case token.NEQ, token.LSS:
				return obool(!isPi)
			}
		}
		return obool(it.choose())
	}
	if a.kind == ovStruct && b.kind == ovStruct && (op == token.EQL || op == token.NEQ) {
		eq := true
		var names []string
		for k := range a.fields {
			names = append(names, k)
		}
		sort.Strings(names)
		for _, k := range names {
			r := it.compare(token.EQL, a.fields[k], b.fields[k])
			if !r.b {
				eq = false
			}
		}
		return obool(eq == (op == token.EQL))
	}
	if a.kind != ovNum || b.kind != ovNum {
		it.fail("comparison of non-numbers")
		return obool(false)
	}
	if !a.known || !b.known {
		return obool(it.choose())
	}
	var r bool
	switch op {
	case token.EQL:
		r = a.rank == b.rank
	case token.NEQ:
		r = a.rank != b.rank
	case token.LSS:
		r = a.rank < b.rank
	case token.LEQ:
		r = a.rank <= b.rank
	case token.GTR:
		r = a.rank > b.rank
	case token.GEQ:
		r = a.rank >= b.rank
	}
	return obool(r)
}

func mirror(op token.Token) token.Token {
	switch op {
	case token.LSS:
		return token.GTR
	case token.LEQ:
		return token.GEQ
	case token.GTR:
		return token.LSS
	case token.GEQ:
		return token.LEQ
	}
	return op
}

// runAll evaluates fn under every resolution of its undetermined comparisons.
func (it *orderInterp) runAll(fn *types.Func, recv *oval, args []*oval, visit func(*oval)) {
	var tapes [][]bool
	tapes = append(tapes, nil)
	for len(tapes) > 0 && len(tapes) < 4096 {
		t := tapes[len(tapes)-1]
		tapes = tapes[:len(tapes)-1]
		it.tape = append([]bool{}, t...)
		it.pos = 0
		res := it.callFunc(fn, recv, args)
		visit(res)
		// schedule the alternative for every choice made beyond the given prefix
		for i := len(t); i < len(it.tape); i++ {
			alt := append(append([]bool{}, it.tape[:i]...), true)
			tapes = append(tapes, alt)
		}
	}
}

// runAllBody evaluates body under every resolution of the undetermined comparisons it runs into.
func (it *orderInterp) runAllBody(body func()) {
	var tapes [][]bool
	tapes = append(tapes, nil)
	for len(tapes) > 0 && len(tapes) < 65536 {
		t := tapes[len(tapes)-1]
		tapes = tapes[:len(tapes)-1]
		it.tape = append([]bool{}, t...)
		it.pos = 0
		body()
		for i := len(t); i < len(it.tape); i++ {
			alt := append(append([]bool{}, it.tape[:i]...), true)
			tapes = append(tapes, alt)
		}
	}
}
