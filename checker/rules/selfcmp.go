package rules

import (
	"fmt"
	"go/token"
	"go/types"
	"os"

	"golang.org/x/tools/go/ssa"

	"verif/checker/core"
)

func init() {
	core.Register(&core.Rule{
		Name: "R-SELFCMP",
		Clause: "C09 'cell-centre detection must be exact' (and sibling confusions in general): no comparison in the library compares a value with a structurally identical recomputation of itself " +
			"(same pure operations over the same operands). Such a comparison is constant, which means one of the two sides names the wrong sibling (si for ti, a for b, lo for hi).",
		Min: 1,
		Run: runSelfCmp,
	})
}

type purity struct {
	c          *core.Ctx
	memo       map[*ssa.Function]int // 1 pure, 2 impure
	allowReads bool                  // side-effect freedom only: reading caller-visible memory is fine
}

func (p *purity) pure(fn *ssa.Function, depth int) bool {
	if fn == nil {
		return false
	}
	if m := p.memo[fn]; m != 0 {
		return m == 1
	}
	// math and math/bits are pure whether or not their bodies were loaded (Float64bits reads through unsafe.Pointer)
	if fn.Pkg != nil {
		switch fn.Pkg.Pkg.Path() {
		case "math", "math/bits":
			return true
		}
	}
	if fn.Blocks == nil {
		if fn.Pkg != nil {
			switch fn.Pkg.Pkg.Path() {
			case "math", "math/bits":
				return true
			}
		}
		if os.Getenv("S2LINT_DEBUG") != "" {
			fmt.Fprintf(os.Stderr, "DEBUG impure: %s has no body\n", fn)
		}
		return false
	}
	if depth > 6 {
		if os.Getenv("S2LINT_DEBUG") != "" {
			fmt.Fprintf(os.Stderr, "DEBUG impure: %s depth\n", fn)
		}
		return false
	}
	p.memo[fn] = 2
	ok := true
	core.AllInstrs(fn, func(in ssa.Instruction) {
		if !ok {
			return
		}
		switch x := in.(type) {
		case *ssa.Store:
			// stores into the function's own locals are fine
			if !localAddr(x.Addr) {
				if os.Getenv("S2LINT_DEBUG") != "" {
					fmt.Fprintf(os.Stderr, "DEBUG impure: %s because of store %v\n", fn, x)
				}
				ok = false
			}
		case *ssa.MapUpdate, *ssa.Send, *ssa.Go, *ssa.Defer, *ssa.Panic:
			if os.Getenv("S2LINT_DEBUG") != "" {
				fmt.Fprintf(os.Stderr, "DEBUG impure: %s because of %T\n", fn, x)
			}
			ok = false
		case ssa.CallInstruction:
			if _, isBuiltin := x.Common().Value.(*ssa.Builtin); isBuiltin {
				return
			}
			callee := core.StaticCallee(x)
			if callee == nil || !p.pure(callee, depth+1) {
				if os.Getenv("S2LINT_DEBUG") != "" {
					fmt.Fprintf(os.Stderr, "DEBUG impure: %s because of call %v (callee %v)\n", fn, x, callee)
				}
				ok = false
			}
		case *ssa.UnOp:
			if x.Op == token.MUL && !localAddr(x.X) && !p.allowReads {
				// reads of globals/heap make the result depend on state; package-level tables are immutable (R-GLOBAL), allow globals
				if !globalAddr(x.X) {
					if os.Getenv("S2LINT_DEBUG") != "" {
						fmt.Fprintf(os.Stderr, "DEBUG impure: %s because of load %v\n", fn, x)
					}
					ok = false
				}
			}
		}
	})
	if ok {
		p.memo[fn] = 1
	}
	return ok
}

func localAddr(v ssa.Value) bool {
	for i := 0; i < 8; i++ {
		switch x := v.(type) {
		case *ssa.Alloc:
			return !x.Heap || true
		case *ssa.FieldAddr:
			v = x.X
		case *ssa.IndexAddr:
			v = x.X
		default:
			return false
		}
	}
	return false
}

func globalAddr(v ssa.Value) bool {
	for i := 0; i < 8; i++ {
		switch x := v.(type) {
		case *ssa.Global:
			return true
		case *ssa.FieldAddr:
			v = x.X
		case *ssa.IndexAddr:
			v = x.X
		default:
			return false
		}
	}
	return false
}

// sameTree reports whether a and b are structurally identical pure computations over identical leaves,
// and at least one non-trivial operation deep (two uses of one SSA value are not a "recomputation").
func (p *purity) sameTree(a, b ssa.Value, depth int) bool {
	if depth > 8 {
		return false
	}
	if a == b {
		return true
	}
	switch x := a.(type) {
	case *ssa.Const:
		y, ok := b.(*ssa.Const)
		return ok && types.Identical(x.Type(), y.Type()) && ((x.Value == nil && y.Value == nil) || (x.Value != nil && y.Value != nil && x.Value.ExactString() == y.Value.ExactString()))
	case *ssa.BinOp:
		y, ok := b.(*ssa.BinOp)
		return ok && x.Op == y.Op && p.sameTree(x.X, y.X, depth+1) && p.sameTree(x.Y, y.Y, depth+1)
	case *ssa.UnOp:
		y, ok := b.(*ssa.UnOp)
		if !ok || x.Op != y.Op || x.Op == token.ARROW {
			return false
		}
		if x.Op == token.MUL {
			// two loads of the same field path of a local that is written exactly once (a spilled parameter)
			rx, px, okx := spillPath(x.X)
			ry, py, oky := spillPath(y.X)
			return okx && oky && rx == ry && px == py
		}
		return p.sameTree(x.X, y.X, depth+1)
	case *ssa.Convert:
		y, ok := b.(*ssa.Convert)
		return ok && types.Identical(x.Type(), y.Type()) && p.sameTree(x.X, y.X, depth+1)
	case *ssa.ChangeType:
		y, ok := b.(*ssa.ChangeType)
		return ok && types.Identical(x.Type(), y.Type()) && p.sameTree(x.X, y.X, depth+1)
	case *ssa.Call:
		y, ok := b.(*ssa.Call)
		if !ok {
			return false
		}
		fx, fy := core.StaticCallee(x), core.StaticCallee(y)
		if fx == nil || fx != fy || !p.pure(fx, 0) || len(x.Call.Args) != len(y.Call.Args) {
			return false
		}
		for i := range x.Call.Args {
			if !p.sameTree(x.Call.Args[i], y.Call.Args[i], depth+1) {
				return false
			}
		}
		return true
	case *ssa.Extract:
		y, ok := b.(*ssa.Extract)
		return ok && x.Index == y.Index && p.sameTree(x.Tuple, y.Tuple, depth+1)
	case *ssa.Field:
		y, ok := b.(*ssa.Field)
		return ok && x.Field == y.Field && p.sameTree(x.X, y.X, depth+1)
	}
	return false
}

// spillPath decodes addr as &local.f.g... where local is an Alloc with exactly one store to the whole variable
// and no store through any of its field addresses (a parameter spilled to the stack and only read).
func spillPath(addr ssa.Value) (ssa.Value, string, bool) {
	path := ""
	for {
		switch x := addr.(type) {
		case *ssa.FieldAddr:
			path = fmt.Sprintf("%d.%s", x.Field, path)
			addr = x.X
			continue
		case *ssa.Alloc:
			if path == "" {
				return nil, "", false
			}
			stores := 0
			for _, r := range *x.Referrers() {
				switch u := r.(type) {
				case *ssa.Store:
					if u.Addr == ssa.Value(x) {
						stores++
					}
				case *ssa.FieldAddr:
					if writtenThrough(u, 0) {
						return nil, "", false
					}
				case *ssa.UnOp:
				default:
					return nil, "", false // address escapes (call argument, etc.)
				}
			}
			return x, path, stores == 1
		}
		return nil, "", false
	}
}

func writtenThrough(fa *ssa.FieldAddr, depth int) bool {
	if depth > 4 {
		return true
	}
	for _, r := range *fa.Referrers() {
		switch u := r.(type) {
		case *ssa.Store:
			if u.Addr == ssa.Value(fa) {
				return true
			}
		case *ssa.FieldAddr:
			if writtenThrough(u, depth+1) {
				return true
			}
		case *ssa.UnOp:
		default:
			return true
		}
	}
	return false
}

// fieldBase returns the value a chain of Field projections (or a load of a field path of a read-only local)
// starts from, and the chain itself.
func fieldBase(v ssa.Value) (ssa.Value, string) {
	if ld, ok := v.(*ssa.UnOp); ok && ld.Op == token.MUL {
		if root, path, ok := spillPath(ld.X); ok {
			return root, path
		}
	}
	path := ""
	for {
		f, ok := v.(*ssa.Field)
		if !ok {
			return v, path
		}
		path = fmt.Sprintf("%d.%s", f.Field, path)
		v = f.X
	}
}

// siblingEvidence: fn also compares, with the same operator, some field of base with the same field of a
// different value of the same type (a.X != b.X next to a.Z != a.Z).
func siblingEvidence(fn *ssa.Function, op token.Token, base ssa.Value) bool {
	found := false
	core.AllInstrs(fn, func(in ssa.Instruction) {
		bo, ok := in.(*ssa.BinOp)
		if !ok || bo.Op != op {
			return
		}
		bx, px := fieldBase(bo.X)
		by, py := fieldBase(bo.Y)
		if px == "" || px != py || bx == by {
			return
		}
		if (bx == base || by == base) && types.Identical(bx.Type(), by.Type()) {
			found = true
		}
	})
	return found
}

func runSelfCmp(c *core.Ctx) []core.Obligation {
	var obs []core.Obligation
	p := &purity{c: c, memo: map[*ssa.Function]int{}}
	examined := 0
	for _, fn := range c.GeoFuncs() {
		n := 0
		core.AllInstrs(fn, func(in ssa.Instruction) {
			bo, ok := in.(*ssa.BinOp)
			if !ok {
				return
			}
			switch bo.Op {
			case token.EQL, token.NEQ, token.LSS, token.LEQ, token.GTR, token.GEQ:
			default:
				return
			}
			if _, isConst := bo.X.(*ssa.Const); isConst {
				return
			}
			if _, isConst := bo.Y.(*ssa.Const); isConst {
				return
			}
			examined++
			if bo.X == bo.Y {
				// x != x on floats is the NaN test idiom
				if b, ok := bo.X.Type().Underlying().(*types.Basic); ok && b.Info()&types.IsFloat != 0 {
					return
				}
			}
			if !p.sameTree(bo.X, bo.Y, 0) {
				return
			}
			// x.f != x.f on a float is also the NaN-test idiom: report it only next to sibling comparisons x.g != y.g
			if b, ok := bo.X.Type().Underlying().(*types.Basic); ok && b.Info()&types.IsFloat != 0 && (bo.Op == token.NEQ || bo.Op == token.EQL) {
				if base, path := fieldBase(bo.X); path != "" {
					if !siblingEvidence(fn, bo.Op, base) {
						return
					}
				}
			}
			if bo.X == bo.Y {
				if b, ok := bo.X.Type().Underlying().(*types.Basic); ok && b.Info()&types.IsFloat != 0 {
					return
				}
			}
			n++
			obs = append(obs, core.Ob("R-SELFCMP", fmt.Sprintf("%s:self-comparison#%d", core.FuncName(fn), n), c.Pos(bo.Pos()), core.FuncName(fn), core.Violated,
				fmt.Sprintf("both operands of %s are the same computation over the same inputs, so the comparison is constant: one side names the wrong sibling", bo.Op)))
		})
	}
	obs = append(obs, core.Ob("R-SELFCMP", "scan", "-", "", core.Discharged, fmt.Sprintf("%d non-constant comparisons examined across the library; none compares a value with a recomputation of itself", examined)))
	return obs
}
