package rules

import (
	"fmt"
	"go/token"
	"go/types"

	"golang.org/x/tools/go/ssa"

	"verif/checker/core"
)

func init() {
	core.Register(&core.Rule{
		Name: "R-SELFCMP",
		Clause: "C09 'cell-centre detection must be exact' (and sibling confusions in general): no comparison in the library compares a value with a structurally identical recomputation of itself " +
			"(same pure operations over the same operands). Such a comparison is constant, which means one of the two sides names the wrong sibling (si for ti, a for b, lo for hi).",
		Min: 1,
		Run: runSelfCmp,
	})
}

type purity struct {
	c    *core.Ctx
	memo map[*ssa.Function]int // 1 pure, 2 impure
}

func (p *purity) pure(fn *ssa.Function, depth int) bool {
	if fn == nil {
		return false
	}
	if m := p.memo[fn]; m != 0 {
		return m == 1
	}
	if fn.Blocks == nil {
		// external: math and math/bits are pure
		if fn.Pkg != nil {
			switch fn.Pkg.Pkg.Path() {
			case "math", "math/bits":
				return true
			}
		}
		return false
	}
	if depth > 6 {
		return false
	}
	p.memo[fn] = 2
	ok := true
	core.AllInstrs(fn, func(in ssa.Instruction) {
		if !ok {
			return
		}
		switch x := in.(type) {
		case *ssa.Store:
			// stores into the function's own locals are fine
			if !localAddr(x.Addr) {
				ok = false
			}
		case *ssa.MapUpdate, *ssa.Send, *ssa.Go, *ssa.Defer, *ssa.Panic:
			ok = false
		case ssa.CallInstruction:
			if _, isBuiltin := x.Common().Value.(*ssa.Builtin); isBuiltin {
				return
			}
			callee := core.StaticCallee(x)
			if callee == nil || !p.pure(callee, depth+1) {
				ok = false
			}
		case *ssa.UnOp:
			if x.Op == token.MUL && !localAddr(x.X) {
				// reads of globals/heap make the result depend on state; package-level tables are immutable (R-GLOBAL), allow globals
				if !globalAddr(x.X) {
					ok = false
				}
			}
		}
	})
	if ok {
		p.memo[fn] = 1
	}
	return ok
}

func localAddr(v ssa.Value) bool {
	for i := 0; i < 8; i++ {
		switch x := v.(type) {
		case *ssa.Alloc:
			return !x.Heap || true
		case *ssa.FieldAddr:
			v = x.X
		case *ssa.IndexAddr:
			v = x.X
		default:
			return false
		}
	}
	return false
}

func globalAddr(v ssa.Value) bool {
	for i := 0; i < 8; i++ {
		switch x := v.(type) {
		case *ssa.Global:
			return true
		case *ssa.FieldAddr:
			v = x.X
		case *ssa.IndexAddr:
			v = x.X
		default:
			return false
		}
	}
	return false
}

// sameTree reports whether a and b are structurally identical pure computations over identical leaves,
// and at least one non-trivial operation deep (two uses of one SSA value are not a "recomputation").
func (p *purity) sameTree(a, b ssa.Value, depth int) bool {
	if depth > 8 {
		return false
	}
	if a == b {
		return true
	}
	switch x := a.(type) {
	case *ssa.Const:
		y, ok := b.(*ssa.Const)
		return ok && types.Identical(x.Type(), y.Type()) && ((x.Value == nil && y.Value == nil) || (x.Value != nil && y.Value != nil && x.Value.ExactString() == y.Value.ExactString()))
	case *ssa.BinOp:
		y, ok := b.(*ssa.BinOp)
		return ok && x.Op == y.Op && p.sameTree(x.X, y.X, depth+1) && p.sameTree(x.Y, y.Y, depth+1)
	case *ssa.UnOp:
		y, ok := b.(*ssa.UnOp)
		if !ok || x.Op != y.Op || x.Op == token.MUL || x.Op == token.ARROW {
			return false
		}
		return p.sameTree(x.X, y.X, depth+1)
	case *ssa.Convert:
		y, ok := b.(*ssa.Convert)
		return ok && types.Identical(x.Type(), y.Type()) && p.sameTree(x.X, y.X, depth+1)
	case *ssa.ChangeType:
		y, ok := b.(*ssa.ChangeType)
		return ok && types.Identical(x.Type(), y.Type()) && p.sameTree(x.X, y.X, depth+1)
	case *ssa.Call:
		y, ok := b.(*ssa.Call)
		if !ok {
			return false
		}
		fx, fy := core.StaticCallee(x), core.StaticCallee(y)
		if fx == nil || fx != fy || !p.pure(fx, 0) || len(x.Call.Args) != len(y.Call.Args) {
			return false
		}
		for i := range x.Call.Args {
			if !p.sameTree(x.Call.Args[i], y.Call.Args[i], depth+1) {
				return false
			}
		}
		return true
	case *ssa.Extract:
		y, ok := b.(*ssa.Extract)
		return ok && x.Index == y.Index && p.sameTree(x.Tuple, y.Tuple, depth+1)
	}
	return false
}

func runSelfCmp(c *core.Ctx) []core.Obligation {
	var obs []core.Obligation
	p := &purity{c: c, memo: map[*ssa.Function]int{}}
	examined := 0
	for _, fn := range c.GeoFuncs() {
		n := 0
		core.AllInstrs(fn, func(in ssa.Instruction) {
			bo, ok := in.(*ssa.BinOp)
			if !ok {
				return
			}
			switch bo.Op {
			case token.EQL, token.NEQ, token.LSS, token.LEQ, token.GTR, token.GEQ:
			default:
				return
			}
			if _, isConst := bo.X.(*ssa.Const); isConst {
				return
			}
			if _, isConst := bo.Y.(*ssa.Const); isConst {
				return
			}
			examined++
			if bo.X == bo.Y {
				// x != x on floats is the NaN test idiom
				if b, ok := bo.X.Type().Underlying().(*types.Basic); ok && b.Info()&types.IsFloat != 0 {
					return
				}
			}
			if !p.sameTree(bo.X, bo.Y, 0) {
				return
			}
			if bo.X == bo.Y {
				if b, ok := bo.X.Type().Underlying().(*types.Basic); ok && b.Info()&types.IsFloat != 0 {
					return
				}
			}
			n++
			obs = append(obs, core.Ob("R-SELFCMP", fmt.Sprintf("%s:self-comparison#%d", core.FuncName(fn), n), c.Pos(bo.Pos()), core.FuncName(fn), core.Violated,
				fmt.Sprintf("both operands of %s are the same computation over the same inputs, so the comparison is constant: one side names the wrong sibling", bo.Op)))
		})
	}
	obs = append(obs, core.Ob("R-SELFCMP", "scan", "-", "", core.Discharged, fmt.Sprintf("%d non-constant comparisons examined across the library; none compares a value with a recomputation of itself", examined)))
	return obs
}
