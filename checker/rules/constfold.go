package rules

import (
	"fmt"
	"go/ast"
	"go/constant"
	"go/token"
	"go/types"
	"math"
	"sort"
	"strings"

	"golang.org/x/tools/go/packages"

	"verif/checker/core"
)

// epsNames are the identifiers that denote a floating-point rounding unit.
var epsNames = map[string]bool{"dblEpsilon": true, "dblError": true, "epsilon": true}

type folder struct {
	c    *core.Ctx
	pkg  *packages.Package
	decl *ast.FuncDecl // enclosing function (for single-assignment locals), may be nil
	seen map[types.Object]bool
}

type foldRes struct {
	v   float64
	ok  bool
	eps bool // mentions a rounding-unit identifier
}

func (f *folder) fold(e ast.Expr) foldRes {
	info := f.pkg.TypesInfo
	switch x := e.(type) {
	case *ast.ParenExpr:
		return f.fold(x.X)
	case *ast.BasicLit:
		if tv, ok := info.Types[e]; ok && tv.Value != nil {
			if v, ok := constant.Float64Val(constant.ToFloat(tv.Value)); ok || true {
				return foldRes{v: v, ok: true, eps: v != 0 && math.Abs(v) < 1e-9}
			}
		}
	case *ast.Ident:
		obj := info.Uses[x]
		if obj == nil {
			obj = info.Defs[x]
		}
		return f.foldObj(obj, x.Name)
	case *ast.SelectorExpr:
		// pkg.Name
		if obj := info.Uses[x.Sel]; obj != nil {
			if _, isField := obj.(*types.Var); isField && obj.(*types.Var).IsField() {
				return foldRes{}
			}
			return f.foldObj(obj, x.Sel.Name)
		}
	case *ast.UnaryExpr:
		r := f.fold(x.X)
		if !r.ok {
			return foldRes{}
		}
		switch x.Op {
		case token.SUB:
			r.v = -r.v
			return r
		case token.ADD:
			return r
		}
	case *ast.BinaryExpr:
		a, b := f.fold(x.X), f.fold(x.Y)
		if !a.ok || !b.ok {
			return foldRes{}
		}
		out := foldRes{ok: true, eps: a.eps || b.eps}
		// integer division of untyped/int constants: use the type checker's value when available
		if tv, ok := info.Types[e]; ok && tv.Value != nil {
			v, _ := constant.Float64Val(constant.ToFloat(tv.Value))
			out.v = v
			return out
		}
		switch x.Op {
		case token.ADD:
			out.v = a.v + b.v
		case token.SUB:
			out.v = a.v - b.v
		case token.MUL:
			out.v = a.v * b.v
		case token.QUO:
			out.v = a.v / b.v
		default:
			return foldRes{}
		}
		return out
	case *ast.CallExpr:
		// conversions
		if tv, ok := info.Types[x.Fun]; ok && tv.IsType() && len(x.Args) == 1 {
			return f.fold(x.Args[0])
		}
		if sel, ok := x.Fun.(*ast.SelectorExpr); ok {
			if fn, ok := info.Uses[sel.Sel].(*types.Func); ok && fn.Pkg() != nil && fn.Pkg().Path() == "math" {
				var args []foldRes
				eps := false
				for _, a := range x.Args {
					r := f.fold(a)
					if !r.ok {
						return foldRes{}
					}
					eps = eps || r.eps
					args = append(args, r)
				}
				switch fn.Name() {
				case "Sqrt":
					return foldRes{v: math.Sqrt(args[0].v), ok: true, eps: eps}
				case "Pow":
					return foldRes{v: math.Pow(args[0].v, args[1].v), ok: true, eps: eps}
				case "Ldexp":
					return foldRes{v: math.Ldexp(args[0].v, int(args[1].v)), ok: true, eps: eps}
				case "Asin":
					return foldRes{v: math.Asin(args[0].v), ok: true, eps: eps}
				case "Abs":
					return foldRes{v: math.Abs(args[0].v), ok: true, eps: eps}
				}
			}
		}
	}
	return foldRes{}
}

func (f *folder) foldObj(obj types.Object, name string) foldRes {
	if obj == nil {
		return foldRes{}
	}
	isEps := epsNames[name] || errorLikeName(name)
	switch o := obj.(type) {
	case *types.Const:
		if o.Val().Kind() == constant.Int || o.Val().Kind() == constant.Float {
			v, _ := constant.Float64Val(constant.ToFloat(o.Val()))
			return foldRes{v: v, ok: true, eps: isEps}
		}
	case *types.Var:
		if o.IsField() || f.seen[o] {
			return foldRes{}
		}
		f.seen[o] = true
		defer delete(f.seen, o)
		// package-level var with an initialiser, or a local defined exactly once
		if init := f.findInit(o); init != nil {
			r := f.foldInPkgOf(o, init)
			r.eps = r.eps || isEps
			return r
		}
	}
	return foldRes{}
}

func (f *folder) foldInPkgOf(o types.Object, e ast.Expr) foldRes {
	for _, p := range f.c.All {
		if p.Types == o.Pkg() {
			sub := &folder{c: f.c, pkg: p, decl: f.decl, seen: f.seen}
			return sub.fold(e)
		}
	}
	return foldRes{}
}

// findInit returns the unique initialising expression of a variable, or nil.
func (f *folder) findInit(o *types.Var) ast.Expr {
	var pkg *packages.Package
	for _, p := range f.c.All {
		if p.Types == o.Pkg() {
			pkg = p
		}
	}
	if pkg == nil {
		return nil
	}
	var found ast.Expr
	count := 0
	visit := func(n ast.Node) bool {
		switch x := n.(type) {
		case *ast.ValueSpec:
			for i, nm := range x.Names {
				if pkg.TypesInfo.Defs[nm] == types.Object(o) && i < len(x.Values) {
					found = x.Values[i]
					count++
				}
			}
		case *ast.AssignStmt:
			for i, l := range x.Lhs {
				id, ok := l.(*ast.Ident)
				if !ok {
					continue
				}
				d := pkg.TypesInfo.Defs[id]
				u := pkg.TypesInfo.Uses[id]
				if d == types.Object(o) || u == types.Object(o) {
					count++
					if len(x.Lhs) == len(x.Rhs) && x.Tok != token.ADD_ASSIGN && x.Tok != token.SUB_ASSIGN && x.Tok != token.MUL_ASSIGN {
						found = x.Rhs[i]
					} else {
						found = nil
						count += 10
					}
				}
			}
		case *ast.IncDecStmt:
			if id, ok := x.X.(*ast.Ident); ok && pkg.TypesInfo.Uses[id] == types.Object(o) {
				count += 10
			}
		}
		return true
	}
	if o.Parent() == o.Pkg().Scope() {
		for _, file := range pkg.Syntax {
			for _, d := range file.Decls {
				if gd, ok := d.(*ast.GenDecl); ok {
					ast.Inspect(gd, visit)
				}
			}
		}
		// assignments to package-level vars elsewhere are excluded by R-GLOBAL
	} else if f.decl != nil {
		ast.Inspect(f.decl, visit)
	}
	if count == 1 {
		return found
	}
	return nil
}

// errorLikeName: named error budgets (cellPadding, maxDeterminantError, ...).
func errorLikeName(n string) bool {
	l := strings.ToLower(n)
	for _, w := range []string{"error", "epsilon", "padding", "tolerance"} {
		if strings.Contains(l, w) {
			return true
		}
	}
	return false
}

// epsTerm is one maximal constant sub-expression that mentions a rounding unit.
type epsTerm struct {
	val float64
	pos token.Pos
	src string
}

// epsTermsOf collects the maximal constant-foldable expressions mentioning a rounding unit inside node.
func epsTermsOf(c *core.Ctx, pkg *packages.Package, decl *ast.FuncDecl, node ast.Node) []epsTerm {
	f := &folder{c: c, pkg: pkg, decl: decl, seen: map[types.Object]bool{}}
	var out []epsTerm
	var walk func(n ast.Node)
	walk = func(n ast.Node) {
		if n == nil {
			return
		}
		if e, ok := n.(ast.Expr); ok {
			if r := f.fold(e); r.ok && r.eps {
				out = append(out, epsTerm{r.v, e.Pos(), types.ExprString(e)})
				return
			}
		}
		// descend one level
		ast.Inspect(n, func(m ast.Node) bool {
			if m == n {
				return true
			}
			if m != nil {
				walk(m)
			}
			return false
		})
	}
	walk(node)
	return out
}

// ConstEntry is one key of the error-constant table: a named constant or a function with its inline terms.
type constEntry struct {
	key  string
	vals []float64
	pos  token.Pos
	srcs []string
}

// collectConsts extracts the error-constant table from the current source.
func collectConsts(c *core.Ctx) []constEntry {
	var out []constEntry
	for _, p := range c.All {
		for _, file := range p.Syntax {
			for _, d := range file.Decls {
				switch x := d.(type) {
				case *ast.GenDecl:
					for _, sp := range x.Specs {
						vs, ok := sp.(*ast.ValueSpec)
						if !ok {
							continue
						}
						for i, nm := range vs.Names {
							if i >= len(vs.Values) {
								continue
							}
							f := &folder{c: c, pkg: p, seen: map[types.Object]bool{}}
							r := f.fold(vs.Values[i])
							if r.ok && (r.eps || epsNames[nm.Name]) {
								out = append(out, constEntry{key: p.Name + "." + nm.Name, vals: []float64{r.v}, pos: nm.Pos(), srcs: []string{types.ExprString(vs.Values[i])}})
							} else if !r.ok {
								// a package-level var whose initialiser contains epsilon terms (e.g. poleMinLat)
								ts := epsTermsOf(c, p, nil, vs.Values[i])
								if len(ts) > 0 {
									e := constEntry{key: p.Name + "." + nm.Name, pos: nm.Pos()}
									for _, t := range ts {
										e.vals = append(e.vals, t.val)
										e.srcs = append(e.srcs, t.src)
									}
									sort.Float64s(e.vals)
									out = append(out, e)
								}
							}
						}
					}
				case *ast.FuncDecl:
					if x.Body == nil {
						continue
					}
					obj, _ := p.TypesInfo.Defs[x.Name].(*types.Func)
					if obj == nil {
						continue
					}
					ts := epsTermsOf(c, p, x, x.Body)
					if len(ts) == 0 {
						continue
					}
					key := strings.ReplaceAll(obj.FullName(), core.GeoPath+"/", "")
					e := constEntry{key: key, pos: x.Pos()}
					for _, t := range ts {
						e.vals = append(e.vals, t.val)
						e.srcs = append(e.srcs, t.src)
					}
					sort.Float64s(e.vals)
					out = append(out, e)
				}
			}
		}
	}
	sort.Slice(out, func(i, j int) bool { return out[i].key < out[j].key })
	return out
}

// DumpConsts prints the table in Go syntax (used once to freeze tables/constants).
func DumpConsts(c *core.Ctx) {
	for _, e := range budgetConsts(c) {
		var vs []string
		for _, v := range e.vals {
			vs = append(vs, fmt.Sprintf("%.17g", v))
		}
		fmt.Printf("\t%q: {%s}, // %s\n", e.key, strings.Join(vs, ", "), strings.Join(e.srcs, " ; "))
	}
}

// notBudgets: functions whose epsilon terms are comparison tolerances or test helpers, not error budgets.
func notBudget(key string) bool {
	for _, w := range []string{"ApproxEqual", "approxEqual", "IsUnit", "ForTests", "String"} {
		if strings.Contains(key, w) {
			return true
		}
	}
	return false
}

// budgetConsts: the table restricted to genuine error terms (0 < |v| < 1e-6), deduplicated per key.
func budgetConsts(c *core.Ctx) []constEntry {
	var out []constEntry
	for _, e := range collectConsts(c) {
		if notBudget(e.key) {
			continue
		}
		var vals []float64
		seen := map[string]bool{}
		for _, v := range e.vals {
			if v <= 0 || v >= 1e-6 {
				continue
			}
			k := fmt.Sprintf("%.12g", v)
			if seen[k] {
				continue
			}
			seen[k] = true
			vals = append(vals, v)
		}
		if len(vals) == 0 {
			continue
		}
		sort.Float64s(vals)
		e.vals = vals
		out = append(out, e)
	}
	return out
}
