package rules

import (
	"bytes"
	"fmt"
	"go/ast"
	"go/printer"
	"go/token"
	"go/types"
	"math"
	"strings"

	"golang.org/x/tools/go/ssa"

	"verif/checker/core"
)

func init() {
	core.Register(&core.Rule{
		Name: "R-SIBTREE",
		Clause: "C18 'area and centroid are the signed sums over shells and holes' / 'independent of the starting vertex': the two surface integrals (scalar for the area, vector for the centroid) are the " +
			"same triangle-fan walk - same origin-switching conditions, same triangles with the same vertex order - differing only in how a term is accumulated; Polygon.Area and Polygon.Centroid weight each " +
			"loop by the same Sign().",
		Min: 3,
		Run: runSibTree,
	})
	core.Register(&core.Rule{
		Name: "R-AREASIGN",
		Clause: "C18 'near zero or near the whole sphere in agreement with which points the loop contains' and 'turning angle exactly negated by inversion': Loop.Area consults IsNormalized exactly in the two " +
			"ambiguous bands (area < maxError and not normalized -> 4*Pi; area > 4*Pi-maxError and normalized -> 0); TurningAngle starts from the canonical first vertex, carries a compensation term " +
			"that is updated every iteration, and clamps to +-(2*Pi - 4*epsilon).",
		Min: 3,
		Run: runAreaSign,
	})
}

// skeleton renders a statement list with accumulations normalised to ACC(term).
func skeleton(info *types.Info, stmts []ast.Stmt, acc string) string {
	var b strings.Builder
	var expr func(e ast.Expr) string
	expr = func(e ast.Expr) string { return fullExprString(e) }
	// accumulated term: sum += T   |   sum = sum.Add(T.Vector)   |  sum = sum.Add(T)
	accTerm := func(st ast.Stmt) (string, bool) {
		as, ok := st.(*ast.AssignStmt)
		if !ok || len(as.Lhs) != 1 || len(as.Rhs) != 1 {
			return "", false
		}
		id, ok := as.Lhs[0].(*ast.Ident)
		if !ok || id.Name != acc {
			return "", false
		}
		if as.Tok == token.ADD_ASSIGN {
			return expr(as.Rhs[0]), true
		}
		if as.Tok == token.ASSIGN {
			if call, ok := as.Rhs[0].(*ast.CallExpr); ok && len(call.Args) == 1 {
				if sel, ok := call.Fun.(*ast.SelectorExpr); ok && sel.Sel.Name == "Add" {
					if x, ok := sel.X.(*ast.Ident); ok && x.Name == acc {
						arg := call.Args[0]
						if s2, ok := arg.(*ast.SelectorExpr); ok && s2.Sel.Name == "Vector" {
							arg = s2.X
						}
						return expr(arg), true
					}
				}
			}
		}
		return "", false
	}
	var walk func(list []ast.Stmt, depth int)
	walk = func(list []ast.Stmt, depth int) {
		ind := strings.Repeat(" ", depth)
		for _, st := range list {
			if t, ok := accTerm(st); ok {
				b.WriteString(ind + "ACC(" + t + ")\n")
				continue
			}
			switch x := st.(type) {
			case *ast.IfStmt:
				b.WriteString(ind + "if " + expr(x.Cond) + "\n")
				walk(x.Body.List, depth+1)
				if x.Else != nil {
					b.WriteString(ind + "else\n")
					if blk, ok := x.Else.(*ast.BlockStmt); ok {
						walk(blk.List, depth+1)
					} else {
						walk([]ast.Stmt{x.Else}, depth+1)
					}
				}
			case *ast.ForStmt:
				init, post := "", ""
				if x.Init != nil {
					init = stmtString(x.Init)
				}
				if x.Post != nil {
					post = stmtString(x.Post)
				}
				b.WriteString(ind + "for " + init + "; " + expr(x.Cond) + "; " + post + "\n")
				walk(x.Body.List, depth+1)
			case *ast.AssignStmt:
				if id, ok := x.Lhs[0].(*ast.Ident); ok && id.Name == acc {
					b.WriteString(ind + "?acc " + stmtString(x) + "\n")
				} else {
					b.WriteString(ind + stmtString(x) + "\n")
				}
			case *ast.DeclStmt, *ast.ReturnStmt:
				// declarations of the accumulator / constants and the final return differ by type only
				if gd, ok := st.(*ast.DeclStmt); ok {
					if g, ok := gd.Decl.(*ast.GenDecl); ok && g.Tok == token.CONST {
						b.WriteString(ind + "const " + fmt.Sprint(len(g.Specs)) + "\n")
					}
				}
			default:
				b.WriteString(ind + fmt.Sprintf("%T", st) + "\n")
			}
		}
	}
	walk(stmts, 0)
	return b.String()
}

func stmtString(s ast.Stmt) string {
	switch x := s.(type) {
	case *ast.AssignStmt:
		var l, r []string
		for _, e := range x.Lhs {
			l = append(l, fullExprString(e))
		}
		for _, e := range x.Rhs {
			r = append(r, fullExprString(e))
		}
		return strings.Join(l, ",") + x.Tok.String() + strings.Join(r, ",")
	case *ast.IncDecStmt:
		return fullExprString(x.X) + x.Tok.String()
	case *ast.ExprStmt:
		return fullExprString(x.X)
	}
	return fmt.Sprintf("%T", s)
}

func runSibTree(c *core.Ctx) []core.Obligation {
	var obs []core.Obligation
	info := c.Pkgs["s2"].TypesInfo
	a, b := c.LookupFunc("s2", "Loop", "surfaceIntegralFloat64"), c.LookupFunc("s2", "Loop", "surfaceIntegralPoint")
	construct := "surfaceIntegralFloat64~surfaceIntegralPoint"
	if a == nil || b == nil || c.Decl(a) == nil || c.Decl(b) == nil {
		obs = append(obs, core.Ob("R-SIBTREE", construct, "-", "", core.Violated, "unresolved anchor"))
	} else {
		sa := skeleton(info, c.Decl(a).Body.List, "sum")
		sb := skeleton(info, c.Decl(b).Body.List, "sum")
		nAcc := strings.Count(sa, "ACC(")
		switch {
		case nAcc < 4:
			obs = append(obs, core.Ob("R-SIBTREE", construct, c.Pos(a.Pos()), a.FullName(), core.Violated, fmt.Sprintf("only %d accumulated triangles recognised, 4 expected", nAcc)))
		case sa == sb:
			obs = append(obs, core.Ob("R-SIBTREE", construct, c.Pos(a.Pos()), a.FullName(), core.Discharged,
				fmt.Sprintf("identical decision skeletons: %d accumulated triangles under the same conditions and with the same vertex order", nAcc)))
		default:
			la, lb := strings.Split(sa, "\n"), strings.Split(sb, "\n")
			diff := ""
			for i := 0; i < len(la) && i < len(lb); i++ {
				if la[i] != lb[i] {
					diff = fmt.Sprintf("scalar version: `%s`  vector version: `%s`", strings.TrimSpace(la[i]), strings.TrimSpace(lb[i]))
					break
				}
			}
			obs = append(obs, core.Ob("R-SIBTREE", construct, c.Pos(a.Pos()), a.FullName(), core.Violated,
				"the two surface integrals no longer walk the same triangle fan: "+diff+" (the repository states that any change to one needs the corresponding change to the other)"))
		}
	}
	// Polygon.Area: term = float64(loop.Sign()) * loop.Area()
	if fn := c.Fn("s2", "Polygon", "Area"); fn != nil {
		ok := false
		core.AllInstrs(fn, func(in ssa.Instruction) {
			bo, isBo := in.(*ssa.BinOp)
			if !isBo || bo.Op != token.MUL {
				return
			}
			names := map[string]bool{}
			for _, v := range []ssa.Value{core.StripConv(bo.X), core.StripConv(bo.Y)} {
				if call, isCall := v.(*ssa.Call); isCall {
					if f := core.StaticCallee(call); f != nil {
						names[f.Name()] = true
					}
				}
			}
			if names["Sign"] && names["Area"] {
				ok = true
			}
		})
		if ok {
			obs = append(obs, core.Ob("R-SIBTREE", "Polygon.Area:signed-sum", c.Pos(fn.Pos()), core.FuncName(fn), core.Discharged, "each loop contributes Sign() * Area()"))
		} else {
			obs = append(obs, core.Ob("R-SIBTREE", "Polygon.Area:signed-sum", c.Pos(fn.Pos()), core.FuncName(fn), core.Violated, "the polygon area is not the sum of Sign()*Area() over its loops: holes are no longer subtracted"))
		}
	} else {
		obs = append(obs, core.Ob("R-SIBTREE", "Polygon.Area:signed-sum", "-", "", core.Violated, "unresolved anchor"))
	}
	// Polygon.Centroid: Sub under Sign() < 0, Add otherwise
	if fn := c.Fn("s2", "Polygon", "Centroid"); fn != nil {
		ok, why := false, "no Sign() < 0 test selecting between Sub and Add"
		for _, b := range fn.Blocks {
			iff, isIf := b.Instrs[len(b.Instrs)-1].(*ssa.If)
			if !isIf {
				continue
			}
			bo, isBo := iff.Cond.(*ssa.BinOp)
			if !isBo || bo.Op != token.LSS {
				continue
			}
			call, isCall := bo.X.(*ssa.Call)
			if !isCall || core.StaticCallee(call) == nil || core.StaticCallee(call).Name() != "Sign" {
				continue
			}
			if k, isK := core.ConstInt(bo.Y); !isK || k != 0 {
				continue
			}
			callsIn := func(blk *ssa.BasicBlock) string {
				for _, in := range blk.Instrs {
					if ci, isC := in.(ssa.CallInstruction); isC {
						if f := core.StaticCallee(ci); f != nil && (f.Name() == "Sub" || f.Name() == "Add") {
							return f.Name()
						}
					}
				}
				return ""
			}
			neg, pos := callsIn(b.Succs[0]), callsIn(b.Succs[1])
			if neg == "Sub" && pos == "Add" {
				ok = true
			} else {
				why = fmt.Sprintf("a loop with negative sign is combined with %q and a positive one with %q", neg, pos)
			}
		}
		if ok {
			obs = append(obs, core.Ob("R-SIBTREE", "Polygon.Centroid:signed-sum", c.Pos(fn.Pos()), core.FuncName(fn), core.Discharged, "holes (Sign() < 0) are subtracted, shells added - the same weighting as Area"))
		} else {
			obs = append(obs, core.Ob("R-SIBTREE", "Polygon.Centroid:signed-sum", c.Pos(fn.Pos()), core.FuncName(fn), core.Violated, why))
		}
	} else {
		obs = append(obs, core.Ob("R-SIBTREE", "Polygon.Centroid:signed-sum", "-", "", core.Violated, "unresolved anchor"))
	}
	return obs
}

func floatConstOf(v ssa.Value) (float64, bool) {
	k, ok := v.(*ssa.Const)
	if !ok || k.Value == nil {
		return 0, false
	}
	if b, ok := k.Type().Underlying().(*types.Basic); !ok || b.Info()&types.IsFloat == 0 {
		return 0, false
	}
	return k.Float64(), true
}

func runAreaSign(c *core.Ctx) []core.Obligation {
	var obs []core.Obligation
	// Loop.Area
	if fn := c.Fn("s2", "Loop", "Area"); fn != nil {
		normTrue, normFalse, calls := callEdges(fn, "IsNormalized")
		ok := len(calls) == 2
		why := fmt.Sprintf("IsNormalized is consulted %d times, 2 expected (one per ambiguous band)", len(calls))
		fourPi := 4 * math.Pi
		// classify the comparisons area < maxError  and  area > 4pi - maxError
		var lowTrue, highTrue []core.Edge
		for _, b := range fn.Blocks {
			iff, isIf := b.Instrs[len(b.Instrs)-1].(*ssa.If)
			if !isIf {
				continue
			}
			bo, isBo := iff.Cond.(*ssa.BinOp)
			if !isBo {
				continue
			}
			if _, isCall := bo.Y.(*ssa.Call); isCall && bo.Op == token.LSS {
				lowTrue = append(lowTrue, core.Edge{From: b, Idx: 0}) // area < maxError (maxError is a call result)
			}
			if sub, isSub := bo.Y.(*ssa.BinOp); isSub && sub.Op == token.SUB && bo.Op == token.GTR {
				if k, isK := floatConstOf(sub.X); isK && math.Abs(k-fourPi) < 1e-12 {
					highTrue = append(highTrue, core.Edge{From: b, Idx: 0})
				}
			}
		}
		if ok && (len(lowTrue) != 1 || len(highTrue) != 1) {
			ok, why = false, "the two band tests (area < maxError, area > 4*Pi - maxError) were not both found"
		}
		if ok {
			for _, b := range fn.Blocks {
				r, isRet := b.Instrs[len(b.Instrs)-1].(*ssa.Return)
				if !isRet {
					continue
				}
				k, isK := floatConstOf(r.Results[0])
				if !isK {
					continue
				}
				// returns of constants after the integral: dominated by a band edge
				domLow := core.EdgeDominates(lowTrue[0], b)
				domHigh := core.EdgeDominates(highTrue[0], b)
				if !domLow && !domHigh {
					continue // the empty/full special cases
				}
				normT, normF := false, false
				for _, e := range normTrue {
					if core.EdgeDominates(e, b) {
						normT = true
					}
				}
				for _, e := range normFalse {
					if core.EdgeDominates(e, b) {
						normF = true
					}
				}
				switch {
				case domLow && math.Abs(k-fourPi) < 1e-12 && normF:
				case domHigh && k == 0 && normT:
				default:
					ok, why = false, fmt.Sprintf("a constant %.6g is returned in an ambiguous band with the normalisation test the wrong way round (low band=%v, high band=%v, normalized=%v/%v): the area would disagree with the points the loop contains", k, domLow, domHigh, normT, normF)
				}
			}
		}
		if ok {
			obs = append(obs, core.Ob("R-AREASIGN", "Loop.Area:bands", c.Pos(fn.Pos()), core.FuncName(fn), core.Discharged, "area < maxError & !IsNormalized -> 4*Pi ; area > 4*Pi-maxError & IsNormalized -> 0"))
		} else {
			obs = append(obs, core.Ob("R-AREASIGN", "Loop.Area:bands", c.Pos(fn.Pos()), core.FuncName(fn), core.Violated, why))
		}
	} else {
		obs = append(obs, core.Ob("R-AREASIGN", "Loop.Area:bands", "-", "", core.Violated, "unresolved anchor"))
	}
	// TurningAngle
	if fn := c.Fn("s2", "Loop", "TurningAngle"); fn != nil {
		// clamp
		okClamp, whyClamp := false, "the result is not clamped with math.Max(-K, math.Min(K, ...))"
		want := 2*math.Pi - 4*2.220446049250313e-16
		core.AllInstrs(fn, func(in ssa.Instruction) {
			r, isRet := in.(*ssa.Return)
			if !isRet {
				return
			}
			mx, isCall := r.Results[0].(*ssa.Call)
			if !isCall || core.StaticCallee(mx) == nil || core.StaticCallee(mx).Name() != "Max" {
				return
			}
			lo, okLo := floatConstOf(mx.Call.Args[0])
			mn, isMin := mx.Call.Args[1].(*ssa.Call)
			if !okLo || !isMin || core.StaticCallee(mn) == nil || core.StaticCallee(mn).Name() != "Min" {
				return
			}
			hi, okHi := floatConstOf(mn.Call.Args[0])
			if !okHi {
				return
			}
			if lo == -hi && hi <= want*(1+1e-15) && hi > 2*math.Pi-1e-12 {
				okClamp = true
			} else {
				whyClamp = fmt.Sprintf("clamped to [%.17g, %.17g], expected +-(2*Pi - 4*epsilon) = %.17g: a value of exactly +-2*Pi is reserved for the full/empty loops", lo, hi, want)
			}
		})
		if okClamp {
			obs = append(obs, core.Ob("R-AREASIGN", "Loop.TurningAngle:clamp", c.Pos(fn.Pos()), core.FuncName(fn), core.Discharged, "clamped symmetrically to +-(2*Pi - 4*epsilon)"))
		} else {
			obs = append(obs, core.Ob("R-AREASIGN", "Loop.TurningAngle:clamp", c.Pos(fn.Pos()), core.FuncName(fn), core.Violated, whyClamp))
		}
		// compensated summation: inside the loop, compensation = (oldSum - sum) + angle
		okComp := false
		for _, body := range loopsOf(fn) {
			for b := range body {
				for _, in := range b.Instrs {
					add, isAdd := in.(*ssa.BinOp)
					if !isAdd || add.Op != token.ADD {
						continue
					}
					sub, isSub := add.X.(*ssa.BinOp)
					if !isSub || sub.Op != token.SUB {
						continue
					}
					// sub.Y is the new sum = oldSum + angle' where angle' = add.Y
					newSum, isNS := sub.Y.(*ssa.BinOp)
					if isNS && newSum.Op == token.ADD && newSum.X == sub.X && newSum.Y == add.Y {
						okComp = true
					}
				}
			}
		}
		canon := false
		core.AllInstrs(fn, func(in ssa.Instruction) {
			if ci, isC := in.(ssa.CallInstruction); isC {
				if f := core.StaticCallee(ci); f != nil && f.Name() == "CanonicalFirstVertex" {
					canon = true
				}
			}
		})
		if okComp && canon {
			obs = append(obs, core.Ob("R-AREASIGN", "Loop.TurningAngle:summation", c.Pos(fn.Pos()), core.FuncName(fn), core.Discharged,
				"starts at CanonicalFirstVertex; every iteration computes compensation = (oldSum - newSum) + term (Kahan summation), so the sum does not depend on the vertex the loop happens to start with"))
		} else {
			obs = append(obs, core.Ob("R-AREASIGN", "Loop.TurningAngle:summation", c.Pos(fn.Pos()), core.FuncName(fn), core.Violated,
				fmt.Sprintf("canonical start: %v, compensated summation: %v - the turning angle would depend on the starting vertex / would not be exactly negated by inversion", canon, okComp)))
		}
	} else {
		obs = append(obs, core.Ob("R-AREASIGN", "Loop.TurningAngle", "-", "", core.Violated, "unresolved anchor"))
	}
	// PolygonFromOrientedLoops decides whether to invert the whole polygon from the PARITY of the loops that contain the
	// origin: the flag compared with the recorded containment is only ever toggled inside the loop, never set
	if fn := c.Fn("s2", "", "PolygonFromOrientedLoops"); fn != nil {
		var acc *ssa.Phi
		core.AllInstrs(fn, func(in ssa.Instruction) {
			bo, ok := in.(*ssa.BinOp)
			if !ok || bo.Op != token.NEQ {
				return
			}
			for _, side := range []ssa.Value{bo.X, bo.Y} {
				if phi, isPhi := side.(*ssa.Phi); isPhi {
					if b, isB := phi.Type().Underlying().(*types.Basic); isB && b.Kind() == types.Bool {
						acc = phi
					}
				}
			}
		})
		if acc == nil {
			obs = append(obs, core.Ob("R-AREASIGN", "PolygonFromOrientedLoops:origin-parity", c.Pos(fn.Pos()), core.FuncName(fn), core.Violated, "unresolved anchor: the comparison of the origin-parity flag with the recorded containment was not found"))
		} else {
			toggles, sets := 0, ""
			seen := map[ssa.Value]bool{}
			var walk func(v ssa.Value)
			walk = func(v ssa.Value) {
				if seen[v] {
					return
				}
				seen[v] = true
				switch x := v.(type) {
				case *ssa.Phi:
					for _, e := range x.Edges {
						walk(e)
					}
				case *ssa.UnOp:
					if x.Op == token.NOT {
						toggles++
					} else {
						sets = x.String()
					}
				case *ssa.BinOp:
					// `flag = flag != e` / `flag ^ e`: the other spelling of the toggle
					_, xPhi := x.X.(*ssa.Phi)
					_, yPhi := x.Y.(*ssa.Phi)
					if (x.Op == token.NEQ || x.Op == token.XOR) && (xPhi || yPhi) {
						toggles++
						if xPhi {
							walk(x.X)
						} else {
							walk(x.Y)
						}
					} else {
						sets = x.String()
					}
				case *ssa.Const:
					// the initial false is fine; a constant assigned inside the loop shows up as a second constant edge
					if x.Value != nil && x.Value.String() == "true" {
						sets = "true"
					}
				default:
					sets = v.String()
				}
			}
			walk(acc)
			if toggles >= 1 && sets == "" {
				obs = append(obs, core.Ob("R-AREASIGN", "PolygonFromOrientedLoops:origin-parity", c.Pos(fn.Pos()), core.FuncName(fn), core.Discharged, "the flag starts false and is only toggled for each loop that contains the origin"))
			} else {
				obs = append(obs, core.Ob("R-AREASIGN", "PolygonFromOrientedLoops:origin-parity", c.Pos(fn.Pos()), core.FuncName(fn), core.Violated,
					"the flag that says whether the polygon contains the origin is assigned ("+sets+") instead of toggled for each containing loop: when the origin lies inside a hole (an even number of loops) the whole polygon is inverted, so area, centroid and containment are those of the complement"))
			}
		}
	} else {
		obs = append(obs, core.Ob("R-AREASIGN", "PolygonFromOrientedLoops:origin-parity", "-", "", core.Violated, "unresolved anchor"))
	}
	// the per-loop normalisation is decided by the MAGNITUDE of the turning angle (after round-6 seed C18-r6m2,
	// `math.Abs(angle) > err` reduced to `angle > err`): a clearly clockwise loop (angle < -err) must be inverted; if it
	// is sent down the "angle is indistinguishable from zero" branch instead, it is only inverted when it happens to
	// contain the origin, and a clockwise hole that does not stays un-normalised - the polygon comes out as the complement.
	if fn := c.Fn("s2", "", "PolygonFromOrientedLoops"); fn != nil {
		const construct = "PolygonFromOrientedLoops:normalise-by-absolute-angle"
		found, ok := false, false
		ncmp := 0
		core.AllInstrs(fn, func(in ssa.Instruction) {
			bo, isBo := in.(*ssa.BinOp)
			if !isBo {
				return
			}
			isErr := func(v ssa.Value) bool {
				if u, isU := v.(*ssa.UnOp); isU && u.Op == token.SUB {
					v = u.X // -error: the lower half of a two-sided test
				}
				call, isC := v.(*ssa.Call)
				return isC && core.StaticCallee(call) != nil && core.StaticCallee(call).Name() == "turningAngleMaxError"
			}
			var other ssa.Value
			switch {
			case isErr(bo.Y):
				other = bo.X
			case isErr(bo.X):
				other = bo.Y
			default:
				return
			}
			found = true
			ncmp++
			if ncmp >= 2 {
				ok = true // written as a two-sided test (angle > e || angle < -e)
			}
			if abs, isC := other.(*ssa.Call); isC && core.StaticCallee(abs) != nil && core.StaticCallee(abs).Name() == "Abs" && len(abs.Call.Args) == 1 {
				if ta, isT := abs.Call.Args[0].(*ssa.Call); isT && core.StaticCallee(ta) != nil && core.StaticCallee(ta).Name() == "TurningAngle" {
					ok = true
				}
			}
		})
		switch {
		case !found:
			obs = append(obs, core.Ob("R-AREASIGN", construct, c.Pos(fn.Pos()), core.FuncName(fn), core.Violated, "unresolved anchor: the comparison with turningAngleMaxError() was not found"))
		case ok:
			obs = append(obs, core.Ob("R-AREASIGN", construct, c.Pos(fn.Pos()), core.FuncName(fn), core.Discharged, "|TurningAngle()| is compared with the error bound, so both clearly oriented cases reach the sign test"))
		default:
			obs = append(obs, core.Ob("R-AREASIGN", construct, c.Pos(fn.Pos()), core.FuncName(fn), core.Violated,
				"the turning angle itself, not its absolute value, is compared with turningAngleMaxError(): a clearly clockwise loop (angle < -error) is treated like a loop whose orientation cannot be told, is inverted only if it contains the origin, and otherwise stays clockwise - the assembled polygon is the complement of the intended one, its area is 4*Pi minus the right value and its centroid is negated"))
		}
	} else {
		obs = append(obs, core.Ob("R-AREASIGN", "PolygonFromOrientedLoops:normalise-by-absolute-angle", "-", "", core.Violated, "unresolved anchor"))
	}
	return obs
}

// fullExprString prints an expression completely. types.ExprString abbreviates composite literals to `T{…}`, which hid
// the argument of `origin = Point{V_0.PointCross(V_i+1).Normalize()}` from the twin comparison (round-11 seeds
// C18-r11m1, C18-r11m2).
func fullExprString(e ast.Expr) string {
	var buf bytes.Buffer
	if err := printer.Fprint(&buf, token.NewFileSet(), e); err != nil {
		return types.ExprString(e)
	}
	return buf.String()
}
