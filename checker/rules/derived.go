package rules

import (
	"fmt"
	"go/token"

	"golang.org/x/tools/go/ssa"

	"verif/checker/core"
)

// R-DERIVED: added after round-3 seed C15-r3m1 (Polygon.decode set numVertices from numEdges, which is 0 for the
// full polygon although its loop has one vertex; re-encoding the decoded value then slices past its capacity).

func init() {
	core.Register(&core.Rule{
		Name: "R-DERIVED",
		Clause: "C15 'a decoded value can be re-encoded without panicking' / C09: Polygon.numVertices, which sizes the encoder's vertex buffer and selects the brute-force path, is only ever " +
			"assigned its definition - zero, the vertex count of a loop, or itself plus the vertex count of a loop - in constructors and decoders alike; it is never copied from a " +
			"different count (the edge count differs from it for the full polygon).",
		Min: 4,
		Run: runDerived,
	})
}

func runDerived(c *core.Ctx) []core.Obligation {
	var obs []core.Obligation
	isVertexCount := func(v ssa.Value) bool {
		call, ok := v.(*ssa.Call)
		if !ok {
			return false
		}
		if b, ok := call.Call.Value.(*ssa.Builtin); ok && b.Name() == "len" {
			// len(x.vertices) or len(x.Vertices())
			arg := call.Call.Args[0]
			if fr, ok := core.AsFieldLoad(arg); ok && fr.Name == "vertices" {
				return true
			}
			if inner, ok := arg.(*ssa.Call); ok && core.StaticCallee(inner) != nil && core.StaticCallee(inner).Name() == "Vertices" {
				return true
			}
			return false
		}
		f := core.StaticCallee(call)
		return f != nil && f.Name() == "NumVertices"
	}
	n := 0
	for _, fn := range c.GeoFuncs() {
		k := 0
		core.AllInstrs(fn, func(in ssa.Instruction) {
			st, ok := in.(*ssa.Store)
			if !ok {
				return
			}
			fr, ok := core.AsFieldAddr(st.Addr)
			if !ok || fr.Name != "numVertices" || fr.Struct == nil || fr.Struct.Obj().Name() != "Polygon" {
				return
			}
			n++
			k++
			construct := fmt.Sprintf("Polygon.numVertices:%s#%d", core.FuncName(fn), k)
			good := false
			switch v := st.Val.(type) {
			case *ssa.Const:
				good = v.Value != nil && v.Value.String() == "0"
			case *ssa.BinOp:
				if v.Op == token.ADD {
					if ld, ok := core.AsFieldLoad(v.X); ok && ld.Name == "numVertices" && isVertexCount(v.Y) {
						good = true
					}
				}
			default:
				good = isVertexCount(st.Val)
			}
			if good {
				obs = append(obs, core.Ob("R-DERIVED", construct, c.Pos(st.Pos()), core.FuncName(fn), core.Discharged, "assigned from its definition (0, a loop's vertex count, or itself plus a loop's vertex count)"))
			} else {
				obs = append(obs, core.Ob("R-DERIVED", construct, c.Pos(st.Pos()), core.FuncName(fn), core.Violated,
					"Polygon.numVertices is assigned "+st.Val.String()+", which is not a sum of the loops' vertex counts: where the two differ (the full polygon has one vertex and no edge) the encoder's vertex buffer is too small and Encode panics on the value, and the brute-force threshold is misjudged"))
			}
		})
	}
	if n < 4 {
		obs = append(obs, core.Ob("R-DERIVED", "Polygon.numVertices:anchor", "-", "", core.Violated, fmt.Sprintf("only %d assignments of Polygon.numVertices found, 4 expected", n)))
	}
	return obs
}
