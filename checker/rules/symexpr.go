package rules

import (
	"fmt"
	"go/ast"
	"go/constant"
	"go/token"
	"go/types"
	"sort"
	"strings"

	"verif/checker/core"
)

// A tiny symbolic normaliser for small, mostly loop-free accessor functions.
// Values are terms: linear integer forms over uninterpreted atoms, composite
// literals, and if-then-else nodes; normalisation yields an ordered decision
// tree with ite-free leaves, so two functions that denote the same value by
// the same case analysis have identical normal forms. Loops are kept opaque:
// the variables a loop assigns become atoms keyed by the loop's alpha-renamed
// source and its inputs. This compares static summaries; it neither executes
// the code nor enumerates or solves path conditions.

type sx struct {
	op   string // "lin", "ite", or an atom operator
	k    int64  // lin: constant part
	tm   []term // lin: terms sorted by key
	args []*sx  // atom: operands; ite: cond, then, else
	name string // atom: extra label (field name, function name, literal type)
	key  string // cached canonical form
}

type term struct {
	coef int64
	at   *sx
}

func (n *sx) String() string {
	if n == nil {
		return "<nil>"
	}
	if n.key != "" {
		return n.key
	}
	var b strings.Builder
	switch n.op {
	case "lin":
		if len(n.tm) == 0 {
			fmt.Fprintf(&b, "%d", n.k)
		} else {
			b.WriteString("(")
			for i, t := range n.tm {
				if i > 0 {
					b.WriteString("+")
				}
				if t.coef != 1 {
					fmt.Fprintf(&b, "%d*", t.coef)
				}
				b.WriteString(t.at.String())
			}
			if n.k != 0 {
				fmt.Fprintf(&b, "+%d", n.k)
			}
			b.WriteString(")")
		}
	default:
		b.WriteString(n.op)
		if n.name != "" {
			b.WriteString(":" + n.name)
		}
		if len(n.args) > 0 {
			b.WriteString("[")
			for i, a := range n.args {
				if i > 0 {
					b.WriteString(",")
				}
				b.WriteString(a.String())
			}
			b.WriteString("]")
		}
	}
	n.key = b.String()
	return n.key
}

func sxConst(k int64) *sx { return &sx{op: "lin", k: k} }

func sxAtom(op, name string, args ...*sx) *sx { return &sx{op: op, name: name, args: args} }

func asLin(n *sx) *sx {
	if n.op == "lin" {
		return n
	}
	return &sx{op: "lin", tm: []term{{1, n}}}
}

func sxAdd(a, b *sx, sign int64) *sx {
	if a.op == "ite" {
		return sxIte(a.args[0], sxAdd(a.args[1], b, sign), sxAdd(a.args[2], b, sign))
	}
	if b.op == "ite" {
		return sxIte(b.args[0], sxAdd(a, b.args[1], sign), sxAdd(a, b.args[2], sign))
	}
	la, lb := asLin(a), asLin(b)
	m := map[string]term{}
	for _, t := range la.tm {
		m[t.at.String()] = t
	}
	for _, t := range lb.tm {
		k := t.at.String()
		cur := m[k]
		m[k] = term{cur.coef + sign*t.coef, t.at}
	}
	out := &sx{op: "lin", k: la.k + sign*lb.k}
	var keys []string
	for k, t := range m {
		if t.coef != 0 {
			keys = append(keys, k)
		}
	}
	sort.Strings(keys)
	for _, k := range keys {
		out.tm = append(out.tm, m[k])
	}
	if len(out.tm) == 1 && out.tm[0].coef == 1 && out.k == 0 {
		return out.tm[0].at
	}
	return out
}

func sxMulConst(a *sx, c int64) *sx {
	if a.op == "ite" {
		return sxIte(a.args[0], sxMulConst(a.args[1], c), sxMulConst(a.args[2], c))
	}
	la := asLin(a)
	out := &sx{op: "lin", k: la.k * c}
	for _, t := range la.tm {
		if t.coef*c != 0 {
			out.tm = append(out.tm, term{t.coef * c, t.at})
		}
	}
	return out
}

func sxIte(c, a, b *sx) *sx {
	if c.op == "true" {
		return a
	}
	if c.op == "false" {
		return b
	}
	if c.op == "!" {
		return sxIte(c.args[0], b, a)
	}
	if a != nil && b != nil && a.String() == b.String() {
		return a
	}
	return &sx{op: "ite", args: []*sx{c, a, b}}
}

// sxCmp builds a comparison atom in canonical orientation.
func sxCmp(op token.Token, a, b *sx) *sx {
	switch op {
	case token.NEQ:
		return sxNot(sxCmp(token.EQL, a, b))
	case token.GTR:
		return sxCmp(token.LSS, b, a)
	case token.GEQ:
		return sxNot(sxCmp(token.LSS, a, b))
	case token.LEQ:
		return sxNot(sxCmp(token.LSS, b, a))
	}
	// constant folding
	if a.op == "lin" && b.op == "lin" && len(a.tm) == 0 && len(b.tm) == 0 {
		r := false
		if op == token.EQL {
			r = a.k == b.k
		} else {
			r = a.k < b.k
		}
		if r {
			return &sx{op: "true"}
		}
		return &sx{op: "false"}
	}
	if op == token.EQL {
		if a.String() > b.String() {
			a, b = b, a
		}
		return sxAtom("==", "", a, b)
	}
	return sxAtom("<", "", a, b)
}

func sxNot(a *sx) *sx {
	switch a.op {
	case "!":
		return a.args[0]
	case "true":
		return &sx{op: "false"}
	case "false":
		return &sx{op: "true"}
	}
	return sxAtom("!", "", a)
}

// containsOp reports whether the term contains an atom with the given operator.
func (n *sx) containsOp(op string) bool {
	if n == nil {
		return false
	}
	if n.op == op {
		return true
	}
	for _, a := range n.args {
		if a.containsOp(op) {
			return true
		}
	}
	for _, t := range n.tm {
		if t.at.containsOp(op) {
			return true
		}
	}
	return false
}

// conds collects the conditions of all ite nodes inside n.
func (n *sx) conds(out map[string]*sx) {
	if n == nil {
		return
	}
	if n.op == "ite" {
		out[n.args[0].String()] = n.args[0]
	}
	for _, a := range n.args {
		a.conds(out)
	}
	for _, t := range n.tm {
		t.at.conds(out)
	}
}

// assume rewrites n under the assumption that condition c (by key) has truth value v.
func assume(n *sx, ckey string, v bool) *sx {
	if n == nil {
		return nil
	}
	if n.String() == ckey {
		if v {
			return &sx{op: "true"}
		}
		return &sx{op: "false"}
	}
	switch n.op {
	case "lin":
		out := sxConst(n.k)
		for _, t := range n.tm {
			out = sxAdd(out, sxMulConst(assume(t.at, ckey, v), t.coef), 1)
		}
		return out
	case "ite":
		c := assume(n.args[0], ckey, v)
		return sxIte(c, assume(n.args[1], ckey, v), assume(n.args[2], ckey, v))
	case "!":
		return sxNot(assume(n.args[0], ckey, v))
	case "&&":
		a, b := assume(n.args[0], ckey, v), assume(n.args[1], ckey, v)
		return sxAnd(a, b)
	case "||":
		a, b := assume(n.args[0], ckey, v), assume(n.args[1], ckey, v)
		return sxNot(sxAnd(sxNot(a), sxNot(b)))
	case "==", "<":
		a, b := assume(n.args[0], ckey, v), assume(n.args[1], ckey, v)
		if n.op == "==" {
			return sxCmp(token.EQL, a, b)
		}
		return sxCmp(token.LSS, a, b)
	}
	if len(n.args) == 0 {
		return n
	}
	args := make([]*sx, len(n.args))
	for i, a := range n.args {
		args[i] = assume(a, ckey, v)
	}
	return &sx{op: n.op, name: n.name, args: args}
}

func sxAnd(a, b *sx) *sx {
	if a.op == "false" || b.op == "false" {
		return &sx{op: "false"}
	}
	if a.op == "true" {
		return b
	}
	if b.op == "true" {
		return a
	}
	if a.String() > b.String() {
		a, b = b, a
	}
	if a.String() == b.String() {
		return a
	}
	return sxAtom("&&", "", a, b)
}

// normalise turns n into an ordered decision tree: the smallest ite-free
// condition is decided first, recursively.
func normalise(n *sx, depth int) *sx {
	if n == nil || depth > 24 {
		return n
	}
	cs := map[string]*sx{}
	n.conds(cs)
	var keys []string
	for k, c := range cs {
		if !c.containsOp("ite") {
			keys = append(keys, k)
		}
	}
	if len(keys) == 0 {
		return n
	}
	sort.Strings(keys)
	k := keys[0]
	t := normalise(assume(n, k, true), depth+1)
	f := normalise(assume(n, k, false), depth+1)
	if t.String() == f.String() {
		return t
	}
	return &sx{op: "ite", args: []*sx{cs[k], t, f}}
}

// proj selects component i of a composite-literal valued term.
func proj(n *sx, i int) *sx {
	if n == nil {
		return nil
	}
	switch n.op {
	case "ite":
		return sxIte(n.args[0], proj(n.args[1], i), proj(n.args[2], i))
	case "lit":
		if i < len(n.args) {
			return n.args[i]
		}
	}
	return sxAtom("proj", fmt.Sprint(i), n)
}

// ---------------------------------------------------------------------------

type symEval struct {
	c        *core.Ctx
	info     *types.Info
	depth    int
	problem  string // set when something could not be modelled
	noInline bool   // keep every call opaque
}

type symEnv struct {
	vars map[types.Object]*sx
}

func (e *symEnv) clone() *symEnv {
	n := &symEnv{vars: map[types.Object]*sx{}}
	for k, v := range e.vars {
		n.vars[k] = v
	}
	return n
}

// evalFunc evaluates the declaration of fn with the receiver bound to recv and parameters to args.
func (s *symEval) evalFunc(fn *types.Func, recv *sx, args []*sx) *sx {
	decl := s.c.Decl(fn)
	if decl == nil || decl.Body == nil {
		s.problem = "no source for " + fn.FullName()
		return sxAtom("opaque", fn.FullName())
	}
	if s.depth > 4 {
		return sxAtom("call", fn.FullName(), append([]*sx{recv}, args...)...)
	}
	s.depth++
	defer func() { s.depth-- }()
	env := &symEnv{vars: map[types.Object]*sx{}}
	info := s.infoFor(fn)
	if decl.Recv != nil && len(decl.Recv.List) > 0 && len(decl.Recv.List[0].Names) > 0 {
		env.vars[info.Defs[decl.Recv.List[0].Names[0]]] = recv
	}
	i := 0
	for _, f := range decl.Type.Params.List {
		for _, nm := range f.Names {
			if i < len(args) {
				env.vars[info.Defs[nm]] = args[i]
			}
			i++
		}
	}
	// named results start at zero
	if decl.Type.Results != nil {
		for _, f := range decl.Type.Results.List {
			for _, nm := range f.Names {
				env.vars[info.Defs[nm]] = sxConst(0)
			}
		}
	}
	old := s.info
	s.info = info
	defer func() { s.info = old }()
	res := s.execList(decl.Body.List, env, fn)
	if res == nil {
		return sxAtom("noreturn", fn.FullName())
	}
	return res
}

func (s *symEval) infoFor(fn *types.Func) *types.Info {
	for _, p := range s.c.All {
		if p.Types == fn.Pkg() {
			return p.TypesInfo
		}
	}
	return s.info
}

func (s *symEval) execList(stmts []ast.Stmt, env *symEnv, fn *types.Func) *sx {
	if len(stmts) == 0 {
		return nil
	}
	st, rest := stmts[0], stmts[1:]
	switch x := st.(type) {
	case *ast.ReturnStmt:
		if len(x.Results) == 1 {
			return s.eval(x.Results[0], env)
		}
		if len(x.Results) == 0 {
			return sxAtom("void", "")
		}
		var parts []*sx
		for _, r := range x.Results {
			parts = append(parts, s.eval(r, env))
		}
		return sxAtom("lit", "tuple", parts...)
	case *ast.BlockStmt:
		return s.execList(append(append([]ast.Stmt{}, x.List...), rest...), env, fn)
	case *ast.IfStmt:
		if x.Init != nil {
			s.execSimple(x.Init, env)
		}
		c := s.eval(x.Cond, env)
		thenEnv, elseEnv := env.clone(), env.clone()
		thenRes := s.execList(append(append([]ast.Stmt{}, x.Body.List...), rest...), thenEnv, fn)
		var elseStmts []ast.Stmt
		if x.Else != nil {
			elseStmts = append(elseStmts, x.Else)
		}
		elseRes := s.execList(append(elseStmts, rest...), elseEnv, fn)
		if thenRes == nil || elseRes == nil {
			if thenRes == nil && elseRes == nil {
				return nil
			}
			s.problem = "a branch falls off the end of " + fn.Name()
			if thenRes == nil {
				thenRes = sxAtom("noreturn", "")
			} else {
				elseRes = sxAtom("noreturn", "")
			}
		}
		return sxIte(c, thenRes, elseRes)
	case *ast.ForStmt, *ast.RangeStmt:
		s.opaqueLoop(st, env, fn)
		return s.execList(rest, env, fn)
	case *ast.ExprStmt, *ast.EmptyStmt:
		return s.execList(rest, env, fn)
	case *ast.SwitchStmt:
		s.problem = "switch statement in " + fn.Name()
		return sxAtom("opaque", "switch")
	default:
		s.execSimple(st, env)
		return s.execList(rest, env, fn)
	}
}

func (s *symEval) execSimple(st ast.Stmt, env *symEnv) {
	switch x := st.(type) {
	case *ast.AssignStmt:
		if len(x.Lhs) != len(x.Rhs) {
			for _, l := range x.Lhs {
				if id, ok := l.(*ast.Ident); ok {
					if obj := s.objOf(id); obj != nil {
						env.vars[obj] = sxAtom("opaque", "multi-assign:"+id.Name)
					}
				}
			}
			return
		}
		vals := make([]*sx, len(x.Rhs))
		for i, r := range x.Rhs {
			vals[i] = s.eval(r, env)
		}
		for i, l := range x.Lhs {
			id, ok := l.(*ast.Ident)
			if !ok {
				continue // store to memory: not tracked (accessors are pure)
			}
			obj := s.objOf(id)
			if obj == nil {
				continue
			}
			switch x.Tok {
			case token.ASSIGN, token.DEFINE:
				env.vars[obj] = vals[i]
			case token.ADD_ASSIGN:
				env.vars[obj] = sxAdd(s.lookup(obj, id, env), vals[i], 1)
			case token.SUB_ASSIGN:
				env.vars[obj] = sxAdd(s.lookup(obj, id, env), vals[i], -1)
			default:
				env.vars[obj] = sxAtom("opaque", "assign-op:"+id.Name)
			}
		}
	case *ast.IncDecStmt:
		if id, ok := x.X.(*ast.Ident); ok {
			if obj := s.objOf(id); obj != nil {
				d := int64(1)
				if x.Tok == token.DEC {
					d = -1
				}
				env.vars[obj] = sxAdd(s.lookup(obj, id, env), sxConst(d), 1)
			}
		}
	case *ast.DeclStmt:
		if gd, ok := x.Decl.(*ast.GenDecl); ok {
			for _, sp := range gd.Specs {
				if vs, ok := sp.(*ast.ValueSpec); ok {
					for i, nm := range vs.Names {
						obj := s.info.Defs[nm]
						if obj == nil {
							continue
						}
						if i < len(vs.Values) {
							env.vars[obj] = s.eval(vs.Values[i], env)
						} else {
							env.vars[obj] = sxConst(0)
						}
					}
				}
			}
		}
	}
}

func (s *symEval) objOf(id *ast.Ident) types.Object {
	if o := s.info.Defs[id]; o != nil {
		return o
	}
	return s.info.Uses[id]
}

func (s *symEval) lookup(obj types.Object, id *ast.Ident, env *symEnv) *sx {
	if v, ok := env.vars[obj]; ok {
		return v
	}
	return sxAtom("var", id.Name)
}

// opaqueLoop replaces every variable assigned in the loop by an atom keyed by the loop's alpha-renamed source and its inputs.
func (s *symEval) opaqueLoop(st ast.Stmt, env *symEnv, fn *types.Func) {
	// collect identifiers: assigned ones and all referenced locals/params (inputs)
	order := map[types.Object]int{}
	var objs []types.Object
	assigned := map[types.Object]bool{}
	ast.Inspect(st, func(n ast.Node) bool {
		switch x := n.(type) {
		case *ast.Ident:
			if obj := s.objOf(x); obj != nil {
				if _, isVar := obj.(*types.Var); isVar && obj.Pkg() == fn.Pkg() && !obj.(*types.Var).IsField() {
					if _, seen := order[obj]; !seen {
						order[obj] = len(objs)
						objs = append(objs, obj)
					}
				}
			}
		case *ast.AssignStmt:
			for _, l := range x.Lhs {
				if id, ok := l.(*ast.Ident); ok {
					if obj := s.objOf(id); obj != nil {
						assigned[obj] = true
					}
				}
			}
		case *ast.IncDecStmt:
			if id, ok := x.X.(*ast.Ident); ok {
				if obj := s.objOf(id); obj != nil {
					assigned[obj] = true
				}
			}
		case *ast.RangeStmt:
			for _, e := range []ast.Expr{x.Key, x.Value} {
				if id, ok := e.(*ast.Ident); ok && id != nil {
					if obj := s.objOf(id); obj != nil {
						assigned[obj] = true
					}
				}
			}
		}
		return true
	})
	// alpha-renamed fingerprint
	fp := alphaPrint(st, func(id *ast.Ident) string {
		if obj := s.objOf(id); obj != nil {
			if i, ok := order[obj]; ok {
				return fmt.Sprintf("$%d", i)
			}
		}
		return id.Name
	})
	var inputs []*sx
	for _, o := range objs {
		if v, ok := env.vars[o]; ok {
			inputs = append(inputs, v)
		} else {
			inputs = append(inputs, sxAtom("var", o.Name()))
		}
	}
	for _, o := range objs {
		if assigned[o] {
			env.vars[o] = sxAtom("loopout", fmt.Sprintf("%s#%d", fp, order[o]), inputs...)
		}
	}
}

// alphaPrint prints an AST with identifiers renamed by f (a compact structural rendering).
func alphaPrint(n ast.Node, f func(*ast.Ident) string) string {
	var b strings.Builder
	ast.Inspect(n, func(x ast.Node) bool {
		switch y := x.(type) {
		case nil:
			b.WriteString(")")
			return false
		case *ast.Ident:
			b.WriteString("(" + f(y))
		case *ast.BasicLit:
			b.WriteString("(" + y.Value)
		case *ast.BinaryExpr:
			b.WriteString("(bin" + y.Op.String())
		case *ast.UnaryExpr:
			b.WriteString("(un" + y.Op.String())
		case *ast.AssignStmt:
			b.WriteString("(as" + y.Tok.String())
		case *ast.IncDecStmt:
			b.WriteString("(id" + y.Tok.String())
		case *ast.BranchStmt:
			b.WriteString("(br" + y.Tok.String())
		case *ast.CommentGroup, *ast.Comment:
			return false
		default:
			b.WriteString(fmt.Sprintf("(%T", x))
		}
		return true
	})
	return b.String()
}

func (s *symEval) eval(e ast.Expr, env *symEnv) *sx {
	// constants first
	if tv, ok := s.info.Types[e]; ok && tv.Value != nil {
		if tv.Value.Kind() == constant.Int {
			if v, exact := constant.Int64Val(tv.Value); exact {
				return sxConst(v)
			}
		}
		if tv.Value.Kind() == constant.Bool {
			if constant.BoolVal(tv.Value) {
				return &sx{op: "true"}
			}
			return &sx{op: "false"}
		}
	}
	switch x := e.(type) {
	case *ast.ParenExpr:
		return s.eval(x.X, env)
	case *ast.Ident:
		obj := s.objOf(x)
		if obj != nil {
			if v, ok := env.vars[obj]; ok {
				return v
			}
		}
		if x.Name == "nil" {
			return sxAtom("nil", "")
		}
		return sxAtom("var", x.Name)
	case *ast.BinaryExpr:
		switch x.Op {
		case token.ADD:
			return sxAdd(s.eval(x.X, env), s.eval(x.Y, env), 1)
		case token.SUB:
			return sxAdd(s.eval(x.X, env), s.eval(x.Y, env), -1)
		case token.MUL:
			a, b := s.eval(x.X, env), s.eval(x.Y, env)
			if a.op == "lin" && len(a.tm) == 0 {
				return sxMulConst(b, a.k)
			}
			if b.op == "lin" && len(b.tm) == 0 {
				return sxMulConst(a, b.k)
			}
			return sxAtom("mul", "", a, b)
		case token.EQL, token.NEQ, token.LSS, token.LEQ, token.GTR, token.GEQ:
			return sxCmp(x.Op, s.eval(x.X, env), s.eval(x.Y, env))
		case token.LAND:
			return sxAnd(s.eval(x.X, env), s.eval(x.Y, env))
		case token.LOR:
			return sxNot(sxAnd(sxNot(s.eval(x.X, env)), sxNot(s.eval(x.Y, env))))
		default:
			return sxAtom("bin", x.Op.String(), s.eval(x.X, env), s.eval(x.Y, env))
		}
	case *ast.UnaryExpr:
		switch x.Op {
		case token.NOT:
			return sxNot(s.eval(x.X, env))
		case token.SUB:
			return sxMulConst(s.eval(x.X, env), -1)
		case token.AND:
			return sxAtom("addr", "", s.eval(x.X, env))
		}
		return sxAtom("un", x.Op.String(), s.eval(x.X, env))
	case *ast.StarExpr:
		return sxAtom("deref", "", s.eval(x.X, env))
	case *ast.SelectorExpr:
		if sel, ok := s.info.Selections[x]; ok && sel.Kind() == types.FieldVal {
			return sxAtom("sel", x.Sel.Name, s.eval(x.X, env))
		}
		return sxAtom("qual", types.ExprString(x))
	case *ast.IndexExpr:
		return sxAtom("idx", "", s.eval(x.X, env), s.eval(x.Index, env))
	case *ast.CompositeLit:
		tname := types.ExprString(x.Type)
		var parts []*sx
		if st, ok := s.info.TypeOf(x).Underlying().(*types.Struct); ok {
			parts = make([]*sx, st.NumFields())
			for i := range parts {
				parts[i] = sxConst(0)
			}
			for i, el := range x.Elts {
				if kv, ok := el.(*ast.KeyValueExpr); ok {
					if id, ok := kv.Key.(*ast.Ident); ok {
						for j := 0; j < st.NumFields(); j++ {
							if st.Field(j).Name() == id.Name {
								parts[j] = s.eval(kv.Value, env)
							}
						}
					}
				} else if i < len(parts) {
					parts[i] = s.eval(el, env)
				}
			}
		} else {
			for _, el := range x.Elts {
				parts = append(parts, s.eval(el, env))
			}
		}
		return sxAtom("lit", tname, parts...)
	case *ast.CallExpr:
		return s.evalCall(x, env)
	}
	s.problem = fmt.Sprintf("unsupported expression %T", e)
	return sxAtom("opaque", types.ExprString(e))
}

func (s *symEval) evalCall(x *ast.CallExpr, env *symEnv) *sx {
	// conversions
	if tv, ok := s.info.Types[x.Fun]; ok && tv.IsType() && len(x.Args) == 1 {
		return s.eval(x.Args[0], env)
	}
	var args []*sx
	for _, a := range x.Args {
		args = append(args, s.eval(a, env))
	}
	switch f := x.Fun.(type) {
	case *ast.Ident:
		if _, isBuiltin := s.objOf(f).(*types.Builtin); isBuiltin {
			return sxAtom("builtin", f.Name, args...)
		}
		if fn, ok := s.objOf(f).(*types.Func); ok {
			if s.inlinable(fn) {
				return s.evalFunc(fn, nil, args)
			}
			return sxAtom("call", fn.FullName(), args...)
		}
	case *ast.SelectorExpr:
		if sel, ok := s.info.Selections[f]; ok && sel.Kind() == types.MethodVal {
			recv := s.eval(f.X, env)
			fn := sel.Obj().(*types.Func)
			if s.inlinable(fn) {
				return s.evalFunc(fn, recv, args)
			}
			return sxAtom("call", fn.FullName(), append([]*sx{recv}, args...)...)
		}
		if fn, ok := s.info.Uses[f.Sel].(*types.Func); ok {
			return sxAtom("call", fn.FullName(), args...)
		}
	}
	return sxAtom("call", types.ExprString(x.Fun), args...)
}

// inlinable: a library function with source, short, without loops.
func (s *symEval) inlinable(fn *types.Func) bool {
	if s.noInline {
		return false
	}
	if fn.Pkg() == nil || !strings.HasPrefix(fn.Pkg().Path(), core.GeoPath) {
		return false
	}
	decl := s.c.Decl(fn)
	if decl == nil || decl.Body == nil || len(decl.Body.List) > 6 {
		return false
	}
	ok := true
	ast.Inspect(decl.Body, func(n ast.Node) bool {
		switch n.(type) {
		case *ast.ForStmt, *ast.RangeStmt, *ast.SwitchStmt, *ast.GoStmt, *ast.DeferStmt, *ast.FuncLit:
			ok = false
		}
		return ok
	})
	return ok
}
