package rules

import (
	"fmt"
	"go/ast"
	"go/token"
	"go/types"
	"strings"

	"golang.org/x/tools/go/ssa"

	"verif/checker/core"
)

// R-DUP: added after round-4 seeds C06-r4m1 (`|fe.b.Y| <= m && |fe.b.Y| <= m`, the X test lost) and C05-r4m1
// (two consecutive `if intersectsLatEdge(a, b, Lat.Lo, lng) { return true }`, the Lat.Hi test lost).

func init() {
	core.Register(&core.Rule{
		Name: "R-DUP",
		Clause: "several properties - the copy-and-paste slip in its purest form: (a) no && or || chain tests the same side-effect-free expression twice, and (b) no two consecutive if statements " +
			"of one block have the same side-effect-free condition and leave the block (return/continue/break) in the same way - in both cases the second test is dead, so the sibling it was " +
			"meant to test (X for Y, Hi for Lo) is never tested. Reported under every property that anchors the file.",
		Min: 1,
		Run: runDup,
	})
}

// anchorFiles: the files each claimed property is anchored in (properties.jsonl, anchors.files).
var anchorFiles = map[string][]string{
	"C01": {"s2/cellid.go", "s2/stuv.go", "s2/cell.go", "s2/latlng.go"},
	"C02": {"s2/predicates.go", "r3/precisevector.go", "r3/vector.go", "s2/point.go"},
	"C03": {"s2/edge_crosser.go", "s2/edge_crossings.go", "s2/predicates.go", "s2/point.go"},
	"C04": {"s2/loop.go", "s2/polygon.go", "s2/contains_point_query.go", "s2/shapeutil.go", "s2/shapeindex.go", "s2/edge_crossings.go", "s2/contains_vertex_query.go"},
	"C05": {"s2/regioncoverer.go", "s2/region.go", "s2/cap.go", "s2/rect.go", "s2/loop.go", "s2/polygon.go", "s2/polyline.go", "s2/cellunion.go", "s2/cell.go", "s2/edge_clipping.go", "s2/metric.go"},
	"C06": {"s2/shapeindex.go", "s2/edge_clipping.go", "s2/paddedcell.go", "s2/crossing_edge_query.go", "s2/contains_point_query.go", "s2/shape.go", "s2/lax_loop.go", "s2/lax_polygon.go", "s2/lax_polyline.go", "s2/point_vector.go", "s2/polyline.go", "s2/polygon.go", "s2/loop.go"},
	"C07": {"s2/loop.go", "s2/polygon.go", "s2/wedge_relations.go", "s2/shapeutil.go", "s2/crossing_edge_query.go", "s2/rect_bounder.go"},
	"C08": {"s2/edge_query.go", "s2/min_distance_targets.go", "s2/max_distance_targets.go", "s2/distance_target.go", "s2/query_options.go", "s2/query_entry.go", "s2/edge_distances.go", "s2/cell.go", "s2/shapeindex_region.go"},
	"C09": {"s2/encode.go", "s2/pointcompression.go", "s2/nthderivative.go", "s2/interleave.go", "s2/polygon.go", "s2/loop.go", "s2/polyline.go", "s2/cellunion.go", "s2/cap.go", "s2/rect.go", "s2/point.go", "s2/cellid.go", "s2/cell.go", "s2/stuv.go"},
	"C10": {"s2/rect_bounder.go", "s2/rect.go", "s2/cap.go", "s2/cell.go", "s2/loop.go", "s2/polygon.go", "s2/polyline.go", "s2/cellunion.go", "s2/convex_hull_query.go", "s2/latlng.go", "s2/shapeindex_region.go"},
	"C13": {"s2/shapeindex.go", "s2/loop.go", "s2/polygon.go", "s2/edge_query.go", "s2/query_options.go", "s2/min_distance_targets.go", "s2/max_distance_targets.go", "s2/crossing_edge_query.go", "s2/contains_point_query.go"},
	"C14": {"s2/shapeindex.go", "s2/loop.go", "s2/polygon.go", "s2/contains_point_query.go", "s2/crossing_edge_query.go", "s2/edge_query.go"},
	"C15": {"s2/encode.go", "s2/polygon.go", "s2/loop.go", "s2/polyline.go", "s2/cellunion.go", "s2/pointcompression.go", "s2/cap.go", "s2/rect.go", "s2/point.go", "s2/cell.go", "s2/cellid.go"},
	"C18": {"s2/loop.go", "s2/polygon.go", "s2/point_measures.go", "s2/centroids.go"},
	"C19": {"r1/interval.go", "s1/interval.go", "s1/angle.go", "s1/chordangle.go", "r2/rect.go", "s2/rect.go", "s2/cap.go", "s2/latlng.go"},
}

// sideEffectFree: no calls except conversions, builtins len/cap/min/max, package math, and library functions the
// purity analysis accepts.
func sideEffectFree(c *core.Ctx, info *types.Info, p *purity, e ast.Expr) bool {
	ok := true
	ast.Inspect(e, func(n ast.Node) bool {
		switch x := n.(type) {
		case *ast.FuncLit:
			ok = false
		case *ast.UnaryExpr:
			if x.Op == token.ARROW {
				ok = false
			}
		case *ast.CallExpr:
			if tv, isT := info.Types[x.Fun]; isT && tv.IsType() {
				return true
			}
			var obj types.Object
			switch f := x.Fun.(type) {
			case *ast.Ident:
				obj = info.Uses[f]
			case *ast.SelectorExpr:
				obj = info.Uses[f.Sel]
			}
			switch o := obj.(type) {
			case *types.Builtin:
				if o.Name() != "len" && o.Name() != "cap" && o.Name() != "min" && o.Name() != "max" {
					ok = false
				}
			case *types.Func:
				if o.Pkg() != nil && (o.Pkg().Path() == "math" || o.Pkg().Path() == "math/bits") {
					return true
				}
				if fn := c.SSA(o); fn == nil || !p.pure(fn, 0) {
					ok = false
				}
			default:
				ok = false
			}
		}
		return ok
	})
	return ok
}

func flattenChain(e ast.Expr, op token.Token, out *[]ast.Expr) {
	e = ast.Unparen(e)
	if b, ok := e.(*ast.BinaryExpr); ok && b.Op == op {
		flattenChain(b.X, op, out)
		flattenChain(b.Y, op, out)
		return
	}
	*out = append(*out, e)
}

func leavesBlock(body *ast.BlockStmt) string {
	if body == nil || len(body.List) == 0 {
		return ""
	}
	switch x := body.List[len(body.List)-1].(type) {
	case *ast.ReturnStmt:
		var parts []string
		for _, r := range x.Results {
			parts = append(parts, types.ExprString(r))
		}
		return "return " + strings.Join(parts, ",")
	case *ast.BranchStmt:
		if x.Label != nil {
			return x.Tok.String() + " " + x.Label.Name
		}
		return x.Tok.String()
	}
	return ""
}

func runDup(c *core.Ctx) []core.Obligation {
	var obs []core.Obligation
	p := &purity{c: c, memo: map[*ssa.Function]int{}, allowReads: true}
	chains, ifs, clamps, calls := 0, 0, 0, 0
	zeroVars, deadStores := 0, 0
	runs := 0
	for _, pkg := range c.Pkgs {
		info := pkg.TypesInfo
		for _, file := range pkg.Syntax {
			fname := c.Fset.Position(file.Pos()).Filename
			if strings.HasSuffix(fname, "_test.go") {
				continue
			}
			rel := fname
			if i := strings.Index(fname, "/"+pkg.Types.Name()+"/"); i >= 0 {
				rel = fname[i+1:]
			}
			for _, d := range file.Decls {
				fd, ok := d.(*ast.FuncDecl)
				if !ok || fd.Body == nil {
					continue
				}
				fn := fd.Name.Name
				if fd.Recv != nil && len(fd.Recv.List) == 1 {
					fn = types.ExprString(fd.Recv.List[0].Type) + "." + fn
				}
				n := 0
				report := func(pos token.Pos, msg string) {
					n++
					obs = append(obs, core.Ob("R-DUP", fmt.Sprintf("dup:%s:%s#%d", rel, fn, n), c.Pos(pos), fn, core.Violated, msg))
				}
				// (e) a basic-typed local declared without a value, never assigned, whose address is never taken, but which is read
				// (f) a named (non-blank) left-hand side of a multi-value call assignment whose value no instruction ever uses
				zv, ds := neverAssignedReads(info, fd)
				zeroVars += zv.examined
				for _, z := range zv.hits {
					report(z.pos, fmt.Sprintf("local variable `%s` is declared without a value and never assigned, yet it is read: the read always sees the zero value, so the assignment that was meant to set it went to a sibling variable", z.name))
				}
				if obj, ok := info.Defs[fd.Name].(*types.Func); ok {
					if sf := c.SSA(obj); sf != nil {
						d := deadTupleStores(sf, fd)
						deadStores += d.examined
						for _, z := range d.hits {
							report(z.pos, fmt.Sprintf("`%s` receives a result of %s here but the value is never used (it is overwritten or dropped before any read): the flag or value this call produces is lost, which is what a mistyped sibling variable name looks like", z.name, z.what))
						}
					}
				}
				_ = ds
				seenChain := map[ast.Expr]bool{}
				ast.Inspect(fd.Body, func(nd ast.Node) bool {
					switch x := nd.(type) {
					case *ast.BinaryExpr:
						if (x.Op != token.LAND && x.Op != token.LOR) || seenChain[x] {
							return true
						}
						var ops []ast.Expr
						flattenChain(x, x.Op, &ops)
						// mark the sub-chains so that they are not reported again
						var mark func(e ast.Expr)
						mark = func(e ast.Expr) {
							e = ast.Unparen(e)
							if b, ok := e.(*ast.BinaryExpr); ok && b.Op == x.Op {
								seenChain[b] = true
								mark(b.X)
								mark(b.Y)
							}
						}
						mark(x)
						chains++
						seen := map[string]bool{}
						for _, o := range ops {
							txt := types.ExprString(o)
							if seen[txt] && sideEffectFree(c, info, p, o) {
								report(o.Pos(), fmt.Sprintf("the %s chain tests `%s` twice: the second test is dead, so the sibling it was meant to test (the other coordinate, the other end) is never tested", x.Op, txt))
							}
							seen[txt] = true
						}
					case *ast.IfStmt:
						// (c) a clamp "if a < b { a = b }" that assigns something other than the bound it tested
						if x.Else == nil && x.Init == nil && len(x.Body.List) == 1 {
							if cmp, ok := x.Cond.(*ast.BinaryExpr); ok && (cmp.Op == token.LSS || cmp.Op == token.LEQ || cmp.Op == token.GTR || cmp.Op == token.GEQ) {
								if as, ok := x.Body.List[0].(*ast.AssignStmt); ok && as.Tok == token.ASSIGN && len(as.Lhs) == 1 && len(as.Rhs) == 1 {
									clamps++
									l, r := types.ExprString(cmp.X), types.ExprString(cmp.Y)
									a, v := types.ExprString(as.Lhs[0]), types.ExprString(as.Rhs[0])
									bound, boundExpr := "", ast.Expr(nil)
									if a == l {
										bound, boundExpr = r, cmp.Y
									} else if a == r {
										bound, boundExpr = l, cmp.X
									}
									if bound != "" && v != bound {
										// a constant bound with a different constant value is a wrap-around (x <= -pi -> x = pi), not a clamp
										_, boundConst := info.Types[boundExpr]
										if tv := info.Types[boundExpr]; tv.Value == nil && boundConst && sideEffectFree(c, info, p, boundExpr) && sideEffectFree(c, info, p, as.Rhs[0]) {
											if tv2 := info.Types[as.Rhs[0]]; tv2.Value == nil {
												report(x.Pos(), fmt.Sprintf("`if %s { %s = %s }` compares %s with %s but then assigns %s: a clamp that was meant to raise (lower) the value to the bound it tested uses a different variable", types.ExprString(x.Cond), a, v, a, bound, v))
											}
										}
									}
								}
							}
						}
					case *ast.BlockStmt:
						// (g) a running maximum / minimum written by hand: M = A; if B > A { M = B }; if C > A { M = C } - the
						// third statement compares with the value M started from although M may have been replaced since
						for i := 0; i+2 < len(x.List); i++ {
							m, a, ok := simpleAssign(x.List[i])
							if !ok {
								continue
							}
							replaced := false
							for k := i + 1; k < len(x.List); k++ {
								cand, bound, tgt, isRun := runningStep(x.List[k])
								if !isRun || tgt != m {
									break
								}
								runs++
								if bound == a && replaced && cand != a {
									report(x.List[k].Pos(), fmt.Sprintf("`%s` is a running extreme that starts at `%s` and has already been replaced by an earlier statement, but this step still compares `%s` with `%s` instead of with `%s`: when the earlier candidate is the larger (smaller) one it is overwritten by a candidate that only beats the starting value", m, a, cand, a, m))
								}
								if bound == a || bound == m {
									replaced = true
								}
							}
						}
						// (d) two consecutive assignments with the same side-effect-free call on the right: the second repeats
						// the first instead of handling the sibling argument it was copied for
						for i := 0; i+1 < len(x.List); i++ {
							a1, ok1 := x.List[i].(*ast.AssignStmt)
							a2, ok2 := x.List[i+1].(*ast.AssignStmt)
							if !ok1 || !ok2 || len(a1.Rhs) != 1 || len(a2.Rhs) != 1 {
								continue
							}
							c1, isC1 := a1.Rhs[0].(*ast.CallExpr)
							c2, isC2 := a2.Rhs[0].(*ast.CallExpr)
							if !isC1 || !isC2 || len(c1.Args) < 2 {
								continue
							}
							calls++
							if types.ExprString(c1) == types.ExprString(c2) && sideEffectFree(c, info, p, c1) {
								report(a2.Pos(), fmt.Sprintf("two consecutive statements evaluate the same call `%s`: the second was meant for the sibling argument (the other endpoint, the other edge), which is now never examined", types.ExprString(c1)))
							}
						}
						for i := 0; i+1 < len(x.List); i++ {
							a, ok1 := x.List[i].(*ast.IfStmt)
							b, ok2 := x.List[i+1].(*ast.IfStmt)
							if !ok1 || !ok2 || a.Init != nil || b.Init != nil || a.Else != nil || b.Else != nil {
								continue
							}
							ifs++
							la, lb := leavesBlock(a.Body), leavesBlock(b.Body)
							if la == "" || la != lb {
								continue
							}
							ta, tb := types.ExprString(a.Cond), types.ExprString(b.Cond)
							if ta == tb && sideEffectFree(c, info, p, a.Cond) {
								report(b.Pos(), fmt.Sprintf("two consecutive `if %s { %s }`: the second can never fire, so the case it was meant to cover (the other bound, the other sibling) is never tested", ta, la))
							}
						}
					}
					return true
				})
			}
		}
	}
	vrExamined, vrObs := valueReceiverStores(c)
	obs = append(obs, vrObs...)
	obs = append(obs, round10Lints(c)...)
	_ = vrExamined
	obs = append(obs, core.Ob("R-DUP", "scan", "-", "", core.Discharged, fmt.Sprintf("%d &&/|| chains, %d pairs of consecutive if statements %d clamp statements, %d pairs of consecutive call assignments, %d value-less local declarations and %d multi-value call assignments examined across the library; no duplicated test, no clamp to a value other than the tested bound, no repeated call, no never-assigned local that is read, no named result that is never used; %d hand-written running-extreme steps, none comparing with a stale value", chains, ifs, clamps, calls, zeroVars, deadStores, runs)))
	return obs
}

type dupHit struct {
	pos  token.Pos
	name string
	what string
}

type dupScan struct {
	examined int
	hits     []dupHit
}

// neverAssignedReads: locals of basic type declared `var x T` (no value) inside fd that are read somewhere but are
// never the target of an assignment, ++/--, range clause or & operator and are not captured by a closure.
func neverAssignedReads(info *types.Info, fd *ast.FuncDecl) (dupScan, int) {
	var res dupScan
	zero := map[*types.Var]token.Pos{}
	ast.Inspect(fd.Body, func(n ast.Node) bool {
		if ds, ok := n.(*ast.DeclStmt); ok {
			if gd, ok := ds.Decl.(*ast.GenDecl); ok && gd.Tok == token.VAR {
				for _, sp := range gd.Specs {
					vs := sp.(*ast.ValueSpec)
					if len(vs.Values) != 0 {
						continue
					}
					for _, nm := range vs.Names {
						if v, ok := info.Defs[nm].(*types.Var); ok && nm.Name != "_" {
							if _, basic := v.Type().Underlying().(*types.Basic); basic {
								zero[v] = nm.Pos()
							}
						}
					}
				}
			}
		}
		return true
	})
	res.examined = len(zero)
	if len(zero) == 0 {
		return res, 0
	}
	written := map[*types.Var]bool{}
	reads := map[*types.Var]token.Pos{}
	lhsIdent := map[*ast.Ident]bool{}
	markW := func(e ast.Expr) {
		if id, ok := ast.Unparen(e).(*ast.Ident); ok {
			if v, ok := info.Uses[id].(*types.Var); ok {
				written[v] = true
				lhsIdent[id] = true
			}
		}
	}
	var walk func(n ast.Node, inLit bool)
	walk = func(n ast.Node, inLit bool) {
		ast.Inspect(n, func(m ast.Node) bool {
			switch x := m.(type) {
			case *ast.FuncLit:
				if !inLit {
					walk(x.Body, true)
					return false
				}
			case *ast.AssignStmt:
				for _, l := range x.Lhs {
					markW(l)
				}
			case *ast.IncDecStmt:
				markW(x.X)
			case *ast.RangeStmt:
				if x.Key != nil {
					markW(x.Key)
				}
				if x.Value != nil {
					markW(x.Value)
				}
			case *ast.UnaryExpr:
				if x.Op == token.AND {
					markW(x.X)
				}
			case *ast.CallExpr:
				// x.M() with a pointer receiver takes &x implicitly
				if sel, ok := x.Fun.(*ast.SelectorExpr); ok {
					if s := info.Selections[sel]; s != nil && s.Kind() == types.MethodVal {
						if sig, ok := s.Obj().Type().(*types.Signature); ok && sig.Recv() != nil {
							if _, ptr := sig.Recv().Type().(*types.Pointer); ptr {
								markW(sel.X)
							}
						}
					}
				}
			case *ast.Ident:
				if v, ok := info.Uses[x].(*types.Var); ok {
					if inLit {
						written[v] = true // captured: give up on it
					}
					if !lhsIdent[x] {
						if _, seen := reads[v]; !seen {
							reads[v] = x.Pos()
						}
					}
				}
			}
			return true
		})
	}
	walk(fd.Body, false)
	for v := range zero {
		if rp, ok := reads[v]; ok && !written[v] {
			res.hits = append(res.hits, dupHit{pos: rp, name: v.Name()})
		}
	}
	return res, 0
}

// deadTupleStores: for every assignment `a, b = f(...)` / `a, b := f(...)` in fd whose right-hand side is one
// multi-value call, a named left-hand side whose extracted value has no user in the SSA form.
func deadTupleStores(fn *ssa.Function, fd *ast.FuncDecl) dupScan {
	var res dupScan
	byParen := map[token.Pos]*ast.AssignStmt{}
	ast.Inspect(fd.Body, func(n ast.Node) bool {
		if _, ok := n.(*ast.FuncLit); ok {
			return false
		}
		if as, ok := n.(*ast.AssignStmt); ok && len(as.Rhs) == 1 && len(as.Lhs) > 1 {
			if call, ok := ast.Unparen(as.Rhs[0]).(*ast.CallExpr); ok {
				byParen[call.Lparen] = as
			}
		}
		return true
	})
	if len(byParen) == 0 {
		return res
	}
	for _, b := range fn.Blocks {
		for _, in := range b.Instrs {
			call, ok := in.(*ssa.Call)
			if !ok {
				continue
			}
			as := byParen[call.Pos()]
			if as == nil {
				continue
			}
			res.examined++
			used := map[int]bool{}
			for _, r := range *call.Referrers() {
				if ex, ok := r.(*ssa.Extract); ok {
					if refs := ex.Referrers(); refs != nil && len(*refs) > 0 {
						used[ex.Index] = true
					}
				} else {
					// the tuple itself is used (returned as is): everything counts as used
					for i := range as.Lhs {
						used[i] = true
					}
				}
			}
			for i, l := range as.Lhs {
				id, ok := ast.Unparen(l).(*ast.Ident)
				if !ok || id.Name == "_" || used[i] {
					continue
				}
				what := "the call"
				if sc := call.Common().StaticCallee(); sc != nil {
					what = sc.Name()
				}
				res.hits = append(res.hits, dupHit{pos: id.Pos(), name: id.Name, what: what})
			}
		}
	}
	return res
}

// simpleAssign: `m := a` or `m = a` with identifiers on both sides.
func simpleAssign(st ast.Stmt) (m, a string, ok bool) {
	as, isAs := st.(*ast.AssignStmt)
	if !isAs || len(as.Lhs) != 1 || len(as.Rhs) != 1 || (as.Tok != token.ASSIGN && as.Tok != token.DEFINE) {
		return "", "", false
	}
	l, ok1 := as.Lhs[0].(*ast.Ident)
	r, ok2 := as.Rhs[0].(*ast.Ident)
	if !ok1 || !ok2 || l.Name == "_" {
		return "", "", false
	}
	return l.Name, r.Name, true
}

// runningStep: `if cand > bound { tgt = cand }` (or <, >=, <=, operands either way round) with identifiers only.
func runningStep(st ast.Stmt) (cand, bound, tgt string, ok bool) {
	ifs, isIf := st.(*ast.IfStmt)
	if !isIf || ifs.Init != nil || ifs.Else != nil || len(ifs.Body.List) != 1 {
		return
	}
	cmp, isCmp := ifs.Cond.(*ast.BinaryExpr)
	if !isCmp || (cmp.Op != token.LSS && cmp.Op != token.GTR && cmp.Op != token.LEQ && cmp.Op != token.GEQ) {
		return
	}
	x, ok1 := ast.Unparen(cmp.X).(*ast.Ident)
	y, ok2 := ast.Unparen(cmp.Y).(*ast.Ident)
	t, v, ok3 := simpleAssign(ifs.Body.List[0])
	if !ok1 || !ok2 || !ok3 {
		return
	}
	switch v {
	case x.Name:
		return x.Name, y.Name, t, true
	case y.Name:
		return y.Name, x.Name, t, true
	}
	return
}
