package rules

import (
	"fmt"
	"go/token"
	"go/types"
	"sort"
	"strings"

	"golang.org/x/tools/go/ssa"

	"verif/checker/core"
)

func init() {
	core.Register(&core.Rule{
		Name: "R-CYCLE",
		Clause: "C08/C05 'equal an exhaustive scan': a per-item action inside an enumeration loop must be able to repeat - the block that performs it lies on a cycle through the loop header. " +
			"A break/return placed after the action turns 'for every top-level cell / child / edge' into 'for the first one'. Pairs (loop, action) confirmed by reading.",
		Min: 7,
		Run: runCycle,
	})
	core.Register(&core.Rule{
		Name: "R-SETUSE",
		Clause: "C08 'duplicate-free' / C13: a map field that gates an early exit through a membership test must be fed on the same path (the 'already seen' idiom): the exit is on the found branch and " +
			"the not-found continuation inserts the key.",
		Min: 1,
		Run: runSetUse,
	})
	core.Register(&core.Rule{
		Name: "R-POLARITY",
		Clause: "C08: the min-distance and max-distance target families do not mix: a target built on minDistance only calls min-family primitives and never reflects the cap centre, " +
			"a target built on maxDistance only calls max-family primitives and always reflects it (capBound, visitContainingShapes), and each type's name agrees with the distance it is built on.",
		Min: 30,
		Run: runPolarity,
	})
	core.Register(&core.Rule{
		Name: "R-QUERYFLOW",
		Clause: "C08 'sorted, duplicate-free, respect the result limit, within the permitted error': findEdges post-processes through sortAndUniqueResults and truncates to maxResults on every path; " +
			"results are ordered by distance then ids; the queue key is made conservative exactly under useConservativeCellDistance; the initial queue handles all three cell relations; " +
			"the search loop stops only when the nearest queued cell is not closer than the current limit.",
		Min: 6,
		Run: runQueryFlow,
	})
}

// loopContaining returns the innermost natural loop (header, body) containing block b.
func loopContaining(fn *ssa.Function, b *ssa.BasicBlock) (*ssa.BasicBlock, map[*ssa.BasicBlock]bool) {
	loops := loopsOf(fn)
	var best *ssa.BasicBlock
	for h, body := range loops {
		if body[b] {
			if best == nil || len(body) < len(loops[best]) {
				best = h
			}
		}
	}
	if best == nil {
		return nil, nil
	}
	return best, loops[best]
}

// cyclePairs: (function, action callee) pairs; the action must be repeatable inside its loop.
var cyclePairs = []struct {
	recv, fn, action, why string
	exhaustive            bool // the enclosing loop is left only from its header (a plain walk over a slice: no break, no return)
}{
	{"EdgeQuery", "initCovering", "addInitialRange", "one top-level cell per spanned face / child", false},
	{"ShapeIndexRegion", "CellUnionBound", "coverRange", "same enumeration in the region's own bound", false},
	{"coverer", "coveringInternal", "addCandidate", "every popped candidate's children are offered", false},
	{"coverer", "expandChildren", "newCandidate", "all four children are examined", false},
	{"EdgeQuery", "processEdges", "maybeAddResult", "every edge of every clipped shape of the cell", false},
	{"EdgeQuery", "findEdgesBruteForce", "maybeAddResult", "every edge of every shape", false},
	{"EdgeQuery", "findEdgesOptimized", "processOrEnqueueCell", "every non-empty child of the popped cell", false},
	{"CrossingEdgeQuery", "getCellsForEdge", "computeCellsIntersected", "every face segment of the query edge", false},
	{"CrossingEdgeQuery", "candidates", "findByShapeID", "every visited cell is searched for the requested shape (a cell without it is skipped, not the end of the walk)", true},
}

func runCycle(c *core.Ctx) []core.Obligation {
	var obs []core.Obligation
	for _, p := range cyclePairs {
		fn := c.Fn("s2", p.recv, p.fn)
		construct := fmt.Sprintf("(*s2.%s).%s:%s", p.recv, p.fn, p.action)
		if fn == nil {
			obs = append(obs, core.Ob("R-CYCLE", construct, "-", "", core.Violated, "unresolved anchor"))
			continue
		}
		var sites []ssa.Instruction
		core.AllInstrs(fn, func(in ssa.Instruction) {
			if ci, ok := in.(ssa.CallInstruction); ok {
				if f := core.StaticCallee(ci); f != nil && f.Name() == p.action {
					sites = append(sites, in)
				}
			}
		})
		// keep the call sites that are inside a loop
		inLoop := 0
		bad := ""
		for _, s := range sites {
			h, body := loopContaining(fn, s.Block())
			if h == nil {
				continue
			}
			inLoop++
			// can control return from the action's block to the loop header without leaving the loop?
			outside := map[*ssa.BasicBlock]bool{}
			for _, b := range fn.Blocks {
				if !body[b] {
					outside[b] = true
				}
			}
			back := false
			for _, succ := range s.Block().Succs {
				if succ == h || (body[succ] && core.ReachableAvoiding(succ, h, nil, outside)) {
					back = true
				}
			}
			if !back {
				bad = fmt.Sprintf("after the call at %s control always leaves the loop (break/return): the action runs for the first item only", c.Pos(s.Pos()))
			}
			if p.exhaustive {
				for b := range body {
					if b == h {
						continue
					}
					for _, succ := range b.Succs {
						if !body[succ] {
							bad = fmt.Sprintf("the loop around the call at %s is left from inside its body (block %d): the items after that point are never examined", c.Pos(s.Pos()), b.Index)
						}
					}
					if _, isRet := b.Instrs[len(b.Instrs)-1].(*ssa.Return); isRet {
						bad = fmt.Sprintf("the loop around the call at %s returns from inside its body: the remaining items are never examined", c.Pos(s.Pos()))
					}
				}
			}
		}
		switch {
		case len(sites) == 0:
			obs = append(obs, core.Ob("R-CYCLE", construct, c.Pos(fn.Pos()), core.FuncName(fn), core.Violated, "unresolved anchor: the action is no longer called here"))
		case inLoop == 0:
			obs = append(obs, core.Ob("R-CYCLE", construct, c.Pos(fn.Pos()), core.FuncName(fn), core.Violated, "the action is no longer inside an enumeration loop ("+p.why+")"))
		case bad != "":
			obs = append(obs, core.Ob("R-CYCLE", construct, c.Pos(fn.Pos()), core.FuncName(fn), core.Violated, bad+" ("+p.why+")"))
		default:
			obs = append(obs, core.Ob("R-CYCLE", construct, c.Pos(sites[0].Pos()), core.FuncName(fn), core.Discharged,
				fmt.Sprintf("%d call site(s) inside a loop, each on a cycle through the loop header: %s", inLoop, p.why)))
		}
	}
	return obs
}

// ---------------------------------------------------------------------------

// seenSets: map fields documented/used as "already seen" sets.
var seenSets = map[string]string{
	"s2.EdgeQuery.testedEdges": "tracks the set of shape and edges that have already been tested (guarded by avoidDuplicates)",
}

func runSetUse(c *core.Ctx) []core.Obligation {
	var obs []core.Obligation
	// discover: comma-ok lookups on map-typed struct fields whose ok gates a branch that returns at once
	type site struct {
		fn  *ssa.Function
		lk  *ssa.Lookup
		key fieldKey
	}
	var sites []site
	inserts := map[fieldKey][]ssa.Instruction{}
	for _, fn := range c.GeoFuncs() {
		core.AllInstrs(fn, func(in ssa.Instruction) {
			switch x := in.(type) {
			case *ssa.Lookup:
				if !x.CommaOk {
					return
				}
				if fr, ok := core.AsFieldLoad(x.X); ok {
					if k, ok := fieldKeyOf(fr); ok {
						sites = append(sites, site{fn, x, k})
					}
				}
			case *ssa.MapUpdate:
				if fr, ok := core.AsFieldLoad(x.Map); ok {
					if k, ok := fieldKeyOf(fr); ok {
						inserts[k] = append(inserts[k], in)
					}
				}
			}
		})
	}
	found := map[string]bool{}
	for _, s := range sites {
		name := s.key.String()
		why, isSeen := seenSets[name]
		if !isSeen {
			continue
		}
		found[name] = true
		construct := fmt.Sprintf("%s:%s", core.FuncName(s.fn), name)
		// the ok component
		var okVal ssa.Value
		for _, ref := range *s.lk.Referrers() {
			if ex, isEx := ref.(*ssa.Extract); isEx && ex.Index == 1 {
				okVal = ex
			}
		}
		if okVal == nil {
			obs = append(obs, core.Ob("R-SETUSE", construct, c.Pos(s.lk.Pos()), core.FuncName(s.fn), core.Violated, "membership result is not used"))
			continue
		}
		// find an If whose condition is ok / !ok (possibly joined with && through short-circuit blocks)
		var verdict, detail string
		for _, b := range s.fn.Blocks {
			iff, isIf := b.Instrs[len(b.Instrs)-1].(*ssa.If)
			if !isIf {
				continue
			}
			cond := iff.Cond
			foundEdge := 0
			for {
				if u, ok := cond.(*ssa.UnOp); ok && u.Op == token.NOT {
					cond = u.X
					foundEdge = 1 - foundEdge
					continue
				}
				break
			}
			if cond != okVal {
				continue
			}
			foundSucc, missSucc := b.Succs[foundEdge], b.Succs[1-foundEdge]
			isRet := func(bb *ssa.BasicBlock) bool {
				_, r := bb.Instrs[len(bb.Instrs)-1].(*ssa.Return)
				return r && len(bb.Instrs) <= 2
			}
			// insertion on the not-found continuation
			inserted := false
			for _, ins := range inserts[s.key] {
				if ins.Parent() == s.fn && (ins.Block() == missSucc || core.EdgeDominates(core.Edge{From: b, Idx: 1 - foundEdge}, ins.Block())) {
					inserted = true
				}
			}
			switch {
			case isRet(missSucc) && !isRet(foundSucc):
				verdict, detail = core.Violated, "the early exit is taken when the key is NOT in the set: every item that has not been seen yet is skipped"
			case !isRet(foundSucc):
				verdict, detail = core.Violated, "finding the key in the set does not lead to the early exit"
			case !inserted:
				verdict, detail = core.Violated, "the not-found continuation never inserts the key: the set stays empty and duplicates are not suppressed"
			default:
				verdict, detail = core.Discharged, "exit on found; the key is inserted on the not-found continuation ("+why+")"
			}
		}
		if verdict == "" {
			verdict, detail = core.Violated, "the membership test does not gate a branch"
		}
		obs = append(obs, core.Ob("R-SETUSE", construct, c.Pos(s.lk.Pos()), core.FuncName(s.fn), verdict, detail))
	}
	for name := range seenSets {
		if !found[name] {
			obs = append(obs, core.Ob("R-SETUSE", "anchor:"+name, "-", "", core.Violated, "the 'already seen' set is no longer consulted with a membership test: duplicates are not suppressed (or the anchor moved)"))
		}
	}
	return obs
}

// ---------------------------------------------------------------------------

func familyOfName(n string) string {
	switch {
	case strings.Contains(n, "MinDistance") || strings.Contains(n, "minDistance"):
		return "min"
	case strings.Contains(n, "MaxDistance") || strings.Contains(n, "maxDistance"):
		return "max"
	}
	return ""
}

// cellDistanceFamily: Cell methods by family.
var cellDistanceFamily = map[string]string{
	"Distance": "min", "DistanceToEdge": "min", "DistanceToCell": "min", "BoundaryDistance": "min",
	"MaxDistance": "max", "MaxDistanceToEdge": "max", "MaxDistanceToCell": "max",
}

func runPolarity(c *core.Ctx) []core.Obligation {
	var obs []core.Obligation
	p := c.Pkgs["s2"]
	dt, _ := p.Types.Scope().Lookup("distanceTarget").(*types.TypeName)
	if dt == nil {
		return append(obs, core.Ob("R-POLARITY", "anchor:distanceTarget", "-", "", core.Violated, "unresolved anchor"))
	}
	iface := dt.Type().Underlying().(*types.Interface)
	var targets []*types.Named
	for _, name := range p.Types.Scope().Names() {
		tn, ok := p.Types.Scope().Lookup(name).(*types.TypeName)
		if !ok {
			continue
		}
		n, ok := tn.Type().(*types.Named)
		if !ok {
			continue
		}
		if _, isI := n.Underlying().(*types.Interface); isI {
			continue
		}
		if types.Implements(types.NewPointer(n), iface) {
			targets = append(targets, n)
		}
	}
	if len(targets) < 8 {
		obs = append(obs, core.Ob("R-POLARITY", "anchor:targets", "-", "", core.Violated, fmt.Sprintf("only %d distance targets found", len(targets))))
	}
	for _, T := range targets {
		tname := T.Obj().Name()
		fam := familyOfName(tname)
		// family by construction: the constructor stores a value of type minDistance/maxDistance into the dist field
		ctor := c.Fn("s2", "", "New"+tname)
		built := ""
		if ctor != nil {
			core.AllInstrs(ctor, func(in ssa.Instruction) {
				if mi, ok := in.(*ssa.MakeInterface); ok {
					if f := familyOfName(mi.X.Type().String()); f != "" {
						built = f
					}
				}
			})
		}
		construct := tname + ":family"
		switch {
		case ctor == nil || built == "":
			obs = append(obs, core.Ob("R-POLARITY", construct, "-", tname, core.Violated, "cannot determine which distance the constructor installs"))
			continue
		case built != fam:
			obs = append(obs, core.Ob("R-POLARITY", construct, c.Pos(ctor.Pos()), core.FuncName(ctor), core.Violated,
				fmt.Sprintf("type is named as a %s-distance target but its constructor installs a %sDistance", fam, built)))
			continue
		default:
			obs = append(obs, core.Ob("R-POLARITY", construct, c.Pos(ctor.Pos()), core.FuncName(ctor), core.Discharged, "constructor installs "+built+"Distance, as the type name says"))
		}
		for _, mname := range []string{"capBound", "updateDistanceToPoint", "updateDistanceToEdge", "updateDistanceToCell", "visitContainingShapes"} {
			m := c.Fn("s2", tname, mname)
			construct := tname + ":" + mname
			if m == nil {
				obs = append(obs, core.Ob("R-POLARITY", construct, "-", tname, core.Violated, "unresolved method"))
				continue
			}
			var wrong []string
			negations := 0
			sameFamilyDelegation := false
			used := map[string]bool{}
			visit := func(fn *ssa.Function) {
				core.AllInstrs(fn, func(in ssa.Instruction) {
					switch x := in.(type) {
					case ssa.CallInstruction:
						f := core.StaticCallee(x)
						if f == nil {
							return
						}
						// reflection through the origin: Vector.Mul(-1)
						if f.Name() == "Mul" && f.Pkg != nil && f.Pkg.Pkg.Name() == "r3" {
							for _, a := range x.Common().Args {
								if k, ok := a.(*ssa.Const); ok && k.Value != nil && k.Value.String() == "-1" {
									negations++
								}
							}
						}
						if !core.IsGeo(f) {
							return
						}
						ff := ""
						if f.Signature.Recv() != nil && core.IsNamed(f.Signature.Recv().Type(), "s2", "Cell") {
							ff = cellDistanceFamily[f.Name()]
						} else if strings.HasPrefix(f.Name(), "Update") || strings.HasPrefix(f.Name(), "updateEdgePair") || strings.HasPrefix(f.Name(), "New") {
							ff = familyOfName(f.Name())
						}
						if ff == "" {
							return
						}
						used[core.FuncName(f)] = true
						if strings.HasPrefix(f.Name(), "New") && ff == fam {
							sameFamilyDelegation = true
						}
						if ff != fam {
							wrong = append(wrong, core.FuncName(f))
						}
					case *ssa.ChangeType:
						if ff := familyOfName(x.Type().String()); ff != "" && strings.HasSuffix(x.Type().String(), "Distance") {
							used["conversion to "+x.Type().String()] = true
							if ff != fam {
								wrong = append(wrong, "conversion to "+x.Type().String())
							}
						}
					case *ssa.Convert:
						if ff := familyOfName(x.Type().String()); ff != "" && strings.HasSuffix(x.Type().String(), "Distance") {
							used["conversion to "+x.Type().String()] = true
							if ff != fam {
								wrong = append(wrong, "conversion to "+x.Type().String())
							}
						}
					}
				})
			}
			visit(m)
			for _, a := range m.AnonFuncs {
				visit(a)
			}
			var usedList []string
			for u := range used {
				usedList = append(usedList, u)
			}
			sort.Strings(usedList)
			needsNeg := mname == "capBound" || mname == "visitContainingShapes"
			switch {
			case len(wrong) > 0:
				obs = append(obs, core.Ob("R-POLARITY", construct, c.Pos(m.Pos()), core.FuncName(m), core.Violated,
					fmt.Sprintf("a %s-distance target uses %s-family primitives: %s", fam, opposite(fam), strings.Join(wrong, ", "))))
			case needsNeg && fam == "min" && negations > 0:
				obs = append(obs, core.Ob("R-POLARITY", construct, c.Pos(m.Pos()), core.FuncName(m), core.Violated,
					"a min-distance target reflects a point through the origin (Mul(-1)): only furthest-edge targets search around the antipode"))
			case needsNeg && fam == "max" && negations == 0 && !sameFamilyDelegation:
				obs = append(obs, core.Ob("R-POLARITY", construct, c.Pos(m.Pos()), core.FuncName(m), core.Violated,
					"a max-distance target must search around the antipode of the target (reflect through the origin or delegate to a max-distance point target) and does neither"))
			default:
				d := fmt.Sprintf("family %s; uses %s", fam, strings.Join(usedList, ", "))
				if needsNeg {
					d += fmt.Sprintf("; reflections through the origin: %d", negations)
				}
				obs = append(obs, core.Ob("R-POLARITY", construct, c.Pos(m.Pos()), core.FuncName(m), core.Discharged, d))
			}
		}
	}
	obs = append(obs, rawChordCompare(c)...)
	return obs
}

func opposite(f string) string {
	if f == "min" {
		return "max"
	}
	return "min"
}

// ---------------------------------------------------------------------------

func runQueryFlow(c *core.Ctx) []core.Obligation {
	var obs []core.Obligation
	add := func(construct string, fn *ssa.Function, ok bool, good, bad string) {
		site := "-"
		name := ""
		if fn != nil {
			site, name = c.Pos(fn.Pos()), core.FuncName(fn)
		}
		if ok {
			obs = append(obs, core.Ob("R-QUERYFLOW", construct, site, name, core.Discharged, good))
		} else {
			obs = append(obs, core.Ob("R-QUERYFLOW", construct, site, name, core.Violated, bad))
		}
	}
	// 1. findEdges: call to findEdgesInternal, then sortAndUniqueResults whose result is stored to results, then truncation guarded by len > maxResults; all before return.
	fe := c.Fn("s2", "EdgeQuery", "findEdges")
	if fe == nil {
		add("findEdges:post-processing", nil, false, "", "unresolved anchor")
	} else {
		var sortCall *ssa.Call
		core.AllInstrs(fe, func(in ssa.Instruction) {
			if call, ok := in.(*ssa.Call); ok {
				if f := core.StaticCallee(call); f != nil && f.Name() == "sortAndUniqueResults" {
					sortCall = call
				}
			}
		})
		ok := sortCall != nil
		why := "results are not passed through sortAndUniqueResults"
		if ok {
			// result stored into e.results
			stored := false
			for _, ref := range *sortCall.Referrers() {
				if st, isSt := ref.(*ssa.Store); isSt {
					if fr, ok := core.AsFieldAddr(st.Addr); ok && fr.Name == "results" {
						stored = true
					}
				}
			}
			// every return is dominated by the sort call
			for _, b := range fe.Blocks {
				if _, isRet := b.Instrs[len(b.Instrs)-1].(*ssa.Return); isRet && b != fe.Recover && !sortCall.Block().Dominates(b) {
					ok, why = false, "a return is reachable without sorting/uniquing the results"
				}
			}
			if !stored {
				ok, why = false, "the sorted and uniqued slice is not stored back into the results"
			}
			// truncation: a Slice of results with High = maxResults guarded by len(results) > maxResults
			trunc := false
			core.AllInstrs(fe, func(in ssa.Instruction) {
				if sl, isSl := in.(*ssa.Slice); isSl && sl.High != nil {
					if fr, ok := core.AsFieldLoad(sl.High); ok && fr.Name == "maxResults" {
						// guard
						for _, b := range fe.Blocks {
							iff, isIf := b.Instrs[len(b.Instrs)-1].(*ssa.If)
							if !isIf {
								continue
							}
							if bo, isBo := iff.Cond.(*ssa.BinOp); isBo && bo.Op == token.GTR {
								if fr2, ok := core.AsFieldLoad(bo.Y); ok && fr2.Name == "maxResults" && core.EdgeDominates(core.Edge{From: b, Idx: 0}, sl.Block()) {
									trunc = true
								}
							}
						}
					}
				}
			})
			if ok && !trunc {
				ok, why = false, "results are not truncated to maxResults under a len(results) > maxResults guard"
			}
		}
		add("findEdges:post-processing", fe, ok, "every return passes sortAndUniqueResults (stored back) and truncation to maxResults", why)
	}
	// 2. processOrEnqueue: subtraction of maxError happens exactly under useConservativeCellDistance
	pe := c.Fn("s2", "EdgeQuery", "processOrEnqueue")
	if pe == nil {
		add("processOrEnqueue:conservative", nil, false, "", "unresolved anchor")
	} else {
		ok := false
		why := "no subtraction of maxError guarded by useConservativeCellDistance before the queue push"
		for _, b := range pe.Blocks {
			iff, isIf := b.Instrs[len(b.Instrs)-1].(*ssa.If)
			if !isIf {
				continue
			}
			if fr, isF := core.AsFieldLoad(iff.Cond); isF && fr.Name == "useConservativeCellDistance" {
				// true branch must call distance.sub with an operand derived from opts.maxError
				tb := b.Succs[0]
				for _, in := range tb.Instrs {
					if ci, isCall := in.(ssa.CallInstruction); isCall && ci.Common().IsInvoke() && ci.Common().Method.Name() == "sub" {
						ok = true
					}
				}
				if !ok {
					why = "the useConservativeCellDistance branch does not subtract maxError from the cell distance"
				}
			}
		}
		add("processOrEnqueue:conservative", pe, ok, "cell distance reduced by maxError exactly when useConservativeCellDistance is set", why)
	}
	// 3. EdgeQueryResult.Less: distance first, then shapeID, then edgeID
	less := c.Fn("s2", "EdgeQueryResult", "Less")
	if less == nil {
		add("Less:order", nil, false, "", "unresolved anchor")
	} else {
		var order []string
		for _, b := range less.Blocks {
			for _, in := range b.Instrs {
				if v, isVal := in.(ssa.Value); isVal {
					if fr, ok := core.AsFieldLoad(v); ok && fr.Struct != nil && fr.Struct.Obj().Name() == "EdgeQueryResult" {
						if len(order) == 0 || order[len(order)-1] != fr.Name {
							order = append(order, fr.Name)
						}
					}
				}
			}
		}
		seq := strings.Join(uniqKeepOrder(order), ",")
		add("Less:order", less, strings.HasPrefix(seq, "distance,shapeID,edgeID"), "compares distance, then shapeID, then edgeID", "results are not ordered by (distance, shapeID, edgeID): "+seq)
	}
	// 4. initQueue handles the three CellRelation outcomes: Indexed -> enqueue index cell, Subdivided -> enqueue, Disjoint -> skip
	iq := c.Fn("s2", "EdgeQuery", "initQueue")
	if iq == nil {
		add("initQueue:relations", nil, false, "", "unresolved anchor")
	} else {
		ok, why := checkRelationConsumer(c, iq, map[string]string{"Indexed": "call:processOrEnqueue", "Subdivided": "call:processOrEnqueue", "Disjoint": "nocall:processOrEnqueue"})
		add("initQueue:relations", iq, ok, "Indexed and Subdivided cells are enqueued, Disjoint cells are skipped", why)
	}
	// 5. findEdgesOptimized: the only early stop is `!entry.distance.less(e.distanceLimit)`
	fo := c.Fn("s2", "EdgeQuery", "findEdgesOptimized")
	if fo == nil {
		add("findEdgesOptimized:stop", nil, false, "", "unresolved anchor")
	} else {
		h, body := (*ssa.BasicBlock)(nil), map[*ssa.BasicBlock]bool(nil)
		for hh, bb := range loopsOf(fo) {
			if h == nil || len(bb) > len(body) {
				h, body = hh, bb
			}
		}
		ok := h != nil
		why := "search loop not found"
		if ok {
			nExits := 0
			for b := range body {
				iff, isIf := b.Instrs[len(b.Instrs)-1].(*ssa.If)
				if !isIf || (body[b.Succs[0]] && body[b.Succs[1]]) {
					continue
				}
				nExits++
				// allowed exits: queue size test (header) and the distance-limit test via method "less"
				okExit := false
				switch cnd := iff.Cond.(type) {
				case *ssa.BinOp:
					if call, isCall := cnd.X.(*ssa.Call); isCall {
						if f := core.StaticCallee(call); f != nil && f.Name() == "size" {
							okExit = true
						}
					}
				case *ssa.Call:
					if cnd.Call.IsInvoke() && cnd.Call.Method.Name() == "less" {
						// entry.distance.less(e.distanceLimit): leave when NOT less => exit edge is the false edge
						if body[b.Succs[0]] && !body[b.Succs[1]] {
							okExit = true
							if fr, isF := core.AsFieldLoad(cnd.Call.Args[0]); !isF || fr.Name != "distanceLimit" {
								okExit = false
							}
						}
					}
				case *ssa.UnOp:
					if call, isCall := cnd.X.(*ssa.Call); isCall && cnd.Op == token.NOT && call.Call.IsInvoke() && call.Call.Method.Name() == "less" {
						if !body[b.Succs[0]] && body[b.Succs[1]] {
							okExit = true
						}
					}
				}
				if !okExit {
					ok, why = false, fmt.Sprintf("unexpected exit from the search loop at %s", c.Pos(iff.Cond.Pos()))
				}
			}
			if nExits < 2 {
				ok, why = false, "the search loop lost its distance-limit stop condition"
			}
		}
		add("findEdgesOptimized:stop", fo, ok, "the search loop ends when the queue is empty or the nearest queued cell is not closer than the distance limit", why)
	}
	// 7. every processOrEnqueue(id, cell) call passes a cell that is the index cell OF id (or nil)
	poe := c.Fn("s2", "EdgeQuery", "processOrEnqueue")
	if poe == nil {
		add("processOrEnqueue:call-sites", nil, false, "", "unresolved anchor")
	} else {
		nsites := 0
		for _, fn := range c.GeoFuncs() {
			k := 0
			core.AllInstrs(fn, func(in ssa.Instruction) {
				ci, ok := in.(ssa.CallInstruction)
				if !ok || core.StaticCallee(ci) != poe {
					return
				}
				k++
				nsites++
				args := ci.Common().Args // e, id, indexCell
				construct := fmt.Sprintf("processOrEnqueue-args:%s#%d", core.FuncName(fn), k)
				ok2, why := idMatchesCell(args[1], args[2], in)
				if ok2 {
					obs = append(obs, core.Ob("R-QUERYFLOW", construct, c.Pos(in.Pos()), core.FuncName(fn), core.Discharged, why))
				} else {
					obs = append(obs, core.Ob("R-QUERYFLOW", construct, c.Pos(in.Pos()), core.FuncName(fn), core.Violated,
						"the cell id and the index cell passed to processOrEnqueue do not belong together ("+why+"): the distance used as queue key / pruning bound is computed for a different cell than the one whose edges are processed"))
				}
			})
		}
		if nsites < 5 {
			add("processOrEnqueue:call-sites", poe, false, "", fmt.Sprintf("only %d call sites found, 5 expected", nsites))
		}
	}
	// 6. sortAndUniqueResults sorts with Less and removes only equal neighbours
	su := c.Fn("s2", "", "sortAndUniqueResults")
	if su == nil {
		add("sortAndUniqueResults", nil, false, "", "unresolved anchor")
	} else {
		sorts, eq := false, false
		core.AllInstrs(su, func(in ssa.Instruction) {
			if ci, ok := in.(ssa.CallInstruction); ok {
				if f := core.StaticCallee(ci); f != nil && f.Pkg != nil && f.Pkg.Pkg.Path() == "sort" {
					sorts = true
				}
			}
			if bo, ok := in.(*ssa.BinOp); ok && (bo.Op == token.EQL || bo.Op == token.NEQ) && core.IsNamed(bo.X.Type(), "s2", "EdgeQueryResult") {
				eq = true
			}
		})
		usesLess := false
		for _, a := range su.AnonFuncs {
			core.AllInstrs(a, func(in ssa.Instruction) {
				if ci, ok := in.(ssa.CallInstruction); ok {
					if f := core.StaticCallee(ci); f != nil && f.Name() == "Less" {
						usesLess = true
					}
				}
			})
		}
		add("sortAndUniqueResults", su, sorts && eq && usesLess, "sorts with EdgeQueryResult.Less and drops only results equal to their predecessor", "does not sort with Less and unique by whole-result equality")
	}
	// splitting a cell: children 1 and 3 are found by a forward seek (which may run off the end: Done), children 0 and 2
	// by stepping back from wherever that seek landed - also from the end. Their tests must not hang on "not Done".
	if fn := c.Fn("s2", "EdgeQuery", "findEdgesOptimized"); fn != nil {
		seen := map[int64]bool{}
		ok, why := true, ""
		core.AllInstrs(fn, func(in ssa.Instruction) {
			call, isCall := in.(*ssa.Call)
			if !isCall || core.StaticCallee(call) == nil || core.StaticCallee(call).Name() != "processOrEnqueueCell" || len(call.Call.Args) != 2 {
				return
			}
			ld, isLd := call.Call.Args[1].(*ssa.UnOp)
			if !isLd {
				return
			}
			ia, isIA := ld.X.(*ssa.IndexAddr)
			if !isIA {
				return
			}
			k, isK := core.ConstInt(ia.Index)
			if !isK {
				return
			}
			seen[k] = true
			if k != 0 && k != 2 {
				return
			}
			for _, b := range fn.Blocks {
				iff, isIf := b.Instrs[len(b.Instrs)-1].(*ssa.If)
				if !isIf {
					continue
				}
				usesDone := false
				var walk func(v ssa.Value, d int)
				walk = func(v ssa.Value, d int) {
					if d > 4 {
						return
					}
					switch x := v.(type) {
					case *ssa.Call:
						if f := core.StaticCallee(x); f != nil && f.Name() == "Done" {
							usesDone = true
						}
					case *ssa.UnOp:
						walk(x.X, d+1)
					case *ssa.BinOp:
						walk(x.X, d+1)
						walk(x.Y, d+1)
					}
				}
				walk(iff.Cond, 0)
				if !usesDone {
					continue
				}
				for idx := range b.Succs {
					if core.EdgeDominates(core.Edge{From: b, Idx: idx}, call.Block()) {
						ok = false
						why = fmt.Sprintf("child %d of a split cell is looked for by stepping back from the forward seek, but its test only runs when that seek did not reach the end of the index: when the split cell holds the last index cells and all of its content lies in child %d, the child is never visited and its edges are dropped from the search", k, k)
					}
				}
			}
		})
		if !(seen[0] && seen[1] && seen[2] && seen[3]) {
			ok, why = false, "the four processOrEnqueueCell(ch[k]) calls were not all found"
		}
		add("split:back-step-children", fn, ok, "children 0 and 2 are tested whether or not the forward seek ran off the end of the index", why)
	}
	return obs
}

func uniqKeepOrder(s []string) []string {
	seen := map[string]bool{}
	var out []string
	for _, x := range s {
		if !seen[x] {
			seen[x] = true
			out = append(out, x)
		}
	}
	return out
}

// checkRelationConsumer checks how a function that compares a CellRelation value reacts to each outcome.
// want maps relation constant name to "call:<fn>" (a call to fn is on every path taken for that outcome)
// or "nocall:<fn>" (no call to fn can follow).
func checkRelationConsumer(c *core.Ctx, fn *ssa.Function, want map[string]string) (bool, string) {
	vals := map[string]int64{}
	for _, n := range []string{"Indexed", "Subdivided", "Disjoint"} {
		k, ok := c.Pkgs["s2"].Types.Scope().Lookup(n).(*types.Const)
		if !ok {
			return false, "unresolved constant " + n
		}
		v, _ := constInt64(k)
		vals[n] = v
	}
	// find the relation value: result of a LocateCellID call
	var rel ssa.Value
	core.AllInstrs(fn, func(in ssa.Instruction) {
		if call, ok := in.(*ssa.Call); ok {
			if f := core.StaticCallee(call); f != nil && f.Name() == "LocateCellID" {
				rel = call
			}
		}
	})
	if rel == nil {
		return false, "no LocateCellID call"
	}
	// abstract interpretation over the three values: follow branches whose condition compares rel with a constant
	for name, v := range vals {
		spec := want[name]
		kind, target, _ := strings.Cut(spec, ":")
		startBlock := rel.(ssa.Instruction).Block()
		// walk from startBlock deciding rel-comparisons; collect whether target call is reachable/inevitable
		calls := false
		seen := map[*ssa.BasicBlock]bool{}
		var walk func(b *ssa.BasicBlock)
		walk = func(b *ssa.BasicBlock) {
			if seen[b] {
				return
			}
			seen[b] = true
			for _, in := range b.Instrs {
				if ci, ok := in.(ssa.CallInstruction); ok && in != rel.(ssa.Instruction) {
					if f := core.StaticCallee(ci); f != nil && f.Name() == target {
						calls = true
						return // stop this path at the first target call
					}
					if f := core.StaticCallee(ci); f != nil && f.Name() == "LocateCellID" {
						return // next iteration's relation
					}
				}
			}
			if iff, ok := b.Instrs[len(b.Instrs)-1].(*ssa.If); ok {
				if bo, ok := iff.Cond.(*ssa.BinOp); ok && (bo.Op == token.EQL || bo.Op == token.NEQ) {
					var k ssa.Value
					if bo.X == rel {
						k = bo.Y
					} else if bo.Y == rel {
						k = bo.X
					}
					if k != nil {
						if kv, ok := core.ConstInt(k); ok {
							truth := (kv == v) == (bo.Op == token.EQL)
							if truth {
								walk(b.Succs[0])
							} else {
								walk(b.Succs[1])
							}
							return
						}
					}
				}
			}
			// stop at the loop back edge: do not continue into blocks that dominate the start (next iteration)
			for _, s := range b.Succs {
				if s.Dominates(startBlock) && s != startBlock {
					continue
				}
				if s == startBlock {
					continue
				}
				walk(s)
			}
		}
		walk(startBlock)
		if kind == "call" && !calls {
			return false, fmt.Sprintf("for relation %s no call to %s follows", name, target)
		}
		if kind == "nocall" && calls {
			return false, fmt.Sprintf("for relation %s a call to %s follows", name, target)
		}
	}
	return true, ""
}

func constInt64(k *types.Const) (int64, bool) {
	var v int64
	_, err := fmt.Sscanf(k.Val().String(), "%d", &v)
	return v, err == nil
}

// idMatchesCell decides whether (id, cell) passed to processOrEnqueue denote the same index cell.
func idMatchesCell(id, cell ssa.Value, at ssa.Instruction) (bool, string) {
	if k, ok := cell.(*ssa.Const); ok && k.IsNil() {
		return true, "no index cell passed (nil): the id is subdivided further"
	}
	callOn := func(v ssa.Value, method string) (ssa.Value, bool) {
		call, ok := v.(*ssa.Call)
		if !ok {
			return nil, false
		}
		f := core.StaticCallee(call)
		if f == nil || f.Name() != method || len(call.Call.Args) == 0 {
			return nil, false
		}
		return call.Call.Args[0], true
	}
	sameObj := func(a, b ssa.Value) bool {
		if a == b {
			return true
		}
		la, ok1 := a.(*ssa.UnOp)
		lb, ok2 := b.(*ssa.UnOp)
		return ok1 && ok2 && la.Op == token.MUL && lb.Op == token.MUL && sameAddr(la.X, lb.X)
	}
	// (it.CellID(), it.IndexCell()) of the same iterator
	if itc, ok := callOn(cell, "IndexCell"); ok {
		if iti, ok := callOn(id, "CellID"); ok && sameObj(itc, iti) {
			return true, "id and cell are read from the same iterator position"
		}
		// id is a value proven equal to it.CellID() by a dominating comparison
		fn := at.Parent()
		for _, b := range fn.Blocks {
			iff, isIf := b.Instrs[len(b.Instrs)-1].(*ssa.If)
			if !isIf {
				continue
			}
			bo, isBo := iff.Cond.(*ssa.BinOp)
			if !isBo || bo.Op != token.EQL {
				continue
			}
			for _, pair := range [][2]ssa.Value{{bo.X, bo.Y}, {bo.Y, bo.X}} {
				if it2, ok := callOn(pair[0], "CellID"); ok && sameObj(it2, itc) && pair[1] == id {
					if core.EdgeDominates(core.Edge{From: b, Idx: 0}, at.Block()) {
						return true, "id was compared equal to the iterator's CellID() on the path to the call"
					}
				}
			}
		}
		return false, "the cell comes from an iterator but the id does not come from (and was not compared with) that iterator's CellID()"
	}
	// (indexCovering[k], indexCells[k])
	loadIdx := func(v ssa.Value) (string, ssa.Value, bool) {
		ld, ok := v.(*ssa.UnOp)
		if !ok || ld.Op != token.MUL {
			return "", nil, false
		}
		ia, ok := ld.X.(*ssa.IndexAddr)
		if !ok {
			return "", nil, false
		}
		fr, ok := core.AsFieldLoad(ia.X)
		if !ok {
			return "", nil, false
		}
		return fr.Name, ia.Index, true
	}
	if cf, ck, ok := loadIdx(cell); ok && cf == "indexCells" {
		// id may be loaded directly or via a local copy (idJ := e.indexCovering[j])
		if idf, ik, ok := loadIdx(id); ok && idf == "indexCovering" && (ik == ck || sameConst(ik, ck)) {
			return true, "id and cell are the same entry of the paired indexCovering/indexCells slices"
		}
		return false, "the cell is indexCells[k] but the id is not indexCovering[k]"
	}
	// a parameter pair forwarded unchanged
	if _, ok := cell.(*ssa.Parameter); ok {
		if _, ok := id.(*ssa.Parameter); ok {
			return true, "both forwarded from the caller"
		}
	}
	return false, "unrecognised origin of the index cell argument"
}
