package rules

import (
	"golang.org/x/tools/go/ssa"

	"verif/checker/core"
)

// R-NORMUSE: found while evaluating a narrow claim for C11 (exploratory seed: s2intersect normalised a copy of each
// input union but went on to use the original).

func init() {
	core.Register(&core.Rule{
		Name: "R-NORMUSE",
		Clause: "C11 'the multi-way intersection finder gives the results of the operation on the covered leaf sets for ANY input unions': the interval sweep of s2intersect assumes normalised " +
			"unions; the union handed to cellUnionToIntervalLimits is the very variable Normalize() was called on, on every path.",
		Min: 4,
		Run: runNormUse,
	})
}

func runNormUse(c *core.Ctx) []core.Obligation {
	var obs []core.Obligation
	fn := c.Fn("s2intersect", "", "cellUnionsToOverlaps")
	if fn == nil {
		return append(obs, core.Ob("R-NORMUSE", "s2intersect.cellUnionsToOverlaps", "-", "", core.Violated, "unresolved anchor"))
	}
	var uses []*ssa.Call
	normalized := map[ssa.Value][]*ssa.Call{} // variable -> Normalize calls on it
	core.AllInstrs(fn, func(in ssa.Instruction) {
		call, ok := in.(*ssa.Call)
		if !ok || core.StaticCallee(call) == nil {
			return
		}
		switch core.StaticCallee(call).Name() {
		case "cellUnionToIntervalLimits":
			uses = append(uses, call)
		case "Normalize":
			if len(call.Call.Args) == 1 {
				normalized[call.Call.Args[0]] = append(normalized[call.Call.Args[0]], call)
			}
		}
	})
	if len(uses) == 0 {
		return append(obs, core.Ob("R-NORMUSE", "s2intersect.cellUnionsToOverlaps", c.Pos(fn.Pos()), core.FuncName(fn), core.Violated, "unresolved anchor: no call of cellUnionToIntervalLimits"))
	}
	ok, why := true, ""
	for _, u := range uses {
		arg := u.Call.Args[0]
		var cell ssa.Value
		if ld, isLd := arg.(*ssa.UnOp); isLd {
			cell = ld.X
		}
		good := false
		for _, n := range normalized[cell] {
			if n.Block() == u.Block() && core.InstrBlockIndex(n) < core.InstrBlockIndex(u) || n.Block() != u.Block() && n.Block().Dominates(u.Block()) {
				good = true
			}
		}
		if !good {
			ok = false
			why = "the union handed to cellUnionToIntervalLimits is not the variable that was normalised (or is not normalised on every path): an input that holds a cell together with one of its descendants, or unsorted overlapping cells, yields overlaps that are cut short or credited to the wrong input"
		}
	}
	if ok {
		obs = append(obs, core.Ob("R-NORMUSE", "s2intersect.cellUnionsToOverlaps", c.Pos(fn.Pos()), core.FuncName(fn), core.Discharged, "every union is normalised in place before its interval limits are taken"))
	} else {
		obs = append(obs, core.Ob("R-NORMUSE", "s2intersect.cellUnionsToOverlaps", c.Pos(fn.Pos()), core.FuncName(fn), core.Violated, why))
	}
	// constructors and in-place operations that promise a normalised result: every return is reached only after Normalize()
	// was called on the union that is returned (for the in-place operations: on the receiver)
	for _, nf := range []struct{ recv, name string }{{"", "CellUnionFromUnion"}, {"", "CellUnionFromIntersection"}, {"", "CellUnionFromIntersectionWithCellID"}, {"CellUnion", "ExpandAtLevel"}} {
		f := c.Fn("s2", nf.recv, nf.name)
		construct := "result-normalised:" + nf.name
		if f == nil {
			obs = append(obs, core.Ob("R-NORMUSE", construct, "-", "", core.Violated, "unresolved anchor"))
			continue
		}
		var norms []*ssa.Call
		core.AllInstrs(f, func(in ssa.Instruction) {
			if call, isCall := in.(*ssa.Call); isCall && core.StaticCallee(call) != nil && core.StaticCallee(call).Name() == "Normalize" && len(call.Call.Args) == 1 {
				norms = append(norms, call)
			}
		})
		good, bad := true, ""
		nret := 0
		for _, b := range f.Blocks {
			ret, isRet := b.Instrs[len(b.Instrs)-1].(*ssa.Return)
			if !isRet {
				continue
			}
			nret++
			// which variable is returned (functions) / the receiver (methods)
			var cell ssa.Value
			if len(ret.Results) == 1 {
				if ld, isLd := ret.Results[0].(*ssa.UnOp); isLd {
					cell = ld.X
				}
			} else if nf.recv != "" {
				cell = f.Params[0]
			}
			found := false
			for _, n := range norms {
				if n.Call.Args[0] != cell {
					continue
				}
				if n.Block() == b || n.Block().Dominates(b) {
					found = true
				}
			}
			if !found {
				good = false
				bad = "a return of " + nf.name + " is reached without Normalize() having been called on the union it returns: the result can contain unmerged sibling groups or unsorted cells, and the binary searches and two-pointer walks of the other operations assume the normal form"
			}
		}
		if nret == 0 {
			good, bad = false, "no return found"
		}
		if good {
			obs = append(obs, core.Ob("R-NORMUSE", construct, c.Pos(f.Pos()), core.FuncName(f), core.Discharged, "every return passes Normalize() on the returned union"))
		} else {
			obs = append(obs, core.Ob("R-NORMUSE", construct, c.Pos(f.Pos()), core.FuncName(f), core.Violated, bad))
		}
	}
	return obs
}
