package rules

import (
	"fmt"
	"go/ast"
	"go/constant"
	"go/token"
	"go/types"
	"math"
	"sort"
	"strings"

	"verif/checker/core"
)

func init() {
	core.Register(&core.Rule{
		Name: "R-CONST",
		Clause: "C02/C03/C05/C06/C10/C01/C18 'within the documented error': every floating-point error budget, padding and safety margin of the library (evaluated from the source by constant folding, " +
			"including math.Sqrt and named constants) is still present and not smaller than its derived value; kernels whose thresholds have no safe direction keep their literals exactly. " +
			"This decides 'the constant was not weakened', not that the derivation is right.",
		Min: 45,
		Run: runConst,
	})
}

func runConst(c *core.Ctx) []core.Obligation {
	var obs []core.Obligation
	cur := map[string]constEntry{}
	for _, e := range budgetConsts(c) {
		cur[e.key] = e
	}
	for _, ref := range errorBudgetTable {
		construct := "budget:" + ref.key
		e, ok := cur[ref.key]
		if !ok {
			obs = append(obs, core.Ob("R-CONST", construct, "-", ref.key, core.Violated,
				"no error term is found under this name any more (renamed, removed, or no longer a constant expression): was "+ref.src))
			continue
		}
		// match every reference value with a distinct current value that is not smaller
		have := append([]float64{}, e.vals...)
		sort.Float64s(have)
		want := append([]float64{}, ref.vals...)
		sort.Float64s(want)
		bad := ""
		// greedy from the largest reference value
		for i := len(want) - 1; i >= 0; i-- {
			if len(have) == 0 {
				bad = fmt.Sprintf("the term %.6g is missing", want[i])
				break
			}
			top := have[len(have)-1]
			if top < want[i]*(1-1e-9) {
				bad = fmt.Sprintf("the term derived as %.10g is now %.10g (%.3gx): the error budget was weakened", want[i], top, top/want[i])
				break
			}
			have = have[:len(have)-1]
		}
		site := c.Pos(e.pos)
		if bad != "" {
			obs = append(obs, core.Ob("R-CONST", construct, site, ref.key, core.Violated, bad+"; expressions now: "+strings.Join(e.srcs, " ; ")))
		} else {
			obs = append(obs, core.Ob("R-CONST", construct, site, ref.key, core.Discharged,
				fmt.Sprintf("%d term(s) evaluated from %s; none smaller than the derived value", len(want), core.ShortDetail(strings.Join(e.srcs, " ; ")))))
		}
	}
	// exact literal tables
	var keys []string
	for k := range exactLiteralTable {
		keys = append(keys, k)
	}
	sort.Strings(keys)
	for _, k := range keys {
		construct := "literals:" + k
		pkg, name, _ := strings.Cut(k, ".")
		fn := c.LookupFunc(pkg, "", name)
		if fn == nil || c.Decl(fn) == nil {
			obs = append(obs, core.Ob("R-CONST", construct, "-", k, core.Violated, "unresolved anchor"))
			continue
		}
		info := c.Pkgs[pkg].TypesInfo
		var got []float64
		ast.Inspect(c.Decl(fn).Body, func(n ast.Node) bool {
			if bl, ok := n.(*ast.BasicLit); ok && (bl.Kind == token.FLOAT || bl.Kind == token.INT) {
				if tv, ok := info.Types[bl]; ok && tv.Value != nil {
					v, _ := constant.Float64Val(constant.ToFloat(tv.Value))
					got = append(got, v)
				}
			}
			return true
		})
		sort.Float64s(got)
		want := append([]float64{}, exactLiteralTable[k]...)
		sort.Float64s(want)
		same := len(got) == len(want)
		for i := 0; same && i < len(got); i++ {
			if math.Abs(got[i]-want[i]) > 1e-12*math.Max(1, math.Abs(want[i])) {
				same = false
			}
		}
		if same {
			obs = append(obs, core.Ob("R-CONST", construct, c.Pos(fn.Pos()), k, core.Discharged, fmt.Sprintf("all %d numeric literals equal the reference", len(got))))
		} else {
			obs = append(obs, core.Ob("R-CONST", construct, c.Pos(fn.Pos()), k, core.Violated,
				fmt.Sprintf("the numeric thresholds of this kernel changed: now %v, reference %v", got, want)))
		}
	}
	// structural integer constant: siTitoPiQi clamps to maxSiTi-1 so that pi fits in `level` bits
	{
		construct := "integer:s2.siTitoPiQi.max"
		fn := c.LookupFunc("s2", "", "siTitoPiQi")
		maxSiTi, _ := c.Pkgs["s2"].Types.Scope().Lookup("maxSiTi").(*types.Const)
		ok := false
		detail := "unresolved anchor"
		if fn != nil && maxSiTi != nil {
			if k, isK := fn.Scope().Lookup("max").(*types.Const); isK {
				limit, _ := constant.Int64Val(constant.ToInt(maxSiTi.Val()))
				v, _ := constant.Int64Val(constant.ToInt(k.Val()))
				if v <= limit-1 {
					ok, detail = true, fmt.Sprintf("clamp = %d <= maxSiTi-1 = %d, so (clamp >> (MaxLevel+1-level)) fits in `level` bits", v, limit-1)
				} else {
					detail = fmt.Sprintf("clamp = %d exceeds maxSiTi-1 = %d: pi = 2^level no longer fits the bits the first-point encoder writes", v, limit-1)
				}
			} else {
				// the constant may live in an inner scope
				for i := 0; i < fn.Scope().NumChildren(); i++ {
					if k, isK := fn.Scope().Child(i).Lookup("max").(*types.Const); isK {
						limit, _ := constant.Int64Val(constant.ToInt(maxSiTi.Val()))
						v, _ := constant.Int64Val(constant.ToInt(k.Val()))
						if v <= limit-1 {
							ok, detail = true, fmt.Sprintf("clamp = %d <= maxSiTi-1 = %d", v, limit-1)
						} else {
							detail = fmt.Sprintf("clamp = %d exceeds maxSiTi-1 = %d: pi = 2^level no longer fits the bits the first-point encoder writes", v, limit-1)
						}
					}
				}
			}
		}
		site := "-"
		if fn != nil {
			site = c.Pos(fn.Pos())
		}
		if ok {
			obs = append(obs, core.Ob("R-CONST", construct, site, "s2.siTitoPiQi", core.Discharged, detail))
		} else {
			obs = append(obs, core.Ob("R-CONST", construct, site, "s2.siTitoPiQi", core.Violated, detail))
		}
	}
	return obs
}
