package rules

import (
	"fmt"
	"go/types"

	"verif/checker/core"
)

func init() {
	core.Register(&core.Rule{
		Name: "R-ORDERLAWS",
		Clause: "C19 (thorough tier): laws that relate several interval operations, decided over every weak ordering of the operands by feeding the abstract result of one function into another: " +
			"Intersects is symmetric; interior containment implies containment; containment of a non-empty interval implies intersection; containment is transitive (three intervals, 8^6 orderings " +
			"on the circle); a union contains both operands according to ContainsInterval itself; AddPoint's result contains the point and the old interval according to Contains/ContainsInterval; " +
			"on the line an intersection is contained in both operands.",
		Min:          12,
		ThoroughOnly: true,
		Run:          runOrderLaws,
	})
}

func runOrderLaws(c *core.Ctx) []core.Obligation {
	var obs []core.Obligation
	for _, pkg := range []string{"r1", "s1"} {
		circle := pkg == "s1"
		fn := func(name string) *types.Func { return c.LookupFunc(pkg, "Interval", name) }
		type law struct {
			name  string
			k     int // free symbols: 4 (two intervals), 6 (three), 3 (interval+point)
			check func(it *orderInterp, d orderDomain, v []*oval) string
		}
		asBool := func(it *orderInterp, f *types.Func, recv *oval, args ...*oval) (bool, bool) {
			if f == nil {
				it.fail("missing function")
				return false, false
			}
			r := it.callFunc(f, recv, args)
			if r == nil || r.kind != ovBool {
				return false, false
			}
			return r.b, true
		}
		laws := []law{
			{"Intersects-symmetric", 4, func(it *orderInterp, d orderDomain, v []*oval) string {
				a, ok1 := asBool(it, fn("Intersects"), v[0], v[1])
				b, ok2 := asBool(it, fn("Intersects"), v[1], v[0])
				if ok1 && ok2 && a != b {
					return fmt.Sprintf("i.Intersects(oi)=%v but oi.Intersects(i)=%v", a, b)
				}
				return ""
			}},
			{"InteriorContains-implies-Contains", 4, func(it *orderInterp, d orderDomain, v []*oval) string {
				a, ok1 := asBool(it, fn("InteriorContainsInterval"), v[0], v[1])
				b, ok2 := asBool(it, fn("ContainsInterval"), v[0], v[1])
				if ok1 && ok2 && a && !b {
					return "InteriorContainsInterval holds but ContainsInterval does not"
				}
				return ""
			}},
			{"Contains-nonempty-implies-Intersects", 4, func(it *orderInterp, d orderDomain, v []*oval) string {
				a, ok1 := asBool(it, fn("ContainsInterval"), v[0], v[1])
				e, ok2 := asBool(it, fn("IsEmpty"), v[1])
				b, ok3 := asBool(it, fn("Intersects"), v[0], v[1])
				if ok1 && ok2 && ok3 && a && !e && !b {
					return "i contains the non-empty oi but does not intersect it"
				}
				return ""
			}},
			{"ContainsInterval-transitive", 6, func(it *orderInterp, d orderDomain, v []*oval) string {
				ab, ok1 := asBool(it, fn("ContainsInterval"), v[0], v[1])
				if !ok1 || !ab {
					return ""
				}
				bc, ok2 := asBool(it, fn("ContainsInterval"), v[1], v[2])
				if !ok2 || !bc {
					return ""
				}
				ac, ok3 := asBool(it, fn("ContainsInterval"), v[0], v[2])
				if ok3 && !ac {
					return "A contains B and B contains C but A does not contain C"
				}
				return ""
			}},
			{"Union-contains-operands", 4, func(it *orderInterp, d orderDomain, v []*oval) string {
				if fn("Union") == nil {
					return "missing Union"
				}
				u := it.callFunc(fn("Union"), v[0], []*oval{v[1]})
				if _, ok := ivalOf(u); !ok {
					return ""
				}
				a, ok1 := asBool(it, fn("ContainsInterval"), u, v[0])
				b, ok2 := asBool(it, fn("ContainsInterval"), u, v[1])
				if ok1 && ok2 && !(a && b) {
					return "the union does not contain one of its operands according to ContainsInterval"
				}
				return ""
			}},
			{"AddPoint-contains", 3, func(it *orderInterp, d orderDomain, v []*oval) string {
				r := it.callFunc(fn("AddPoint"), v[0], []*oval{v[1]})
				if _, ok := ivalOf(r); !ok {
					return ""
				}
				a, ok1 := asBool(it, fn("Contains"), r, v[1])
				b, ok2 := asBool(it, fn("ContainsInterval"), r, v[0])
				if ok1 && ok2 && !(a && b) {
					return "AddPoint's result does not contain the point / the old interval according to Contains / ContainsInterval"
				}
				return ""
			}},
		}
		if !circle {
			laws = append(laws, law{"Intersection-within-operands", 4, func(it *orderInterp, d orderDomain, v []*oval) string {
				r := it.callFunc(fn("Intersection"), v[0], []*oval{v[1]})
				if _, ok := ivalOf(r); !ok {
					return ""
				}
				a, ok1 := asBool(it, fn("ContainsInterval"), v[0], r)
				b, ok2 := asBool(it, fn("ContainsInterval"), v[1], r)
				if ok1 && ok2 && !(a && b) {
					return "the intersection is not contained in both operands"
				}
				return ""
			}})
		}
		for _, lw := range laws {
			construct := pkg + ".Interval:" + lw.name
			k := lw.k
			d := orderDomain{circle: circle, k: k}
			var slots []int
			if circle {
				d.top = 2 * (k + 1)
				for r := 0; r <= d.top; r += 2 {
					slots = append(slots, r)
				}
			} else {
				for r := 2; r <= 2*k; r += 2 {
					slots = append(slots, r)
				}
			}
			ranks := make([]int, k)
			orderings, evals := 0, 0
			failure, problem := "", ""
			var rec func(pos int)
			rec = func(pos int) {
				if failure != "" || problem != "" {
					return
				}
				if pos == k {
					var vals []*oval
					names := []string{}
					switch k {
					case 3:
						I := ival{ranks[0], ranks[1]}
						if !d.valid(I) {
							return
						}
						vals = []*oval{mkIval(I), onum(ranks[2])}
						names = []string{"i.Lo", "i.Hi", "p"}
					default:
						for j := 0; j+1 < k; j += 2 {
							I := ival{ranks[j], ranks[j+1]}
							if !d.valid(I) {
								return
							}
							vals = append(vals, mkIval(I))
						}
						names = []string{"a.Lo", "a.Hi", "b.Lo", "b.Hi", "c.Lo", "c.Hi"}[:k]
					}
					orderings++
					it := &orderInterp{c: c, pkg: pkg, piRank: -1}
					if circle {
						it.piRank = d.top
					}
					it.runAllBody(func() {
						evals++
						if failure != "" {
							return
						}
						if msg := lw.check(it, d, vals); msg != "" {
							failure = msg + ", for the ordering " + d.describe(names, ranks)
						}
						if it.problem != "" {
							problem = it.problem
						}
					})
					return
				}
				for _, s := range slots {
					ranks[pos] = s
					rec(pos + 1)
				}
			}
			rec(0)
			switch {
			case problem != "":
				obs = append(obs, core.Ob("R-ORDERLAWS", construct, "-", "", core.Undecided, "not comparison-only any more: "+problem))
			case failure != "":
				obs = append(obs, core.Ob("R-ORDERLAWS", construct, "-", "", core.Violated, failure))
			default:
				obs = append(obs, core.Ob("R-ORDERLAWS", construct, "-", "", core.Discharged,
					fmt.Sprintf("holds on all %d valid orderings (%d abstract evaluations)", orderings, evals)))
			}
		}
	}
	return obs
}
