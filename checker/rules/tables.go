package rules

import (
	"fmt"
	"go/ast"
	"go/constant"
	"go/token"
	"go/types"
	"strings"

	"golang.org/x/tools/go/ssa"

	"verif/checker/core"
)

func init() {
	core.Register(&core.Rule{
		Name: "R-TABLE",
		Clause: "C01/C09/C12 'all forms describe the same cell': the static tables and six-way case tables that both directions of every conversion are generated from agree with each other - " +
			"posToIJ and ijToPos are inverse permutations derived from the canonical order by the swap/invert orientation bits, posToOrientation is {swap, 0, 0, invert|swap}; " +
			"the six face frames (faceUVWAxes) are orthonormal and right-handed and faceUVWFaces names the face in each axis direction; faceUVToXYZ, validFaceXYZToUV, faceXYZtoUVW, uNorm and vNorm " +
			"are, case by case, the un-projection, projection, transpose and edge normals of those same frames; the bit-interleave tables spread/collect bits as interleaveUint32/deinterleaveUint32 index them. " +
			"Pure data: evaluated with go/constant from the source.",
		Min: 11,
		Run: runTable,
	})
	core.Register(&core.Rule{
		Name: "R-MIRROR",
		Clause: "C01 'neighbour computation by wrapping' and 'AdvanceWrap': code the repository writes twice with the roles exchanged must stay mirrored - in cellIDFromFaceIJWrap the u and v clamps are the " +
			"same expression with i and j exchanged; in AdvanceWrap the re-check after reducing the step count modulo the wrap length is the same comparison as the initial check, in both directions.",
		Min: 3,
		Run: runMirror,
	})
}

// ---- constant tables ----

func pkgVarInit(c *core.Ctx, pkg, name string) (ast.Expr, *types.Info) {
	p := c.Pkgs[pkg]
	if p == nil {
		return nil, nil
	}
	for _, f := range p.Syntax {
		for _, d := range f.Decls {
			gd, ok := d.(*ast.GenDecl)
			if !ok {
				continue
			}
			for _, sp := range gd.Specs {
				vs, ok := sp.(*ast.ValueSpec)
				if !ok {
					continue
				}
				for i, nm := range vs.Names {
					if nm.Name == name && i < len(vs.Values) {
						return vs.Values[i], p.TypesInfo
					}
				}
			}
		}
	}
	return nil, nil
}

// intTable evaluates a (nested) composite literal of integer constants into a nested slice.
func intTable(e ast.Expr, info *types.Info) (interface{}, bool) {
	if tv, ok := info.Types[e]; ok && tv.Value != nil {
		if v, ok := constant.Int64Val(constant.ToInt(tv.Value)); ok {
			return v, true
		}
		return nil, false
	}
	cl, ok := e.(*ast.CompositeLit)
	if !ok {
		return nil, false
	}
	var out []interface{}
	for _, el := range cl.Elts {
		if kv, ok := el.(*ast.KeyValueExpr); ok {
			el = kv.Value
		}
		v, ok := intTable(el, info)
		if !ok {
			return nil, false
		}
		out = append(out, v)
	}
	return out, true
}

func asInts(v interface{}) []int64 {
	var out []int64
	for _, x := range v.([]interface{}) {
		out = append(out, x.(int64))
	}
	return out
}

// vec3 evaluates Point{r3.Vector{X: a, Y: b, Z: c}} / r3.Vector{...} with constant components.
func vec3(e ast.Expr, info *types.Info) ([3]int64, bool) {
	cl, ok := e.(*ast.CompositeLit)
	if !ok {
		return [3]int64{}, false
	}
	if len(cl.Elts) == 1 {
		if inner, ok := cl.Elts[0].(*ast.CompositeLit); ok {
			return vec3(inner, info)
		}
	}
	var out [3]int64
	for i, el := range cl.Elts {
		idx := i
		val := el
		if kv, ok := el.(*ast.KeyValueExpr); ok {
			val = kv.Value
			switch kv.Key.(*ast.Ident).Name {
			case "X":
				idx = 0
			case "Y":
				idx = 1
			case "Z":
				idx = 2
			}
		}
		tv, ok := info.Types[val]
		if !ok || tv.Value == nil || idx > 2 {
			return out, false
		}
		f, _ := constant.Float64Val(constant.ToFloat(tv.Value))
		out[idx] = int64(f)
	}
	return out, true
}

func cross3(a, b [3]int64) [3]int64 {
	return [3]int64{a[1]*b[2] - a[2]*b[1], a[2]*b[0] - a[0]*b[2], a[0]*b[1] - a[1]*b[0]}
}

// faceOfAxis: the face whose outward normal is the given signed unit vector.
func faceOfAxis(v [3]int64) int64 {
	for i := 0; i < 3; i++ {
		if v[i] == 1 {
			return int64(i)
		}
		if v[i] == -1 {
			return int64(i) + 3
		}
	}
	return -1
}

// ---- case tables of the six-way switch functions ----

// lin3 is a component expression: sign * symbol, optionally divided by another signed symbol.
type lin3 struct {
	sign     int64
	sym      string // "0", "1", or a variable / selector name
	den      string
	hasDen   bool
	denSign  int64
	unparsed bool
}

func parseComp(e ast.Expr) lin3 {
	switch x := e.(type) {
	case *ast.ParenExpr:
		return parseComp(x.X)
	case *ast.UnaryExpr:
		if x.Op == token.SUB {
			r := parseComp(x.X)
			r.sign = -r.sign
			return r
		}
	case *ast.BasicLit:
		switch x.Value {
		case "0", "0.0":
			return lin3{sign: 1, sym: "0"}
		case "1", "1.0":
			return lin3{sign: 1, sym: "1"}
		}
	case *ast.Ident:
		return lin3{sign: 1, sym: x.Name}
	case *ast.SelectorExpr:
		return lin3{sign: 1, sym: x.Sel.Name}
	case *ast.BinaryExpr:
		if x.Op == token.QUO {
			n, d := parseComp(x.X), parseComp(x.Y)
			if !n.unparsed && !d.unparsed && !n.hasDen && !d.hasDen {
				return lin3{sign: n.sign, sym: n.sym, hasDen: true, den: d.sym, denSign: d.sign}
			}
		}
	}
	return lin3{unparsed: true}
}

// caseReturns extracts, for a function whose body is `switch face { case k: return ... }` (with default or a trailing
// return standing for face 5), the returned expressions per face.
func caseReturns(decl *ast.FuncDecl) (map[int][]ast.Expr, bool) {
	out := map[int][]ast.Expr{}
	retExprs := func(stmts []ast.Stmt) []ast.Expr {
		for _, s := range stmts {
			if r, ok := s.(*ast.ReturnStmt); ok {
				return r.Results
			}
		}
		return nil
	}
	for _, st := range decl.Body.List {
		switch x := st.(type) {
		case *ast.SwitchStmt:
			for _, cc := range x.Body.List {
				cl := cc.(*ast.CaseClause)
				if cl.List == nil {
					out[5] = retExprs(cl.Body)
					continue
				}
				for _, k := range cl.List {
					if bl, ok := k.(*ast.BasicLit); ok {
						var n int
						fmt.Sscanf(bl.Value, "%d", &n)
						out[n] = retExprs(cl.Body)
					}
				}
			}
		case *ast.ReturnStmt:
			if _, have := out[5]; !have {
				out[5] = x.Results
			}
		}
	}
	for k := 0; k < 6; k++ {
		if out[k] == nil {
			return out, false
		}
	}
	return out, true
}

// vecComps returns the three component expressions of a returned r3.Vector / Point literal.
func vecComps(e ast.Expr) ([3]ast.Expr, bool) {
	var out [3]ast.Expr
	cl, ok := e.(*ast.CompositeLit)
	if !ok {
		return out, false
	}
	if len(cl.Elts) == 1 {
		if inner, ok := cl.Elts[0].(*ast.CompositeLit); ok {
			return vecComps(inner)
		}
	}
	for i, el := range cl.Elts {
		idx := i
		val := el
		if kv, ok := el.(*ast.KeyValueExpr); ok {
			val = kv.Value
			switch kv.Key.(*ast.Ident).Name {
			case "X":
				idx = 0
			case "Y":
				idx = 1
			case "Z":
				idx = 2
			}
		}
		if idx > 2 {
			return out, false
		}
		out[idx] = val
	}
	return out, out[0] != nil && out[1] != nil && out[2] != nil
}

func runTable(c *core.Ctx) []core.Obligation {
	var obs []core.Obligation
	add := func(construct, site string, ok bool, good, bad string) {
		if ok {
			obs = append(obs, core.Ob("R-TABLE", construct, site, "", core.Discharged, good))
		} else {
			obs = append(obs, core.Ob("R-TABLE", construct, site, "", core.Violated, bad))
		}
	}
	// ---- Hilbert curve tables
	swap, _ := constOf(c, "swapMask")
	invert, _ := constOf(c, "invertMask")
	pij, info := pkgVarInit(c, "s2", "posToIJ")
	ijp, _ := pkgVarInit(c, "s2", "ijToPos")
	pto, _ := pkgVarInit(c, "s2", "posToOrientation")
	site := "-"
	if pij != nil {
		site = c.Pos(pij.Pos())
	}
	tPij, ok1 := intTable0(pij, info)
	tIjp, ok2 := intTable0(ijp, info)
	tPto, ok3 := intTable0(pto, info)
	if !ok1 || !ok2 || !ok3 {
		add("hilbert:tables", site, false, "", "posToIJ / ijToPos / posToOrientation are no longer constant tables")
	} else {
		P := tPij.([]interface{})
		I := tIjp.([]interface{})
		okInv, why := true, ""
		for o := 0; o < 4; o++ {
			p, q := asInts(P[o]), asInts(I[o])
			for pos := int64(0); pos < 4; pos++ {
				if p[pos] < 0 || p[pos] > 3 || q[p[pos]] != pos {
					okInv, why = false, fmt.Sprintf("orientation %d: ijToPos[posToIJ[%d]] = %d", o, pos, q[p[pos]%4])
				}
			}
		}
		add("hilbert:posToIJ-ijToPos-inverse", site, okInv, "for all 4 orientations ijToPos[o][posToIJ[o][pos]] == pos", "posToIJ and ijToPos are not inverse permutations: "+why)
		// derived from the canonical order by the orientation bits
		canon := asInts(P[0])
		okDer, why2 := len(canon) == 4 && canon[0] == 0 && canon[1] == 1 && canon[2] == 3 && canon[3] == 2, "the canonical order is not (0,0),(0,1),(1,1),(1,0)"
		for o := int64(0); o < 4 && okDer; o++ {
			for pos := 0; pos < 4; pos++ {
				ij := canon[pos]
				if o&swap != 0 {
					ij = (ij&1)<<1 | ij>>1
				}
				if o&invert != 0 {
					ij ^= 3
				}
				if asInts(P[o])[pos] != ij {
					okDer, why2 = false, fmt.Sprintf("posToIJ[%d][%d] = %d, but applying orientation %d (swap=%d, invert=%d) to the canonical order gives %d", o, pos, asInts(P[o])[pos], o, swap, invert, ij)
				}
			}
		}
		add("hilbert:orientations-derived", site, okDer, "every orientation's order is the canonical order with i,j swapped and/or complemented as its bits say", why2)
		pt := asInts(tPto)
		add("hilbert:posToOrientation", site, len(pt) == 4 && pt[0] == swap && pt[1] == 0 && pt[2] == 0 && pt[3] == (invert|swap),
			"child orientation changes are {swap, 0, 0, invert|swap}", fmt.Sprintf("posToOrientation = %v, the Hilbert recurrence needs {swap, 0, 0, invert|swap}", pt))
	}
	// ---- face frames
	axesE, infoS := pkgVarInit(c, "s2", "faceUVWAxes")
	facesE, _ := pkgVarInit(c, "s2", "faceUVWFaces")
	var frames [6][3][3]int64
	framesOK := false
	if cl, ok := axesE.(*ast.CompositeLit); ok && len(cl.Elts) == 6 {
		framesOK = true
		for f, row := range cl.Elts {
			rl, ok := row.(*ast.CompositeLit)
			if !ok || len(rl.Elts) != 3 {
				framesOK = false
				break
			}
			for a, ve := range rl.Elts {
				v, ok := vec3(ve, infoS)
				if !ok {
					framesOK = false
				}
				frames[f][a] = v
			}
		}
	}
	siteF := "-"
	if axesE != nil {
		siteF = c.Pos(axesE.Pos())
	}
	if !framesOK {
		add("frames:faceUVWAxes", siteF, false, "", "faceUVWAxes is no longer a 6x3 table of constant vectors")
	} else {
		ok, why := true, ""
		for f := 0; f < 6; f++ {
			if cross3(frames[f][0], frames[f][1]) != frames[f][2] {
				ok, why = false, fmt.Sprintf("face %d: U x V != W", f)
			}
			if faceOfAxis(frames[f][2]) != int64(f) {
				ok, why = false, fmt.Sprintf("face %d: W axis %v is not the outward normal of face %d", f, frames[f][2], f)
			}
		}
		add("frames:orthonormal-right-handed", siteF, ok, "for all 6 faces U x V = W and W is the face's outward normal", why)
		// Cell.RectBound chooses the vertex pair that bounds the latitude from the direction of the face's u and v
		// axes (after round-8 seed C12-r8m1, the table lookups uAxis(face).Z == 0 / vAxis(face).Z == 0 replaced by
		// hand-written tests on the face number, one of them wrong): whatever the two conditions are, they must be
		// true for exactly the faces whose u (v) axis has no z component according to faceUVWAxes.
		if fobj := c.LookupFunc("s2", "Cell", "RectBound"); fobj != nil && c.Decl(fobj) != nil {
			decl := c.Decl(fobj)
			info := c.Pkgs["s2"].TypesInfo
			var conds []ast.Expr
			ast.Inspect(decl.Body, func(n ast.Node) bool {
				ifs, ok := n.(*ast.IfStmt)
				if !ok || ifs.Else == nil || len(ifs.Body.List) != 1 {
					return true
				}
				inner, ok := ifs.Body.List[0].(*ast.IfStmt)
				if !ok || len(inner.Body.List) != 1 {
					return true
				}
				if as, ok := inner.Body.List[0].(*ast.AssignStmt); ok && len(as.Lhs) == 1 {
					if id, ok := as.Lhs[0].(*ast.Ident); ok && (id.Name == "i" || id.Name == "j") {
						conds = append(conds, ifs.Cond)
					}
				}
				return true
			})
			var eval func(e ast.Expr, f int64) (bool, bool)
			faceVal := func(e ast.Expr, f int64) (int64, bool) {
				e = ast.Unparen(e)
				if tv, ok := info.Types[e]; ok && tv.Value != nil {
					v, ok := constant.Int64Val(constant.ToInt(tv.Value))
					return v, ok
				}
				if call, ok := e.(*ast.CallExpr); ok && len(call.Args) == 1 {
					e = ast.Unparen(call.Args[0])
				}
				if sel, ok := e.(*ast.SelectorExpr); ok && sel.Sel.Name == "face" {
					return f, true
				}
				return 0, false
			}
			axisZero := func(e ast.Expr, f int64) (bool, bool) {
				// uAxis(int(c.face)).Z == 0
				be, ok := ast.Unparen(e).(*ast.BinaryExpr)
				if !ok || (be.Op != token.EQL && be.Op != token.NEQ) {
					return false, false
				}
				sel, ok := ast.Unparen(be.X).(*ast.SelectorExpr)
				if !ok {
					return false, false
				}
				call, ok := ast.Unparen(sel.X).(*ast.CallExpr)
				if !ok {
					return false, false
				}
				fn, ok := call.Fun.(*ast.Ident)
				if !ok {
					return false, false
				}
				axis := map[string]int{"uAxis": 0, "vAxis": 1, "unitNorm": 2}
				a, ok := axis[fn.Name]
				if !ok {
					return false, false
				}
				comp := map[string]int{"X": 0, "Y": 1, "Z": 2}[sel.Sel.Name]
				k, ok := faceVal(be.Y, f)
				if !ok {
					return false, false
				}
				r := frames[f][a][comp] == k
				if be.Op == token.NEQ {
					r = !r
				}
				return r, true
			}
			eval = func(e ast.Expr, f int64) (bool, bool) {
				e = ast.Unparen(e)
				if r, ok := axisZero(e, f); ok {
					return r, true
				}
				switch x := e.(type) {
				case *ast.UnaryExpr:
					if x.Op == token.NOT {
						r, ok := eval(x.X, f)
						return !r, ok
					}
				case *ast.BinaryExpr:
					switch x.Op {
					case token.LAND, token.LOR:
						l, ok1 := eval(x.X, f)
						r, ok2 := eval(x.Y, f)
						if !ok1 || !ok2 {
							return false, false
						}
						if x.Op == token.LAND {
							return l && r, true
						}
						return l || r, true
					case token.EQL, token.NEQ, token.LSS, token.LEQ, token.GTR, token.GEQ:
						l, ok1 := faceVal(x.X, f)
						r, ok2 := faceVal(x.Y, f)
						if !ok1 || !ok2 {
							return false, false
						}
						switch x.Op {
						case token.EQL:
							return l == r, true
						case token.NEQ:
							return l != r, true
						case token.LSS:
							return l < r, true
						case token.LEQ:
							return l <= r, true
						case token.GTR:
							return l > r, true
						default:
							return l >= r, true
						}
					}
				}
				return false, false
			}
			siteR := c.Pos(decl.Pos())
			if len(conds) != 2 {
				add("frames:Cell.RectBound:axis-direction-tests", siteR, false, "", fmt.Sprintf("unresolved anchor: %d axis-direction tests found in Cell.RectBound, 2 expected", len(conds)))
			} else {
				okR, whyR := true, ""
				for ai, cond := range conds {
					for f := int64(0); f < 6; f++ {
						got, evalOK := eval(cond, f)
						want := frames[f][ai][2] == 0
						if !evalOK {
							okR, whyR = false, "the test `"+types.ExprString(cond)+"` could not be evaluated for a face number"
						} else if got != want && okR {
							okR = false
							whyR = fmt.Sprintf("the test `%s` is %v for face %d, but faceUVWAxes says the %s-axis of face %d has z component %d: the wrong diagonal pair of vertices is taken for the latitude range on that face, so the bound is too narrow and leaves out vertices of the cell itself", types.ExprString(cond), got, f, []string{"u", "v"}[ai], f, frames[f][ai][2])
						}
					}
				}
				add("frames:Cell.RectBound:axis-direction-tests", siteR, okR, "both tests agree with faceUVWAxes on all six faces", whyR)
			}
		}
		// faceUVWFaces
		tf, okT := intTable0(facesE, infoS)
		okF, whyF := okT, "faceUVWFaces is no longer a constant table"
		if okT {
			rows := tf.([]interface{})
			for f := 0; f < 6 && okF; f++ {
				for a := 0; a < 3; a++ {
					pair := asInts(rows[f].([]interface{})[a])
					neg := [3]int64{-frames[f][a][0], -frames[f][a][1], -frames[f][a][2]}
					if pair[0] != faceOfAxis(neg) || pair[1] != faceOfAxis(frames[f][a]) {
						okF, whyF = false, fmt.Sprintf("faceUVWFaces[%d][%d] = %v but the faces in the -/+ direction of that axis are {%d, %d}", f, a, pair, faceOfAxis(neg), faceOfAxis(frames[f][a]))
					}
				}
			}
		}
		add("frames:faceUVWFaces", siteF, okF, "every entry names the face whose normal is -/+ the corresponding axis", whyF)
		// case tables
		type want func(f int, comp int) lin3 // expected component for face f
		axisTerm := func(f, comp int, terms []struct {
			axis int
			sym  string
		}) lin3 {
			// the component equals sum over terms of frames[f][axis][comp] * sym ; exactly one term is non-zero
			for _, t := range terms {
				if k := frames[f][t.axis][comp]; k != 0 {
					return lin3{sign: k, sym: t.sym}
				}
			}
			return lin3{sign: 1, sym: "0"}
		}
		checkVecFunc := func(name string, expect func(f, comp int) lin3) {
			fn := c.LookupFunc("s2", "", name)
			construct := "frames:" + name
			if fn == nil || c.Decl(fn) == nil {
				add(construct, "-", false, "", "unresolved anchor")
				return
			}
			cases, ok := caseReturns(c.Decl(fn))
			if !ok {
				add(construct, c.Pos(fn.Pos()), false, "", "not a six-way switch over the face any more")
				return
			}
			for f := 0; f < 6; f++ {
				if len(cases[f]) != 1 {
					add(construct, c.Pos(fn.Pos()), false, "", fmt.Sprintf("face %d does not return a single vector", f))
					return
				}
				comps, ok := vecComps(cases[f][0])
				if !ok {
					add(construct, c.Pos(fn.Pos()), false, "", fmt.Sprintf("face %d does not return a vector literal", f))
					return
				}
				for k := 0; k < 3; k++ {
					got := parseComp(comps[k])
					w := expect(f, k)
					if got.unparsed || got.sym != w.sym || (w.sym != "0" && got.sign != w.sign) {
						add(construct, c.Pos(fn.Pos()), false, "",
							fmt.Sprintf("face %d, component %s: the code has %s but the frame table (U=%v V=%v W=%v) requires %s%s",
								f, []string{"X", "Y", "Z"}[k], types.ExprString(comps[k]), frames[f][0], frames[f][1], frames[f][2], map[int64]string{1: "", -1: "-"}[w.sign], w.sym))
						return
					}
				}
			}
			add(construct, c.Pos(fn.Pos()), true, "all 6 cases agree with faceUVWAxes", "")
		}
		type T = struct {
			axis int
			sym  string
		}
		checkVecFunc("faceUVToXYZ", func(f, k int) lin3 { return axisTerm(f, k, []T{{2, "1"}, {0, "u"}, {1, "v"}}) })
		checkVecFunc("uNorm", func(f, k int) lin3 {
			// u*W - U
			if w := frames[f][2][k]; w != 0 {
				return lin3{sign: w, sym: "u"}
			}
			if u := frames[f][0][k]; u != 0 {
				return lin3{sign: -u, sym: "1"}
			}
			return lin3{sign: 1, sym: "0"}
		})
		checkVecFunc("vNorm", func(f, k int) lin3 {
			// V - v*W
			if w := frames[f][2][k]; w != 0 {
				return lin3{sign: -w, sym: "v"}
			}
			if v := frames[f][1][k]; v != 0 {
				return lin3{sign: v, sym: "1"}
			}
			return lin3{sign: 1, sym: "0"}
		})
		checkVecFunc("faceXYZtoUVW", func(f, k int) lin3 {
			// component k (u,v,w) = p . axis_k
			for comp, name := range []string{"X", "Y", "Z"} {
				if s := frames[f][k][comp]; s != 0 {
					return lin3{sign: s, sym: name}
				}
			}
			return lin3{sign: 1, sym: "0"}
		})
		// validFaceXYZToUV: (r.U / r.W, r.V / r.W)
		{
			fn := c.LookupFunc("s2", "", "validFaceXYZToUV")
			construct := "frames:validFaceXYZToUV"
			if fn == nil || c.Decl(fn) == nil {
				add(construct, "-", false, "", "unresolved anchor")
			} else if cases, ok := caseReturns(c.Decl(fn)); !ok {
				add(construct, c.Pos(fn.Pos()), false, "", "not a six-way switch over the face any more")
			} else {
				okAll, why := true, ""
				dot := func(f, axis int) (int64, string) {
					for comp, name := range []string{"X", "Y", "Z"} {
						if s := frames[f][axis][comp]; s != 0 {
							return s, name
						}
					}
					return 0, ""
				}
				for f := 0; f < 6 && okAll; f++ {
					if len(cases[f]) != 2 {
						okAll, why = false, fmt.Sprintf("face %d does not return (u, v)", f)
						break
					}
					for k := 0; k < 2; k++ {
						got := parseComp(cases[f][k])
						sn, nn := dot(f, k)
						sd, dn := dot(f, 2)
						if got.unparsed || !got.hasDen || got.sym != nn || got.den != dn || got.sign*got.denSign != sn*sd {
							okAll, why = false, fmt.Sprintf("face %d, %s: the code has %s but projecting with the frame table gives %s%s / %s", f, []string{"u", "v"}[k],
								types.ExprString(cases[f][k]), map[int64]string{1: "", -1: "-"}[sn*sd], "r."+nn, "r."+dn)
						}
					}
				}
				add(construct, c.Pos(fn.Pos()), okAll, "all 6 cases are (r.U/r.W, r.V/r.W) of faceUVWAxes", why)
			}
		}
	}
	// ---- interleave tables
	{
		il, infoI := pkgVarInit(c, "s2", "interleaveLookup")
		dl, _ := pkgVarInit(c, "s2", "deinterleaveLookup")
		ti, ok1 := intTable0(il, infoI)
		td, ok2 := intTable0(dl, infoI)
		siteI := "-"
		if il != nil {
			siteI = c.Pos(il.Pos())
		}
		if !ok1 || !ok2 {
			add("interleave:tables", siteI, false, "", "the interleave tables are no longer constant tables")
		} else {
			I, D := asInts(ti), asInts(td)
			spread := func(b int64) int64 {
				var r int64
				for k := uint(0); k < 8; k++ {
					if b&(1<<k) != 0 {
						r |= 1 << (2 * k)
					}
				}
				return r
			}
			collect := func(x int64, odd uint) int64 {
				var r int64
				for k := uint(0); k < 4; k++ {
					if x&(1<<(2*k+odd)) != 0 {
						r |= 1 << k
					}
				}
				return r
			}
			ok, why := len(I) == 256 && len(D) == 256, "table length"
			for b := int64(0); b < 256 && ok; b++ {
				if I[b] != spread(b) {
					ok, why = false, fmt.Sprintf("interleaveLookup[%d] = %#x, spreading the bits of %d gives %#x", b, I[b], b, spread(b))
				}
				if b&0xaa == 0 && D[b] != collect(b, 0) {
					ok, why = false, fmt.Sprintf("deinterleaveLookup[%#x] = %d, the even bits are %d", b, D[b], collect(b, 0))
				}
				if b&0x55 == 0 && D[b] != collect(b, 1) {
					ok, why = false, fmt.Sprintf("deinterleaveLookup[%#x] = %d, the odd bits are %d", b, D[b], collect(b, 1))
				}
			}
			add("interleave:spread-collect", siteI, ok, "interleaveLookup spreads all 256 bytes; deinterleaveLookup collects the even (mask 0x55) and odd (mask 0xaa) bits for all 256 indices", why)
		}
	}
	return obs
}

func intTable0(e ast.Expr, info *types.Info) (interface{}, bool) {
	if e == nil || info == nil {
		return nil, false
	}
	return intTable(e, info)
}

// ---------------------------------------------------------------------------

func runMirror(c *core.Ctx) []core.Obligation {
	var obs []core.Obligation
	// (1) cellIDFromFaceIJWrap: u and v clamps mirror each other under i <-> j
	{
		fn := c.LookupFunc("s2", "", "cellIDFromFaceIJWrap")
		construct := "cellIDFromFaceIJWrap:u-v-clamps"
		if fn == nil || c.Decl(fn) == nil {
			obs = append(obs, core.Ob("R-MIRROR", construct, "-", "", core.Violated, "unresolved anchor"))
		} else {
			decl := c.Decl(fn)
			var uE, vE ast.Expr
			ast.Inspect(decl.Body, func(n ast.Node) bool {
				if as, ok := n.(*ast.AssignStmt); ok && len(as.Lhs) == 1 && len(as.Rhs) == 1 {
					if id, ok := as.Lhs[0].(*ast.Ident); ok {
						switch id.Name {
						case "u":
							if uE == nil {
								uE = as.Rhs[0]
							}
						case "v":
							if vE == nil {
								vE = as.Rhs[0]
							}
						}
					}
				}
				return true
			})
			if uE == nil || vE == nil {
				obs = append(obs, core.Ob("R-MIRROR", construct, c.Pos(fn.Pos()), fn.FullName(), core.Violated, "the u / v clamp assignments were not found"))
			} else {
				us := alphaPrint(uE, func(id *ast.Ident) string {
					if id.Name == "i" {
						return "$ij"
					}
					return id.Name
				})
				vs := alphaPrint(vE, func(id *ast.Ident) string {
					if id.Name == "j" {
						return "$ij"
					}
					return id.Name
				})
				if us == vs {
					obs = append(obs, core.Ob("R-MIRROR", construct, c.Pos(uE.Pos()), fn.FullName(), core.Discharged, "the clamp of v is the clamp of u with j in place of i: "+types.ExprString(uE)))
				} else {
					obs = append(obs, core.Ob("R-MIRROR", construct, c.Pos(uE.Pos()), fn.FullName(), core.Violated,
						fmt.Sprintf("the two clamps differ beyond the exchange of i and j: u = %s ; v = %s. One of them no longer limits the coordinate to just beyond the face edge, so a neighbour across that edge is computed from a point far outside the face", types.ExprString(uE), types.ExprString(vE))))
				}
			}
		}
	}
	// (2) AdvanceWrap: inner re-check equals the outer check, in both directions
	{
		fn := c.LookupFunc("s2", "CellID", "AdvanceWrap")
		if fn == nil || c.Decl(fn) == nil {
			obs = append(obs, core.Ob("R-MIRROR", "AdvanceWrap:recheck", "-", "", core.Violated, "unresolved anchor"))
		} else {
			decl := c.Decl(fn)
			n := 0
			ast.Inspect(decl.Body, func(node ast.Node) bool {
				outer, ok := node.(*ast.IfStmt)
				if !ok {
					return true
				}
				oc, ok := outer.Cond.(*ast.BinaryExpr)
				if !ok || !(oc.Op == token.LSS || oc.Op == token.GTR || oc.Op == token.LEQ || oc.Op == token.GEQ) {
					return true
				}
				if id, ok := oc.X.(*ast.Ident); !ok || id.Name != "steps" {
					return true
				}
				if _, isIdent := oc.Y.(*ast.Ident); !isIdent {
					return true // the sign test `steps < 0`, not a limit test
				}
				// an inner if on steps inside this if's body
				for _, st := range outer.Body.List {
					inner, ok := st.(*ast.IfStmt)
					if !ok {
						continue
					}
					ic, ok := inner.Cond.(*ast.BinaryExpr)
					if !ok {
						continue
					}
					if id, ok := ic.X.(*ast.Ident); !ok || id.Name != "steps" {
						continue
					}
					n++
					construct := fmt.Sprintf("AdvanceWrap:recheck#%d", n)
					if types.ExprString(ic) == types.ExprString(oc) {
						obs = append(obs, core.Ob("R-MIRROR", construct, c.Pos(inner.Pos()), fn.FullName(), core.Discharged, "after reducing modulo the wrap length the same test is repeated: "+types.ExprString(oc)))
					} else {
						obs = append(obs, core.Ob("R-MIRROR", construct, c.Pos(inner.Pos()), fn.FullName(), core.Violated,
							fmt.Sprintf("the step count is first tested with `%s` but re-tested with `%s` after the reduction: a walk that ends exactly on the boundary cell is wrapped once too often (or not at all)", types.ExprString(oc), types.ExprString(ic))))
					}
				}
				return true
			})
			if n < 2 {
				obs = append(obs, core.Ob("R-MIRROR", "AdvanceWrap:recheck", c.Pos(fn.Pos()), fn.FullName(), core.Violated, fmt.Sprintf("%d re-checks found, 2 expected (backward and forward)", n)))
			}
		}
	}
	// 32-bit int: the wrap helper receives coordinates up to a whole face width beyond the face (neighbours of a face
	// cell); they are brought into [-1, MaxSize] BEFORE the shift (i<<1)+1-MaxSize, which otherwise overflows a 32-bit int
	if fn := c.Fn("s2", "", "cellIDFromFaceIJWrap"); fn != nil {
		n, ok, why := 0, true, ""
		core.AllInstrs(fn, func(in ssa.Instruction) {
			bo, isBo := in.(*ssa.BinOp)
			if !isBo || bo.Op != token.SHL {
				return
			}
			if b, isB := bo.Type().Underlying().(*types.Basic); !isB || b.Kind() != types.Int {
				return
			}
			n++
			call, isCall := bo.X.(*ssa.Call)
			if !isCall || core.StaticCallee(call) == nil || core.StaticCallee(call).Name() != "clampInt" || len(call.Call.Args) != 3 {
				ok, why = false, "the coordinate shifted left in cellIDFromFaceIJWrap is not first clamped to [-1, MaxSize]: on a build where int has 32 bits, (i<<1)+1-MaxSize overflows for the neighbours of a face cell (i one face width off the face) and the neighbour lands on the wrong face"
				return
			}
			lo, okLo := core.ConstInt(call.Call.Args[1])
			hi, okHi := core.ConstInt(call.Call.Args[2])
			if !okLo || !okHi || lo < -(1<<30) || hi > (1<<30) {
				ok, why = false, "the clamp before the shift does not keep the coordinate within 31 bits"
			}
		})
		if n < 2 {
			ok, why = false, fmt.Sprintf("%d shifts found in cellIDFromFaceIJWrap, 2 expected", n)
		}
		if ok {
			obs = append(obs, core.Ob("R-MIRROR", "wrap:int-clamp", c.Pos(fn.Pos()), core.FuncName(fn), core.Discharged, "both coordinates are clamped to [-1, MaxSize] before the shift: no overflow with 32-bit int"))
		} else {
			obs = append(obs, core.Ob("R-MIRROR", "wrap:int-clamp", c.Pos(fn.Pos()), core.FuncName(fn), core.Violated, why))
		}
	} else {
		obs = append(obs, core.Ob("R-MIRROR", "wrap:int-clamp", "-", "", core.Violated, "unresolved anchor"))
	}
	// one projection kernel: the leaf cell of a point (xyzToFaceUV, via cellIDFromPoint) and the containment test of a
	// cell (faceXYZToUV, via Cell.ContainsPoint) must compute (u,v) with the very same floating-point operations, or
	// they disagree by more than the containment margin allows; both delegate to validFaceXYZToUV and do no
	// multiplication or division of their own
	for _, name := range []string{"xyzToFaceUV", "faceXYZToUV"} {
		fn := c.Fn("s2", "", name)
		construct := "projection:single-kernel:" + name
		if fn == nil {
			obs = append(obs, core.Ob("R-MIRROR", construct, "-", "", core.Violated, "unresolved anchor"))
			continue
		}
		delegates, ownArith := false, ""
		core.AllInstrs(fn, func(in ssa.Instruction) {
			switch x := in.(type) {
			case *ssa.Call:
				if f := core.StaticCallee(x); f != nil && f.Name() == "validFaceXYZToUV" {
					delegates = true
				}
			case *ssa.BinOp:
				if b, isB := x.Type().Underlying().(*types.Basic); isB && b.Info()&types.IsFloat != 0 && (x.Op == token.MUL || x.Op == token.QUO) {
					ownArith = c.Pos(x.Pos())
				}
			}
		})
		if delegates && ownArith == "" {
			obs = append(obs, core.Ob("R-MIRROR", construct, c.Pos(fn.Pos()), core.FuncName(fn), core.Discharged, "(u,v) come from validFaceXYZToUV, no arithmetic of its own"))
		} else {
			why := "does not delegate to validFaceXYZToUV"
			if ownArith != "" {
				why = "computes (u,v) with its own multiplication/division at " + ownArith
			}
			obs = append(obs, core.Ob("R-MIRROR", construct, c.Pos(fn.Pos()), core.FuncName(fn), core.Violated,
				name+" "+why+": the point-to-cell conversion and Cell.ContainsPoint no longer use the same floating-point operations, so for points within a few ulps of a cell boundary the leaf cell of a point (and its ancestors) can fail to contain it"))
		}
	}
	_ = strings.Join
	obs = append(obs, stToUVAntisymmetric(c))
	obs = append(obs, rawStepsArithmetic(c)...)
	obs = append(obs, posMaskAndShifts(c)...)
	obs = append(obs, latEdgeMirror(c), shrinkToFitMirror(c))
	return obs
}

// stToUVAntisymmetric (after round-6 seed C04-r6m3, the s < 0.5 branch rewritten as the algebraically equal
// (1/3.)*(2*s-1)*(3-2*s)): the same cube-edge point is computed on one face from s and on the neighbouring face from
// 1-s with the axis negated. The loops of adjacent cells share that vertex only if stToUV(1-s) == -stToUV(s) holds
// bit for bit, which the library gets from writing the lower branch as the mirror image of the upper one:
// K*(A - B) above, K*(B' - A') below, where X' is X with s replaced by (1 - s) (x - y == -(y - x) exactly in
// IEEE arithmetic). The two return expressions are compared in that form.
func stToUVAntisymmetric(c *core.Ctx) core.Obligation {
	const construct = "stToUV:branches-are-mirror-images"
	f := c.LookupFunc("s2", "", "stToUV")
	if f == nil || c.Decl(f) == nil {
		return core.Ob("R-MIRROR", construct, "-", "", core.Violated, "unresolved anchor")
	}
	decl := c.Decl(f)
	site := c.Pos(decl.Pos())
	if decl.Type.Params == nil || len(decl.Type.Params.List) != 1 || len(decl.Type.Params.List[0].Names) != 1 {
		return core.Ob("R-MIRROR", construct, site, f.FullName(), core.Violated, "unresolved anchor: one parameter expected")
	}
	param := decl.Type.Params.List[0].Names[0].Name
	var upper, lower ast.Expr
	for _, st := range decl.Body.List {
		switch x := st.(type) {
		case *ast.IfStmt:
			cond, ok := x.Cond.(*ast.BinaryExpr)
			if !ok || len(x.Body.List) != 1 {
				continue
			}
			ret, ok := x.Body.List[0].(*ast.ReturnStmt)
			if !ok || len(ret.Results) != 1 {
				continue
			}
			switch cond.Op {
			case token.GEQ, token.GTR:
				upper = ret.Results[0]
			case token.LSS, token.LEQ:
				lower = ret.Results[0]
			}
			if x.Else != nil {
				if eb, ok := x.Else.(*ast.BlockStmt); ok && len(eb.List) == 1 {
					if r2, ok := eb.List[0].(*ast.ReturnStmt); ok && len(r2.Results) == 1 {
						if upper != nil && lower == nil {
							lower = r2.Results[0]
						} else if lower != nil && upper == nil {
							upper = r2.Results[0]
						}
					}
				}
			}
		case *ast.ReturnStmt:
			if len(x.Results) == 1 {
				if upper != nil && lower == nil {
					lower = x.Results[0]
				} else if lower != nil && upper == nil {
					upper = x.Results[0]
				}
			}
		}
	}
	if upper == nil || lower == nil {
		return core.Ob("R-MIRROR", construct, site, f.FullName(), core.Violated, "unresolved anchor: the two return expressions of stToUV were not found")
	}
	var render func(e ast.Expr, mirror bool) string
	render = func(e ast.Expr, mirror bool) string {
		switch x := ast.Unparen(e).(type) {
		case *ast.Ident:
			if mirror && x.Name == param {
				return "(1-" + param + ")"
			}
			return x.Name
		case *ast.BasicLit:
			return strings.TrimSuffix(x.Value, ".")
		case *ast.BinaryExpr:
			l, r := render(x.X, mirror), render(x.Y, mirror)
			if x.Op == token.MUL && r < l {
				l, r = r, l
			}
			return "(" + l + x.Op.String() + r + ")"
		case *ast.UnaryExpr:
			return "(" + x.Op.String() + render(x.X, mirror) + ")"
		}
		return "?" + types.ExprString(e)
	}
	// upper = K * (A - B)
	split := func(e ast.Expr) (k ast.Expr, a, b ast.Expr, ok bool) {
		m, isM := ast.Unparen(e).(*ast.BinaryExpr)
		if !isM || m.Op != token.MUL {
			return nil, nil, nil, false
		}
		for _, pair := range [][2]ast.Expr{{m.X, m.Y}, {m.Y, m.X}} {
			if d, isD := ast.Unparen(pair[1]).(*ast.BinaryExpr); isD && d.Op == token.SUB {
				return pair[0], d.X, d.Y, true
			}
		}
		return nil, nil, nil, false
	}
	ku, au, bu, ok1 := split(upper)
	kl, al, bl, ok2 := split(lower)
	bad := "the lower branch of stToUV is not the upper branch with s replaced by 1-s and the subtraction reversed: the identity stToUV(1-s) == -stToUV(s) then holds only up to rounding, the corner shared by cells on two cube faces is computed one ulp apart on some of them, and that corner is contained by no loop or by two of the loops that tile the sphere"
	if !ok1 || !ok2 {
		return core.Ob("R-MIRROR", construct, site, f.FullName(), core.Violated, "the return expressions do not have the form K * (A - B): "+bad)
	}
	// the upper branch may itself be written with 1-s (and the lower with s): accept either direction
	fwd := render(ku, false) == render(kl, false) && render(au, true) == render(bl, false) && render(bu, true) == render(al, false)
	rev := render(ku, false) == render(kl, false) && render(al, true) == render(bu, false) && render(bl, true) == render(au, false)
	if fwd || rev {
		return core.Ob("R-MIRROR", construct, site, f.FullName(), core.Discharged, "upper "+types.ExprString(upper)+", lower "+types.ExprString(lower)+": mirror images under s -> 1-s with the subtraction reversed, so stToUV(1-s) == -stToUV(s) exactly")
	}
	return core.Ob("R-MIRROR", construct, site, f.FullName(), core.Violated, "upper "+types.ExprString(upper)+", lower "+types.ExprString(lower)+": "+bad)
}

// rawStepsArithmetic (after round-6 seed C01-r6m3, Advance rewritten as clamp(distanceFromBegin() + steps)): the step
// count of Advance / AdvanceWrap is any int64. Both functions first bring it into the range of the level (comparing it
// with the largest possible step, or reducing it modulo the curve length) and only then do arithmetic with it; a signed
// + or - whose operand is the caller's value itself overflows for large counts, and the clamp that follows sees the
// wrapped sum (Advance(MaxInt64) lands on Begin() instead of End()).
func rawStepsArithmetic(c *core.Ctx) []core.Obligation {
	var obs []core.Obligation
	for _, name := range []string{"Advance", "AdvanceWrap"} {
		construct := "CellID." + name + ":no-arithmetic-on-raw-steps"
		fn := c.Fn("s2", "CellID", name)
		if fn == nil || len(fn.Params) != 2 {
			obs = append(obs, core.Ob("R-MIRROR", construct, "-", "", core.Violated, "unresolved anchor"))
			continue
		}
		steps := fn.Params[1]
		isRaw := func(v ssa.Value) bool {
			if v == ssa.Value(steps) {
				return true
			}
			// the spill slot of the parameter, reloaded before anything else was stored
			return false
		}
		bad := ""
		core.AllInstrs(fn, func(in ssa.Instruction) {
			bo, ok := in.(*ssa.BinOp)
			if !ok || (bo.Op != token.ADD && bo.Op != token.SUB && bo.Op != token.MUL) {
				return
			}
			b, ok := bo.Type().Underlying().(*types.Basic)
			if !ok || b.Info()&types.IsUnsigned != 0 || b.Info()&types.IsInteger == 0 {
				return
			}
			if isRaw(bo.X) || isRaw(bo.Y) {
				bad = c.Pos(bo.Pos())
			}
		})
		if bad != "" {
			obs = append(obs, core.Ob("R-MIRROR", construct, bad, core.FuncName(fn), core.Violated,
				"the caller's step count enters a signed "+"addition/subtraction/multiplication at "+bad+" before it has been limited to the range of the level: for counts near the ends of int64 the result wraps around, the clamp that follows sees a negative (or small) value, and the cell returned is at the wrong end of the curve"))
		} else {
			obs = append(obs, core.Ob("R-MIRROR", construct, c.Pos(fn.Pos()), core.FuncName(fn), core.Discharged, "the step count is only compared or reduced (%) before any signed arithmetic uses it"))
		}
	}
	return obs
}

// posMaskAndShifts (after round-8 seeds C01-r8m1, Pos() masked with lsbForLevel(0)-1, one bit short, and C01-r8m2,
// `uint64(face<<PosBits)` - the shift done in `int` before the widening conversion).
//
// (pos-mask) A cell id is face (3 bits) followed by the position (PosBits = 61 bits); Face() shifts the position away
// and Pos() must keep exactly those PosBits bits: its mask is the constant 2^PosBits - 1.
//
// (int-shift) `int` is 32 bits wide on 32-bit platforms. A shift of an int (or uint) value by a constant of 31 or more
// produces 0 there, silently: every such shift in the library is done on a 64-bit type.
func posMaskAndShifts(c *core.Ctx) []core.Obligation {
	var obs []core.Obligation
	posBits := int64(-1)
	if pkg := c.Pkgs["s2"]; pkg != nil {
		if o, ok := pkg.Types.Scope().Lookup("PosBits").(*types.Const); ok {
			if v, ok := constant.Int64Val(constant.ToInt(o.Val())); ok {
				posBits = v
			}
		}
	}
	if fn := c.Fn("s2", "CellID", "Pos"); fn != nil && posBits > 0 {
		ok, found := false, false
		core.AllInstrs(fn, func(in ssa.Instruction) {
			bo, isBo := in.(*ssa.BinOp)
			if !isBo || bo.Op != token.AND {
				return
			}
			found = true
			for _, o := range []ssa.Value{bo.X, bo.Y} {
				if k, isK := o.(*ssa.Const); isK && k.Value != nil {
					if u, exact := constant.Uint64Val(constant.ToInt(k.Value)); exact && u == (uint64(1)<<uint(posBits))-1 {
						ok = true
					}
				}
			}
		})
		switch {
		case !found:
			obs = append(obs, core.Ob("R-MIRROR", "CellID.Pos:mask-is-PosBits", c.Pos(fn.Pos()), core.FuncName(fn), core.Violated, "unresolved anchor: Pos() no longer masks the id"))
		case ok:
			obs = append(obs, core.Ob("R-MIRROR", "CellID.Pos:mask-is-PosBits", c.Pos(fn.Pos()), core.FuncName(fn), core.Discharged, fmt.Sprintf("the mask is the constant 2^%d - 1, the bits Face() shifts away", posBits)))
		default:
			obs = append(obs, core.Ob("R-MIRROR", "CellID.Pos:mask-is-PosBits", c.Pos(fn.Pos()), core.FuncName(fn), core.Violated,
				fmt.Sprintf("Pos() does not mask the id with the constant 2^%d - 1: Face() and Pos() must split the 64 bits between them, so with any other mask CellIDFromFacePosLevel(ci.Face(), ci.Pos(), ci.Level()) is not ci for the ids whose lost bit is set (the second half of every face)", posBits)))
		}
	} else {
		obs = append(obs, core.Ob("R-MIRROR", "CellID.Pos:mask-is-PosBits", "-", "", core.Violated, "unresolved anchor"))
	}
	nshift, bad := 0, 0
	for _, fn := range c.GeoFuncs() {
		n := 0
		core.AllInstrs(fn, func(in ssa.Instruction) {
			bo, ok := in.(*ssa.BinOp)
			if !ok || bo.Op != token.SHL {
				return
			}
			nshift++
			b, ok := bo.Type().Underlying().(*types.Basic)
			if !ok || (b.Kind() != types.Int && b.Kind() != types.Uint && b.Kind() != types.Uintptr) {
				return
			}
			k, isK := core.ConstInt(core.StripConv(bo.Y))
			if !isK || k < 31 {
				return
			}
			if _, constOperand := bo.X.(*ssa.Const); constOperand {
				return // a constant expression: the compiler would have rejected an overflow
			}
			n++
			bad++
			obs = append(obs, core.Ob("R-MIRROR", fmt.Sprintf("int-shift:%s#%d", core.FuncName(fn), n), c.Pos(bo.Pos()), core.FuncName(fn), core.Violated,
				fmt.Sprintf("a value of type %s is shifted left by %d: int is 32 bits wide on 32-bit platforms, where this shift yields 0 (widening the RESULT to 64 bits afterwards does not bring the bits back) - ids built this way all land on face 0 there", b.Name(), k)))
		})
	}
	if bad == 0 {
		obs = append(obs, core.Ob("R-MIRROR", "int-shift:scan", "-", "", core.Discharged, fmt.Sprintf("%d left shifts examined; none shifts a platform-sized integer by 31 bits or more", nshift)))
	}
	return obs
}
