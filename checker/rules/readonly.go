package rules

import (
	"fmt"
	"go/token"
	"go/types"
	"sort"
	"strings"

	"golang.org/x/tools/go/callgraph"
	"golang.org/x/tools/go/ssa"

	"verif/checker/core"
)

func init() {
	core.Register(&core.Rule{
		Name: "R-READONLY",
		Clause: "C14 'queries never write shared geometry': no function reachable from a read-only public entry point (outside the mutex-protected lazy update) stores into an object of a shared " +
			"geometry/index type unless that object was freshly allocated by the query itself. Entry points are all exported functions and methods except the documented mutators and constructors.",
		Min: 8,
		Run: runReadonly,
	})
	core.Register(&core.Rule{
		Name: "R-SYNCED",
		Clause: "C14/C13 'first queries that trigger deferred construction': every index iterator is created through a constructor that applies pending updates before it reads the cell list, " +
			"iterators are only created by the constructor (or clone), and ShapeIndex.cells/cellMap are read only by iterator methods, under the mutex, or by single-threaded mutators.",
		Min: 8,
		Run: runSynced,
	})
}

// sharedTypes are the types whose objects may be shared between goroutines that only query them.
var sharedTypes = map[string]bool{
	"ShapeIndex": true, "ShapeIndexCell": true, "clippedShape": true,
	"Loop": true, "Polygon": true, "Polyline": true, "LaxLoop": true, "LaxPolygon": true, "LaxPolyline": true, "PointVector": true,
	"CellUnion": true, "CellIndex": true,
}

// documentedMutators: exported functions/methods that are documented to modify their receiver (or an
// argument) and therefore must not run concurrently with queries on the same object. One reason each.
var documentedMutators = map[string]string{
	"(*s2.ShapeIndex).Add":           "mutator by contract",
	"(*s2.ShapeIndex).Remove":        "mutator by contract",
	"(*s2.ShapeIndex).Reset":         "mutator by contract",
	"(*s2.Loop).Invert":              "mutator by contract",
	"(*s2.Loop).Normalize":           "mutator by contract (may invert)",
	"(*s2.Polygon).Invert":           "mutator by contract",
	"(*s2.Loop).Decode":              "overwrites the receiver",
	"(*s2.Polygon).Decode":           "overwrites the receiver",
	"(*s2.Polyline).Decode":          "overwrites the receiver",
	"(*s2.CellUnion).Decode":         "overwrites the receiver",
	"(*s2.CellUnion).Normalize":      "mutator by contract",
	"(*s2.CellUnion).Denormalize":    "mutator by contract",
	"(*s2.CellUnion).ExpandAtLevel":  "mutator by contract",
	"(*s2.CellUnion).ExpandByRadius": "mutator by contract",
	"(*s2.Polyline).Reverse":         "mutator by contract",
	"(*s2.CellIndex).Add":            "mutator by contract",
	"(*s2.CellIndex).AddCellUnion":   "mutator by contract",
	"(*s2.CellIndex).Build":          "mutator by contract (explicit build step, documented as not thread-safe)",
	"(*s2.PointVector).Decode":       "overwrites the receiver",
	"(*s2.LaxPolygon).Decode":        "overwrites the receiver",
	"(*s2.LaxPolyline).Decode":       "overwrites the receiver",
}

// constructorsTakingOwnership: constructors documented to take ownership of (and adjust) the objects passed in.
var constructorsTakingOwnership = map[string]string{
	"s2.PolygonFromLoops":         "documented: the given loops are reordered and their depths assigned",
	"s2.PolygonFromOrientedLoops": "documented: loops may be inverted during initialisation",
	"s2.PolygonOfCellUnion":       "builds a new polygon",
	"s2.PolygonFromCell":          "builds a new polygon",
}

// storeTarget describes what object a store writes.
type storeTarget struct {
	sharedType string    // name of the shared type written, "" if none
	root       ssa.Value // ultimate base of the address
}

func sharedNameOf(t types.Type) string {
	if p, ok := t.Underlying().(*types.Pointer); ok {
		t = p.Elem()
	}
	if n, ok := t.(*types.Named); ok && n.Obj().Pkg() != nil && strings.HasPrefix(n.Obj().Pkg().Path(), core.GeoPath) && sharedTypes[n.Obj().Name()] {
		return n.Obj().Name()
	}
	return ""
}

// analyseAddr walks an address expression outward and reports the first shared type written through and the root.
func analyseAddr(addr ssa.Value) storeTarget {
	var st storeTarget
	v := addr
	for depth := 0; depth < 16; depth++ {
		switch x := v.(type) {
		case *ssa.FieldAddr:
			if n := sharedNameOf(x.X.Type()); n != "" && st.sharedType == "" {
				st.sharedType = n
			}
			v = x.X
		case *ssa.IndexAddr:
			if n := sharedNameOf(x.X.Type()); n != "" && st.sharedType == "" {
				st.sharedType = n
			}
			v = x.X
		case *ssa.Slice:
			v = x.X
		case *ssa.UnOp:
			if x.Op != token.MUL {
				st.root = x
				return st
			}
			if n := sharedNameOf(x.Type()); n != "" && st.sharedType == "" {
				st.sharedType = n
			}
			v = x.X
		case *ssa.ChangeType:
			v = x.X
		case *ssa.Convert:
			v = x.X
		default:
			if n := sharedNameOf(v.Type()); n != "" && st.sharedType == "" {
				// writing *p where p points to a shared object (e.g. *cu = ...)
				if _, isPtr := v.Type().Underlying().(*types.Pointer); isPtr {
					st.sharedType = n
				}
			}
			st.root = v
			return st
		}
	}
	st.root = v
	return st
}

type freshness struct {
	c       *core.Ctx
	scope   map[*ssa.Function]*callgraph.Edge
	memoRet map[*ssa.Function]int // 0 unknown, 1 fresh, 2 not
	memoPar map[*ssa.Parameter]int
}

// isFresh reports whether v certainly denotes an object allocated by the current call tree.
func (f *freshness) isFresh(v ssa.Value, depth int) bool {
	if depth > 6 {
		return false
	}
	switch x := v.(type) {
	case *ssa.Alloc:
		return true
	case *ssa.MakeSlice, *ssa.MakeMap:
		return true
	case *ssa.Const:
		return true // nil
	case *ssa.Phi:
		for _, e := range x.Edges {
			if _, again := e.(*ssa.Phi); again {
				continue
			}
			if !f.isFresh(e, depth+1) {
				return false
			}
		}
		return true
	case *ssa.Slice:
		return f.isFresh(x.X, depth+1)
	case *ssa.ChangeType:
		return f.isFresh(x.X, depth+1)
	case *ssa.UnOp:
		if x.Op == token.MUL {
			// a value loaded from a fresh local variable cell holds whatever was stored there
			if a, ok := x.X.(*ssa.Alloc); ok {
				all := true
				n := 0
				for _, ref := range *a.Referrers() {
					if st, ok := ref.(*ssa.Store); ok && st.Addr == a {
						n++
						if !f.isFresh(st.Val, depth+1) {
							all = false
						}
					}
				}
				return all && n > 0
			}
			// a field of a fresh object that was assigned a fresh value in this function
			if fa, ok := x.X.(*ssa.FieldAddr); ok && f.isFresh(fa.X, depth+1) {
				return true
			}
		}
		return false
	case *ssa.Call:
		if b, ok := x.Call.Value.(*ssa.Builtin); ok {
			if b.Name() == "append" {
				// append(fresh, ...) stays fresh; append(nil...)
				return f.isFresh(x.Call.Args[0], depth+1)
			}
			return false
		}
		callees := f.c.Callees(x)
		if len(callees) == 0 {
			return false
		}
		for _, callee := range callees {
			if !f.returnsFresh(callee, depth+1) {
				return false
			}
		}
		return true
	case *ssa.Extract:
		return false
	case *ssa.Parameter:
		return f.paramFresh(x, depth+1)
	case *ssa.FreeVar:
		return false
	}
	return false
}

func (f *freshness) returnsFresh(fn *ssa.Function, depth int) bool {
	if fn == nil || fn.Blocks == nil {
		// external: make/new-like functions are rare; be conservative
		return false
	}
	if m := f.memoRet[fn]; m != 0 {
		return m == 1
	}
	f.memoRet[fn] = 2 // recursion guard: assume not fresh
	ok := true
	found := false
	core.AllInstrs(fn, func(in ssa.Instruction) {
		if r, isRet := in.(*ssa.Return); isRet && len(r.Results) > 0 {
			found = true
			if !f.isFresh(r.Results[0], depth) {
				ok = false
			}
		}
	})
	if ok && found {
		f.memoRet[fn] = 1
		return true
	}
	return false
}

func (f *freshness) paramFresh(p *ssa.Parameter, depth int) bool {
	if m := f.memoPar[p]; m != 0 {
		return m == 1
	}
	// Optimistic while evaluating: a recursive call that passes the parameter on adds no new source
	// (greatest fixed point of "every call site passes a fresh object").
	f.memoPar[p] = 1
	ok := f.paramFreshEval(p, depth)
	if ok {
		f.memoPar[p] = 1
	} else {
		f.memoPar[p] = 2
	}
	return ok
}

func (f *freshness) paramFreshEval(p *ssa.Parameter, depth int) bool {
	fn := p.Parent()
	idx := -1
	for i, q := range fn.Params {
		if q == p {
			idx = i
		}
	}
	node := f.c.CallGraph().Nodes[fn]
	if idx < 0 || node == nil {
		return false
	}
	n := 0
	for _, e := range node.In {
		if _, inScope := f.scope[e.Caller.Func]; !inScope {
			continue // callers outside the analysed (read-only) call tree do not matter
		}
		if e.Site == nil {
			return false
		}
		args := e.Site.Common().Args
		ai := idx
		if e.Site.Common().IsInvoke() {
			ai = idx - 1
		}
		if ai < 0 || ai >= len(args) {
			return false
		}
		n++
		if !f.isFresh(args[ai], depth+1) {
			return false
		}
	}
	if n == 0 {
		return false // an entry point itself: its arguments belong to the caller
	}
	return true
}

// readOnlyScope returns the functions reachable from read-only public entry points, not descending into the locked lazy update.
func readOnlyScope(c *core.Ctx) (map[*ssa.Function]*callgraph.Edge, []*ssa.Function) {
	_, lockerSet, _ := lockAPIs(c)
	var roots []*ssa.Function
	for _, fn := range publicEntryPoints(c) {
		name := core.FuncName(fn)
		if documentedMutators[name] != "" || constructorsTakingOwnership[name] != "" {
			continue
		}
		roots = append(roots, fn)
	}
	scope := c.ReachableFuncs(roots, func(f *ssa.Function) bool {
		if lockerSet[f] {
			return true
		}
		n := core.FuncName(f)
		return documentedMutators[n] != "" || constructorsTakingOwnership[n] != ""
	})
	return scope, roots
}

func runReadonly(c *core.Ctx) []core.Obligation {
	var obs []core.Obligation
	scope, roots := readOnlyScope(c)
	if len(roots) < 400 {
		obs = append(obs, core.Ob("R-READONLY", "anchor:entry-points", "-", "", core.Violated, fmt.Sprintf("only %d read-only entry points found", len(roots))))
	}
	for name := range documentedMutators {
		found := false
		for _, fn := range c.GeoFuncs() {
			if core.FuncName(fn) == name {
				found = true
			}
		}
		_ = found // a mutator that no longer exists simply drops out of the table's effect
	}
	_, lockerSet, _ := lockAPIs(c)
	fr := &freshness{c: c, scope: scope, memoRet: map[*ssa.Function]int{}, memoPar: map[*ssa.Parameter]int{}}
	var fns []*ssa.Function
	for f := range scope {
		fns = append(fns, f)
	}
	sort.Slice(fns, func(i, j int) bool { return fns[i].String() < fns[j].String() })
	nStores := 0
	for _, fn := range fns {
		if lockerSet[fn] {
			continue
		}
		name := core.FuncName(fn)
		if documentedMutators[name] != "" || constructorsTakingOwnership[name] != "" {
			continue
		}
		perType := map[string][]ssa.Instruction{}
		freshCount := 0
		core.AllInstrs(fn, func(in ssa.Instruction) {
			var addr ssa.Value
			switch x := in.(type) {
			case *ssa.Store:
				addr = x.Addr
			case *ssa.MapUpdate:
				addr = x.Map
			default:
				return
			}
			st := analyseAddr(addr)
			if st.sharedType == "" {
				return
			}
			nStores++
			if fr.isFresh(st.root, 0) {
				freshCount++
				return
			}
			perType[st.sharedType] = append(perType[st.sharedType], in)
		})
		var tnames []string
		for t := range perType {
			tnames = append(tnames, t)
		}
		sort.Strings(tnames)
		for _, t := range tnames {
			in := perType[t][0]
			obs = append(obs, core.Ob("R-READONLY", fmt.Sprintf("%s:writes:%s", name, t), c.Pos(in.Pos()), name, core.Violated,
				fmt.Sprintf("writes into a %s that is not provably allocated by the query itself (%d store(s)); reachable from a read-only entry point: %s. Concurrent queries on the same object race on this write.",
					t, len(perType[t]), core.PathTo(scope, fn))))
		}
		if freshCount > 0 && len(tnames) == 0 {
			obs = append(obs, core.Ob("R-READONLY", fmt.Sprintf("%s:fresh-only", name), c.Pos(fn.Pos()), name, core.Discharged,
				fmt.Sprintf("%d store(s) into shared types, all into objects allocated by this call tree", freshCount)))
		}
	}
	o := core.Ob("R-READONLY", "scope", "-", "", core.Discharged,
		fmt.Sprintf("%d read-only entry points, %d functions reachable outside the locked lazy update, %d stores into shared types examined", len(roots), len(scope), nStores))
	obs = append(obs, o)
	return obs
}

// ---------------------------------------------------------------------------

func runSynced(c *core.Ctx) []core.Obligation {
	var obs []core.Obligation
	lockOnly := lockOnlySet(c)
	ctor := c.Fn("s2", "", "NewShapeIndexIterator")
	if ctor == nil {
		return append(obs, core.Ob("R-SYNCED", "anchor:NewShapeIndexIterator", "-", "", core.Violated, "unresolved anchor"))
	}
	_, lockerSet, _ := lockAPIs(c)
	// 1. constructor call sites
	for _, fn := range c.GeoFuncs() {
		n := 0
		core.AllInstrs(fn, func(in ssa.Instruction) {
			ci, ok := in.(ssa.CallInstruction)
			if !ok || core.StaticCallee(ci) != ctor {
				return
			}
			n++
			construct := fmt.Sprintf("ctor:%s#%d", core.FuncName(fn), n)
			args := ci.Common().Args
			hasPos := false
			if len(args) == 2 {
				if k, isConst := args[1].(*ssa.Const); !(isConst && k.IsNil()) {
					hasPos = true
				}
			}
			switch {
			case hasPos:
				obs = append(obs, core.Ob("R-SYNCED", construct, c.Pos(in.Pos()), core.FuncName(fn), core.Discharged, "constructed with a position: Begin/End apply pending updates before the first read"))
			case lockOnly[fn]:
				obs = append(obs, core.Ob("R-SYNCED", construct, c.Pos(in.Pos()), core.FuncName(fn), core.Discharged, "unpositioned iterator created while the index mutex is held (stale iterator for the update itself)"))
			default:
				obs = append(obs, core.Ob("R-SYNCED", construct, c.Pos(in.Pos()), core.FuncName(fn), core.Violated,
					"iterator constructed without a position outside the locked update: it reads ShapeIndex.cells without having applied pending updates (unsynchronised with a concurrent first build, and blind to an unbuilt index)"))
			}
		})
	}
	// 2. iterator objects are only allocated by the constructor and clone
	for _, fn := range c.GeoFuncs() {
		core.AllInstrs(fn, func(in ssa.Instruction) {
			a, ok := in.(*ssa.Alloc)
			if !ok || !core.IsNamed(a.Type(), "s2", "ShapeIndexIterator") {
				return
			}
			name := core.FuncName(fn)
			construct := "alloc:" + name
			if name == "s2.NewShapeIndexIterator" || name == "(*s2.ShapeIndexIterator).clone" {
				obs = append(obs, core.Ob("R-SYNCED", construct, c.Pos(a.Pos()), name, core.Discharged, "the constructor / clone (a clone copies an already positioned iterator)"))
			} else {
				obs = append(obs, core.Ob("R-SYNCED", construct, c.Pos(a.Pos()), name, core.Violated, "ShapeIndexIterator allocated outside its constructor: nothing applies pending updates for it"))
			}
		})
	}
	// 3. Begin/End: the read of cells is preceded by synchronisation on every path
	for _, mname := range []string{"Begin", "End"} {
		m := c.Fn("s2", "ShapeIndexIterator", mname)
		construct := "sync-before-read:(*s2.ShapeIndexIterator)." + mname
		if m == nil {
			obs = append(obs, core.Ob("R-SYNCED", construct, "-", "", core.Violated, "unresolved anchor"))
			continue
		}
		fe := freshEdges(c, m)
		stop := map[*ssa.BasicBlock]bool{}
		core.AllInstrs(m, func(in ssa.Instruction) {
			if ci, ok := in.(ssa.CallInstruction); ok {
				if f := core.StaticCallee(ci); f != nil && lockerSet[f] {
					stop[in.Block()] = true
				}
			}
		})
		bad := ""
		for _, b := range m.Blocks {
			reads := false
			for _, in := range b.Instrs {
				if readsIndexCells(in, m, c) {
					reads = true
				}
			}
			if !reads || stop[b] {
				continue
			}
			if b == m.Blocks[0] || core.ReachableAvoiding(m.Blocks[0], b, fe, stop) {
				bad = fmt.Sprintf("block %d reads the cell list on a path that neither observed 'fresh' nor applied pending updates", b.Index)
			}
		}
		if bad != "" {
			obs = append(obs, core.Ob("R-SYNCED", construct, c.Pos(m.Pos()), core.FuncName(m), core.Violated, bad))
		} else {
			obs = append(obs, core.Ob("R-SYNCED", construct, c.Pos(m.Pos()), core.FuncName(m), core.Discharged, "every path to a read of the cell list observed 'fresh' atomically or applied pending updates first"))
		}
	}
	// 4. who reads cells / cellMap directly
	allowedReaders := map[string]string{
		"(*s2.ShapeIndexIterator).refresh": "iterator method: runs on a positioned (synced) iterator",
		"(*s2.ShapeIndexIterator).seek":    "iterator method: runs on a positioned (synced) iterator",
		"(*s2.ShapeIndexIterator).End":     "applies pending updates first (checked above)",
		"(*s2.ShapeIndexIterator).Begin":   "applies pending updates first (checked above)",
	}
	for _, fn := range c.GeoFuncs() {
		reads := false
		var pos token.Pos
		core.AllInstrs(fn, func(in ssa.Instruction) {
			if fa, ok := in.(*ssa.FieldAddr); ok && (isIndexField(fa, "cells") || isIndexField(fa, "cellMap")) {
				// reads only: the address is loaded (stores are R-WRITERS' business)
				for _, ref := range *fa.Referrers() {
					if ld, ok := ref.(*ssa.UnOp); ok && ld.Op == token.MUL {
						reads = true
						pos = ld.Pos()
					}
				}
			}
		})
		if !reads {
			continue
		}
		name := core.FuncName(fn)
		construct := "reader:" + name
		pname := name
		if fn.Parent() != nil {
			pname = core.FuncName(fn.Parent())
		}
		switch {
		case allowedReaders[pname] != "":
			obs = append(obs, core.Ob("R-SYNCED", construct, c.Pos(pos), name, core.Discharged, allowedReaders[pname]))
		case lockOnly[fn] || (fn.Parent() != nil && lockOnly[fn.Parent()]):
			obs = append(obs, core.Ob("R-SYNCED", construct, c.Pos(pos), name, core.Discharged, "only runs while the index mutex is held"))
		case singleThreadedMutators[pname] != "":
			obs = append(obs, core.Ob("R-SYNCED", construct, c.Pos(pos), name, core.Discharged, singleThreadedMutators[pname]))
		default:
			obs = append(obs, core.Ob("R-SYNCED", construct, c.Pos(pos), name, core.Violated,
				"reads ShapeIndex.cells/cellMap directly, outside the iterator methods, the locked update and the single-threaded mutators: nothing orders this read after the index build"))
		}
	}
	return obs
}

func readsIndexCells(in ssa.Instruction, fn *ssa.Function, c *core.Ctx) bool {
	switch x := in.(type) {
	case *ssa.FieldAddr:
		return isIndexField(x, "cells") || isIndexField(x, "cellMap")
	case ssa.CallInstruction:
		f := core.StaticCallee(x)
		if f != nil && (core.FuncName(f) == "(*s2.ShapeIndexIterator).refresh" || core.FuncName(f) == "(*s2.ShapeIndexIterator).seek") {
			return true
		}
	}
	return false
}
