package rules

import (
	"fmt"
	"go/token"

	"golang.org/x/tools/go/ssa"

	"verif/checker/core"
)

func init() {
	core.Register(&core.Rule{
		Name: "R-RANGE",
		Clause: "C06/C04/C11 'query-side cell location': a cell's leaf range [RangeMin(), RangeMax()] is inclusive at both ends. Every ordered comparison against RangeMax() (or a field that stores it) " +
			"must therefore be one of {max >= t, t <= max, max < t, t > max}, and against RangeMin() one of {min <= t, t >= min, min > t, t < min}; the other four forms treat an inclusive bound " +
			"as exclusive and lose (or gain) exactly the boundary leaf. One named exception (an upper_bound search idiom).",
		Min: 30,
		Run: runRange,
	})
}

// rangeExceptions: comparisons that deliberately use the complementary form. Keyed by function and ordinal.
var rangeExceptions = map[string]string{
	"(*s2.coverer).replaceCellsWithAncestor$1:min#1": "sort.Search predicate implementing upper_bound(covering, id.RangeMin()) exactly as the C++ original; the leaf RangeMin() itself cannot be a proper descendant being replaced",
}

// rangeKind reports whether v is (a conversion of) a RangeMin()/RangeMax() result, or a load of a field that is only ever assigned such a result.
func rangeKind(c *core.Ctx, v ssa.Value, fieldKinds map[fieldKey]string) string {
	v = core.StripConv(v)
	switch x := v.(type) {
	case *ssa.Call:
		if f := core.StaticCallee(x); f != nil && f.Signature.Recv() != nil && core.IsNamed(f.Signature.Recv().Type(), "s2", "CellID") {
			switch f.Name() {
			case "RangeMax":
				return "max"
			case "RangeMin":
				return "min"
			}
		}
	case *ssa.UnOp:
		if x.Op == token.MUL {
			if fr, ok := core.AsFieldAddr(x.X); ok {
				if k, ok := fieldKeyOf(fr); ok {
					return fieldKinds[k]
				}
			}
		}
	case *ssa.Field:
		if fr, ok := core.AsFieldLoad(x); ok {
			if k, ok := fieldKeyOf(fr); ok {
				return fieldKinds[k]
			}
		}
	}
	return ""
}

func runRange(c *core.Ctx) []core.Obligation {
	var obs []core.Obligation
	// fields that only ever hold a RangeMin()/RangeMax() value
	fieldKinds := map[fieldKey]string{}
	mixed := map[fieldKey]bool{}
	for _, fn := range c.GeoFuncs() {
		core.AllInstrs(fn, func(in ssa.Instruction) {
			st, ok := in.(*ssa.Store)
			if !ok {
				return
			}
			fr, ok := core.AsFieldAddr(st.Addr)
			if !ok {
				return
			}
			k, ok := fieldKeyOf(fr)
			if !ok || !core.IsNamed(st.Val.Type(), "s2", "CellID") {
				return
			}
			kind := rangeKind(c, st.Val, nil)
			if kind == "" {
				mixed[k] = true
				return
			}
			if old, ok := fieldKinds[k]; ok && old != kind {
				mixed[k] = true
			}
			fieldKinds[k] = kind
		})
	}
	for k := range mixed {
		delete(fieldKinds, k)
	}
	perFunc := map[string]int{}
	for _, fn := range c.GeoFuncs() {
		counts := map[string]int{}
		core.AllInstrs(fn, func(in ssa.Instruction) {
			bo, ok := in.(*ssa.BinOp)
			if !ok {
				return
			}
			switch bo.Op {
			case token.LSS, token.LEQ, token.GTR, token.GEQ:
			default:
				return
			}
			kx, ky := rangeKind(c, bo.X, fieldKinds), rangeKind(c, bo.Y, fieldKinds)
			if kx != "" && kx == ky {
				return // ordering two starts (or two ends) is not a membership test
			}
			for side, v := range []ssa.Value{bo.X, bo.Y} {
				kind := rangeKind(c, v, fieldKinds)
				if kind == "" {
					continue
				}
				// normalise to "bound OP other"
				op := bo.Op
				if side == 1 {
					switch op {
					case token.LSS:
						op = token.GTR
					case token.LEQ:
						op = token.GEQ
					case token.GTR:
						op = token.LSS
					case token.GEQ:
						op = token.LEQ
					}
				}
				counts[kind]++
				perFunc[core.FuncName(fn)]++
				construct := fmt.Sprintf("%s:%s#%d", core.FuncName(fn), kind, counts[kind])
				okForm := false
				if kind == "max" {
					okForm = op == token.GEQ || op == token.LSS
				} else {
					okForm = op == token.LEQ || op == token.GTR
				}
				site := c.Pos(bo.Pos())
				switch {
				case okForm:
					obs = append(obs, core.Ob("R-RANGE", construct, site, core.FuncName(fn), core.Discharged,
						fmt.Sprintf("Range%s() %s x: the inclusive bound is compared inclusively", title(kind), op)))
				case rangeExceptions[construct] != "":
					obs = append(obs, core.Ob("R-RANGE", construct, site, core.FuncName(fn), core.Discharged, "named exception: "+rangeExceptions[construct]))
				default:
					obs = append(obs, core.Ob("R-RANGE", construct, site, core.FuncName(fn), core.Violated,
						fmt.Sprintf("Range%s() %s x treats the inclusive end of a cell's leaf range as exclusive: a target whose leaf cell is exactly Range%s() is misclassified", title(kind), op, title(kind))))
				}
			}
		})
	}
	// the range tests of the cell-union algebra confirmed on today's tree: each of these functions keeps at least that
	// many direct comparisons of RangeMin()/RangeMax() (a comparison that now goes through Next()/Prev() or another
	// helper is no longer the inclusive test that was confirmed)
	for fname, want := range rangeConfirmed {
		got := perFunc[fname]
		construct := "confirmed-count:" + fname
		if got >= want {
			obs = append(obs, core.Ob("R-RANGE", construct, "-", fname, core.Discharged, fmt.Sprintf("%d direct range comparisons (%d confirmed)", got, want)))
		} else {
			obs = append(obs, core.Ob("R-RANGE", construct, "-", fname, core.Violated,
				fmt.Sprintf("%s has %d direct comparisons of a cell's RangeMin()/RangeMax(), %d were confirmed: one of its range tests was rewritten (e.g. RangeMax().Next() >= x is a different, exclusive test) or removed", fname, got, want)))
		}
	}
	obs = append(obs, wrapFree(c)...)
	obs = append(obs, sentinelBounds(c)...)
	obs = append(obs, overlapNonEmpty(c))
	return obs
}

// wrapFree (after round-6 seed C11-r6m2, `o.end.Next()` turned into `o.end.NextWrap()` as the exclusive end given to
// CellUnionFromRange): the *Wrap successors map the last cell of face 5 to the first cell of face 0, which is SMALLER
// than every other id. A value obtained from them therefore cannot be the end of a range: given to
// CellUnionFromRange, or compared with <, <=, >, >=, it makes the range that ends on the last leaf empty.
func wrapFree(c *core.Ctx) []core.Obligation {
	var obs []core.Obligation
	uses := 0
	isWrap := func(v ssa.Value) string {
		v = core.StripConv(v)
		if call, ok := v.(*ssa.Call); ok {
			if f := core.StaticCallee(call); f != nil && f.Signature.Recv() != nil && core.IsNamed(f.Signature.Recv().Type(), "s2", "CellID") {
				switch f.Name() {
				case "NextWrap", "PrevWrap", "AdvanceWrap":
					return f.Name()
				}
			}
		}
		return ""
	}
	for _, fn := range c.GeoFuncs() {
		n := 0
		core.AllInstrs(fn, func(in ssa.Instruction) {
			switch x := in.(type) {
			case *ssa.BinOp:
				switch x.Op {
				case token.LSS, token.LEQ, token.GTR, token.GEQ:
				default:
					return
				}
				for _, o := range []ssa.Value{x.X, x.Y} {
					if w := isWrap(o); w != "" {
						n++
						obs = append(obs, core.Ob("R-RANGE", fmt.Sprintf("wrap-free:%s#%d", core.FuncName(fn), n), c.Pos(x.Pos()), core.FuncName(fn), core.Violated,
							"the result of "+w+"() is used in an ordered comparison: after the last cell of face 5 it wraps to the first cell of face 0, which is smaller than every other id, so the comparison gives the opposite answer exactly at the end of the curve"))
					}
				}
			case *ssa.Call:
				f := core.StaticCallee(x)
				if f == nil {
					return
				}
				if isWrap(x) != "" {
					uses++
				}
				if f.Name() != "CellUnionFromRange" {
					return
				}
				for _, a := range x.Call.Args {
					if w := isWrap(a); w != "" {
						n++
						obs = append(obs, core.Ob("R-RANGE", fmt.Sprintf("wrap-free:%s#%d", core.FuncName(fn), n), c.Pos(x.Pos()), core.FuncName(fn), core.Violated,
							"the result of "+w+"() is given to CellUnionFromRange as a range bound: for a range that ends on the last leaf of face 5 the bound wraps to the first leaf of face 0, the half-open range is empty, and the cells it should have produced are dropped"))
					}
				}
			}
		})
	}
	// (after round-7 seed C11-r7m2, `lastend.Next().Pos() != startLeaf.Pos()`) Pos() is the position of a cell along
	// the curve WITHIN its face: it drops the three face bits. Two ids on different faces can have equal Pos(), so an
	// equality test of two Pos() values says nothing about the ids being equal or adjacent.
	for _, fn := range c.GeoFuncs() {
		n := 0
		core.AllInstrs(fn, func(in ssa.Instruction) {
			bo, ok := in.(*ssa.BinOp)
			if !ok || (bo.Op != token.EQL && bo.Op != token.NEQ) {
				return
			}
			isPos := func(v ssa.Value) bool {
				call, ok := core.StripConv(v).(*ssa.Call)
				if !ok {
					return false
				}
				f := core.StaticCallee(call)
				return f != nil && f.Name() == "Pos" && f.Signature.Recv() != nil && core.IsNamed(f.Signature.Recv().Type(), "s2", "CellID")
			}
			if isPos(bo.X) && isPos(bo.Y) {
				n++
				obs = append(obs, core.Ob("R-RANGE", fmt.Sprintf("wrap-free:pos-equality:%s#%d", core.FuncName(fn), n), c.Pos(bo.Pos()), core.FuncName(fn), core.Violated,
					"two cell ids are compared through Pos(), which drops the face: cells on different faces whose positions within their faces coincide compare equal, so ids that are far apart on the curve are taken for identical or contiguous"))
			}
		})
	}
	obs = append(obs, core.Ob("R-RANGE", "wrap-free:scan", "-", "", core.Discharged, fmt.Sprintf("no wrapping successor is used as a range bound or in an ordered comparison (%d calls of NextWrap/PrevWrap/AdvanceWrap in the library)", uses)))
	return obs
}

func title(s string) string {
	if s == "max" {
		return "Max"
	}
	return "Min"
}

// rangeConfirmed: functions of the cell-id / cell-union algebra and the number of direct range comparisons read and
// confirmed in each.
var rangeConfirmed = map[string]int{
	"(s2.CellID).MaxTile":                    3,
	"(s2.CellID).Contains":                   2,
	"(s2.CellID).Intersects":                 4,
	"s2.CellUnionFromIntersection":           4,
	"s2.CellUnionFromIntersectionWithCellID": 1,
	"(*s2.CellUnion).ContainsCellID":         2,
	"(*s2.CellUnion).IntersectsCellID":       4,
	"(*s2.CellUnion).IsNormalized":           2,
	"(*s2.CellUnion).IsValid":                2,
}
