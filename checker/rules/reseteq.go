package rules

import (
	"fmt"
	"go/ast"
	"go/constant"
	"go/token"
	"go/types"
	"sort"
	"strings"

	"golang.org/x/tools/go/ssa"

	"verif/checker/core"
)

// R-RESETEQ: added after round-5 seed C11-r5m1 (CellIndexContentsIterator.Clear rewritten as a struct-literal
// re-initialisation that left the two cut-off fields at 0 instead of the constructor's sentinel -1).

func init() {
	core.Register(&core.Rule{
		Name: "R-RESETEQ",
		Clause: "C11 'contents iteration gives the contents of the covered leaf sets': an iterator that has been cleared behaves like a new one - every field the constructor sets to a constant " +
			"has the same constant after Clear(), whether Clear assigns the fields one by one or overwrites the whole value with a literal (fields missing from the literal are zero).",
		Min: 1,
		Run: runResetEq,
	})
}

var resetPairs = []struct{ pkg, typ, ctor, reset string }{
	{"s2", "CellIndexContentsIterator", "NewCellIndexContentsIterator", "Clear"},
}

// litConsts flattens a composite literal into "a.b" -> constant (exact string); non-constant values are skipped.
func litConsts(info *types.Info, lit *ast.CompositeLit, prefix string, out map[string]string, mentioned map[string]bool) {
	for _, el := range lit.Elts {
		kv, ok := el.(*ast.KeyValueExpr)
		if !ok {
			continue
		}
		key := prefix + types.ExprString(kv.Key)
		mentioned[key] = true
		if inner, ok := kv.Value.(*ast.CompositeLit); ok {
			litConsts(info, inner, key+".", out, mentioned)
			continue
		}
		if tv, ok := info.Types[kv.Value]; ok && tv.Value != nil {
			out[key] = constString(tv.Value)
		}
	}
}

func constString(v constant.Value) string {
	if v.Kind() == constant.Int || v.Kind() == constant.Float {
		f, _ := constant.Float64Val(constant.ToFloat(v))
		return fmt.Sprintf("%g", f)
	}
	return v.ExactString()
}

func runResetEq(c *core.Ctx) []core.Obligation {
	var obs []core.Obligation
	for _, rp := range resetPairs {
		construct := rp.typ + ":" + rp.ctor + "~" + rp.reset
		ctor, reset := c.LookupFunc(rp.pkg, "", rp.ctor), c.LookupFunc(rp.pkg, rp.typ, rp.reset)
		if ctor == nil || reset == nil || c.Decl(ctor) == nil || c.Decl(reset) == nil {
			obs = append(obs, core.Ob("R-RESETEQ", construct, "-", "", core.Violated, "unresolved anchor"))
			continue
		}
		info := c.Pkgs[rp.pkg].TypesInfo
		// constructor: the composite literal of the type
		want := map[string]string{}
		ast.Inspect(c.Decl(ctor).Body, func(n ast.Node) bool {
			if lit, ok := n.(*ast.CompositeLit); ok {
				if tv, ok := info.Types[lit]; ok {
					if named, ok := tv.Type.(*types.Named); ok && named.Obj().Name() == rp.typ {
						litConsts(info, lit, "", want, map[string]bool{})
						return false
					}
				}
			}
			return true
		})
		if len(want) == 0 {
			obs = append(obs, core.Ob("R-RESETEQ", construct, c.Pos(ctor.Pos()), ctor.FullName(), core.Violated, "unresolved anchor: the constructor sets no field to a constant"))
			continue
		}
		// reset: walk the statements in order
		rd := c.Decl(reset)
		recv := ""
		if rd.Recv != nil && len(rd.Recv.List) == 1 && len(rd.Recv.List[0].Names) == 1 {
			recv = rd.Recv.List[0].Names[0].Name
		}
		got := map[string]string{}
		whole := false
		undecided := ""
		for _, st := range rd.Body.List {
			as, ok := st.(*ast.AssignStmt)
			if !ok || as.Tok != token.ASSIGN || len(as.Lhs) != 1 || len(as.Rhs) != 1 {
				undecided = "a statement of " + rp.reset + " is not a plain assignment"
				continue
			}
			lhs := types.ExprString(as.Lhs[0])
			switch {
			case lhs == "*"+recv:
				lit, isLit := as.Rhs[0].(*ast.CompositeLit)
				if !isLit {
					undecided = "the receiver is overwritten with something other than a literal"
					continue
				}
				whole = true
				got = map[string]string{}
				mentioned := map[string]bool{}
				litConsts(info, lit, "", got, mentioned)
				// fields not mentioned are zero; fields mentioned with a non-constant value are unknown
				for k := range want {
					if _, has := got[k]; !has {
						top := strings.SplitN(k, ".", 2)[0]
						if mentioned[k] || (mentioned[top] && !strings.Contains(k, ".")) {
							got[k] = "?"
						} else if mentioned[top] {
							got[k] = "0" // nested literal given, this inner field omitted
						} else {
							got[k] = "0"
						}
					}
				}
			case strings.HasPrefix(lhs, recv+"."):
				key := strings.TrimPrefix(lhs, recv+".")
				if tv, ok := info.Types[as.Rhs[0]]; ok && tv.Value != nil {
					got[key] = constString(tv.Value)
				} else {
					got[key] = "?"
				}
			}
		}
		var bad []string
		keys := make([]string, 0, len(want))
		for k := range want {
			keys = append(keys, k)
		}
		sort.Strings(keys)
		for _, k := range keys {
			g, has := got[k]
			switch {
			case !has && !whole:
				// not touched by the reset: keeps whatever the iteration left there
				bad = append(bad, fmt.Sprintf("%s is %s in a new value but is not reset", k, want[k]))
			case g == "?":
				// non-constant: cannot compare
			case g != want[k]:
				bad = append(bad, fmt.Sprintf("%s is %s in a new value but %s after %s()", k, want[k], g, rp.reset))
			}
		}
		switch {
		case len(bad) > 0:
			obs = append(obs, core.Ob("R-RESETEQ", construct, c.Pos(reset.Pos()), reset.FullName(), core.Violated,
				strings.Join(bad, "; ")+": a cleared "+rp.typ+" does not behave like a new one (a sentinel that means 'nothing reported yet' is replaced by a value that means 'already reported')"))
		case undecided != "":
			obs = append(obs, core.Ob("R-RESETEQ", construct, c.Pos(reset.Pos()), reset.FullName(), core.Undecided, undecided))
		default:
			obs = append(obs, core.Ob("R-RESETEQ", construct, c.Pos(reset.Pos()), reset.FullName(), core.Discharged, fmt.Sprintf("%d constant fields of a new value are restored by %s()", len(want), rp.reset)))
		}
	}
	obs = append(obs, cutoffAdvance(c))
	obs = append(obs, cutoffInclusive(c))
	return obs
}

// cutoffAdvance (after round-6 seed C11-r6m1, `nodeCutoff = nextNodeCutoff` moved from Next to the top of StartUnion):
// the contents iterator suppresses duplicates across ranges by not climbing above nodeCutoff. The cut-off may be raised
// to the node where the previous range started only once the walk from that node has reached the old cut-off, i.e. on
// the "already processed this node and its ancestors" branch of Next; raised anywhere else (at the start of the next
// range, say) it hides ancestors that an abandoned walk never reported, which breaks "every pair at least once".
func cutoffAdvance(c *core.Ctx) core.Obligation {
	const construct = "CellIndexContentsIterator:cutoff-advances-only-when-exhausted"
	typ := c.NamedType("s2", "CellIndexContentsIterator")
	if typ == nil {
		return core.Ob("R-RESETEQ", construct, "-", "", core.Violated, "unresolved anchor")
	}
	n, bad := 0, ""
	for _, fn := range c.GeoFuncs() {
		core.AllInstrs(fn, func(in ssa.Instruction) {
			st, ok := in.(*ssa.Store)
			if !ok {
				return
			}
			fr, ok := core.AsFieldAddr(st.Addr)
			if !ok || fr.Name != "nodeCutoff" {
				return
			}
			src, ok := core.AsFieldLoad(st.Val)
			if !ok || src.Name != "nextNodeCutoff" {
				return
			}
			n++
			// dominated by the true side of  node.parent <= nodeCutoff
			guarded := false
			for _, b := range fn.Blocks {
				ifi, isIf := b.Instrs[len(b.Instrs)-1].(*ssa.If)
				if !isIf {
					continue
				}
				bo, isBo := ifi.Cond.(*ssa.BinOp)
				if !isBo {
					continue
				}
				l, okl := core.AsFieldLoad(bo.X)
				r, okr := core.AsFieldLoad(bo.Y)
				if !okl || !okr {
					continue
				}
				side := -1
				switch {
				case l.Name == "parent" && r.Name == "nodeCutoff" && bo.Op == token.LEQ, l.Name == "nodeCutoff" && r.Name == "parent" && bo.Op == token.GEQ:
					side = 0
				case l.Name == "parent" && r.Name == "nodeCutoff" && bo.Op == token.GTR, l.Name == "nodeCutoff" && r.Name == "parent" && bo.Op == token.LSS:
					side = 1
				}
				if side >= 0 && core.EdgeDominates(core.Edge{From: b, Idx: side}, st.Block()) {
					guarded = true
				}
			}
			if !guarded && bad == "" {
				bad = core.FuncName(fn) + " at " + c.Pos(st.Pos())
			}
		})
	}
	switch {
	case n == 0:
		return core.Ob("R-RESETEQ", construct, "-", "", core.Violated, "the cut-off is never raised to nextNodeCutoff: duplicates are no longer suppressed as documented (or the assignment was rewritten beyond recognition)")
	case bad != "":
		return core.Ob("R-RESETEQ", construct, "-", "", core.Violated,
			"nodeCutoff is raised to nextNodeCutoff in "+bad+", not on the branch of Next that has found the walk exhausted (node.parent <= nodeCutoff): when the caller abandons the contents of a range early, ancestors that were never reported fall below the new cut-off and are skipped for every later range")
	}
	return core.Ob("R-RESETEQ", construct, "-", "", core.Discharged, fmt.Sprintf("%d assignment(s), each on the exhausted branch of Next", n))
}

// cutoffInclusive (after round-7 seed C11-r7m1, `contents <= c.nodeCutoff` turned into `<` in StartUnion): nodeCutoff
// is the index of the last node that has been REPORTED, so "already reported" is `node <= nodeCutoff` at every place
// the iterator asks (the start of a range and each step to a parent). A strict comparison reports the node that
// equals the cut-off a second time.
func cutoffInclusive(c *core.Ctx) core.Obligation {
	const construct = "CellIndexContentsIterator:cutoff-compared-inclusively"
	n, bad := 0, ""
	for _, fn := range c.GeoFuncs() {
		core.AllInstrs(fn, func(in ssa.Instruction) {
			bo, ok := in.(*ssa.BinOp)
			if !ok {
				return
			}
			isCut := func(v ssa.Value) bool {
				fr, ok := core.AsFieldLoad(v)
				return ok && fr.Name == "nodeCutoff"
			}
			var form string
			switch {
			case isCut(bo.Y) && !isCut(bo.X):
				form = bo.Op.String() // x OP cutoff
			case isCut(bo.X) && !isCut(bo.Y):
				form = map[string]string{"<": ">", ">": "<", "<=": ">=", ">=": "<=", "==": "==", "!=": "!="}[bo.Op.String()]
			default:
				return
			}
			switch form {
			case "<=", ">":
				n++
			case "<", ">=":
				n++
				if bad == "" {
					bad = core.FuncName(fn) + " at " + c.Pos(bo.Pos()) + " (node " + form + " nodeCutoff)"
				}
			}
		})
	}
	switch {
	case n < 2:
		return core.Ob("R-RESETEQ", construct, "-", "", core.Violated, fmt.Sprintf("unresolved anchor: %d comparisons with nodeCutoff found, 2 expected", n))
	case bad != "":
		return core.Ob("R-RESETEQ", construct, "-", "", core.Violated,
			"the duplicate cut-off is compared exclusively in "+bad+": nodeCutoff is the last node already reported, so the node that equals it must count as reported; with a strict comparison its (cell, label) pair is reported a second time when a later range starts at it")
	}
	return core.Ob("R-RESETEQ", construct, "-", "", core.Discharged, fmt.Sprintf("%d comparisons, each `node <= nodeCutoff` (or its negation)", n))
}
