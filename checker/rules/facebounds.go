package rules

import (
	"fmt"
	"go/ast"
	"go/types"
	"math"

	"verif/checker/core"
)

// Face-cell bound table of Cell.RectBound: added after round-5 seeds C10-r5m2, C12-r5m1, C12-r5m2 (three slips in
// the six-row table of level-0 bounds, none visible to the suite, which walks faces 0, 3 and 5 only).

func init() {
	core.Register(&core.Rule{
		Name: "R-FACEBOUNDS",
		Clause: "C10/C12 'all points of a cell lie within its bounding rectangle': the six-row table of level-0 bounds in Cell.RectBound agrees with the geometry of the cube faces - an equatorial " +
			"face with outward normal n spans latitudes [-45, 45] degrees and longitudes atan2(n.y, n.x) +/- 45 degrees (as a possibly wrapping interval Lo -> Hi), a polar face spans all " +
			"longitudes and latitudes from asin(sqrt(1/3)) (its corner vertices), minus a rounding allowance, to the pole.",
		Min: 6,
		Run: runFaceBounds,
	})
}

func runFaceBounds(c *core.Ctx) []core.Obligation {
	var obs []core.Obligation
	f := c.LookupFunc("s2", "Cell", "RectBound")
	if f == nil || c.Decl(f) == nil {
		return append(obs, core.Ob("R-FACEBOUNDS", "anchor", "-", "", core.Violated, "unresolved anchor: Cell.RectBound"))
	}
	decl := c.Decl(f)
	pkg := c.Pkgs["s2"]
	info := pkg.TypesInfo
	// the switch over c.face
	var sw *ast.SwitchStmt
	ast.Inspect(decl.Body, func(n ast.Node) bool {
		if s, ok := n.(*ast.SwitchStmt); ok && s.Tag != nil {
			if sel, ok := s.Tag.(*ast.SelectorExpr); ok && sel.Sel.Name == "face" {
				sw = s
			}
		}
		return true
	})
	if sw == nil {
		return append(obs, core.Ob("R-FACEBOUNDS", "anchor", c.Pos(decl.Pos()), f.FullName(), core.Violated, "unresolved anchor: the switch over the face was not found"))
	}
	fold := func(e ast.Expr) (float64, bool) {
		fo := &folder{c: c, pkg: pkg, decl: decl, seen: map[types.Object]bool{}}
		r := fo.fold(e)
		return r.v, r.ok
	}
	// face normals: faces 0..5 are +x, +y, +z, -x, -y, -z (checked against the frames by R-TABLE)
	normals := [6][3]float64{{1, 0, 0}, {0, 1, 0}, {0, 0, 1}, {-1, 0, 0}, {0, -1, 0}, {0, 0, -1}}
	poleLat := math.Asin(math.Sqrt(1.0 / 3))
	seen := map[int]bool{}
	for _, st := range sw.Body.List {
		cc, ok := st.(*ast.CaseClause)
		if !ok {
			continue
		}
		face := -1
		if len(cc.List) == 0 {
			face = 5 // default
		} else if tv, ok := info.Types[cc.List[0]]; ok && tv.Value != nil {
			fv, _ := fold(cc.List[0])
			face = int(fv)
		}
		if face < 0 || face > 5 || len(cc.Body) != 1 {
			continue
		}
		seen[face] = true
		construct := fmt.Sprintf("face-cell-bound:face%d", face)
		site := c.Pos(cc.Pos())
		as, ok := cc.Body[0].(*ast.AssignStmt)
		if !ok || len(as.Rhs) != 1 {
			obs = append(obs, core.Ob("R-FACEBOUNDS", construct, site, f.FullName(), core.Undecided, "the row is not a single assignment of a Rect literal"))
			continue
		}
		lit, ok := as.Rhs[0].(*ast.CompositeLit)
		if !ok || len(lit.Elts) != 2 {
			obs = append(obs, core.Ob("R-FACEBOUNDS", construct, site, f.FullName(), core.Undecided, "the row is not a Rect{lat, lng} literal"))
			continue
		}
		interval := func(e ast.Expr) (lo, hi float64, full, ok bool) {
			if call, isCall := e.(*ast.CallExpr); isCall {
				if sel, isSel := call.Fun.(*ast.SelectorExpr); isSel && sel.Sel.Name == "FullInterval" {
					return -math.Pi, math.Pi, true, true
				}
				return 0, 0, false, false
			}
			cl, isLit := e.(*ast.CompositeLit)
			if !isLit || len(cl.Elts) != 2 {
				return 0, 0, false, false
			}
			vals := map[string]float64{}
			for i, el := range cl.Elts {
				key := []string{"Lo", "Hi"}[i]
				val := el
				if kv, isKV := el.(*ast.KeyValueExpr); isKV {
					key = types.ExprString(kv.Key)
					val = kv.Value
				}
				v, okv := fold(val)
				if !okv {
					return 0, 0, false, false
				}
				vals[key] = v
			}
			return vals["Lo"], vals["Hi"], false, true
		}
		latLo, latHi, _, ok1 := interval(lit.Elts[0])
		lngLo, lngHi, lngFull, ok2 := interval(lit.Elts[1])
		if !ok1 || !ok2 {
			obs = append(obs, core.Ob("R-FACEBOUNDS", construct, site, f.FullName(), core.Undecided, "the bounds of the row could not be folded"))
			continue
		}
		n := normals[face]
		const tol = 1e-12 // rounding allowances in the table are a few ulps
		bad := ""
		if n[2] == 0 {
			// equatorial face
			centre := math.Atan2(n[1], n[0])
			wantLo, wantHi := math.Remainder(centre-math.Pi/4, 2*math.Pi), math.Remainder(centre+math.Pi/4, 2*math.Pi)
			if wantLo <= -math.Pi {
				wantLo = math.Pi
			}
			switch {
			case lngFull:
				// a full longitude range is a (loose but) valid bound
			case math.Abs(lngLo-wantLo) > tol || math.Abs(lngHi-wantHi) > tol:
				bad = fmt.Sprintf("longitude interval [%.6f -> %.6f] but the face, centred on longitude %.6f, spans [%.6f -> %.6f]: the interval runs the wrong way round (it denotes the complementary arc) or belongs to another face, so points of the face cell lie outside its bound", lngLo, lngHi, centre, wantLo, wantHi)
			}
			if bad == "" && (latLo > -math.Pi/4+tol || latHi < math.Pi/4-tol) {
				bad = fmt.Sprintf("latitude interval [%.6f, %.6f] does not reach +/-pi/4, the latitude of the mid-points of the face's top and bottom edges", latLo, latHi)
			}
		} else {
			if !lngFull && !(lngLo <= -math.Pi+tol && lngHi >= math.Pi-tol) {
				bad = "a polar face must span all longitudes"
			}
			if n[2] > 0 {
				if latLo > poleLat+tol || latHi < math.Pi/2-tol {
					bad = fmt.Sprintf("latitude interval [%.6f, %.6f] of the north polar face must reach from its corner vertices at asin(sqrt(1/3)) = %.6f up to the pole: points near the cube corners lie outside the bound", latLo, latHi, poleLat)
				}
			} else if latHi < -poleLat-tol || latLo > -math.Pi/2+tol {
				bad = fmt.Sprintf("latitude interval [%.6f, %.6f] of the south polar face must reach from the pole up to its corner vertices at -%.6f", latLo, latHi, poleLat)
			}
		}
		if bad == "" {
			obs = append(obs, core.Ob("R-FACEBOUNDS", construct, site, f.FullName(), core.Discharged, fmt.Sprintf("lat [%.4f, %.4f], lng [%.4f -> %.4f] contains the face", latLo, latHi, lngLo, lngHi)))
		} else {
			obs = append(obs, core.Ob("R-FACEBOUNDS", construct, site, f.FullName(), core.Violated, fmt.Sprintf("face %d: %s", face, bad)))
		}
	}
	for face := 0; face < 6; face++ {
		if !seen[face] {
			obs = append(obs, core.Ob("R-FACEBOUNDS", fmt.Sprintf("face-cell-bound:face%d", face), c.Pos(sw.Pos()), f.FullName(), core.Violated, "no row for this face in the table"))
		}
	}
	return obs
}
