package rules

import (
	"fmt"
	"go/constant"
	"go/token"
	"go/types"
	"math"

	"golang.org/x/tools/go/ssa"

	"verif/checker/core"
)

// Obligations for the narrow claims on C16 (intersection point), C17 (edge distances) and C20 (approximation
// tolerances). All were written after an exploratory round of seeded changes against these properties.

func init() {
	core.Register(&core.Rule{
		Name: "R-TOLERANCE",
		Clause: "C20 'the output stays within the requested tolerance': the tessellator's error estimate is known to under-estimate by a constant factor, so the tolerance it compares the " +
			"estimate with is the requested tolerance multiplied by tessellationScaleFactor (< 1); the smallest supported tolerance is not raised above its documented value; the estimate is the " +
			"larger of the errors at BOTH interior fractions.",
		Min: 6,
		Run: runTolerance,
	})
	core.Register(&core.Rule{
		Name: "R-ORDERINDEP",
		Clause: "C16 'bit-identical under reversing either edge or swapping the two edges': every choice that depends on the order of the arguments is made by a rule that does not - the " +
			"hemisphere correction of Intersection uses all four vertices, a choice between two points by a computed distance falls back to a comparison of the points themselves when the " +
			"distances tie, and the exact fallback runs only when the stable method declined.",
		Min: 3,
		Run: runOrderIndep,
	})
	core.Register(&core.Rule{
		Name: "R-ERRMODEL",
		Clause: "C17 'results agree with the exact values within the documented error bounds': the documented error of UpdateMinDistance is the larger of the interior-case error and the " +
			"vertex-case error, the latter being the error of a distance between two points (MaxPointError), not of an angle conversion.",
		Min: 1,
		Run: runErrModel,
	})
}

func dependsOnConst(v ssa.Value, want float64, seen map[ssa.Value]bool, depth int) bool {
	if v == nil || seen[v] || depth > 10 {
		return false
	}
	seen[v] = true
	if k, ok := v.(*ssa.Const); ok && k.Value != nil && (k.Value.Kind() == constant.Float || k.Value.Kind() == constant.Int) {
		f, _ := constant.Float64Val(constant.ToFloat(k.Value))
		return math.Abs(f-want) <= 1e-15*math.Abs(want)
	}
	in, ok := v.(ssa.Instruction)
	if !ok {
		return false
	}
	var ops []*ssa.Value
	for _, o := range in.Operands(ops) {
		if o != nil && *o != nil && dependsOnConst(*o, want, seen, depth+1) {
			return true
		}
	}
	return false
}

func pkgFloatConst(c *core.Ctx, pkg, name string) (float64, bool) {
	p := c.Pkgs[pkg]
	if p == nil {
		return 0, false
	}
	k, ok := p.Types.Scope().Lookup(name).(*types.Const)
	if !ok {
		return 0, false
	}
	f, _ := constant.Float64Val(constant.ToFloat(k.Val()))
	return f, true
}

func runTolerance(c *core.Ctx) []core.Obligation {
	var obs []core.Obligation
	add := func(construct, site, fn string, ok bool, good, bad string) {
		if ok {
			obs = append(obs, core.Ob("R-TOLERANCE", construct, site, fn, core.Discharged, good))
		} else {
			obs = append(obs, core.Ob("R-TOLERANCE", construct, site, fn, core.Violated, bad))
		}
	}
	// (1) scaledTolerance = tessellationScaleFactor * max(tolerance, minTolerance)
	scale, okS := pkgFloatConst(c, "s2", "tessellationScaleFactor")
	if fn := c.Fn("s2", "", "NewEdgeTessellator"); fn != nil && okS {
		found, scaled := false, false
		core.AllInstrs(fn, func(in ssa.Instruction) {
			st, ok := in.(*ssa.Store)
			if !ok {
				return
			}
			fr, ok := core.AsFieldAddr(st.Addr)
			if !ok || fr.Name != "scaledTolerance" {
				return
			}
			found = true
			if dependsOnConst(st.Val, scale, map[ssa.Value]bool{}, 0) {
				scaled = true
			}
		})
		switch {
		case !found:
			add("tessellator:scaled-tolerance", c.Pos(fn.Pos()), core.FuncName(fn), false, "", "unresolved anchor: the store to scaledTolerance was not found")
		default:
			add("tessellator:scaled-tolerance", c.Pos(fn.Pos()), core.FuncName(fn), scaled,
				"the tolerance the error estimate is compared with is the requested tolerance times tessellationScaleFactor",
				fmt.Sprintf("EdgeTessellator.scaledTolerance is set from the requested tolerance without the factor tessellationScaleFactor (%.4f): estimateMaxError samples the error at two fixed fractions and can under-estimate the true maximum by exactly that factor, so the tessellated chain deviates from the edge by up to %.3f times the requested tolerance", scale, 1/scale))
		}
	} else {
		add("tessellator:scaled-tolerance", "-", "", false, "", "unresolved anchor: NewEdgeTessellator / tessellationScaleFactor")
	}
	// (2) the floor on the tolerance is not raised
	if v, ok := pkgFloatConst(c, "s2", "minTessellationTolerance"); ok {
		add("tessellator:min-tolerance", "-", "s2.minTessellationTolerance", v <= 1e-13,
			fmt.Sprintf("minTessellationTolerance = %g rad, not above the documented 1e-13", v),
			fmt.Sprintf("minTessellationTolerance = %g rad is above the documented 1e-13: smaller requested tolerances are silently replaced by it, so the achieved error exceeds the request", v))
	} else {
		add("tessellator:min-tolerance", "-", "", false, "", "unresolved anchor: minTessellationTolerance")
	}
	// (4) every constructor of a snap function establishes the snap radius it declares (a zero radius under-declares the
	// distance SnapPoint moves a point)
	for _, typ := range []string{"CellIDSnapper", "IntLatLngSnapper"} {
		n := 0
		for _, fn := range c.GeoFuncs() {
			if fn.Signature.Recv() != nil || fn.Signature.Results().Len() != 1 || !core.IsNamed(fn.Signature.Results().At(0).Type(), "s2", typ) {
				continue
			}
			n++
			sets := false
			core.AllInstrs(fn, func(in ssa.Instruction) {
				if st, ok := in.(*ssa.Store); ok {
					if fr, ok := core.AsFieldAddr(st.Addr); ok && fr.Name == "snapRadius" {
						sets = true
					}
				}
				if call, ok := in.(*ssa.Call); ok {
					if f := core.StaticCallee(call); f != nil && f != fn && f.Signature.Recv() == nil && f.Signature.Results().Len() == 1 && core.IsNamed(f.Signature.Results().At(0).Type(), "s2", typ) {
						sets = true // delegates to a sibling constructor, which is examined itself
					}
				}
			})
			add("snapper:constructor-sets-radius:"+core.FuncName(fn), c.Pos(fn.Pos()), core.FuncName(fn), sets,
				"the constructor assigns the snap radius (or delegates to a constructor that does)",
				core.FuncName(fn)+" returns a snap function whose snapRadius is left at zero: SnapRadius() then declares that snapping does not move points at all, while SnapPoint moves them to a cell centre")
		}
		if n == 0 {
			add("snapper:constructor-sets-radius:"+typ, "-", "", false, "", "unresolved anchor: no constructor of "+typ)
		}
	}
	// (5) the integer lat/lng grid is a grid of DEGREES times 10^exponent (its declared radius is sqrt(2)/2 * 10^-exponent
	// degrees): SnapPoint rounds the coordinates after converting them to degrees
	if fn := c.Fn("s2", "IntLatLngSnapper", "SnapPoint"); fn != nil {
		degrees := false
		core.AllInstrs(fn, func(in ssa.Instruction) {
			if call, ok := in.(*ssa.Call); ok {
				if f := core.StaticCallee(call); f != nil && (f.Name() == "Degrees" || f.Name() == "E5" || f.Name() == "E6" || f.Name() == "E7") {
					degrees = true
				}
			}
		})
		add("snapper:intlatlng-rounds-degrees", c.Pos(fn.Pos()), core.FuncName(fn), degrees,
			"the coordinates are converted to degrees before they are scaled and rounded",
			"IntLatLngSnapper.SnapPoint scales and rounds the latitude and longitude in RADIANS: the grid it snaps to is 10^-exponent radians wide, about 57 times coarser than the 10^-exponent degrees its snap radius is declared for, so points move up to ~50 times the declared radius")
	} else {
		add("snapper:intlatlng-rounds-degrees", "-", "", false, "", "unresolved anchor: IntLatLngSnapper.SnapPoint")
	}
	// (3) estimateMaxError: max over two samples
	if fn := c.Fn("s2", "EdgeTessellator", "estimateMaxError"); fn != nil {
		nDist, usesMax := 0, false
		core.AllInstrs(fn, func(in ssa.Instruction) {
			if call, ok := in.(*ssa.Call); ok && core.StaticCallee(call) != nil {
				switch core.StaticCallee(call).Name() {
				case "ChordAngleBetweenPoints":
					nDist++
				case "maxChordAngle":
					usesMax = true
				}
			}
		})
		add("tessellator:two-samples", c.Pos(fn.Pos()), core.FuncName(fn), nDist >= 2 && usesMax,
			"the estimate is the larger of the errors measured at both interior fractions",
			fmt.Sprintf("estimateMaxError measures the error at %d interior point(s): the error curve of an edge that crosses the equator asymmetrically peaks near the other fraction, so edges are accepted whose real deviation is many times the tolerance", nDist))
	} else {
		add("tessellator:two-samples", "-", "", false, "", "unresolved anchor: estimateMaxError")
	}
	return obs
}

func runOrderIndep(c *core.Ctx) []core.Obligation {
	var obs []core.Obligation
	add := func(construct string, fn *ssa.Function, ok bool, good, bad string) {
		site, name := "-", ""
		if fn != nil {
			site, name = c.Pos(fn.Pos()), core.FuncName(fn)
		}
		if ok {
			obs = append(obs, core.Ob("R-ORDERINDEP", construct, site, name, core.Discharged, good))
		} else {
			obs = append(obs, core.Ob("R-ORDERINDEP", construct, site, name, core.Violated, bad))
		}
	}
	if fn := c.Fn("s2", "", "Intersection"); fn != nil && len(fn.Params) == 4 {
		// (1) hemisphere correction: the vector dotted with the result depends on all four parameters
		okAll, found := false, false
		core.AllInstrs(fn, func(in ssa.Instruction) {
			bo, isBo := in.(*ssa.BinOp)
			if !isBo || bo.Op != token.LSS {
				return
			}
			dot, isCall := bo.X.(*ssa.Call)
			if !isCall || core.StaticCallee(dot) == nil || core.StaticCallee(dot).Name() != "Dot" || len(dot.Call.Args) != 2 {
				return
			}
			found = true
			dep := map[*ssa.Parameter]bool{}
			seen := map[ssa.Value]bool{}
			var walk func(v ssa.Value, d int)
			walk = func(v ssa.Value, d int) {
				if v == nil || seen[v] || d > 14 {
					return
				}
				seen[v] = true
				if p, isP := v.(*ssa.Parameter); isP {
					dep[p] = true
					return
				}
				if ld, isLd := v.(*ssa.UnOp); isLd {
					if al, isAl := ld.X.(*ssa.Alloc); isAl {
						for _, r := range *al.Referrers() {
							if st, isSt := r.(*ssa.Store); isSt && st.Addr == ssa.Value(al) {
								walk(st.Val, d+1)
							}
						}
					}
					if fa, isFa := ld.X.(*ssa.FieldAddr); isFa {
						walk(fa.X, d+1)
					}
				}
				if fa, isFa := v.(*ssa.FieldAddr); isFa {
					walk(fa.X, d+1)
				}
				if al, isAl := v.(*ssa.Alloc); isAl {
					for _, r := range *al.Referrers() {
						if st, isSt := r.(*ssa.Store); isSt && st.Addr == ssa.Value(al) {
							walk(st.Val, d+1)
						}
					}
				}
				if ins, isI := v.(ssa.Instruction); isI {
					var ops []*ssa.Value
					for _, o := range ins.Operands(ops) {
						if o != nil {
							walk(*o, d+1)
						}
					}
				}
			}
			walk(dot.Call.Args[1], 0)
			n := 0
			for _, p := range fn.Params {
				if dep[p] {
					n++
				}
			}
			if n == 4 {
				okAll = true
			}
		})
		if !found {
			add("Intersection:hemisphere-uses-all-vertices", fn, false, "", "unresolved anchor: the hemisphere test pt.Dot(...) < 0 was not found")
		} else {
			add("Intersection:hemisphere-uses-all-vertices", fn, okAll, "the vector that decides the hemisphere is a function of all four vertices",
				"the vector that decides on which side of the sphere the result lies does not depend on all four vertices: it changes when the edges are swapped, and when the edge it is taken from is nearly 180 degrees long it is rounding noise, so the antipode of the intersection is returned")
		}
		// (2) exact fallback only when the stable method declined
		okFallback, seenExact := true, false
		core.AllInstrs(fn, func(in ssa.Instruction) {
			call, isCall := in.(*ssa.Call)
			if !isCall || core.StaticCallee(call) == nil || core.StaticCallee(call).Name() != "intersectionExact" {
				return
			}
			seenExact = true
			guarded := false
			for _, b := range fn.Blocks {
				iff, isIf := b.Instrs[len(b.Instrs)-1].(*ssa.If)
				if !isIf {
					continue
				}
				ex, isEx := iff.Cond.(*ssa.Extract)
				if !isEx {
					continue
				}
				if st, isSt := ex.Tuple.(*ssa.Call); isSt && core.StaticCallee(st) != nil && core.StaticCallee(st).Name() == "intersectionStable" {
					if core.EdgeDominates(core.Edge{From: b, Idx: 1}, call.Block()) {
						guarded = true
					}
				}
			}
			if !guarded {
				okFallback = false
			}
		})
		add("Intersection:exact-only-after-stable", fn, seenExact && okFallback, "intersectionExact runs only when intersectionStable reported that its error estimate was too large",
			"intersectionExact is not reached exactly on the 'stable method declined' edge")
	} else {
		add("Intersection:hemisphere-uses-all-vertices", nil, false, "", "unresolved anchor: Intersection")
	}
	// (3) projection: tie between the two squared distances is broken by comparing the points
	if fn := c.Fn("s2", "", "projection"); fn != nil {
		usesCmp, cmpDist := false, false
		core.AllInstrs(fn, func(in ssa.Instruction) {
			switch x := in.(type) {
			case *ssa.Call:
				if f := core.StaticCallee(x); f != nil && f.Name() == "Cmp" {
					usesCmp = true
				}
			case *ssa.BinOp:
				if x.Op == token.LSS || x.Op == token.LEQ || x.Op == token.EQL {
					cx, okx := x.X.(*ssa.Call)
					cy, oky := x.Y.(*ssa.Call)
					if okx && oky && core.StaticCallee(cx) != nil && core.StaticCallee(cy) != nil && core.StaticCallee(cx).Name() == "Norm2" && core.StaticCallee(cy).Name() == "Norm2" {
						cmpDist = true
					}
				}
			}
		})
		if !cmpDist {
			add("projection:tie-break", fn, false, "", "unresolved anchor: the comparison of the two squared distances was not found")
		} else {
			add("projection:tie-break", fn, usesCmp, "equal distances fall back to the lexicographic comparison of the two vectors",
				"the endpoint to interpolate from is chosen by comparing two computed distances only: when they are exactly equal the choice depends on which endpoint was passed first, so reversing the edge changes the last bits of the intersection point")
		}
	} else {
		add("projection:tie-break", nil, false, "", "unresolved anchor: projection")
	}
	return obs
}

func runErrModel(c *core.Ctx) []core.Obligation {
	var obs []core.Obligation
	fn := c.Fn("s2", "", "minUpdateDistanceMaxError")
	if fn == nil {
		return append(obs, core.Ob("R-ERRMODEL", "minUpdateDistanceMaxError", "-", "", core.Violated, "unresolved anchor"))
	}
	interior, point, angle, usesMax := false, false, false, false
	core.AllInstrs(fn, func(in ssa.Instruction) {
		call, ok := in.(*ssa.Call)
		if !ok || core.StaticCallee(call) == nil {
			return
		}
		switch core.StaticCallee(call).Name() {
		case "minUpdateInteriorDistanceMaxError":
			interior = true
		case "MaxPointError":
			point = true
		case "MaxAngleError":
			angle = true
		case "Max":
			usesMax = true
		}
	})
	if interior && point && usesMax && !angle {
		obs = append(obs, core.Ob("R-ERRMODEL", "minUpdateDistanceMaxError", c.Pos(fn.Pos()), core.FuncName(fn), core.Discharged, "max(interior-case error, MaxPointError of the distance)"))
	} else {
		obs = append(obs, core.Ob("R-ERRMODEL", "minUpdateDistanceMaxError", c.Pos(fn.Pos()), core.FuncName(fn), core.Violated,
			"the documented error of UpdateMinDistance is no longer max(interior-case error, MaxPointError): in the vertex case the result is a distance between two points, whose error is MaxPointError; with a smaller term the bound is exceeded for distances beyond 90 degrees and the conservatively expanded limits of IsDistanceLess / EdgeQuery miss true results"))
	}
	return obs
}
