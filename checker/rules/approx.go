package rules

import (
	"fmt"
	"go/constant"
	"go/token"
	"go/types"
	"math"
	"sort"
	"strings"

	"golang.org/x/tools/go/ssa"

	"verif/checker/core"
)

// Obligations for the narrow claims on C16 (intersection point), C17 (edge distances) and C20 (approximation
// tolerances). All were written after an exploratory round of seeded changes against these properties.

func init() {
	core.Register(&core.Rule{
		Name: "R-TOLERANCE",
		Clause: "C20 'the output stays within the requested tolerance': the tessellator's error estimate is known to under-estimate by a constant factor, so the tolerance it compares the " +
			"estimate with is the requested tolerance multiplied by tessellationScaleFactor (< 1); the smallest supported tolerance is not raised above its documented value; the estimate is the " +
			"larger of the errors at BOTH interior fractions.",
		Min: 6,
		Run: runTolerance,
	})
	core.Register(&core.Rule{
		Name: "R-ORDERINDEP",
		Clause: "C16 'bit-identical under reversing either edge or swapping the two edges': every choice that depends on the order of the arguments is made by a rule that does not - the " +
			"hemisphere correction of Intersection uses all four vertices, a choice between two points by a computed distance falls back to a comparison of the points themselves when the " +
			"distances tie, and the exact fallback runs only when the stable method declined.",
		Min: 3,
		Run: runOrderIndep,
	})
	core.Register(&core.Rule{
		Name: "R-ERRMODEL",
		Clause: "C17 'results agree with the exact values within the documented error bounds': the documented error of UpdateMinDistance is the larger of the interior-case error and the " +
			"vertex-case error, the latter being the error of a distance between two points (MaxPointError), not of an angle conversion.",
		Min: 1,
		Run: runErrModel,
	})
}

func dependsOnConst(v ssa.Value, want float64, seen map[ssa.Value]bool, depth int) bool {
	if v == nil || seen[v] || depth > 10 {
		return false
	}
	seen[v] = true
	if k, ok := v.(*ssa.Const); ok && k.Value != nil && (k.Value.Kind() == constant.Float || k.Value.Kind() == constant.Int) {
		f, _ := constant.Float64Val(constant.ToFloat(k.Value))
		return math.Abs(f-want) <= 1e-15*math.Abs(want)
	}
	in, ok := v.(ssa.Instruction)
	if !ok {
		return false
	}
	var ops []*ssa.Value
	for _, o := range in.Operands(ops) {
		if o != nil && *o != nil && dependsOnConst(*o, want, seen, depth+1) {
			return true
		}
	}
	return false
}

func pkgFloatConst(c *core.Ctx, pkg, name string) (float64, bool) {
	p := c.Pkgs[pkg]
	if p == nil {
		return 0, false
	}
	k, ok := p.Types.Scope().Lookup(name).(*types.Const)
	if !ok {
		return 0, false
	}
	f, _ := constant.Float64Val(constant.ToFloat(k.Val()))
	return f, true
}

func runTolerance(c *core.Ctx) []core.Obligation {
	var obs []core.Obligation
	add := func(construct, site, fn string, ok bool, good, bad string) {
		if ok {
			obs = append(obs, core.Ob("R-TOLERANCE", construct, site, fn, core.Discharged, good))
		} else {
			obs = append(obs, core.Ob("R-TOLERANCE", construct, site, fn, core.Violated, bad))
		}
	}
	// (1) scaledTolerance = tessellationScaleFactor * max(tolerance, minTolerance)
	scale, okS := pkgFloatConst(c, "s2", "tessellationScaleFactor")
	if fn := c.Fn("s2", "", "NewEdgeTessellator"); fn != nil && okS {
		found, scaled := false, false
		core.AllInstrs(fn, func(in ssa.Instruction) {
			st, ok := in.(*ssa.Store)
			if !ok {
				return
			}
			fr, ok := core.AsFieldAddr(st.Addr)
			if !ok || fr.Name != "scaledTolerance" {
				return
			}
			found = true
			if dependsOnConst(st.Val, scale, map[ssa.Value]bool{}, 0) {
				scaled = true
			}
		})
		switch {
		case !found:
			add("tessellator:scaled-tolerance", c.Pos(fn.Pos()), core.FuncName(fn), false, "", "unresolved anchor: the store to scaledTolerance was not found")
		default:
			add("tessellator:scaled-tolerance", c.Pos(fn.Pos()), core.FuncName(fn), scaled,
				"the tolerance the error estimate is compared with is the requested tolerance times tessellationScaleFactor",
				fmt.Sprintf("EdgeTessellator.scaledTolerance is set from the requested tolerance without the factor tessellationScaleFactor (%.4f): estimateMaxError samples the error at two fixed fractions and can under-estimate the true maximum by exactly that factor, so the tessellated chain deviates from the edge by up to %.3f times the requested tolerance", scale, 1/scale))
		}
	} else {
		add("tessellator:scaled-tolerance", "-", "", false, "", "unresolved anchor: NewEdgeTessellator / tessellationScaleFactor")
	}
	// (2) the floor on the tolerance is not raised
	if v, ok := pkgFloatConst(c, "s2", "minTessellationTolerance"); ok {
		add("tessellator:min-tolerance", "-", "s2.minTessellationTolerance", v <= 1e-13,
			fmt.Sprintf("minTessellationTolerance = %g rad, not above the documented 1e-13", v),
			fmt.Sprintf("minTessellationTolerance = %g rad is above the documented 1e-13: smaller requested tolerances are silently replaced by it, so the achieved error exceeds the request", v))
	} else {
		add("tessellator:min-tolerance", "-", "", false, "", "unresolved anchor: minTessellationTolerance")
	}
	// (4) every constructor of a snap function establishes the snap radius it declares (a zero radius under-declares the
	// distance SnapPoint moves a point)
	for _, typ := range []string{"CellIDSnapper", "IntLatLngSnapper"} {
		n := 0
		for _, fn := range c.GeoFuncs() {
			if fn.Signature.Recv() != nil || fn.Signature.Results().Len() != 1 || !core.IsNamed(fn.Signature.Results().At(0).Type(), "s2", typ) {
				continue
			}
			n++
			sets := false
			core.AllInstrs(fn, func(in ssa.Instruction) {
				if st, ok := in.(*ssa.Store); ok {
					if fr, ok := core.AsFieldAddr(st.Addr); ok && fr.Name == "snapRadius" {
						sets = true
					}
				}
				if call, ok := in.(*ssa.Call); ok {
					if f := core.StaticCallee(call); f != nil && f != fn && f.Signature.Recv() == nil && f.Signature.Results().Len() == 1 && core.IsNamed(f.Signature.Results().At(0).Type(), "s2", typ) {
						sets = true // delegates to a sibling constructor, which is examined itself
					}
				}
			})
			add("snapper:constructor-sets-radius:"+core.FuncName(fn), c.Pos(fn.Pos()), core.FuncName(fn), sets,
				"the constructor assigns the snap radius (or delegates to a constructor that does)",
				core.FuncName(fn)+" returns a snap function whose snapRadius is left at zero: SnapRadius() then declares that snapping does not move points at all, while SnapPoint moves them to a cell centre")
		}
		if n == 0 {
			add("snapper:constructor-sets-radius:"+typ, "-", "", false, "", "unresolved anchor: no constructor of "+typ)
		}
	}
	// (5) the integer lat/lng grid is a grid of DEGREES times 10^exponent (its declared radius is sqrt(2)/2 * 10^-exponent
	// degrees): SnapPoint rounds the coordinates after converting them to degrees
	if fn := c.Fn("s2", "IntLatLngSnapper", "SnapPoint"); fn != nil {
		degrees := false
		core.AllInstrs(fn, func(in ssa.Instruction) {
			if call, ok := in.(*ssa.Call); ok {
				if f := core.StaticCallee(call); f != nil && (f.Name() == "Degrees" || f.Name() == "E5" || f.Name() == "E6" || f.Name() == "E7") {
					degrees = true
				}
			}
		})
		add("snapper:intlatlng-rounds-degrees", c.Pos(fn.Pos()), core.FuncName(fn), degrees,
			"the coordinates are converted to degrees before they are scaled and rounded",
			"IntLatLngSnapper.SnapPoint scales and rounds the latitude and longitude in RADIANS: the grid it snaps to is 10^-exponent radians wide, about 57 times coarser than the 10^-exponent degrees its snap radius is declared for, so points move up to ~50 times the declared radius")
	} else {
		add("snapper:intlatlng-rounds-degrees", "-", "", false, "", "unresolved anchor: IntLatLngSnapper.SnapPoint")
	}
	// (3) estimateMaxError: max over two samples
	if fn := c.Fn("s2", "EdgeTessellator", "estimateMaxError"); fn != nil {
		nDist, usesMax := 0, false
		core.AllInstrs(fn, func(in ssa.Instruction) {
			if call, ok := in.(*ssa.Call); ok && core.StaticCallee(call) != nil {
				switch core.StaticCallee(call).Name() {
				case "ChordAngleBetweenPoints":
					nDist++
				case "maxChordAngle":
					usesMax = true
				}
			}
		})
		add("tessellator:two-samples", c.Pos(fn.Pos()), core.FuncName(fn), nDist >= 2 && usesMax,
			"the estimate is the larger of the errors measured at both interior fractions",
			fmt.Sprintf("estimateMaxError measures the error at %d interior point(s): the error curve of an edge that crosses the equator asymmetrically peaks near the other fraction, so edges are accepted whose real deviation is many times the tolerance", nDist))
	} else {
		add("tessellator:two-samples", "-", "", false, "", "unresolved anchor: estimateMaxError")
	}
	// (6) the two tessellation constants fit the documented error model (after round-6 seed C20-r6m3, the fraction
	// changed from 0.312... to 0.321...): the error is measured at x0 = 1 - 2*fraction (in the [-1, 1] parameter) and
	// an edge is accepted when that error is at most scale * tolerance. Under the model in the file comment the true
	// maximum is at most E(x0)/E1(x0) or E(x0)/E2(x0), so the accepted edges stay within the tolerance only if
	// scale <= min(E1(x0), E2(x0)), with E2(x) = x(1-x^2)/(2*sqrt(3)/9) and E1 the spherical Plate Carree function
	// quoted there. Both functions are evaluated here at the constants found in the source.
	frac, okF := pkgFloatConst(c, "s2", "tessellationInterpolationFraction")
	if okS && okF {
		x0 := 1 - 2*frac
		e2 := x0 * (1 - x0*x0) / (2 * math.Sqrt(3) / 9)
		s8, s4 := math.Sin(math.Pi/8*(1-x0)), math.Sin(math.Pi/4*(1-x0))
		e1 := math.Asin(math.Sqrt(s8*s8+s4*s4*math.Cos(math.Pi/4)*math.Sin(math.Pi/4*x0))) / math.Asin(math.Sqrt((1-1/math.Sqrt2)/2))
		lim := math.Min(e1, e2)
		add("tessellator:constants-fit-error-model", "-", "", scale <= lim*(1+1e-12) && frac > 0 && frac < 0.5,
			fmt.Sprintf("fraction %.17g gives x0 = %.6f, E1(x0) = %.12f, E2(x0) = %.12f; the scale factor %.17g does not exceed either", frac, x0, e1, e2, scale),
			fmt.Sprintf("fraction %.17g gives x0 = %.6f with E1(x0) = %.6f and E2(x0) = %.6f, but the measured error is compared with %.6f * tolerance: under the documented error model the true maximum of an accepted edge can reach %.4f times the tolerance", frac, x0, e1, e2, scale, scale/lim))
	} else {
		add("tessellator:constants-fit-error-model", "-", "", false, "", "unresolved anchor: the tessellation constants")
	}
	// (7) no SnapPoint squeezes a scaled coordinate through a narrow integer (after round-6 seed C20-r6m2, int32 of
	// degrees * 10^exponent): the grid exponent goes up to 10, where 180 * 10^10 is far beyond 32 bits, so the
	// conversion overflows and the "snapped" point is nowhere near the input.
	nSnap := 0
	for _, fn := range c.GeoFuncs() {
		if fn.Name() != "SnapPoint" || fn.Signature.Recv() == nil {
			continue
		}
		nSnap++
		bad := ""
		// the method itself and the helpers of its own file that it calls (after round-8 seed C20-r8m1, rounding moved
		// into a helper float64(int64(x + 0.5))): a conversion to an integer narrower than 64 bits overflows for the
		// larger exponents, and ANY float-to-integer conversion truncates toward zero, i.e. rounds negative coordinates
		// the wrong way by up to a full grid unit where the declared radius assumes half a unit.
		seenFn := map[*ssa.Function]bool{}
		var scan func(f *ssa.Function, depth int)
		scan = func(f *ssa.Function, depth int) {
			if f == nil || seenFn[f] || depth > 2 {
				return
			}
			seenFn[f] = true
			core.AllInstrs(f, func(in ssa.Instruction) {
				if call, ok := in.(*ssa.Call); ok {
					if cal := core.StaticCallee(call); cal != nil && core.IsGeo(cal) && strings.HasPrefix(c.Pos(cal.Pos()), "s2/builder_snapper.go") {
						scan(cal, depth+1)
					}
				}
				cv, ok := in.(*ssa.Convert)
				if !ok {
					return
				}
				from, ok1 := cv.X.Type().Underlying().(*types.Basic)
				to, ok2 := cv.Type().Underlying().(*types.Basic)
				if !ok1 || !ok2 || from.Info()&types.IsFloat == 0 || to.Info()&types.IsInteger == 0 {
					return
				}
				bad = c.Pos(cv.Pos())
			})
		}
		scan(fn, 0)
		add("snapper:no-narrow-integer:"+core.FuncName(fn), c.Pos(fn.Pos()), core.FuncName(fn), bad == "",
			"no floating-point coordinate is converted to an integer (rounding is done by math.Round in floating point)",
			"a scaled coordinate is converted to an integer at "+bad+": a conversion truncates toward zero, so negative coordinates are rounded the wrong way by up to a full grid unit, and for the larger grid exponents a 32-bit integer overflows (180 * 10^10) - SnapPoint then moves the point farther than the snap radius the function declares")
	}
	// (8) edges longer than 90 degrees are always subdivided (after round-7 seed C20-r7m1, the guard rewritten as
	// ChordAngleBetweenPoints(a, b) > s1.StraightChordAngle, which no chord angle can exceed): the two-sample
	// estimate is only valid up to 90 degrees, so the "infinite error" answer must be reachable for such edges -
	// a.Dot(b) < c with -1e-13 <= c <= 0, or a chord angle compared with at most RightChordAngle (2).
	if fn := c.Fn("s2", "EdgeTessellator", "estimateMaxError"); fn != nil {
		okGuard, found := false, false
		for _, b := range fn.Blocks {
			ifi, ok := b.Instrs[len(b.Instrs)-1].(*ssa.If)
			if !ok {
				continue
			}
			bo, ok := ifi.Cond.(*ssa.BinOp)
			if !ok {
				continue
			}
			// does the true side return InfChordAngle()?
			retInf := false
			for _, in := range b.Succs[0].Instrs {
				if call, ok := in.(*ssa.Call); ok && core.StaticCallee(call) != nil && core.StaticCallee(call).Name() == "InfChordAngle" {
					retInf = true
				}
			}
			if !retInf {
				continue
			}
			found = true
			kval := func(v ssa.Value) (float64, bool) {
				k, ok := v.(*ssa.Const)
				if !ok || k.Value == nil {
					return 0, false
				}
				f, _ := constant.Float64Val(constant.ToFloat(k.Value))
				return f, true
			}
			callee := func(v ssa.Value) string {
				if call, ok := v.(*ssa.Call); ok && core.StaticCallee(call) != nil {
					return core.StaticCallee(call).Name()
				}
				return ""
			}
			x, y, op := bo.X, bo.Y, bo.Op
			if _, isK := kval(x); isK {
				// constant on the left: turn the comparison round
				x, y = y, x
				op = map[token.Token]token.Token{token.LSS: token.GTR, token.GTR: token.LSS, token.LEQ: token.GEQ, token.GEQ: token.LEQ}[op]
			}
			if k, ok := kval(y); ok {
				switch {
				case callee(x) == "Dot" && (op == token.LSS || op == token.LEQ) && k <= 0 && k >= -1e-13:
					okGuard = true
				case callee(x) == "ChordAngleBetweenPoints" && (op == token.GTR || op == token.GEQ) && k <= 2*(1+1e-12) && k > 0:
					okGuard = true
				}
			}
		}
		switch {
		case !found:
			add("tessellator:long-edges-always-split", c.Pos(fn.Pos()), core.FuncName(fn), false, "", "estimateMaxError no longer has a branch that answers 'infinite error': edges longer than 90 degrees, for which the two-sample estimate is not valid, are accepted on that estimate")
		default:
			add("tessellator:long-edges-always-split", c.Pos(fn.Pos()), core.FuncName(fn), okGuard, "edges whose endpoints are more than 90 degrees apart get an infinite error estimate and are always subdivided",
				"the test that sends long edges to 'infinite error' does not fire at 90 degrees (a chord angle never exceeds StraightChordAngle): edges between 90 and 180 degrees are accepted on the two-sample estimate, which is not valid for them, and the chain can deviate by more than the tolerance")
		}
	} else {
		add("tessellator:long-edges-always-split", "-", "", false, "", "unresolved anchor")
	}
	// (8b) an edge is accepted without further subdivision only on the error test (after round-8 seed C20-r8m2, a
	// recursion-depth cut-off `depth >= 23 || estimate <= scaledTolerance`): the tolerance is a promise about the
	// output, so every return of appendProjected / appendUnprojected that does not recurse lies behind the true side
	// of estimateMaxError(...) <= scaledTolerance; any other way out hands back an edge whose error was never found
	// small enough.
	for _, name := range []string{"appendProjected", "appendUnprojected"} {
		construct := "tessellator:accept-only-on-error-test:" + name
		fn := c.Fn("s2", "EdgeTessellator", name)
		if fn == nil {
			add(construct, "-", "", false, "", "unresolved anchor")
			continue
		}
		var okEdges []core.Edge
		for _, b := range fn.Blocks {
			ifi, ok := b.Instrs[len(b.Instrs)-1].(*ssa.If)
			if !ok {
				continue
			}
			bo, ok := ifi.Cond.(*ssa.BinOp)
			if !ok {
				continue
			}
			isEst := func(v ssa.Value) bool {
				call, ok := v.(*ssa.Call)
				return ok && core.StaticCallee(call) != nil && core.StaticCallee(call).Name() == "estimateMaxError"
			}
			// the bound is the tessellator's scaledTolerance itself (after round-9 seed C20-r9m1, a second acceptance
			// against a field holding twice that): the scale factor is derived for exactly this comparison
			isTol := func(v ssa.Value) bool {
				fr, ok := core.AsFieldLoad(v)
				return ok && fr.Name == "scaledTolerance"
			}
			if !(isEst(bo.X) && isTol(bo.Y)) && !(isEst(bo.Y) && isTol(bo.X)) {
				continue
			}
			switch {
			case isEst(bo.X) && (bo.Op == token.LEQ || bo.Op == token.LSS):
				okEdges = append(okEdges, core.Edge{From: b, Idx: 0})
			case isEst(bo.X) && (bo.Op == token.GTR || bo.Op == token.GEQ):
				okEdges = append(okEdges, core.Edge{From: b, Idx: 1})
			case isEst(bo.Y) && (bo.Op == token.GEQ || bo.Op == token.GTR):
				okEdges = append(okEdges, core.Edge{From: b, Idx: 0})
			case isEst(bo.Y) && (bo.Op == token.LEQ || bo.Op == token.LSS):
				okEdges = append(okEdges, core.Edge{From: b, Idx: 1})
			}
		}
		nacc, bad := 0, ""
		for _, b := range fn.Blocks {
			ret, ok := b.Instrs[len(b.Instrs)-1].(*ssa.Return)
			if !ok {
				continue
			}
			// does this return come straight from a recursive call?
			recursive := false
			if len(ret.Results) == 1 {
				if call, ok := ret.Results[0].(*ssa.Call); ok && core.StaticCallee(call) == fn {
					recursive = true
				}
			}
			if recursive {
				continue
			}
			nacc++
			dominated := false
			for _, e := range okEdges {
				if core.EdgeDominates(e, b) {
					dominated = true
				}
			}
			if !dominated && bad == "" {
				bad = c.Pos(ret.Pos())
			}
		}
		switch {
		case nacc == 0 || len(okEdges) == 0:
			add(construct, c.Pos(fn.Pos()), core.FuncName(fn), false, "", "unresolved anchor: the accepting return or the error test was not found")
		default:
			add(construct, c.Pos(fn.Pos()), core.FuncName(fn), bad == "", fmt.Sprintf("%d accepting return(s), each behind estimateMaxError(...) <= scaledTolerance", nacc),
				"the return at "+bad+" accepts the current edge without the error estimate having been found within the scaled tolerance (some other condition, a depth or size cut-off, also leads there): for inputs that need more subdivision than the cut-off allows - long high-latitude edges at tolerances near the minimum - the chain deviates from the geodesic by several times the requested tolerance")
		}
	}
	// (9) the x coordinate is wrapped in projection units (after round-7 seed C20-r7m2,
	// math.Remainder(toRadians*pt.X, xWrap)): xWrap is in the projection's own units, so the value reduced modulo
	// xWrap must be the raw coordinate; scaled to radians first it is reduced modulo the wrong period whenever the
	// projection's scale is not Pi.
	nproj := 0
	for _, fn := range c.GeoFuncs() {
		if fn.Name() != "ToLatLng" || fn.Signature.Recv() == nil {
			continue
		}
		core.AllInstrs(fn, func(in ssa.Instruction) {
			call, ok := in.(*ssa.Call)
			if !ok || core.StaticCallee(call) == nil || core.StaticCallee(call).Name() != "Remainder" || len(call.Call.Args) != 2 {
				return
			}
			nproj++
			raw := false
			if fr, ok := core.AsFieldLoad(call.Call.Args[0]); ok && fr.Name == "X" {
				raw = true
			}
			mod, okm := core.AsFieldLoad(call.Call.Args[1])
			add("projection:wrap-in-projection-units:"+core.FuncName(fn), c.Pos(call.Pos()), core.FuncName(fn), raw && okm && mod.Name == "xWrap",
				"the raw x coordinate is reduced modulo xWrap, both in projection units",
				"math.Remainder is applied to something other than the raw x coordinate with modulus xWrap: xWrap is in projection units, so a coordinate already scaled to radians is reduced modulo the wrong period for every projection whose scale is not Pi, and Unproject(Project(p)) lands tens of degrees away from p")
		})
	}
	if nproj < 2 {
		add("projection:wrap-in-projection-units:anchor", "-", "", false, "", fmt.Sprintf("unresolved anchor: %d wraps in ToLatLng methods, 2 expected", nproj))
	}
	if nSnap < 3 {
		add("snapper:no-narrow-integer:anchor", "-", "", false, "", fmt.Sprintf("unresolved anchor: %d SnapPoint methods, 3 expected", nSnap))
	}
	obs = append(obs, lawOfSines(c)...)
	obs = append(obs, immutableTessellator(c))
	return obs
}

func runOrderIndep(c *core.Ctx) []core.Obligation {
	var obs []core.Obligation
	add := func(construct string, fn *ssa.Function, ok bool, good, bad string) {
		site, name := "-", ""
		if fn != nil {
			site, name = c.Pos(fn.Pos()), core.FuncName(fn)
		}
		if ok {
			obs = append(obs, core.Ob("R-ORDERINDEP", construct, site, name, core.Discharged, good))
		} else {
			obs = append(obs, core.Ob("R-ORDERINDEP", construct, site, name, core.Violated, bad))
		}
	}
	if fn := c.Fn("s2", "", "Intersection"); fn != nil && len(fn.Params) == 4 {
		// (1) hemisphere correction: the vector dotted with the result depends on all four parameters
		okAll, found := false, false
		core.AllInstrs(fn, func(in ssa.Instruction) {
			bo, isBo := in.(*ssa.BinOp)
			if !isBo || bo.Op != token.LSS {
				return
			}
			dot, isCall := bo.X.(*ssa.Call)
			if !isCall || core.StaticCallee(dot) == nil || core.StaticCallee(dot).Name() != "Dot" || len(dot.Call.Args) != 2 {
				return
			}
			found = true
			dep := map[*ssa.Parameter]bool{}
			seen := map[ssa.Value]bool{}
			var walk func(v ssa.Value, d int)
			walk = func(v ssa.Value, d int) {
				if v == nil || seen[v] || d > 14 {
					return
				}
				seen[v] = true
				if p, isP := v.(*ssa.Parameter); isP {
					dep[p] = true
					return
				}
				if ld, isLd := v.(*ssa.UnOp); isLd {
					if al, isAl := ld.X.(*ssa.Alloc); isAl {
						for _, r := range *al.Referrers() {
							if st, isSt := r.(*ssa.Store); isSt && st.Addr == ssa.Value(al) {
								walk(st.Val, d+1)
							}
						}
					}
					if fa, isFa := ld.X.(*ssa.FieldAddr); isFa {
						walk(fa.X, d+1)
					}
				}
				if fa, isFa := v.(*ssa.FieldAddr); isFa {
					walk(fa.X, d+1)
				}
				if al, isAl := v.(*ssa.Alloc); isAl {
					for _, r := range *al.Referrers() {
						if st, isSt := r.(*ssa.Store); isSt && st.Addr == ssa.Value(al) {
							walk(st.Val, d+1)
						}
					}
				}
				if ins, isI := v.(ssa.Instruction); isI {
					var ops []*ssa.Value
					for _, o := range ins.Operands(ops) {
						if o != nil {
							walk(*o, d+1)
						}
					}
				}
			}
			walk(dot.Call.Args[1], 0)
			n := 0
			for _, p := range fn.Params {
				if dep[p] {
					n++
				}
			}
			if n == 4 {
				okAll = true
			}
		})
		if !found {
			add("Intersection:hemisphere-uses-all-vertices", fn, false, "", "unresolved anchor: the hemisphere test pt.Dot(...) < 0 was not found")
		} else {
			add("Intersection:hemisphere-uses-all-vertices", fn, okAll, "the vector that decides the hemisphere is a function of all four vertices",
				"the vector that decides on which side of the sphere the result lies does not depend on all four vertices: it changes when the edges are swapped, and when the edge it is taken from is nearly 180 degrees long it is rounding noise, so the antipode of the intersection is returned")
		}
		// (1b) ... and it is the balanced sum (a0 + a1) + (b0 + b1) (after round-6 seed C16-r6m2, the parentheses
		// "simplified" away): floating-point addition is commutative but not associative, so only a sum whose two
		// halves are the two edges gives the same bits when an edge is reversed (x + y == y + x) or the edges are
		// swapped (X + Y == Y + X). Any other grouping of the four vertices depends on the argument order, and for
		// nearly antipodal endpoints the sign test, and with it the returned point, flips.
		{
			idx := map[string]int{}
			for i, p := range fn.Params {
				idx[p.Name()] = i
			}
			var leaf func(v ssa.Value, d int) int
			leaf = func(v ssa.Value, d int) int {
				if d > 6 {
					return -1
				}
				switch x := v.(type) {
				case *ssa.Parameter:
					if i, ok := idx[x.Name()]; ok {
						return i
					}
				case *ssa.Field:
					return leaf(x.X, d+1)
				case *ssa.UnOp:
					if x.Op == token.MUL {
						return leaf(x.X, d+1)
					}
				case *ssa.FieldAddr:
					return leaf(x.X, d+1)
				case *ssa.Alloc:
					var src ssa.Value
					n := 0
					for _, r := range *x.Referrers() {
						if st, ok := r.(*ssa.Store); ok && st.Addr == ssa.Value(x) {
							n++
							src = st.Val
						}
					}
					if n == 1 {
						return leaf(src, d+1)
					}
				}
				return -1
			}
			isAdd := func(v ssa.Value) (*ssa.Call, bool) {
				call, ok := v.(*ssa.Call)
				if !ok || core.StaticCallee(call) == nil || core.StaticCallee(call).Name() != "Add" || len(call.Call.Args) != 2 {
					return nil, false
				}
				return call, true
			}
			balanced, seenDot := false, false
			core.AllInstrs(fn, func(in ssa.Instruction) {
				bo, isBo := in.(*ssa.BinOp)
				if !isBo || bo.Op != token.LSS {
					return
				}
				dot, isCall := bo.X.(*ssa.Call)
				if !isCall || core.StaticCallee(dot) == nil || core.StaticCallee(dot).Name() != "Dot" || len(dot.Call.Args) != 2 {
					return
				}
				seenDot = true
				top, ok := isAdd(dot.Call.Args[1])
				if !ok {
					return
				}
				l, okl := isAdd(top.Call.Args[0])
				r, okr := isAdd(top.Call.Args[1])
				if !okl || !okr {
					return
				}
				pair := func(c *ssa.Call) int {
					a, b := leaf(c.Call.Args[0], 0), leaf(c.Call.Args[1], 0)
					if a < 0 || b < 0 || a == b || a/2 != b/2 {
						return -1
					}
					return a / 2
				}
				pl, pr := pair(l), pair(r)
				if pl >= 0 && pr >= 0 && pl != pr {
					balanced = true
				}
			})
			if !seenDot {
				add("Intersection:hemisphere-sum-balanced", fn, false, "", "unresolved anchor: the hemisphere test pt.Dot(...) < 0 was not found")
			} else {
				add("Intersection:hemisphere-sum-balanced", fn, balanced, "the deciding vector is (a0 + a1) + (b0 + b1): each half is one edge, so reversing an edge or swapping the edges gives the same bits",
					"the four vertices are not summed as (a0 + a1) + (b0 + b1): floating-point addition is not associative, so another grouping gives different bits when an edge is reversed or the edges are swapped; for edges with nearly antipodal endpoints the sum is rounding noise, its sign flips with the argument order, and Intersection returns the antipode for one order")
			}
		}
		// (2) exact fallback only when the stable method declined
		okFallback, seenExact := true, false
		core.AllInstrs(fn, func(in ssa.Instruction) {
			call, isCall := in.(*ssa.Call)
			if !isCall || core.StaticCallee(call) == nil || core.StaticCallee(call).Name() != "intersectionExact" {
				return
			}
			seenExact = true
			guarded := false
			for _, b := range fn.Blocks {
				iff, isIf := b.Instrs[len(b.Instrs)-1].(*ssa.If)
				if !isIf {
					continue
				}
				ex, isEx := iff.Cond.(*ssa.Extract)
				if !isEx {
					continue
				}
				if st, isSt := ex.Tuple.(*ssa.Call); isSt && core.StaticCallee(st) != nil && core.StaticCallee(st).Name() == "intersectionStable" {
					if core.EdgeDominates(core.Edge{From: b, Idx: 1}, call.Block()) {
						guarded = true
					}
				}
			}
			if !guarded {
				okFallback = false
			}
		})
		add("Intersection:exact-only-after-stable", fn, seenExact && okFallback, "intersectionExact runs only when intersectionStable reported that its error estimate was too large",
			"intersectionExact is not reached exactly on the 'stable method declined' edge")
	} else {
		add("Intersection:hemisphere-uses-all-vertices", nil, false, "", "unresolved anchor: Intersection")
	}
	// (2b) the stable method declines on equality too (after round-7 seed C16-r7m1, `distSum <= errorSum` turned
	// into `<`): the two sides are equal only when both are 0, i.e. every intermediate has underflowed; the
	// interpolation that follows then divides 0 by 0, and the NaN passes the final error test.
	if fn := c.Fn("s2", "", "intersectionStableSorted"); fn != nil {
		found, incl := false, false
		core.AllInstrs(fn, func(in ssa.Instruction) {
			bo, isBo := in.(*ssa.BinOp)
			if !isBo {
				return
			}
			isAbs := func(v ssa.Value) bool {
				call, ok := v.(*ssa.Call)
				return ok && core.StaticCallee(call) != nil && core.StaticCallee(call).Name() == "Abs"
			}
			isSum := func(v ssa.Value) bool {
				b, ok := v.(*ssa.BinOp)
				return ok && b.Op == token.ADD
			}
			if found || (bo.Op != token.LEQ && bo.Op != token.LSS && bo.Op != token.GEQ && bo.Op != token.GTR) {
				return
			}
			switch {
			case isAbs(bo.X) && isSum(bo.Y):
				found = true
				incl = bo.Op == token.LEQ
			case isSum(bo.X) && isAbs(bo.Y):
				found = true
				incl = bo.Op == token.GEQ
			}
		})
		if !found {
			add("intersectionStableSorted:declines-on-equality", fn, false, "", "unresolved anchor: the comparison of |b0Dist - b1Dist| with the error sum was not found")
		} else {
			add("intersectionStableSorted:declines-on-equality", fn, incl, "the stable method declines when the distance sum does not exceed the error sum, equality included",
				"the stable method declines only when the distance sum is strictly below the error sum: for edges so short that every intermediate underflows both are 0, the method goes on to compute 0/0, and Intersection returns (NaN, NaN, NaN) instead of falling back to the exact method")
		}
	} else {
		add("intersectionStableSorted:declines-on-equality", nil, false, "", "unresolved anchor")
	}
	// (2c) the exact method tests the vector it is about to normalise (after round-7 seed C16-r7m2,
	// `x == (r3.Vector{})` replaced by `xP.IsZero()`): the exact cross product can be non-zero and still underflow to
	// (0,0,0) when converted to float64; what is normalised is the float vector, so that is what must be tested.
	if fn := c.Fn("s2", "", "intersectionExact"); fn != nil {
		ok := false
		core.AllInstrs(fn, func(in ssa.Instruction) {
			bo, isBo := in.(*ssa.BinOp)
			if !isBo || (bo.Op != token.EQL && bo.Op != token.NEQ) || !core.IsNamed(bo.X.Type(), "r3", "Vector") {
				return
			}
			var fromExact func(v ssa.Value) bool
			fromExact = func(v ssa.Value) bool {
				if ld, isLd := v.(*ssa.UnOp); isLd && ld.Op == token.MUL {
					// a local that is reassigned later lives in a slot: look at what is stored there
					if al, isAl := ld.X.(*ssa.Alloc); isAl {
						for _, r := range *al.Referrers() {
							if st, isSt := r.(*ssa.Store); isSt && st.Addr == ssa.Value(al) && fromExact(st.Val) {
								return true
							}
						}
					}
					return false
				}
				call, isC := v.(*ssa.Call)
				return isC && core.StaticCallee(call) != nil && core.StaticCallee(call).Name() == "Vector" && core.StaticCallee(call).Signature.Recv() != nil
			}
			if fromExact(bo.X) || fromExact(bo.Y) {
				ok = true
			}
		})
		add("intersectionExact:zero-test-on-float-vector", fn, ok, "the collinear case is recognised on the float64 vector that would be normalised",
			"the collinear case is no longer recognised by comparing the float64 cross product with the zero vector: an exact cross product that is non-zero but underflows in the conversion is normalised as (0,0,0), and Intersection returns the zero vector instead of an endpoint")
	} else {
		add("intersectionExact:zero-test-on-float-vector", nil, false, "", "unresolved anchor")
	}
	obs = append(obs, interpolationErrorCross(c), collinearCandidates(c))
	// (3) projection: tie between the two squared distances is broken by comparing the points
	if fn := c.Fn("s2", "", "projection"); fn != nil {
		usesCmp, cmpDist := false, false
		core.AllInstrs(fn, func(in ssa.Instruction) {
			switch x := in.(type) {
			case *ssa.Call:
				if f := core.StaticCallee(x); f != nil && f.Name() == "Cmp" {
					usesCmp = true
				}
			case *ssa.BinOp:
				if x.Op == token.LSS || x.Op == token.LEQ || x.Op == token.EQL {
					cx, okx := x.X.(*ssa.Call)
					cy, oky := x.Y.(*ssa.Call)
					if okx && oky && core.StaticCallee(cx) != nil && core.StaticCallee(cy) != nil && core.StaticCallee(cx).Name() == "Norm2" && core.StaticCallee(cy).Name() == "Norm2" {
						cmpDist = true
					}
				}
			}
		})
		if !cmpDist {
			add("projection:tie-break", fn, false, "", "unresolved anchor: the comparison of the two squared distances was not found")
		} else {
			add("projection:tie-break", fn, usesCmp, "equal distances fall back to the lexicographic comparison of the two vectors",
				"the endpoint to interpolate from is chosen by comparing two computed distances only: when they are exactly equal the choice depends on which endpoint was passed first, so reversing the edge changes the last bits of the intersection point")
		}
	} else {
		add("projection:tie-break", nil, false, "", "unresolved anchor: projection")
	}
	return obs
}

func runErrModel(c *core.Ctx) []core.Obligation {
	var obs []core.Obligation
	fn := c.Fn("s2", "", "minUpdateDistanceMaxError")
	if fn == nil {
		return append(obs, core.Ob("R-ERRMODEL", "minUpdateDistanceMaxError", "-", "", core.Violated, "unresolved anchor"))
	}
	interior, point, angle, usesMax := false, false, false, false
	core.AllInstrs(fn, func(in ssa.Instruction) {
		call, ok := in.(*ssa.Call)
		if !ok || core.StaticCallee(call) == nil {
			return
		}
		switch core.StaticCallee(call).Name() {
		case "minUpdateInteriorDistanceMaxError":
			interior = true
		case "MaxPointError":
			point = true
		case "MaxAngleError":
			angle = true
		case "Max":
			usesMax = true
		}
	})
	if interior && point && usesMax && !angle {
		obs = append(obs, core.Ob("R-ERRMODEL", "minUpdateDistanceMaxError", c.Pos(fn.Pos()), core.FuncName(fn), core.Discharged, "max(interior-case error, MaxPointError of the distance)"))
	} else {
		obs = append(obs, core.Ob("R-ERRMODEL", "minUpdateDistanceMaxError", c.Pos(fn.Pos()), core.FuncName(fn), core.Violated,
			"the documented error of UpdateMinDistance is no longer max(interior-case error, MaxPointError): in the vertex case the result is a distance between two points, whose error is MaxPointError; with a smaller term the bound is exceeded for distances beyond 90 degrees and the conservatively expanded limits of IsDistanceLess / EdgeQuery miss true results"))
	}
	// the interior-case error formula takes a = sqrt(b * (2 - b)) (after round-6 seed C17-r6m2, the Sqrt dropped):
	// a and b are the components of the chord perpendicular and parallel to the edge's plane; b <= 1, so b*(2-b) <= 1
	// and leaving out the square root makes a, and with it the whole allowance, smaller than the documented bound.
	if f := c.Fn("s2", "", "minUpdateInteriorDistanceMaxError"); f != nil {
		okSqrt := false
		core.AllInstrs(f, func(in ssa.Instruction) {
			call, ok := in.(*ssa.Call)
			if !ok || core.StaticCallee(call) == nil || core.StaticCallee(call).Name() != "Sqrt" || len(call.Call.Args) != 1 {
				return
			}
			if m, ok := call.Call.Args[0].(*ssa.BinOp); ok && m.Op == token.MUL {
				for _, pair := range [][2]ssa.Value{{m.X, m.Y}, {m.Y, m.X}} {
					if d, ok := pair[1].(*ssa.BinOp); ok && d.Op == token.SUB && d.Y == pair[0] {
						if k, ok := d.X.(*ssa.Const); ok && k.Value != nil {
							if v, _ := constant.Float64Val(constant.ToFloat(k.Value)); v == 2 {
								// the square root must actually be used
								if refs := call.Referrers(); refs != nil && len(*refs) > 0 {
									okSqrt = true
								}
							}
						}
					}
				}
			}
		})
		if okSqrt {
			obs = append(obs, core.Ob("R-ERRMODEL", "minUpdateInteriorDistanceMaxError:a-is-sqrt", c.Pos(f.Pos()), core.FuncName(f), core.Discharged, "a = sqrt(b * (2 - b)) as documented"))
		} else {
			obs = append(obs, core.Ob("R-ERRMODEL", "minUpdateInteriorDistanceMaxError:a-is-sqrt", c.Pos(f.Pos()), core.FuncName(f), core.Violated,
				"the perpendicular component a is no longer sqrt(b * (2 - b)): b <= 1, so without the square root a is smaller, the error allowance of the interior case shrinks below the documented bound, and the conservative distance tests built on it reject targets that are within the limit"))
		}
	} else {
		obs = append(obs, core.Ob("R-ERRMODEL", "minUpdateInteriorDistanceMaxError:a-is-sqrt", "-", "", core.Violated, "unresolved anchor"))
	}
	// the early exit of interiorDist is strict (after round-6 seed C17-r6m1, `>` turned into `>=`): the comment in the
	// source explains that the real lower bound is xDotC2 / c2, which may round differently from the multiplicative
	// form tested here, so the exit may only be taken when the product form is strictly larger.
	if f := c.Fn("s2", "", "interiorDist"); f != nil {
		found, strict := false, false
		core.AllInstrs(f, func(in ssa.Instruction) {
			bo, ok := in.(*ssa.BinOp)
			if !ok {
				return
			}
			isSq := func(v ssa.Value) bool { // xDotC * xDotC
				m, ok := v.(*ssa.BinOp)
				return ok && m.Op == token.MUL && m.X == m.Y
			}
			isProd := func(v ssa.Value) bool { // c2 * float64(minDist)
				m, ok := v.(*ssa.BinOp)
				if !ok || m.Op != token.MUL || m.X == m.Y {
					return false
				}
				for _, o := range []ssa.Value{m.X, m.Y} {
					if isChordAngle(core.StripConv(o).Type()) {
						return true
					}
					if cv, ok := o.(*ssa.ChangeType); ok && isChordAngle(cv.X.Type()) {
						return true
					}
					if cv, ok := o.(*ssa.Convert); ok && isChordAngle(cv.X.Type()) {
						return true
					}
				}
				return false
			}
			switch {
			case isSq(bo.X) && isProd(bo.Y):
				found = true
				strict = bo.Op == token.GTR
			case isProd(bo.X) && isSq(bo.Y):
				found = true
				strict = bo.Op == token.LSS
			}
		})
		switch {
		case !found:
			obs = append(obs, core.Ob("R-ERRMODEL", "interiorDist:early-exit-strict", c.Pos(f.Pos()), core.FuncName(f), core.Violated, "unresolved anchor: the comparison xDotC^2 > c2 * minDist was not found"))
		case strict:
			obs = append(obs, core.Ob("R-ERRMODEL", "interiorDist:early-exit-strict", c.Pos(f.Pos()), core.FuncName(f), core.Discharged, "the 'great circle is too far away' exit is taken only when xDotC^2 is strictly larger than c2 * minDist"))
		default:
			obs = append(obs, core.Ob("R-ERRMODEL", "interiorDist:early-exit-strict", c.Pos(f.Pos()), core.FuncName(f), core.Violated,
				"the early exit is taken on equality as well: the true bound xDotC^2 / c2 can round to a value below minDist when the product form compares equal, so an edge whose interior is closer than the current minimum by one rounding step is skipped and the reported distance is too large"))
		}
	} else {
		obs = append(obs, core.Ob("R-ERRMODEL", "interiorDist:early-exit-strict", "-", "", core.Violated, "unresolved anchor"))
	}
	// points handed out by the distance primitives are unit length (after round-8 seed C17-r8m2, the final Normalize
	// of PointOnRay dropped as "redundant"): cos^2 + sin^2 = 1 holds to an ulp for one call, but the outputs of these
	// functions are fed back as inputs (marching along a geodesic), the length drifts systematically, and every
	// distance measured to or from such a point leaves its error bound. Every exported function of
	// edge_distances.go that returns a Point built from vector arithmetic normalises it.
	{
		n, bad := 0, ""
		for _, f := range c.GeoFuncs() {
			if f.Parent() != nil || f.Object() == nil || !f.Object().Exported() || f.Signature.Results().Len() == 0 {
				continue
			}
			if pos := c.Pos(f.Pos()); !strings.HasPrefix(pos, "s2/edge_distances.go") {
				continue
			}
			if !core.IsNamed(f.Signature.Results().At(0).Type(), "s2", "Point") {
				continue
			}
			var raw func(v ssa.Value, d int) bool // v is a Point assembled from un-normalised arithmetic
			raw = func(v ssa.Value, d int) bool {
				if d > 6 {
					return false
				}
				switch x := v.(type) {
				case *ssa.Phi:
					for _, e := range x.Edges {
						if raw(e, d+1) {
							return true
						}
					}
				case *ssa.UnOp:
					if x.Op != token.MUL {
						return false
					}
					al, ok := x.X.(*ssa.Alloc)
					if !ok {
						return false
					}
					for _, r := range *al.Referrers() {
						fa, ok := r.(*ssa.FieldAddr)
						if !ok {
							continue
						}
						for _, r2 := range *fa.Referrers() {
							st, ok := r2.(*ssa.Store)
							if !ok || st.Addr != ssa.Value(fa) {
								continue
							}
							if call, ok := st.Val.(*ssa.Call); ok && core.StaticCallee(call) != nil {
								switch core.StaticCallee(call).Name() {
								case "Add", "Sub", "Mul", "Cross":
									return true
								}
							}
						}
					}
				}
				return false
			}
			for _, b := range f.Blocks {
				ret, ok := b.Instrs[len(b.Instrs)-1].(*ssa.Return)
				if !ok || len(ret.Results) == 0 {
					continue
				}
				n++
				if raw(ret.Results[0], 0) && bad == "" {
					bad = core.FuncName(f) + " at " + c.Pos(ret.Pos())
				}
			}
		}
		switch {
		case n < 6:
			obs = append(obs, core.Ob("R-ERRMODEL", "edge_distances:returned-points-normalised", "-", "", core.Violated, fmt.Sprintf("unresolved anchor: %d returns of a Point in exported functions of edge_distances.go, 6 expected", n)))
		case bad != "":
			obs = append(obs, core.Ob("R-ERRMODEL", "edge_distances:returned-points-normalised", "-", "", core.Violated,
				bad+" returns a Point assembled from vector arithmetic without Normalize(): the result is unit length only up to rounding, and when such points are fed back into the same functions the length drifts (1e-14 after a thousand steps); distances to and from the drifted points exceed their documented error bounds, and a point constructed on an edge is no longer at distance 0 from it"))
		default:
			obs = append(obs, core.Ob("R-ERRMODEL", "edge_distances:returned-points-normalised", "-", "", core.Discharged, fmt.Sprintf("%d returns examined: parameters, results of other library functions, or normalised vectors", n)))
		}
	}
	// the wedge test that separates the interior case from the vertex case is inclusive at both ends (after round-7
	// seed C17-r7m1, `>= 0` turned into `> 0`): a query point that IS an endpoint must take the vertex case, whose
	// distance to that endpoint is exactly 0; the interior formula gives a few 1e-17 instead.
	if f := c.Fn("s2", "", "interiorDist"); f != nil {
		var ops []string
		core.AllInstrs(f, func(in ssa.Instruction) {
			bo, ok := in.(*ssa.BinOp)
			if !ok {
				return
			}
			isDot := func(v ssa.Value) bool {
				call, ok := v.(*ssa.Call)
				return ok && core.StaticCallee(call) != nil && core.StaticCallee(call).Name() == "Dot"
			}
			isZero := func(v ssa.Value) bool {
				k, ok := v.(*ssa.Const)
				if !ok || k.Value == nil {
					return false
				}
				f, _ := constant.Float64Val(constant.ToFloat(k.Value))
				return f == 0
			}
			switch {
			case isDot(bo.X) && isZero(bo.Y):
				ops = append(ops, bo.Op.String())
			case isDot(bo.Y) && isZero(bo.X):
				ops = append(ops, map[string]string{"<": ">", ">": "<", "<=": ">=", ">=": "<="}[bo.Op.String()])
			}
		})
		sort.Strings(ops)
		got := strings.Join(ops, " ")
		if got == "<= >=" {
			obs = append(obs, core.Ob("R-ERRMODEL", "interiorDist:endpoint-tests-inclusive", c.Pos(f.Pos()), core.FuncName(f), core.Discharged, "the two wedge tests against 0 are >= and <=: a point on an endpoint's boundary plane takes the vertex case"))
		} else {
			obs = append(obs, core.Ob("R-ERRMODEL", "interiorDist:endpoint-tests-inclusive", c.Pos(f.Pos()), core.FuncName(f), core.Violated,
				"the wedge tests that hand a point to the vertex case compare with 0 as {"+got+"}, expected {<= >=}: with a strict test a query point that coincides with an endpoint is treated as lying over the edge's interior, and its distance comes from the interior formula (a few 1e-17 rad) instead of the exact 0 of the vertex case"))
		}
	}
	obs = append(obs, chordFromLengthClamped(c)...)
	obs = append(obs, projectResidualGuarded(c))
	return obs
}
