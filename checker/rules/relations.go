package rules

import (
	"fmt"
	"go/token"
	"go/types"
	"strings"

	"golang.org/x/tools/go/ssa"

	"verif/checker/core"
)

func init() {
	core.Register(&core.Rule{
		Name: "R-CONJ",
		Clause: "C07 'A contains B only if no point of B lies outside A': the early exits of the two-index walk follow the loopRelation contract - a cell centre counts as a crossing only if it matches BOTH " +
			"A's crossing target (on A's clipped shape) and B's crossing target (on B's clipped shape); the three relations return the target pairs their contract states; " +
			"the two loopCrossers are built with swapped operands and opposite 'swapped' flags, walk the iterators in the matching order, and pass A's wedge first to wedgesCross.",
		Min: 10,
		Run: runConj,
	})
	core.Register(&core.Rule{
		Name: "R-BOUNDGUARD",
		Clause: "C07/C10 'bounding-rectangle preconditions must never reject a true relation': containment is only ever rejected through the bound grown for sub-regions " +
			"(X.subregionBound.Contains(Y.bound)), never through the plain bound, and the six relation entry points keep their rejection guard.",
		Min: 8,
		Run: runBoundGuard,
	})
	core.Register(&core.Rule{
		Name: "R-PAIR",
		Clause: "C10/C07 'the bound grown for sub-regions contains the bound of any loop the region contains': every write of Loop.bound / Polygon.bound is followed on every non-error path by a write of " +
			"subregionBound derived from it (ExpandForSubregions(bound), or the same full/empty rectangle).",
		Min: 8,
		Run: runPair,
	})
}

// rootParam traces a value back to the function parameter it is derived from (through loads, field and
// index selections, and the first argument of accessor calls). Returns -1 if none.
func rootParam(v ssa.Value, depth int) int {
	if depth > 12 || v == nil {
		return -1
	}
	switch x := v.(type) {
	case *ssa.Parameter:
		for i, p := range x.Parent().Params {
			if p == x {
				return i
			}
		}
	case *ssa.UnOp:
		if a, ok := x.X.(*ssa.Alloc); ok {
			// spilled local/parameter: look at what is stored
			for _, ref := range *a.Referrers() {
				if st, ok := ref.(*ssa.Store); ok && st.Addr == a {
					return rootParam(st.Val, depth+1)
				}
			}
			return -1
		}
		return rootParam(x.X, depth+1)
	case *ssa.FieldAddr:
		return rootParam(x.X, depth+1)
	case *ssa.Field:
		return rootParam(x.X, depth+1)
	case *ssa.IndexAddr:
		return rootParam(x.X, depth+1)
	case *ssa.Index:
		return rootParam(x.X, depth+1)
	case *ssa.Call:
		if len(x.Call.Args) > 0 {
			return rootParam(x.Call.Args[0], depth+1)
		}
	case *ssa.Phi:
		r := -2
		for _, e := range x.Edges {
			if _, again := e.(*ssa.Phi); again {
				continue
			}
			k := rootParam(e, depth+1)
			if r == -2 {
				r = k
			} else if r != k {
				return -1
			}
		}
		if r == -2 {
			return -1
		}
		return r
	}
	return -1
}

// matchCall describes one call containsCenterMatches(clipped, target).
type matchCall struct {
	call     *ssa.Call
	target   string // "a" or "b" (which crossing target field), "" unknown
	shapeOf  int    // parameter index the clipped shape derives from
	trueEdge []core.Edge
}

func runConj(c *core.Ctx) []core.Obligation {
	var obs []core.Obligation
	ccm := c.Fn("s2", "", "containsCenterMatches")
	if ccm == nil {
		return append(obs, core.Ob("R-CONJ", "anchor:containsCenterMatches", "-", "", core.Violated, "unresolved anchor"))
	}
	// (0) containsCenterMatches itself: (!cc && target==DontCross) || (cc && target==Cross)
	{
		ok := true
		// abstractly evaluate over the 2 x 3 inputs by folding the conditions in SSA
		vals := map[string]int64{}
		for _, n := range []string{"crossingTargetDontCare", "crossingTargetDontCross", "crossingTargetCross"} {
			k, _ := c.Pkgs["s2"].Types.Scope().Lookup(n).(*types.Const)
			if k == nil {
				ok = false
				continue
			}
			v, _ := constInt64(k)
			vals[n] = v
		}
		why := ""
		if ok {
			for _, cc := range []bool{false, true} {
				for name, tv := range vals {
					got, decided := foldBoolFunc(ccm, func(v ssa.Value) (int64, bool) {
						// parameter 1 = target; load of a.containsCenter = cc
						if p, isP := v.(*ssa.Parameter); isP && p == ccm.Params[1] {
							return tv, true
						}
						if fr, isF := core.AsFieldLoad(v); isF && fr.Name == "containsCenter" {
							if cc {
								return 1, true
							}
							return 0, true
						}
						return 0, false
					})
					want := (!cc && name == "crossingTargetDontCross") || (cc && name == "crossingTargetCross")
					if !decided || got != want {
						ok = false
						why = fmt.Sprintf("for containsCenter=%v target=%s the function yields %v (decided=%v), the contract says %v", cc, name, got, decided, want)
					}
				}
			}
		}
		if ok {
			obs = append(obs, core.Ob("R-CONJ", "containsCenterMatches:table", c.Pos(ccm.Pos()), core.FuncName(ccm), core.Discharged, "all 6 (containsCenter, target) combinations folded: matches iff (outside & DontCross) or (inside & Cross)"))
		} else {
			obs = append(obs, core.Ob("R-CONJ", "containsCenterMatches:table", c.Pos(ccm.Pos()), core.FuncName(ccm), core.Violated, why))
		}
	}
	// (1) conjunction discipline in both hasCrossingRelation functions
	sites := []struct {
		fn     *ssa.Function
		aParam int // parameter index that stands for loop A (iterator or loop)
		bParam int
	}{
		{c.Fn("s2", "loopCrosser", "hasCrossingRelation"), 1, 2},
		{c.Fn("s2", "", "hasCrossingRelation"), 0, 1},
	}
	for _, s := range sites {
		if s.fn == nil {
			obs = append(obs, core.Ob("R-CONJ", "anchor:hasCrossingRelation", "-", "", core.Violated, "unresolved anchor"))
			continue
		}
		fn := s.fn
		var calls []matchCall
		core.AllInstrs(fn, func(in ssa.Instruction) {
			call, ok := in.(*ssa.Call)
			if !ok || core.StaticCallee(call) != ccm {
				return
			}
			mc := matchCall{call: call, shapeOf: rootParam(call.Call.Args[0], 0)}
			if fr, ok := core.AsFieldLoad(call.Call.Args[1]); ok {
				switch fr.Name {
				case "aCrossingTarget":
					mc.target = "a"
				case "bCrossingTarget":
					mc.target = "b"
				}
			}
			// edges on which the call returned true
			for _, b := range fn.Blocks {
				iff, isIf := b.Instrs[len(b.Instrs)-1].(*ssa.If)
				if !isIf {
					continue
				}
				cond := iff.Cond
				idx := 0
				for {
					if u, ok := cond.(*ssa.UnOp); ok && u.Op == token.NOT {
						cond = u.X
						idx = 1 - idx
						continue
					}
					break
				}
				if cond == ssa.Value(call) {
					mc.trueEdge = append(mc.trueEdge, core.Edge{From: b, Idx: idx})
				}
			}
			calls = append(calls, mc)
		})
		name := core.FuncName(fn)
		if len(calls) < 2 {
			obs = append(obs, core.Ob("R-CONJ", name+":calls", c.Pos(fn.Pos()), name, core.Violated, "fewer than two containsCenterMatches calls: the cell-centre early exit lost a conjunct"))
			continue
		}
		// pairing: target a with A's shape, b with B's shape
		for i, mc := range calls {
			construct := fmt.Sprintf("%s:pairing#%d", name, i+1)
			wantParam := s.aParam
			if mc.target == "b" {
				wantParam = s.bParam
			}
			switch {
			case mc.target == "":
				obs = append(obs, core.Ob("R-CONJ", construct, c.Pos(mc.call.Pos()), name, core.Violated, "the target argument is not the a/bCrossingTarget of a loopCrosser"))
			case mc.shapeOf != wantParam:
				obs = append(obs, core.Ob("R-CONJ", construct, c.Pos(mc.call.Pos()), name, core.Violated,
					fmt.Sprintf("%sCrossingTarget is tested on the clipped shape of the other loop (derived from parameter %d, expected %d)", mc.target, mc.shapeOf, wantParam)))
			default:
				obs = append(obs, core.Ob("R-CONJ", construct, c.Pos(mc.call.Pos()), name, core.Discharged, mc.target+"CrossingTarget is tested on that loop's own clipped shape"))
			}
		}
		// every `return true` that depends on a b-match also depends on an a-match (both with polarity true)
		nret := 0
		for _, b := range fn.Blocks {
			ret, isRet := b.Instrs[len(b.Instrs)-1].(*ssa.Return)
			if !isRet || len(ret.Results) != 1 {
				continue
			}
			k, isConst := ret.Results[0].(*ssa.Const)
			if !isConst || k.Value == nil || k.Value.String() != "true" {
				continue
			}
			domA, domB, domAfalse := false, false, false
			for _, mc := range calls {
				for _, e := range mc.trueEdge {
					if core.EdgeDominates(e, b) {
						if mc.target == "a" {
							domA = true
						} else if mc.target == "b" {
							domB = true
						}
					}
					if core.EdgeDominates(core.Edge{From: e.From, Idx: 1 - e.Idx}, b) && mc.target == "a" {
						domAfalse = true
					}
				}
			}
			if !domB && !domA {
				continue // an edge-crossing return, not a cell-centre exit
			}
			nret++
			construct := fmt.Sprintf("%s:return-true#%d", name, nret)
			switch {
			case domB && domA:
				obs = append(obs, core.Ob("R-CONJ", construct, c.Pos(ret.Pos()), name, core.Discharged, "reached only when the centre matches A's target AND B's target"))
			case domB && domAfalse:
				obs = append(obs, core.Ob("R-CONJ", construct, c.Pos(ret.Pos()), name, core.Violated,
					"this early 'crossing found' exit is reached when B's target matches but A's target does NOT match: the test on A's crossing target is inverted"))
			default:
				obs = append(obs, core.Ob("R-CONJ", construct, c.Pos(ret.Pos()), name, core.Violated,
					"this early 'crossing found' exit depends on only one of the two crossing targets; the loopRelation contract requires both to match"))
			}
		}
		if nret == 0 {
			obs = append(obs, core.Ob("R-CONJ", name+":return-true", c.Pos(fn.Pos()), name, core.Violated, "no cell-centre early exit found (anchor moved?)"))
		}
	}
	// (2) relation tables
	relSpec := []struct{ typ, a, b string }{
		{"containsRelation", "crossingTargetDontCross", "crossingTargetCross"},
		{"intersectsRelation", "crossingTargetCross", "crossingTargetCross"},
		{"compareBoundaryRelation", "crossingTargetDontCare", "crossingTargetDontCare"},
	}
	for _, rs := range relSpec {
		for _, side := range []struct{ m, want string }{{"aCrossingTarget", rs.a}, {"bCrossingTarget", rs.b}} {
			fn := c.Fn("s2", rs.typ, side.m)
			construct := fmt.Sprintf("relation:%s.%s", rs.typ, side.m)
			if fn == nil {
				obs = append(obs, core.Ob("R-CONJ", construct, "-", "", core.Violated, "unresolved anchor"))
				continue
			}
			k, _ := c.Pkgs["s2"].Types.Scope().Lookup(side.want).(*types.Const)
			want, _ := constInt64(k)
			ok := true
			n := 0
			core.AllInstrs(fn, func(in ssa.Instruction) {
				if r, isRet := in.(*ssa.Return); isRet {
					n++
					if v, isK := core.ConstInt(r.Results[0]); !isK || v != want {
						ok = false
					}
				}
			})
			if ok && n > 0 {
				obs = append(obs, core.Ob("R-CONJ", construct, c.Pos(fn.Pos()), core.FuncName(fn), core.Discharged, "returns "+side.want+" as the relation's contract states"))
			} else {
				obs = append(obs, core.Ob("R-CONJ", construct, c.Pos(fn.Pos()), core.FuncName(fn), core.Violated, "does not return "+side.want+": the early-exit condition of this relation no longer means 'same result as an edge crossing'"))
			}
		}
	}
	// (3) crosser construction and roles
	hcr := c.Fn("s2", "", "hasCrossingRelation")
	nlc := c.Fn("s2", "", "newLoopCrosser")
	if hcr != nil && nlc != nil {
		var ctor []*ssa.Call
		core.AllInstrs(hcr, func(in ssa.Instruction) {
			if call, ok := in.(*ssa.Call); ok && core.StaticCallee(call) == nlc {
				ctor = append(ctor, call)
			}
		})
		okRoles := len(ctor) == 2
		why := "expected two newLoopCrosser calls"
		if okRoles {
			seen := map[string]bool{}
			for _, call := range ctor {
				a, b := rootParam(call.Call.Args[0], 0), rootParam(call.Call.Args[1], 0)
				sw, isK := call.Call.Args[3].(*ssa.Const)
				if !isK {
					okRoles, why = false, "swapped flag is not a constant"
					continue
				}
				swapped := sw.Value.String() == "true"
				if (a == 0 && b == 1 && !swapped) || (a == 1 && b == 0 && swapped) {
					seen[fmt.Sprint(swapped)] = true
				} else {
					okRoles, why = false, fmt.Sprintf("newLoopCrosser(param%d, param%d, swapped=%v): the flag must be true exactly when the loops are passed in swapped order", a, b, swapped)
				}
			}
			if okRoles && len(seen) != 2 {
				okRoles, why = false, "both crossers have the same orientation"
			}
		}
		// the crosser built unswapped walks (ai, bi); the swapped one walks (bi, ai)
		if okRoles {
			method := c.Fn("s2", "loopCrosser", "hasCrossingRelation")
			core.AllInstrs(hcr, func(in ssa.Instruction) {
				call, ok := in.(*ssa.Call)
				if !ok || core.StaticCallee(call) != method {
					return
				}
				recvCtor, _ := traceLocal(call.Call.Args[0]).(*ssa.Call)
				if recvCtor == nil {
					okRoles, why = false, "cannot identify which crosser walks"
					return
				}
				sw := recvCtor.Call.Args[3].(*ssa.Const).Value.String() == "true"
				i1, i2 := iterLoopParam(call.Call.Args[1]), iterLoopParam(call.Call.Args[2])
				if (!sw && !(i1 == 0 && i2 == 1)) || (sw && !(i1 == 1 && i2 == 0)) {
					okRoles, why = false, fmt.Sprintf("the crosser with swapped=%v is given the iterators of loops (param%d, param%d)", sw, i1, i2)
				}
			})
		}
		if okRoles {
			obs = append(obs, core.Ob("R-CONJ", "crossers:construction", c.Pos(hcr.Pos()), core.FuncName(hcr), core.Discharged,
				"ab = (a, b, swapped=false) walks (ai, bi); ba = (b, a, swapped=true) walks (bi, ai)"))
		} else {
			obs = append(obs, core.Ob("R-CONJ", "crossers:construction", c.Pos(hcr.Pos()), core.FuncName(hcr), core.Violated, why))
		}
	} else {
		obs = append(obs, core.Ob("R-CONJ", "crossers:construction", "-", "", core.Violated, "unresolved anchor"))
	}
	// newLoopCrosser swaps the targets exactly under `swapped`
	if nlc != nil {
		ok := false
		for _, b := range nlc.Blocks {
			iff, isIf := b.Instrs[len(b.Instrs)-1].(*ssa.If)
			if !isIf {
				continue
			}
			if p, isP := iff.Cond.(*ssa.Parameter); isP && p.Name() == "swapped" {
				// the true branch stores a<-b and b<-a
				stores := map[string]string{}
				for _, in := range b.Succs[0].Instrs {
					if st, isSt := in.(*ssa.Store); isSt {
						if dst, ok1 := core.AsFieldAddr(st.Addr); ok1 {
							if src, ok2 := core.AsFieldLoad(st.Val); ok2 {
								stores[dst.Name] = src.Name
							}
						}
					}
				}
				if stores["aCrossingTarget"] == "bCrossingTarget" && stores["bCrossingTarget"] == "aCrossingTarget" {
					ok = true
				}
			}
		}
		if ok {
			obs = append(obs, core.Ob("R-CONJ", "crossers:target-swap", c.Pos(nlc.Pos()), core.FuncName(nlc), core.Discharged, "the two crossing targets are exchanged exactly when swapped is set"))
		} else {
			obs = append(obs, core.Ob("R-CONJ", "crossers:target-swap", c.Pos(nlc.Pos()), core.FuncName(nlc), core.Violated, "the crossing targets are not exchanged under `swapped`"))
		}
	}
	// edgeCrossesCell: wedgesCross gets A's wedge first: under swapped the first three arguments come from l.b
	ecc := c.Fn("s2", "loopCrosser", "edgeCrossesCell")
	if ecc != nil {
		n := 0
		okAll := true
		why := ""
		core.AllInstrs(ecc, func(in ssa.Instruction) {
			ci, ok := in.(ssa.CallInstruction)
			if !ok || !ci.Common().IsInvoke() || ci.Common().Method.Name() != "wedgesCross" {
				return
			}
			n++
			args := ci.Common().Args
			var roles []string
			for _, a := range args {
				roles = append(roles, loopFieldOf(a))
			}
			sig := strings.Join(roles, "")
			// which branch: dominated by swapped true or false edge?
			swappedBranch := -1
			for _, b := range ecc.Blocks {
				iff, isIf := b.Instrs[len(b.Instrs)-1].(*ssa.If)
				if !isIf {
					continue
				}
				if fr, isF := core.AsFieldLoad(iff.Cond); isF && fr.Name == "swapped" {
					if core.EdgeDominates(core.Edge{From: b, Idx: 0}, in.Block()) {
						swappedBranch = 1
					}
					if core.EdgeDominates(core.Edge{From: b, Idx: 1}, in.Block()) {
						swappedBranch = 0
					}
				}
			}
			want := "aaabb"
			if swappedBranch == 1 {
				want = "bbbaa"
			}
			if swappedBranch == -1 || sig != want {
				okAll = false
				why = fmt.Sprintf("wedgesCross called with vertices of loops %q under swapped=%d, expected %q", sig, swappedBranch, want)
			}
		})
		if n == 2 && okAll {
			obs = append(obs, core.Ob("R-CONJ", "crossers:wedge-roles", c.Pos(ecc.Pos()), core.FuncName(ecc), core.Discharged, "wedgesCross always receives the original A's wedge first (l.a's when not swapped, l.b's when swapped)"))
		} else {
			if why == "" {
				why = fmt.Sprintf("%d wedgesCross calls, 2 expected", n)
			}
			obs = append(obs, core.Ob("R-CONJ", "crossers:wedge-roles", c.Pos(ecc.Pos()), core.FuncName(ecc), core.Violated, why))
		}
	}
	return obs
}

// traceLocal follows a value through phi-free local copies to its defining instruction.
func traceLocal(v ssa.Value) ssa.Value {
	for i := 0; i < 6; i++ {
		switch x := v.(type) {
		case *ssa.UnOp:
			if a, ok := x.X.(*ssa.Alloc); ok && x.Op == token.MUL {
				for _, ref := range *a.Referrers() {
					if st, ok := ref.(*ssa.Store); ok && st.Addr == a {
						v = st.Val
					}
				}
				continue
			}
			return v
		default:
			return v
		}
	}
	return v
}

// iterLoopParam: a range iterator created by newRangeIterator(x.index) -> parameter index of x.
func iterLoopParam(v ssa.Value) int {
	v = traceLocal(v)
	if call, ok := v.(*ssa.Call); ok && len(call.Call.Args) > 0 {
		return rootParam(call.Call.Args[0], 0)
	}
	return rootParam(v, 0)
}

// loopFieldOf: "a" / "b" if v is l.a.Vertex(..) / l.b.Vertex(..), else "?".
func loopFieldOf(v ssa.Value) string {
	call, ok := v.(*ssa.Call)
	if !ok || len(call.Call.Args) == 0 {
		return "?"
	}
	if fr, ok := core.AsFieldLoad(call.Call.Args[0]); ok && (fr.Name == "a" || fr.Name == "b") {
		return fr.Name
	}
	return "?"
}

// foldBoolFunc evaluates a small boolean function over an assignment of its inputs by folding
// comparisons and following the decided branches. Returns (value, decided).
func foldBoolFunc(fn *ssa.Function, input func(ssa.Value) (int64, bool)) (bool, bool) {
	var evalInt func(v ssa.Value, depth int) (int64, bool)
	var evalBool func(v ssa.Value, from *ssa.BasicBlock, depth int) (bool, bool)
	evalInt = func(v ssa.Value, depth int) (int64, bool) {
		if depth > 10 {
			return 0, false
		}
		if k, ok := core.ConstInt(v); ok {
			return k, true
		}
		if x, ok := input(v); ok {
			return x, true
		}
		switch x := v.(type) {
		case *ssa.Convert:
			return evalInt(x.X, depth+1)
		case *ssa.ChangeType:
			return evalInt(x.X, depth+1)
		}
		return 0, false
	}
	evalBool = func(v ssa.Value, from *ssa.BasicBlock, depth int) (bool, bool) {
		if depth > 12 {
			return false, false
		}
		if k, ok := v.(*ssa.Const); ok && k.Value != nil {
			return k.Value.String() == "true", true
		}
		if x, ok := input(v); ok {
			return x != 0, true
		}
		switch x := v.(type) {
		case *ssa.UnOp:
			if x.Op == token.NOT {
				b, ok := evalBool(x.X, from, depth+1)
				return !b, ok
			}
		case *ssa.BinOp:
			if x.Op == token.EQL || x.Op == token.NEQ {
				a, ok1 := evalInt(x.X, depth+1)
				b, ok2 := evalInt(x.Y, depth+1)
				if ok1 && ok2 {
					return (a == b) == (x.Op == token.EQL), true
				}
				ab, ok1 := evalBool(x.X, from, depth+1)
				bb, ok2 := evalBool(x.Y, from, depth+1)
				if ok1 && ok2 {
					return (ab == bb) == (x.Op == token.EQL), true
				}
			}
		}
		return false, false
	}
	// walk the CFG
	b := fn.Blocks[0]
	var prev *ssa.BasicBlock
	for steps := 0; steps < 64; steps++ {
		last := b.Instrs[len(b.Instrs)-1]
		switch x := last.(type) {
		case *ssa.If:
			v, ok := evalBool(x.Cond, b, 0)
			if !ok {
				return false, false
			}
			prev = b
			if v {
				b = b.Succs[0]
			} else {
				b = b.Succs[1]
			}
		case *ssa.Jump:
			prev = b
			b = b.Succs[0]
		case *ssa.Return:
			r := x.Results[0]
			if phi, ok := r.(*ssa.Phi); ok && phi.Block() == b && prev != nil {
				for i, p := range b.Preds {
					if p == prev {
						r = phi.Edges[i]
					}
				}
			}
			return evalBool(r, b, 0)
		default:
			return false, false
		}
		// resolve phis lazily: evalBool on a Phi needs the predecessor
		for _, in := range b.Instrs {
			phi, ok := in.(*ssa.Phi)
			if !ok {
				break
			}
			for i, p := range b.Preds {
				if p == prev {
					e := phi.Edges[i]
					old := input
					val, okv := evalBool(e, b, 0)
					if okv {
						input = func(v ssa.Value) (int64, bool) {
							if v == ssa.Value(phi) {
								if val {
									return 1, true
								}
								return 0, true
							}
							return old(v)
						}
					}
				}
			}
		}
	}
	return false, false
}

// ---------------------------------------------------------------------------

func isBoundLoad(v ssa.Value, field string) (ssa.Value, bool) {
	// Rect methods have value receivers: the argument is a load of &X.field
	if fr, ok := core.AsFieldLoad(v); ok && fr.Name == field && fr.Struct != nil && (fr.Struct.Obj().Name() == "Loop" || fr.Struct.Obj().Name() == "Polygon") {
		return fr.Base, true
	}
	// the accessor of the bound field (Polygon.RectBound answers for the zero value too, D47/D52), possibly kept in a
	// local that is assigned once
	if ld, ok := v.(*ssa.UnOp); ok && ld.Op == token.MUL {
		if al, ok := ld.X.(*ssa.Alloc); ok {
			var stored []ssa.Value
			for _, ref := range *al.Referrers() {
				if st, ok := ref.(*ssa.Store); ok && st.Addr == al {
					stored = append(stored, st.Val)
				}
			}
			if len(stored) == 1 {
				v = stored[0]
			}
		}
	}
	if call, ok := v.(*ssa.Call); ok && field == "bound" && len(call.Call.Args) == 1 {
		if f := core.StaticCallee(call); f != nil && f.Name() == "RectBound" && f.Signature.Recv() != nil &&
			(core.IsNamed(f.Signature.Recv().Type(), "s2", "Loop") || core.IsNamed(f.Signature.Recv().Type(), "s2", "Polygon")) {
			return call.Call.Args[0], true
		}
	}
	return nil, false
}

func runBoundGuard(c *core.Ctx) []core.Obligation {
	var obs []core.Obligation
	rectContains := c.Fn("s2", "Rect", "Contains")
	rectIntersects := c.Fn("s2", "Rect", "Intersects")
	if rectContains == nil || rectIntersects == nil {
		return append(obs, core.Ob("R-BOUNDGUARD", "anchor:Rect.Contains", "-", "", core.Violated, "unresolved anchor"))
	}
	// generic: X.bound.Contains(Y.bound) is forbidden
	for _, fn := range c.GeoFuncs() {
		n := 0
		core.AllInstrs(fn, func(in ssa.Instruction) {
			call, ok := in.(*ssa.Call)
			if !ok || core.StaticCallee(call) != rectContains || len(call.Call.Args) != 2 {
				return
			}
			_, argIsBound := isBoundLoad(call.Call.Args[1], "bound")
			if !argIsBound {
				return
			}
			n++
			construct := fmt.Sprintf("contains-guard:%s#%d", core.FuncName(fn), n)
			if _, ok := isBoundLoad(call.Call.Args[0], "subregionBound"); ok {
				obs = append(obs, core.Ob("R-BOUNDGUARD", construct, c.Pos(call.Pos()), core.FuncName(fn), core.Discharged, "containment of another region's bound is tested against subregionBound"))
			} else {
				obs = append(obs, core.Ob("R-BOUNDGUARD", construct, c.Pos(call.Pos()), core.FuncName(fn), core.Violated,
					"containment of another region's bound is tested against the plain bound: bounds are not exact, so a contained loop whose bound is slightly larger is wrongly rejected; use subregionBound"))
			}
		})
	}
	// anchors: the six relation entry points reject through the right test
	type guard struct{ recv, fn, field, method string }
	for _, g := range []guard{
		{"Loop", "Contains", "subregionBound", "Contains"},
		{"Loop", "ContainsNested", "subregionBound", "Contains"},
		{"Loop", "Intersects", "bound", "Intersects"},
		{"Loop", "compareBoundary", "bound", "Intersects"},
		{"Polygon", "Contains", "subregionBound", "Contains"},
		{"Polygon", "Intersects", "bound", "Intersects"},
	} {
		fn := c.Fn("s2", g.recv, g.fn)
		construct := fmt.Sprintf("reject-guard:(*s2.%s).%s", g.recv, g.fn)
		if fn == nil {
			obs = append(obs, core.Ob("R-BOUNDGUARD", construct, "-", "", core.Violated, "unresolved anchor"))
			continue
		}
		callee := rectContains
		if g.method == "Intersects" {
			callee = rectIntersects
		}
		found := false
		core.AllInstrs(fn, func(in ssa.Instruction) {
			call, ok := in.(*ssa.Call)
			if !ok || core.StaticCallee(call) != callee || len(call.Call.Args) != 2 {
				return
			}
			base0, ok0 := isBoundLoad(call.Call.Args[0], g.field)
			base1, ok1 := isBoundLoad(call.Call.Args[1], "bound")
			if !ok0 || !ok1 || rootParam(base0, 0) != 0 || rootParam(base1, 0) != 1 {
				return
			}
			// the negative outcome returns at once
			for _, b := range fn.Blocks {
				iff, isIf := b.Instrs[len(b.Instrs)-1].(*ssa.If)
				if !isIf {
					continue
				}
				cond := iff.Cond
				falseIdx := 1
				if u, ok := cond.(*ssa.UnOp); ok && u.Op == token.NOT {
					cond = u.X
					falseIdx = 0
				}
				if cond == ssa.Value(call) {
					// the negative outcome leads to a `return false`-style exit: directly, or after a further cheap
					// test (Polygon.Contains also checks that the longitude union is not full)
					tgt := b.Succs[falseIdx]
					for hops := 0; hops < 3 && tgt != nil; hops++ {
						last := tgt.Instrs[len(tgt.Instrs)-1]
						if _, isRet := last.(*ssa.Return); isRet {
							found = true
							break
						}
						if _, isIf := last.(*ssa.If); isIf {
							// follow the branch that returns
							var next *ssa.BasicBlock
							for _, s := range tgt.Succs {
								if _, r := s.Instrs[len(s.Instrs)-1].(*ssa.Return); r {
									next = s
								}
							}
							tgt = next
							continue
						}
						break
					}
				}
			}
		})
		if found {
			obs = append(obs, core.Ob("R-BOUNDGUARD", construct, c.Pos(fn.Pos()), core.FuncName(fn), core.Discharged,
				fmt.Sprintf("rejects at once when !receiver.%s.%s(other.bound)", g.field, g.method)))
		} else {
			obs = append(obs, core.Ob("R-BOUNDGUARD", construct, c.Pos(fn.Pos()), core.FuncName(fn), core.Violated,
				fmt.Sprintf("the rejection guard !receiver.%s.%s(other.bound) -> return is missing or uses different operands", g.field, g.method)))
		}
	}
	return obs
}

// ---------------------------------------------------------------------------

func runPair(c *core.Ctx) []core.Obligation {
	var obs []core.Obligation
	expand := c.Fn("s2", "", "ExpandForSubregions")
	if expand == nil {
		return append(obs, core.Ob("R-PAIR", "anchor:ExpandForSubregions", "-", "", core.Violated, "unresolved anchor"))
	}
	for _, T := range []string{"Loop", "Polygon"} {
		for _, fn := range c.GeoFuncs() {
			// writes of T.bound: stores, and calls of pointer-receiver methods on &x.bound (decode)
			type wr struct {
				in   ssa.Instruction
				base ssa.Value
			}
			var boundWrites []wr
			var subWrites []ssa.Instruction
			subOK := map[ssa.Instruction]string{}
			core.AllInstrs(fn, func(in ssa.Instruction) {
				switch x := in.(type) {
				case *ssa.Store:
					if fr, ok := core.AsFieldAddr(x.Addr); ok && fr.Struct != nil && fr.Struct.Obj().Name() == T {
						switch fr.Name {
						case "bound":
							boundWrites = append(boundWrites, wr{in, fr.Base})
						case "subregionBound":
							subWrites = append(subWrites, in)
							subOK[in] = subregionValueOK(x.Val, expand, T)
						}
					}
				case ssa.CallInstruction:
					if len(x.Common().Args) > 0 {
						if fr, ok := core.AsFieldAddr(x.Common().Args[0]); ok && fr.Struct != nil && fr.Struct.Obj().Name() == T && fr.Name == "bound" {
							if f := core.StaticCallee(x); f != nil && f.Name() == "decode" {
								boundWrites = append(boundWrites, wr{in, fr.Base})
							}
						}
					}
				}
			})
			for i, w := range boundWrites {
				construct := fmt.Sprintf("%s:%s.bound#%d", core.FuncName(fn), T, i+1)
				stop := map[*ssa.BasicBlock]bool{}
				sameBlockAfter := false
				badValue := ""
				for _, s := range subWrites {
					if subOK[s] == "" {
						badValue = fmt.Sprintf("the subregionBound written at %s is not derived from the bound", c.Pos(s.Pos()))
						continue
					}
					if s.Block() == w.in.Block() && core.InstrBlockIndex(s) > core.InstrBlockIndex(w.in) {
						sameBlockAfter = true
					} else if s.Block() != w.in.Block() {
						stop[s.Block()] = true
					}
				}
				// another later write of bound also restarts the obligation (e.g. bound = b after a temporary full bound)
				for j, w2 := range boundWrites {
					if j != i && w2.in.Block() != w.in.Block() {
						stop[w2.in.Block()] = true
					}
					if j != i && w2.in.Block() == w.in.Block() && core.InstrBlockIndex(w2.in) > core.InstrBlockIndex(w.in) {
						sameBlockAfter = true
					}
				}
				ok := sameBlockAfter
				why := ""
				if !ok {
					ok = true
					errEdges, errBlocks := errorExits(fn)
					for b := range errBlocks {
						stop[b] = true
					}
					for _, b := range fn.Blocks {
						if _, isRet := b.Instrs[len(b.Instrs)-1].(*ssa.Return); !isRet || stop[b] || b == fn.Recover {
							continue
						}
						if b == w.in.Block() || core.ReachableAvoiding(w.in.Block(), b, errEdges, stop) {
							ok = false
							why = fmt.Sprintf("the return in block %d is reachable after this write of bound without a matching write of subregionBound", b.Index)
						}
					}
				}
				if !ok && badValue != "" {
					why = badValue
				}
				if ok {
					obs = append(obs, core.Ob("R-PAIR", construct, c.Pos(w.in.Pos()), core.FuncName(fn), core.Discharged, "followed on every non-error path by subregionBound = ExpandForSubregions(bound) (or the same full/empty rectangle)"))
				} else {
					obs = append(obs, core.Ob("R-PAIR", construct, c.Pos(w.in.Pos()), core.FuncName(fn), core.Violated,
						why+": Contains()/ContainsNested() reject through subregionBound, so a stale or zero subregionBound wrongly rejects contained loops"))
				}
			}
		}
	}
	return obs
}

// subregionValueOK explains why v is an acceptable value for subregionBound, or "".
func subregionValueOK(v ssa.Value, expand *ssa.Function, T string) string {
	if call, ok := v.(*ssa.Call); ok {
		f := core.StaticCallee(call)
		if f == expand {
			if _, ok := isBoundLoad(call.Call.Args[0], "bound"); ok {
				return "ExpandForSubregions(bound)"
			}
			return ""
		}
		if f != nil && (f.Name() == "FullRect" || f.Name() == "EmptyRect") {
			return f.Name() + "()"
		}
	}
	if _, ok := isBoundLoad(v, "bound"); ok {
		return "copy of bound (full/empty rectangle case)"
	}
	return ""
}
