package rules

import (
	"fmt"
	"go/token"
	"go/types"
	"sort"
	"strings"

	"golang.org/x/tools/go/ssa"

	"verif/checker/core"
)

// fieldKey names a struct field by its declaring named type.
type fieldKey struct {
	typ  string // package-qualified named type
	name string
}

func (k fieldKey) String() string { return k.typ + "." + k.name }

// memLoc is an abstract memory location of the (field-based, object-insensitive) heap model.
type memLoc struct {
	kind string    // "field", "fieldelems", "local", "typeelems"
	key  fieldKey  // for field / fieldelems
	v    ssa.Value // for local (Alloc, Parameter, Global)
	typ  string    // for typeelems: named slice/array type whose elements are tainted
	ok   bool
}

func (m memLoc) String() string {
	switch m.kind {
	case "field":
		return m.key.String()
	case "fieldelems":
		return m.key.String() + "[]"
	case "local":
		return "local " + m.v.Name()
	case "typeelems":
		return m.typ + "[]"
	}
	return "?"
}

// taintState is the result of the decoder-input taint analysis: which integer
// SSA values may be chosen by the bytes given to a Decode method.
//
// The analysis is flow-insensitive, field-based for the heap (a struct field is
// tainted for every object of that type once an unvalidated tainted value is
// stored into it anywhere), and interprocedural over the whole library through
// parameter, result and written-pointee summaries, iterated to a fixed point.
type taintState struct {
	c         *core.Ctx
	vals      map[ssa.Value]string // value -> where the taint comes from
	fields    map[fieldKey]string  // struct field holding a tainted integer
	elems     map[fieldKey]string  // struct field whose slice/array elements hold tainted integers
	typeElems map[string]string    // named slice type whose elements hold tainted integers
	locals    map[ssa.Value]string // Alloc/Parameter/Global whose pointee (or elements) hold tainted integers
	rets      map[*ssa.Function]map[int]string
	funcs     []*ssa.Function
	changed   bool
	// Stores whose address could not be mapped to an abstract location (reported, not hidden).
	untracked map[string]bool
	// sanitized write sites (reported in the evidence).
	sanitizedWrites map[string]bool
}

// sanitizers: methods whose true result establishes that the receiver value is
// within the domain every other method of the type assumes. One line of reason each.
var sanitizerTable = map[string]string{
	"(s2.CellID).IsValid": "face < 6 and a valid lsb: the precondition of every CellID/Cell face-table lookup",
}

func isDecoderRecv(fn *ssa.Function) bool {
	if fn == nil || fn.Signature.Recv() == nil {
		return false
	}
	return core.IsNamed(fn.Signature.Recv().Type(), "s2", "decoder")
}

func intLike(t types.Type) bool {
	switch u := t.Underlying().(type) {
	case *types.Basic:
		return u.Info()&types.IsInteger != 0
	case *types.Struct:
		for i := 0; i < u.NumFields(); i++ {
			if intLike(u.Field(i).Type()) {
				return true
			}
		}
	case *types.Tuple:
		for i := 0; i < u.Len(); i++ {
			if intLike(u.At(i).Type()) {
				return true
			}
		}
	case *types.Array:
		return intLike(u.Elem())
	}
	return false
}

func namedKey(t types.Type) string {
	if p, ok := t.Underlying().(*types.Pointer); ok {
		t = p.Elem()
	}
	if n, ok := t.(*types.Named); ok && n.Obj().Pkg() != nil {
		return n.Obj().Pkg().Name() + "." + n.Obj().Name()
	}
	return ""
}

func fieldKeyOf(fr core.FieldRef) (fieldKey, bool) {
	if fr.Struct == nil || fr.Struct.Obj().Pkg() == nil {
		return fieldKey{}, false
	}
	return fieldKey{fr.Struct.Obj().Pkg().Name() + "." + fr.Struct.Obj().Name(), fr.Name}, true
}

func newTaint(c *core.Ctx) *taintState {
	t := &taintState{c: c, vals: map[ssa.Value]string{}, fields: map[fieldKey]string{}, elems: map[fieldKey]string{},
		typeElems: map[string]string{}, locals: map[ssa.Value]string{},
		rets: map[*ssa.Function]map[int]string{}, untracked: map[string]bool{}, sanitizedWrites: map[string]bool{}}
	t.funcs = c.GeoFuncs()
	for iter := 0; iter < 60; iter++ {
		t.changed = false
		for _, fn := range t.funcs {
			t.visit(fn)
		}
		if !t.changed {
			break
		}
	}
	return t
}

func (t *taintState) mark(v ssa.Value, why string) {
	if v == nil {
		return
	}
	if _, ok := t.vals[v]; ok {
		return
	}
	if !intLike(v.Type()) {
		return
	}
	t.vals[v] = why
	t.changed = true
}

func (t *taintState) is(v ssa.Value) (string, bool) {
	w, ok := t.vals[v]
	return w, ok
}

// locate maps an address-valued SSA expression to abstract locations.
// elem is true once an IndexAddr/Slice has been crossed (the location is an
// element of the container found further down).
func locate(addr ssa.Value) []memLoc {
	return locateSeen(addr, map[ssa.Value]bool{})
}

func locateSeen(addr ssa.Value, seen map[ssa.Value]bool) []memLoc {
	var out []memLoc
	if seen[addr] || len(seen) > 64 {
		return nil
	}
	seen[addr] = true
	elem := false
	v := addr
	for depth := 0; depth < 12; depth++ {
		switch x := v.(type) {
		case *ssa.IndexAddr:
			elem = true
			v = x.X
			continue
		case *ssa.Slice:
			elem = true
			v = x.X
			continue
		case *ssa.UnOp:
			if x.Op != token.MUL {
				return out
			}
			// a load of a pointer / slice header: the container lives where it was loaded from
			if k := namedKey(x.Type()); k != "" && elem {
				if _, isSlice := x.Type().Underlying().(*types.Slice); isSlice {
					out = append(out, memLoc{kind: "typeelems", typ: k, ok: true})
				}
			}
			v = x.X
			continue
		case *ssa.FieldAddr:
			if fr, ok := core.AsFieldAddr(x); ok {
				if k, ok := fieldKeyOf(fr); ok {
					if elem {
						out = append(out, memLoc{kind: "fieldelems", key: k, ok: true})
					} else {
						out = append(out, memLoc{kind: "field", key: k, ok: true})
					}
					return out
				}
			}
			return out
		case *ssa.Alloc, *ssa.Parameter, *ssa.Global, *ssa.FreeVar:
			out = append(out, memLoc{kind: "local", v: x, ok: true})
			if k := namedKey(x.Type()); k != "" {
				pt, _ := x.Type().Underlying().(*types.Pointer)
				if pt != nil {
					if _, isSlice := pt.Elem().Underlying().(*types.Slice); isSlice && elem {
						out = append(out, memLoc{kind: "typeelems", typ: k, ok: true})
					}
				}
			}
			return out
		case *ssa.Phi:
			// merge of addresses: follow every edge one level
			for _, e := range x.Edges {
				out = append(out, locateSeen(e, seen)...)
			}
			return out
		default:
			if k := namedKey(v.Type()); k != "" && elem {
				if _, isSlice := v.Type().Underlying().(*types.Slice); isSlice {
					out = append(out, memLoc{kind: "typeelems", typ: k, ok: true})
				}
			}
			return out
		}
	}
	return out
}

func (t *taintState) locTaint(l memLoc) (string, bool) {
	switch l.kind {
	case "field":
		w, ok := t.fields[l.key]
		return w, ok
	case "fieldelems":
		w, ok := t.elems[l.key]
		return w, ok
	case "local":
		w, ok := t.locals[l.v]
		return w, ok
	case "typeelems":
		w, ok := t.typeElems[l.typ]
		return w, ok
	}
	return "", false
}

func (t *taintState) setLoc(l memLoc, why string) {
	why = why + " -> " + l.String()
	if len(why) > 400 {
		why = why[:400]
	}
	switch l.kind {
	case "field":
		if _, ok := t.fields[l.key]; !ok {
			t.fields[l.key] = why
			t.changed = true
		}
	case "fieldelems":
		if _, ok := t.elems[l.key]; !ok {
			t.elems[l.key] = why
			t.changed = true
		}
	case "local":
		if _, ok := t.locals[l.v]; !ok {
			t.locals[l.v] = why
			t.changed = true
		}
	case "typeelems":
		if _, ok := t.typeElems[l.typ]; !ok {
			t.typeElems[l.typ] = why
			t.changed = true
		}
	}
}

// writeTo records that tainted data is written to *addr by instr.
func (t *taintState) writeTo(instr ssa.Instruction, addr ssa.Value, why string) {
	if t.sanitizedWrite(instr, addr) {
		t.sanitizedWrites[fmt.Sprintf("%s in %s", t.c.Pos(instr.Pos()), core.FuncName(instr.Parent()))] = true
		return
	}
	locs := locate(addr)
	if len(locs) == 0 {
		t.untracked[fmt.Sprintf("%s in %s", t.c.Pos(instr.Pos()), core.FuncName(instr.Parent()))] = true
		return
	}
	for _, l := range locs {
		t.setLoc(l, why)
	}
}

func (t *taintState) visit(fn *ssa.Function) {
	for _, b := range fn.Blocks {
		for _, in := range b.Instrs {
			switch x := in.(type) {
			case *ssa.Call:
				t.visitCall(x)
			case *ssa.Extract:
				if call, ok := x.Tuple.(*ssa.Call); ok {
					if w, ok := t.tupleIndexTaint(call, x.Index); ok {
						t.mark(x, w)
					}
				} else if w, ok := t.is(x.Tuple); ok {
					t.mark(x, w)
				}
			case *ssa.Convert:
				if w, ok := t.is(x.X); ok {
					t.mark(x, w)
				}
			case *ssa.ChangeType:
				if w, ok := t.is(x.X); ok {
					t.mark(x, w)
				}
			case *ssa.BinOp:
				switch x.Op {
				case token.EQL, token.NEQ, token.LSS, token.LEQ, token.GTR, token.GEQ:
				default:
					if w, ok := t.is(x.X); ok {
						t.mark(x, w)
					} else if w, ok := t.is(x.Y); ok {
						t.mark(x, w)
					}
				}
			case *ssa.UnOp:
				if x.Op == token.MUL {
					t.visitLoad(x, x.X)
				} else if w, ok := t.is(x.X); ok {
					t.mark(x, w)
				}
			case *ssa.Phi:
				for _, e := range x.Edges {
					if w, ok := t.is(e); ok {
						t.mark(x, w)
						break
					}
				}
			case *ssa.Field:
				if fr, ok := core.AsFieldLoad(x); ok {
					if k, ok := fieldKeyOf(fr); ok {
						if w, ok := t.fields[k]; ok {
							t.mark(x, w)
						}
					}
				}
			case *ssa.Index:
				// indexing an array value
				if w, ok := t.is(x.X); ok {
					t.mark(x, w)
				}
			case *ssa.Store:
				if w, ok := t.is(x.Val); ok {
					t.writeTo(x, x.Addr, w)
				}
			case *ssa.Return:
				for i, r := range x.Results {
					if w, ok := t.is(r); ok {
						m := t.rets[fn]
						if m == nil {
							m = map[int]string{}
							t.rets[fn] = m
						}
						if _, ok := m[i]; !ok {
							m[i] = w
							t.changed = true
						}
					}
				}
			}
		}
	}
}

func (t *taintState) tupleIndexTaint(call *ssa.Call, idx int) (string, bool) {
	for _, callee := range t.c.Callees(call) {
		if isDecoderRecv(callee) {
			if tup, ok := call.Type().(*types.Tuple); ok && idx < tup.Len() && intLike(tup.At(idx).Type()) {
				return fmt.Sprintf("%s at %s", core.FuncName(callee), t.c.Pos(call.Pos())), true
			}
		}
		if w, ok := t.rets[callee][idx]; ok {
			return w, true
		}
	}
	return "", false
}

func (t *taintState) visitLoad(x *ssa.UnOp, addr ssa.Value) {
	if !intLike(x.Type()) {
		return
	}
	for _, l := range locate(addr) {
		if w, ok := t.locTaint(l); ok {
			if t.sanitizedLoad(x) {
				return
			}
			t.mark(x, w)
			return
		}
	}
}

func (t *taintState) visitCall(x *ssa.Call) {
	common := x.Common()
	if b, ok := common.Value.(*ssa.Builtin); ok {
		switch b.Name() {
		case "min", "max":
			for _, a := range common.Args {
				if w, ok := t.is(a); ok {
					t.mark(x, w)
				}
			}
		case "copy":
			// copy(dst, src): elements of src flow to dst
			if len(common.Args) == 2 {
				for _, l := range locate(common.Args[1]) {
					if w, ok := t.locTaint(l); ok {
						t.writeTo(x, common.Args[0], w)
					}
				}
			}
		}
		return
	}
	for _, callee := range t.c.Callees(x) {
		if isDecoderRecv(callee) {
			if _, isTuple := x.Type().(*types.Tuple); !isTuple && intLike(x.Type()) {
				t.mark(x, fmt.Sprintf("%s at %s", core.FuncName(callee), t.c.Pos(x.Pos())))
			}
			continue
		}
		if !core.IsGeo(callee) || callee.Blocks == nil {
			// Library-external callee. Results of math/bits functions are computed from their
			// argument (and are small); other standard-library functions (encoding/binary,
			// sort, io) return counts and positions within their documented ranges, which
			// are not input-chosen indices.
			if callee.Pkg != nil && callee.Pkg.Pkg.Path() == "math/bits" {
				if _, isTuple := x.Type().(*types.Tuple); !isTuple {
					for _, a := range common.Args {
						if w, ok := t.is(a); ok && intLike(x.Type()) {
							t.mark(x, w)
						}
					}
				}
			}
			continue
		}
		args := common.Args
		params := callee.Params
		if common.IsInvoke() && len(params) > 0 {
			params = params[1:]
		}
		if isPureHelper(callee) {
			// Small arithmetic helpers (min, max, abs, ...) are treated context-sensitively:
			// the result is tainted at this call site iff an argument is.
			if _, isTuple := x.Type().(*types.Tuple); !isTuple {
				for _, a := range args {
					if w, ok := t.is(a); ok {
						t.mark(x, w)
					}
				}
			}
			continue
		}
		for i, a := range args {
			if i >= len(params) {
				break
			}
			if w, ok := t.is(a); ok {
				t.mark(params[i], w)
			}
			// The callee writes tainted data through this pointer parameter: at this
			// call site that is a write to *a.
			if w, ok := t.locals[params[i]]; ok {
				if _, isPtr := params[i].Type().Underlying().(*types.Pointer); isPtr {
					t.writeTo(x, a, w)
				}
			}
			// Conversely, a pointer/slice argument whose pointee is tainted here makes the callee's parameter pointee tainted.
			switch params[i].Type().Underlying().(type) {
			case *types.Pointer, *types.Slice:
				for _, l := range locate(a) {
					if l.kind == "local" || l.kind == "typeelems" || l.kind == "fieldelems" {
						if w, ok := t.locTaint(l); ok {
							if _, have := t.locals[params[i]]; !have {
								t.locals[params[i]] = w
								t.changed = true
							}
						}
					}
				}
			}
		}
		if m := t.rets[callee]; m != nil {
			if _, isTuple := x.Type().(*types.Tuple); !isTuple {
				if w, ok := m[0]; ok {
					t.mark(x, w)
				}
			}
		}
	}
}

// isPureHelper reports whether fn is a small function that only computes on
// its arguments (no loads, stores or calls).
func isPureHelper(fn *ssa.Function) bool {
	n := 0
	for _, b := range fn.Blocks {
		for _, in := range b.Instrs {
			n++
			switch x := in.(type) {
			case *ssa.BinOp, *ssa.Phi, *ssa.If, *ssa.Jump, *ssa.Return, *ssa.Convert, *ssa.ChangeType, *ssa.DebugRef:
			case *ssa.UnOp:
				if x.Op == token.MUL || x.Op == token.ARROW {
					return false
				}
			default:
				return false
			}
		}
	}
	return n <= 24
}

// ---- validation (sanitizers) ----

// sameAddr reports whether two address expressions denote the same location
// assuming no intervening re-assignment of the variables they are built from.
func sameAddr(a, b ssa.Value) bool {
	if a == b {
		return true
	}
	switch x := a.(type) {
	case *ssa.FieldAddr:
		y, ok := b.(*ssa.FieldAddr)
		return ok && x.Field == y.Field && sameAddr(x.X, y.X)
	case *ssa.IndexAddr:
		y, ok := b.(*ssa.IndexAddr)
		return ok && sameAddr(x.X, y.X) && (x.Index == y.Index || sameConst(x.Index, y.Index))
	case *ssa.UnOp:
		y, ok := b.(*ssa.UnOp)
		return ok && x.Op == token.MUL && y.Op == token.MUL && sameAddr(x.X, y.X)
	}
	return false
}

func sameConst(a, b ssa.Value) bool {
	x, ok1 := core.ConstInt(a)
	y, ok2 := core.ConstInt(b)
	return ok1 && ok2 && x == y
}

// sanitizerEdges returns, for address addr in fn, the edges on which a
// sanitizer method called on the value stored at addr returned true.
func (t *taintState) sanitizerEdges(fn *ssa.Function, match func(arg ssa.Value) bool) []core.Edge {
	var out []core.Edge
	for _, b := range fn.Blocks {
		if len(b.Instrs) == 0 {
			continue
		}
		iff, ok := b.Instrs[len(b.Instrs)-1].(*ssa.If)
		if !ok {
			continue
		}
		cond := iff.Cond
		trueIdx := 0
		for {
			if u, ok := cond.(*ssa.UnOp); ok && u.Op == token.NOT {
				cond = u.X
				trueIdx = 1 - trueIdx
				continue
			}
			break
		}
		call, ok := cond.(*ssa.Call)
		if !ok {
			continue
		}
		callee := core.StaticCallee(call)
		if callee == nil {
			continue
		}
		if _, ok := sanitizerTable[core.FuncName(callee)]; !ok {
			continue
		}
		if len(call.Call.Args) == 0 || !match(call.Call.Args[0]) {
			continue
		}
		out = append(out, core.Edge{From: b, Idx: trueIdx})
	}
	return out
}

// errorExitEdges returns the edges taken when the decoder's sticky error is
// set (d.err != nil), and the set of blocks that store a non-nil error into it.
func errorExits(fn *ssa.Function) ([]core.Edge, map[*ssa.BasicBlock]bool) {
	var edges []core.Edge
	blocks := map[*ssa.BasicBlock]bool{}
	isErrField := func(v ssa.Value) bool {
		fr, ok := core.AsFieldAddr(v)
		return ok && fr.Name == "err" && fr.Struct != nil && fr.Struct.Obj().Name() == "decoder"
	}
	for _, b := range fn.Blocks {
		for _, in := range b.Instrs {
			if st, ok := in.(*ssa.Store); ok && isErrField(st.Addr) {
				if c, isConst := st.Val.(*ssa.Const); !isConst || !c.IsNil() {
					blocks[b] = true
				}
			}
		}
		if len(b.Instrs) == 0 {
			continue
		}
		iff, ok := b.Instrs[len(b.Instrs)-1].(*ssa.If)
		if !ok {
			continue
		}
		bo, ok := iff.Cond.(*ssa.BinOp)
		if !ok || (bo.Op != token.NEQ && bo.Op != token.EQL) {
			continue
		}
		var other ssa.Value
		if ld, ok := bo.X.(*ssa.UnOp); ok && ld.Op == token.MUL && isErrField(ld.X) {
			other = bo.Y
		} else if ld, ok := bo.Y.(*ssa.UnOp); ok && ld.Op == token.MUL && isErrField(ld.X) {
			other = bo.X
		}
		if c, ok := other.(*ssa.Const); ok && c.IsNil() {
			if bo.Op == token.NEQ {
				edges = append(edges, core.Edge{From: b, Idx: 0})
			} else {
				edges = append(edges, core.Edge{From: b, Idx: 1})
			}
		}
	}
	return edges, blocks
}

// sanitizedWrite reports whether every path from the write instr (which puts
// tainted data at *addr) to a return of the function either passes through the
// true edge of a sanitizer applied to the value at addr, or leaves through a
// decoder-error exit.
func (t *taintState) sanitizedWrite(instr ssa.Instruction, addr ssa.Value) bool {
	fn := instr.Parent()
	san := t.sanitizerEdges(fn, func(arg ssa.Value) bool {
		// value receiver: arg is a load of the address; pointer receiver: arg is the address
		if ld, ok := arg.(*ssa.UnOp); ok && ld.Op == token.MUL && sameAddr(ld.X, addr) {
			return true
		}
		return sameAddr(arg, addr)
	})
	if len(san) == 0 {
		return false
	}
	errEdges, errBlocks := errorExits(fn)
	avoid := append(san, errEdges...)
	start := instr.Block()
	for _, b := range fn.Blocks {
		if len(b.Instrs) == 0 {
			continue
		}
		if _, isRet := b.Instrs[len(b.Instrs)-1].(*ssa.Return); !isRet {
			continue
		}
		if errBlocks[b] && b != start {
			continue
		}
		if core.ReachableAvoiding(start, b, avoid, errBlocks) {
			return false
		}
	}
	return true
}

// sanitizedLoad reports whether the loaded value is only used where a
// sanitizer on the same address has succeeded (the load is dominated by a
// sanitizer true-edge).
func (t *taintState) sanitizedLoad(ld *ssa.UnOp) bool {
	fn := ld.Parent()
	san := t.sanitizerEdges(fn, func(arg ssa.Value) bool {
		if l2, ok := arg.(*ssa.UnOp); ok && l2.Op == token.MUL && sameAddr(l2.X, ld.X) {
			return true
		}
		return sameAddr(arg, ld.X)
	})
	for _, e := range san {
		if core.EdgeDominates(e, ld.Block()) {
			return true
		}
	}
	return false
}

// summary lists the tainted abstract locations in a stable order (for reporting).
func (t *taintState) summary() []string {
	var out []string
	for k, w := range t.fields {
		out = append(out, k.String()+" <- "+w)
	}
	for k, w := range t.elems {
		out = append(out, k.String()+"[] <- "+w)
	}
	for k, w := range t.typeElems {
		out = append(out, k+"[] <- "+w)
	}
	sort.Strings(out)
	return out
}

func shortWhy(w string) string {
	w = strings.ReplaceAll(w, core.GeoPath+"/", "")
	return w
}
